// C05 - Riemann fluxes respect the symmetries of the Euler equations, vacuum
// included.  rapidcheck harness; oracles are metamorphic relations between two
// calls of the real solvers, an analytic flux, an independent long-double
// vacuum / exact solution (riemann_ref.hpp) and the textbook HLLC formula.
#include "ExactRiemannSolver.hpp"
#include "HLLCRiemannSolver.hpp"
#include "riemann_ref.hpp"
#include "verif_rc.hpp"

using vr::VCase;
using vr::VProp;
using vr::VResult;
using vr::fmt;
typedef CoordinateVector<> Vec;

namespace {

struct Flux {
  double m;
  Vec p;
  double E;
};

struct In {
  double g, rhoL, PL, rhoR, PR;
  Vec uL, uR, n, vf;
};

In unpack(const VCase &c) {
  In s;
  s.g = c.d("gamma");
  s.rhoL = c.d("rhoL");
  s.PL = c.d("PL");
  s.rhoR = c.d("rhoR");
  s.PR = c.d("PR");
  s.uL = Vec(c.d("uL", 0), c.d("uL", 1), c.d("uL", 2));
  s.uR = Vec(c.d("uR", 0), c.d("uR", 1), c.d("uR", 2));
  s.n = Vec(c.d("n", 0), c.d("n", 1), c.d("n", 2));
  s.vf = Vec(c.d("vface", 0), c.d("vface", 1), c.d("vface", 2));
  return s;
}

Flux call(const RiemannSolver &S, const In &s) {
  Flux f;
  f.m = 0;
  f.E = 0;
  S.solve_for_flux(s.rhoL, s.uL, s.PL, s.rhoR, s.uR, s.PR, f.m, f.p, f.E, s.n,
                   s.vf);
  return f;
}

bool vac(double rho, double P) { return rho == 0. || P == 0.; }

struct Scales {
  double aL, aR, c, V, m, p, E, vLn, vRn;
};
Scales scales(const In &s) {
  Scales k;
  k.aL = vac(s.rhoL, s.PL) ? 0. : std::sqrt(s.g * s.PL / s.rhoL);
  k.aR = vac(s.rhoR, s.PR) ? 0. : std::sqrt(s.g * s.PR / s.rhoR);
  const Vec uLf = s.uL - s.vf, uRf = s.uR - s.vf;
  k.vLn = Vec::dot_product(uLf, s.n);
  k.vRn = Vec::dot_product(uRf, s.n);
  k.c = std::max(uLf.norm(), uRf.norm()) + k.aL + k.aR;
  k.V = k.c + s.vf.norm();
  if (k.V == 0.)
    k.V = 1.;
  const double rs = s.rhoL + s.rhoR;
  k.m = rs * k.V;
  k.p = rs * k.V * k.V + s.PL + s.PR;
  // the energy density contains P/(gamma-1)
  k.E = (rs * k.V * k.V + (s.PL + s.PR) * s.g / (s.g - 1.)) * k.V;
  return k;
}

// relative distance of the configuration to the vacuum-generation threshold
double vacgen_margin(const In &s, const Scales &k) {
  if (vac(s.rhoL, s.PL) || vac(s.rhoR, s.PR))
    return 1.;
  const double lim = 2. / (s.g - 1.) * (k.aL + k.aR);
  const double vd = k.vRn - k.vLn;
  return std::abs(lim - vd) / (lim + std::abs(vd) + 1e-300);
}

bool finite(const Flux &f) {
  return std::isfinite(f.m) && std::isfinite(f.E) && std::isfinite(f.p[0]) &&
         std::isfinite(f.p[1]) && std::isfinite(f.p[2]);
}

std::string cmp(const char *what, const Flux &a, const Flux &b,
                const Scales &k, double tol) {
  if (!finite(a) || !finite(b))
    return fmt("%s: non-finite flux", what);
  if (std::abs(a.m - b.m) > tol * k.m)
    return fmt("%s: mass flux %.17g vs %.17g (scale %g, tol %g)", what, a.m,
               b.m, k.m, tol);
  for (int i = 0; i < 3; ++i)
    if (std::abs(a.p[i] - b.p[i]) > tol * k.p)
      return fmt("%s: momentum flux[%d] %.17g vs %.17g (scale %g, tol %g)",
                 what, i, a.p[i], b.p[i], k.p, tol);
  if (std::abs(a.E - b.E) > tol * k.E)
    return fmt("%s: energy flux %.17g vs %.17g (scale %g, tol %g)", what, a.E,
               b.E, k.E, tol);
  return "";
}

// lab-frame flux of a (face-frame) sampled state, written independently
Flux flux_of_state(const In &s, double rho, const Vec &uface_frame, double P) {
  Flux f;
  const double vn = Vec::dot_product(uface_frame, s.n);
  const double e = 0.5 * rho * uface_frame.norm2() + P / (s.g - 1.);
  f.m = rho * vn;
  f.p = rho * vn * uface_frame + P * s.n;
  f.E = (e + P) * vn;
  // to the lab frame
  const Flux g = f;
  f.p = g.p + g.m * s.vf;
  f.E = g.E + Vec::dot_product(s.vf, g.p) + 0.5 * s.vf.norm2() * g.m;
  return f;
}

// ------------------------------------------------------------------ generator
double gen_gamma() {
  switch (vr::weighted({3, 3, 1, 1, 1, 3})) {
  case 0:
    return 5. / 3.;
  case 1:
    return 1.4;
  case 2:
    return 1.0001;
  case 3:
    return 2.;
  case 4:
    return 1.1;
  default:
    return vr::uni(1.01, 2.);
  }
}

Vec gen_normal() {
  switch (vr::weighted({3, 3, 4})) {
  case 0: {
    Vec n(0.);
    n[vr::irange(0, 2)] = 1.;
    return n;
  }
  case 1: {
    Vec n(0.);
    n[vr::irange(0, 2)] = -1.;
    return n;
  }
  default: {
    for (;;) {
      Vec r(vr::uni(-1, 1), vr::uni(-1, 1), vr::uni(-1, 1));
      const double l = r.norm();
      if (l > 0.1)
        return r / l;
    }
  }
  }
}

// mode: 0 generic, 1 left vacuum, 2 right vacuum, 3 both vacuum,
//       4 straddling the vacuum generation limit, 5 identical states
VCase gen_states(int mode, bool allow_vface = true) {
  VCase c;
  const double g = gen_gamma();
  double rhoL = std::pow(10., vr::uni(-6, 6)), PL = std::pow(10., vr::uni(-6, 6));
  double rhoR = std::pow(10., vr::uni(-6, 6)), PR = std::pow(10., vr::uni(-6, 6));
  if (vr::coin(0.3)) { // comparable states
    rhoR = rhoL * std::pow(10., vr::uni(-1, 1));
    PR = PL * std::pow(10., vr::uni(-1, 1));
  }
  const Vec n = gen_normal();
  auto zero_side = [&](double &rho, double &P) {
    switch (vr::weighted({6, 1, 1})) {
    case 0:
      rho = 0.;
      P = 0.;
      break;
    case 1:
      rho = 0.;
      break;
    default:
      P = 0.;
    }
  };
  if (mode == 1 || mode == 3)
    zero_side(rhoL, PL);
  if (mode == 2 || mode == 3)
    zero_side(rhoR, PR);
  const double aL = vac(rhoL, PL) ? 0. : std::sqrt(g * PL / rhoL);
  const double aR = vac(rhoR, PR) ? 0. : std::sqrt(g * PR / rhoR);
  const double aref = (aL + aR > 0.) ? std::max(aL, aR) : 1.;
  double vLn = (aL > 0. ? aL : aref) * vr::uni(-5, 5);
  double vRn = (aR > 0. ? aR : aref) * vr::uni(-5, 5);
  if (vr::coin(0.15))
    vLn = 0.;
  if (vr::coin(0.15))
    vRn = 0.;
  if (mode == 4) {
    static const std::vector<double> off = {0.,   1e-12, -1e-12, 1e-6, -1e-6,
                                            0.1,  -0.1,  1.,     3.,   -0.5};
    const double lim = 2. / (g - 1.) * (aL + aR);
    const double sep = lim * (1. + vr::pick(off));
    const double mid = aref * vr::uni(-3, 3);
    const double w = vr::uni(0, 1);
    vLn = mid - w * sep;
    vRn = mid + (1. - w) * sep;
  }
  auto tang = [&]() {
    if (vr::coin(0.3))
      return Vec(0.);
    Vec r(vr::uni(-2, 2), vr::uni(-2, 2), vr::uni(-2, 2));
    r *= aref;
    return r - Vec::dot_product(r, n) * n;
  };
  Vec uL = vLn * n + tang();
  Vec uR = vRn * n + tang();
  if (mode == 5) {
    rhoR = rhoL;
    PR = PL;
    uR = uL;
  }
  Vec vf(0.);
  if (allow_vface && vr::coin(0.5)) {
    vf = Vec(vr::uni(-3, 3), vr::uni(-3, 3), vr::uni(-3, 3)) * aref;
    uL += vf;
    uR += vf;
  }
  c.D("gamma", g).D("rhoL", rhoL).D("uL", {uL[0], uL[1], uL[2]}).D("PL", PL);
  c.D("rhoR", rhoR).D("uR", {uR[0], uR[1], uR[2]}).D("PR", PR);
  c.D("n", {n[0], n[1], n[2]}).D("vface", {vf[0], vf[1], vf[2]});
  c.I("mode", mode);
  return c;
}

int gen_mode_all() { return vr::weighted({10, 3, 3, 1, 5, 1}); }

void classify(const In &s, const Scales &k, VResult &r) {
  const bool vL = vac(s.rhoL, s.PL), vR = vac(s.rhoR, s.PR);
  if (vL && vR)
    r.label("both-vacuum");
  else if (vL)
    r.label("left-vacuum");
  else if (vR)
    r.label("right-vacuum");
  else if (2. / (s.g - 1.) * (k.aL + k.aR) <= k.vRn - k.vLn)
    r.label("vacuum-generated");
  else
    r.label("no-vacuum");
  const bool identical = s.rhoL == s.rhoR && s.PL == s.PR &&
                         s.uL[0] == s.uR[0] && s.uL[1] == s.uR[1] &&
                         s.uL[2] == s.uR[2];
  if (identical)
    r.label("identical");
  r.nontrivial = !(vL && vR) && !identical;
}

// known finding matchers ------------------------------------------------------
// F1: vacuum fan next to a *left* vacuum / generated vacuum, sampled inside the
// fan, with the gas moving along the normal
bool in_vacuum_fan(const In &s, const Scales &k) {
  rref::Solution sol = rref::solve(
      s.g, rref::State{s.rhoL, k.vLn, s.PL}, rref::State{s.rhoR, k.vRn, s.PR});
  if (!(sol.vacL || sol.vacR || sol.vacgen))
    return false;
  rref::Region reg;
  rref::sample(sol, 0.L, &reg);
  return reg == rref::R_LFAN || reg == rref::R_RFAN;
}

// ------------------------------------------------------------------ oracles
template <typename SOLVER> VResult o_antisym(const VCase &c, double tol) {
  VResult r;
  In s = unpack(c);
  SOLVER S(s.g);
  const Scales k = scales(s);
  classify(s, k, r);
  In t = s;
  std::swap(t.rhoL, t.rhoR);
  std::swap(t.PL, t.PR);
  std::swap(t.uL, t.uR);
  t.n = Vec(-s.n[0], -s.n[1], -s.n[2]);
  const Flux a = call(S, s);
  Flux b = call(S, t);
  b.m = -b.m;
  b.E = -b.E;
  b.p = Vec(-b.p[0], -b.p[1], -b.p[2]);
  const std::string e = cmp("F(L,R,n) vs -F(R,L,-n)", a, b, k, tol);
  if (!e.empty()) {
    r.fail(e);
    if (in_vacuum_fan(s, k))
      r.known = "vacuum_fan_velocity";
  }
  return r;
}

template <typename SOLVER> VResult o_galilean(const VCase &c, double tol) {
  VResult r;
  In s = unpack(c);
  SOLVER S(s.g);
  const Scales k0 = scales(s);
  classify(s, k0, r);
  const Vec W(c.d("W", 0), c.d("W", 1), c.d("W", 2));
  // a decision that sits on the vacuum-generation threshold can legitimately
  // flip under the rounding of the boosted velocities
  if (vacgen_margin(s, k0) < 1e-13 * (1. + W.norm() / k0.c)) {
    r.label("ambiguous-threshold");
    r.nontrivial = false;
    return r;
  }
  In t = s;
  t.uL = s.uL + W;
  t.uR = s.uR + W;
  t.vf = s.vf + W;
  const Flux a = call(S, s);
  const Flux b = call(S, t);
  Flux e; // expected boosted flux
  e.m = a.m;
  e.p = a.p + a.m * W;
  e.E = a.E + Vec::dot_product(W, a.p) + 0.5 * W.norm2() * a.m;
  Scales k = scales(t);
  const std::string msg = cmp("Galilean boost of the flux", b, e, k, tol);
  if (!msg.empty()) {
    r.fail(msg);
    if (in_vacuum_fan(s, k0))
      r.known = "vacuum_fan_velocity";
  }
  return r;
}

VResult o_galilean_sample(const VCase &c) {
  VResult r;
  const double g = c.d("gamma");
  ExactRiemannSolver S(g);
  const double rhoL = c.d("rhoL"), uL = c.d("vL"), PL = c.d("PL");
  const double rhoR = c.d("rhoR"), uR = c.d("vR"), PR = c.d("PR");
  const double xi = c.d("xi"), W = c.d("W1");
  In s;
  s.g = g;
  s.rhoL = rhoL;
  s.PL = PL;
  s.rhoR = rhoR;
  s.PR = PR;
  s.uL = Vec(uL, 0, 0);
  s.uR = Vec(uR, 0, 0);
  s.n = Vec(1, 0, 0);
  s.vf = Vec(0.);
  const Scales k = scales(s);
  classify(s, k, r);
  double r1, u1, p1, r2, u2, p2;
  S.solve(rhoL, uL, PL, rhoR, uR, PR, r1, u1, p1, xi);
  S.solve(rhoL, uL + W, PL, rhoR, uR + W, PR, r2, u2, p2, xi + W);
  if (!(std::isfinite(r1) && std::isfinite(u1) && std::isfinite(p1) &&
        std::isfinite(r2) && std::isfinite(u2) && std::isfinite(p2) &&
        r1 >= 0. && p1 >= 0. && r2 >= 0. && p2 >= 0.)) {
    r.fail(fmt("sampled state not physical: rho %g u %g P %g | boosted rho %g "
               "u %g P %g",
               r1, u1, p1, r2, u2, p2));
    return r;
  }
  // only compare away from waves (a sample within round-off of a shock or the
  // contact may legitimately fall on either side after the boost)
  rref::Solution sol =
      rref::solve(g, rref::State{rhoL, uL, PL}, rref::State{rhoR, uR, PR});
  const double dist = (double)rref::wave_distance(sol, xi);
  const double cc = k.c + std::abs(W) + std::abs(xi);
  if (dist < 1e-6 * cc || vacgen_margin(s, k) < 1e-12 * (1 + std::abs(W) / k.c)) {
    r.label("near-wave-skipped");
    r.nontrivial = false;
    return r;
  }
  rref::Region reg;
  rref::sample(sol, xi, &reg);
  const double tol = 1e-6;
  const double rs = std::max(rhoL, rhoR) * (g + 1.) / (g - 1.);
  const double ps = std::max(std::max(PL, PR), (double)sol.pstar);
  if (std::abs(r1 - r2) > tol * rs || std::abs(p1 - p2) > tol * ps ||
      // (the velocity of a vacuum sample is meaningless: the solver reports 0)
      (!(r1 == 0. && r2 == 0.) && std::abs(u1 + W - u2) > tol * cc)) {
    r.fail(fmt("sampled state not Galilean invariant: (%.12g,%.12g,%.12g) vs "
               "boosted (%.12g,%.12g-W=%.12g,%.12g)",
               r1, u1, p1, r2, u2, u2 - W, p2));
    if ((sol.vacL || sol.vacR || sol.vacgen) &&
        (reg == rref::R_LFAN || reg == rref::R_RFAN))
      r.known = "vacuum_fan_velocity";
  }
  return r;
}

template <typename SOLVER> VResult o_identical(const VCase &c, double tol) {
  VResult r;
  In s = unpack(c);
  SOLVER S(s.g);
  const Scales k = scales(s);
  r.label("identical");
  const Flux a = call(S, s);
  Flux e = flux_of_state(s, s.rhoL, s.uL - s.vf, s.PL);
  r.nontrivial = k.vLn != 0.;
  const std::string msg = cmp("identical states vs analytic flux", a, e, k, tol);
  if (!msg.empty())
    r.fail(msg);
  return r;
}

// vacuum involved: HLLC == exact == independent closed-form solution
VResult o_vacuum(const VCase &c) {
  VResult r;
  In s = unpack(c);
  const Scales k = scales(s);
  classify(s, k, r);
  ExactRiemannSolver E(s.g);
  HLLCRiemannSolver H(s.g);
  const bool vL = vac(s.rhoL, s.PL), vR = vac(s.rhoR, s.PR);
  const bool gen = !vL && !vR &&
                   2. / (s.g - 1.) * (k.aL + k.aR) <= k.vRn - k.vLn;
  if (!(vL || vR || gen)) {
    r.nontrivial = false;
    r.label("not-vacuum-skipped");
    return r;
  }
  if (!vL && !vR && vacgen_margin(s, k) < 1e-13) {
    // exactly on the threshold the two solvers may legitimately decide
    // differently (2(aL+aR)/(g-1) is rounded differently) - not "vacuum involved"
    r.label("ambiguous-threshold");
    r.nontrivial = false;
    return r;
  }
  const Flux fe = call(E, s);
  const Flux fh = call(H, s);
  std::string msg = cmp("HLLC vs exact with vacuum", fh, fe, k, 1e-11);
  // independent solution: only meaningful for a true vacuum (rho = P = 0)
  const bool trueL = !vL || (s.rhoL == 0. && s.PL == 0.);
  const bool trueR = !vR || (s.rhoR == 0. && s.PR == 0.);
  if (msg.empty() && trueL && trueR) {
    rref::Solution sol =
        rref::solve(s.g, rref::State{s.rhoL, k.vLn, s.PL},
                    rref::State{s.rhoR, k.vRn, s.PR});
    rref::Region reg;
    rref::State st = rref::sample(sol, 0.L, &reg);
    // distance to a wave: the flux is continuous there, but the fan/vacuum
    // front has infinite slope in rho for gamma<3, so stay off it
    const double dist = (double)rref::wave_distance(sol, 0.L);
    if (dist > 1e-9 * k.c) {
      Flux fi;
      if (reg == rref::R_VACUUM) {
        fi.m = 0;
        fi.p = Vec(0.);
        fi.E = 0;
      } else {
        // tangential velocity is that of the side the sample belongs to
        const bool left = (reg == rref::R_LEFT || reg == rref::R_LFAN);
        const Vec uf = (left ? s.uL : s.uR) - s.vf;
        const double vn = left ? k.vLn : k.vRn;
        const Vec u = uf + ((double)st.u - vn) * s.n;
        fi = flux_of_state(s, (double)st.rho, u, (double)st.p);
      }
      msg = cmp("exact solver vs independent vacuum solution", fe, fi, k, 1e-10);
      if (msg.empty())
        msg = cmp("HLLC vs independent vacuum solution", fh, fi, k, 1e-10);
      if (reg == rref::R_LFAN || reg == rref::R_RFAN)
        r.label("sample-in-vacuum-fan");
      if (reg == rref::R_VACUUM)
        r.label("sample-in-vacuum");
    } else
      r.label("on-wave-skipped");
  }
  if (!msg.empty()) {
    r.fail(msg);
    if (in_vacuum_fan(s, k))
      r.known = "vacuum_fan_velocity";
  }
  return r;
}

// textbook HLLC (Toro 2009, 10.38-10.39 with 10.37 for S*) from the
// pressure-based wave speed estimates the solver documents (Toro 10.59-10.61)
VResult o_textbook(const VCase &c) {
  VResult r;
  In s = unpack(c);
  const Scales k = scales(s);
  classify(s, k, r);
  const bool vL = vac(s.rhoL, s.PL), vR = vac(s.rhoR, s.PR);
  if (vL || vR || 2. / (s.g - 1.) * (k.aL + k.aR) <= k.vRn - k.vLn) {
    r.nontrivial = false;
    r.label("vacuum-skipped");
    return r;
  }
  if (vacgen_margin(s, k) < 1e-14) {
    r.nontrivial = false;
    return r;
  }
  typedef long double LD;
  const LD g = s.g;
  const Vec uLf = s.uL - s.vf, uRf = s.uR - s.vf;
  const LD vLn = k.vLn, vRn = k.vRn, aL = k.aL, aR = k.aR;
  const LD ppvrs = 0.5L * ((LD)s.PL + s.PR) -
                   0.125L * (vRn - vLn) * ((LD)s.rhoL + s.rhoR) * (aL + aR);
  const LD ps = fmaxl(0.L, ppvrs);
  const LD qL =
      ps > s.PL ? sqrtl(1.L + (g + 1.L) / (2.L * g) * (ps / s.PL - 1.L)) : 1.L;
  const LD qR =
      ps > s.PR ? sqrtl(1.L + (g + 1.L) / (2.L * g) * (ps / s.PR - 1.L)) : 1.L;
  const LD SL = vLn - aL * qL, SR = vRn + aR * qR;
  const LD Ss = (s.PR - (LD)s.PL + s.rhoL * vLn * (SL - vLn) -
                 s.rhoR * vRn * (SR - vRn)) /
                (s.rhoL * (SL - vLn) - s.rhoR * (SR - vRn));
  if (!(SL <= Ss && Ss <= SR)) {
    r.label("unordered-wave-speeds-skipped");
    r.nontrivial = false;
    return r;
  }
  // close to a switch of branch the two expressions agree anyway (continuity)
  LD F[5];
  auto side = [&](LD rho, const Vec &u, LD vn, LD P, LD SK, bool star) {
    const LD e = P / ((g - 1.L) * rho) + 0.5L * (LD)u.norm2(); // per unit mass
    LD U[5] = {rho, rho * u[0], rho * u[1], rho * u[2], rho * e};
    LD FK[5] = {rho * vn, rho * vn * u[0] + P * s.n[0],
                rho * vn * u[1] + P * s.n[1], rho * vn * u[2] + P * s.n[2],
                (rho * e + P) * vn};
    if (!star) {
      for (int i = 0; i < 5; ++i)
        F[i] = FK[i];
      return;
    }
    const LD fac = rho * (SK - vn) / (SK - Ss);
    LD Us[5];
    Us[0] = fac;
    for (int i = 0; i < 3; ++i)
      Us[1 + i] = fac * (u[i] + (Ss - vn) * s.n[i]);
    Us[4] = fac * (e + (Ss - vn) * (Ss + P / (rho * (SK - vn))));
    for (int i = 0; i < 5; ++i)
      F[i] = FK[i] + SK * (Us[i] - U[i]);
  };
  if (SL >= 0.L) {
    side(s.rhoL, uLf, vLn, s.PL, SL, false);
    r.label("supersonic-right");
  } else if (Ss >= 0.L) {
    side(s.rhoL, uLf, vLn, s.PL, SL, true);
    r.label("left-star");
  } else if (SR > 0.L) {
    side(s.rhoR, uRf, vRn, s.PR, SR, true);
    r.label("right-star");
  } else {
    side(s.rhoR, uRf, vRn, s.PR, SR, false);
    r.label("supersonic-left");
  }
  Flux e;
  e.m = (double)F[0];
  const Vec pf((double)F[1], (double)F[2], (double)F[3]);
  e.p = pf + e.m * s.vf;
  e.E = (double)F[4] + Vec::dot_product(s.vf, pf) + 0.5 * s.vf.norm2() * e.m;
  HLLCRiemannSolver H(s.g);
  const Flux a = call(H, s);
  // round-off: the star factor 1/(S_K - S*) amplifies errors when S* -> S_K
  const LD amp = fmaxl(1.L, fmaxl(fabsl(SL), fabsl(SR)) /
                                fminl(fabsl(SL - Ss) + 1e-300L, fabsl(SR - Ss) + 1e-300L));
  const double tol = 1e-11 * (double)fminl(amp, 1e6L);
  const std::string msg = cmp("HLLC vs textbook HLLC", a, e, k, tol);
  if (!msg.empty()) {
    r.fail(msg);
    if (SL < 0.L && SR > 0.L)
      r.known = "hllc_star_factor";
  }
  return r;
}

// continuity of the flux when a wave crosses the interface: the interface
// speed is placed at (wave speed -/+ delta) along the normal
template <typename SOLVER>
VResult o_continuity(const VCase &c, bool exact_waves, double tol) {
  VResult r;
  In s = unpack(c);
  SOLVER S(s.g);
  s.vf = Vec(0.);
  Scales k = scales(s);
  classify(s, k, r);
  const int which = (int)c.i("wave");
  rref::Solution sol = rref::solve(s.g, rref::State{s.rhoL, k.vLn, s.PL},
                                   rref::State{s.rhoR, k.vRn, s.PR});
  double w = 0.;
  double comp = (s.g + 1.) / (s.g - 1.);
  if (exact_waves) {
    if (sol.vacL && sol.vacR) {
      r.nontrivial = false;
      return r;
    }
    std::vector<double> waves;
    if (sol.vacL || sol.vacR || sol.vacgen) {
      if (!sol.vacL) {
        waves.push_back((double)sol.SHL);
        waves.push_back((double)sol.STL);
      }
      if (!sol.vacR) {
        waves.push_back((double)sol.SHR);
        waves.push_back((double)sol.STR);
      }
      r.label("vacuum-waves");
    } else {
      waves.push_back((double)sol.ustar);
      if (sol.shockL)
        waves.push_back((double)sol.SL);
      else {
        waves.push_back((double)sol.SHL);
        waves.push_back((double)sol.STL);
      }
      if (sol.shockR)
        waves.push_back((double)sol.SR);
      else {
        waves.push_back((double)sol.SHR);
        waves.push_back((double)sol.STR);
      }
    }
    w = waves[which % waves.size()];
  } else {
    // HLLC estimates
    if (vac(s.rhoL, s.PL) || vac(s.rhoR, s.PR) || sol.vacgen ||
        vacgen_margin(s, k) < 1e-3) {
      r.nontrivial = false;
      r.label("vacuum-skipped");
      return r;
    }
    const double ppv = std::max(
        0., 0.5 * (s.PL + s.PR) -
                0.125 * (k.vRn - k.vLn) * (s.rhoL + s.rhoR) * (k.aL + k.aR));
    const double qL =
        ppv > s.PL ? std::sqrt(1. + (s.g + 1.) / (2. * s.g) * (ppv / s.PL - 1.))
                   : 1.;
    const double qR =
        ppv > s.PR ? std::sqrt(1. + (s.g + 1.) / (2. * s.g) * (ppv / s.PR - 1.))
                   : 1.;
    const double SL = k.vLn - k.aL * qL, SR = k.vRn + k.aR * qR;
    const double Ss = (s.PR - s.PL + s.rhoL * k.vLn * (SL - k.vLn) -
                       s.rhoR * k.vRn * (SR - k.vRn)) /
                      (s.rhoL * (SL - k.vLn) - s.rhoR * (SR - k.vRn));
    // only clearly ordered estimates: for S* within round-off of S_L or S_R the
    // star factor 1/(S_K - S*) is ill-conditioned and the ordering ambiguous
    if (!(Ss - SL > 1e-3 * (SR - SL) && SR - Ss > 1e-3 * (SR - SL))) {
      r.nontrivial = false;
      r.label("unordered-or-degenerate-skipped");
      return r;
    }
    comp = std::max(1., std::max((SL - k.vLn) / (SL - Ss), (SR - k.vRn) / (SR - Ss)));
    const double ws[3] = {Ss, SL, SR};
    w = ws[which % 3];
    r.label(which % 3 == 0 ? "contact" : "outer-wave");
  }
  const double delta = 1e-7 * k.c;
  In a = s, b = s;
  a.vf = (w - delta) * s.n;
  b.vf = (w + delta) * s.n;
  const Flux fa = call(S, a), fb = call(S, b);
  Scales kk = scales(a);
  // Lipschitz bound: |dF/ds| <= |U| <= rho_max * (1, V, V^2)
  // (exact: compression <= (g+1)/(g-1); HLLC: star density rho_K (S_K-v_K)/(S_K-S*))
  const double lip = 8. * comp * (2. * delta / kk.V);
  const std::string msg =
      cmp("flux jump across a wave on the interface", fa, fb, kk, lip + tol);
  if (!msg.empty()) {
    r.fail(msg + fmt(" [wave speed %.17g]", w));
    if (!exact_waves)
      r.known = "hllc_star_factor";
    else if (sol.vacL || sol.vacR || sol.vacgen)
      r.known = "vacuum_fan_velocity";
  }
  return r;
}

// mirror-image states approaching at Mach < 1.5: no mass, no energy exchanged
template <typename SOLVER> VResult o_mirror(const VCase &c, double tol) {
  VResult r;
  In s = unpack(c);
  SOLVER S(s.g);
  const Scales k = scales(s);
  r.label("mirror");
  r.nontrivial = k.vLn != 0.;
  const Flux a = call(S, s);
  if (!finite(a)) {
    r.fail("non-finite flux for mirror states");
    return r;
  }
  if (std::abs(a.m) > tol * k.m)
    r.fail(fmt("mirror states exchange mass: mflux %.17g (scale %g)", a.m, k.m));
  if (std::abs(a.E) > tol * k.E)
    r.fail(fmt("mirror states exchange energy: Eflux %.17g (scale %g)", a.E, k.E));
  // tangential momentum flux must vanish too, the normal one is the pressure
  const Vec pt = a.p - Vec::dot_product(a.p, s.n) * s.n;
  if (pt.norm() > tol * k.p)
    r.fail(fmt("mirror states exchange tangential momentum: %g", pt.norm()));
  return r;
}

VCase gen_mirror() {
  VCase c;
  const double g = gen_gamma();
  const double rho = std::pow(10., vr::uni(-6, 6)), P = std::pow(10., vr::uni(-6, 6));
  const Vec n = gen_normal();
  const double a = std::sqrt(g * P / rho);
  static const std::vector<double> special = {0., 1.4999, 1., 1e-8, 0.5};
  const double mach = vr::coin(0.3) ? vr::pick(special) : vr::uni(0., 1.5);
  Vec r(vr::uni(-2, 2), vr::uni(-2, 2), vr::uni(-2, 2));
  r *= a;
  const Vec t = vr::coin(0.3) ? Vec(0.) : r - Vec::dot_product(r, n) * n;
  const Vec uL = mach * a * n + t, uR = (-mach * a) * n + t;
  c.D("gamma", g).D("rhoL", rho).D("uL", {uL[0], uL[1], uL[2]}).D("PL", P);
  c.D("rhoR", rho).D("uR", {uR[0], uR[1], uR[2]}).D("PR", P);
  c.D("n", {n[0], n[1], n[2]}).D("vface", {0., 0., 0.});
  return c;
}

VCase gen_boost() {
  VCase c = gen_states(gen_mode_all());
  const In s = unpack(c);
  const Scales k = scales(s);
  const double mag = k.c * std::pow(10., vr::uni(-2, 1));
  Vec W(vr::uni(-1, 1), vr::uni(-1, 1), vr::uni(-1, 1));
  if (vr::coin(0.3))
    W = s.n * vr::uni(-1, 1);
  W *= mag;
  c.D("W", {W[0], W[1], W[2]});
  return c;
}

VCase gen_sample1d() {
  VCase c0 = gen_states(gen_mode_all(), false);
  const In s = unpack(c0);
  const Scales k = scales(s);
  VCase c;
  c.D("gamma", s.g).D("rhoL", s.rhoL).D("vL", k.vLn).D("PL", s.PL);
  c.D("rhoR", s.rhoR).D("vR", k.vRn).D("PR", s.PR);
  const double lo = std::min(k.vLn - k.aL, k.vRn - k.aR) - k.c;
  const double hi = std::max(k.vLn + k.aL, k.vRn + k.aR) + k.c;
  c.D("xi", vr::coin(0.2) ? 0. : vr::uni(lo, hi));
  c.D("W1", k.c * std::pow(10., vr::uni(-2, 1)) * (vr::coin() ? 1 : -1));
  return c;
}

VCase gen_wave(int mode) {
  VCase c = gen_states(mode, false);
  c.I("wave", vr::irange(0, 5));
  return c;
}

} // namespace

int main(int argc, char **argv) {
  const double TH = 1e-11; // HLLC: algebraic, round-off only
  const double TE = 2e-6;  // exact: iterative, p* to 5e-9 relative
  std::vector<VProp> props;
  const std::string dom =
      "gamma in {5/3,1.4,1.0001,2,1.1,U(1.01,2)}; rho,P = 10^U(-6,6) per side "
      "(30% comparable), exact zeros per mode; normal velocities Mach U(-5,5), "
      "15% exactly 0; tangential velocities; axis/negative/generic normals; "
      "50% moving face; modes: generic, L/R/both vacuum, straddling the "
      "vacuum-generation limit at relative offsets {0,+-1e-12,+-1e-6,+-0.1,..}, "
      "identical. Non-trivial = not both vacuum and not identical states.";
  props.push_back({"antisym_hllc", 60000,
                   [] { return gen_states(gen_mode_all()); },
                   [=](const VCase &c) { return o_antisym<HLLCRiemannSolver>(c, TH); },
                   dom});
  props.push_back({"antisym_exact", 40000,
                   [] { return gen_states(gen_mode_all()); },
                   [=](const VCase &c) { return o_antisym<ExactRiemannSolver>(c, TE); },
                   dom});
  props.push_back({"galilean_hllc", 60000, gen_boost,
                   [=](const VCase &c) { return o_galilean<HLLCRiemannSolver>(c, 1e-10); },
                   dom + " Boost W of magnitude 10^U(-2,1) * c, 30% along the normal."});
  props.push_back({"galilean_exact", 40000, gen_boost,
                   [=](const VCase &c) { return o_galilean<ExactRiemannSolver>(c, TE); },
                   dom + " Boost W of magnitude 10^U(-2,1) * c."});
  props.push_back({"galilean_sample", 40000, gen_sample1d, o_galilean_sample,
                   "1D states as above; sampling speed xi over the whole wave "
                   "pattern (20% exactly 0); solve(L+W,R+W,xi+W) must give the "
                   "same rho,P and u+W; samples within 1e-6 of a wave skipped."});
  props.push_back({"identical_hllc", 20000, [] { return gen_states(5); },
                   [=](const VCase &c) { return o_identical<HLLCRiemannSolver>(c, TH); },
                   "identical L/R states; non-trivial = non-zero normal velocity"});
  props.push_back({"identical_exact", 20000, [] { return gen_states(5); },
                   [=](const VCase &c) { return o_identical<ExactRiemannSolver>(c, TE); },
                   "identical L/R states; non-trivial = non-zero normal velocity"});
  props.push_back({"vacuum_agree", 60000,
                   [] { return gen_states(vr::weighted({0, 3, 3, 1, 4, 0})); },
                   o_vacuum,
                   "vacuum on a side or generated; HLLC == exact == independent "
                   "long-double vacuum solution (Toro 4.6)",
                   {{"sample-in-vacuum-fan", 0.03}}});
  props.push_back({"textbook_hllc", 60000,
                   [] { return gen_states(vr::weighted({10, 0, 0, 0, 2, 1})); },
                   o_textbook,
                   "non-vacuum states; flux == F_K + S_K (U*_K - U_K) from "
                   "Toro's pressure-based wave speed estimates in long double",
                   {{"left-star", 0.05}, {"right-star", 0.05}}});
  props.push_back({"continuity_hllc", 40000,
                   [] { return gen_wave(vr::weighted({10, 0, 0, 0, 1, 0})); },
                   [=](const VCase &c) {
                     return o_continuity<HLLCRiemannSolver>(c, false, 1e-9);
                   },
                   "interface speed placed at S*, S_L or S_R -/+ 1e-7 c: flux "
                   "difference must be O(delta)"});
  props.push_back({"continuity_exact", 30000,
                   [] { return gen_wave(vr::weighted({8, 2, 2, 0, 3, 0})); },
                   [=](const VCase &c) {
                     return o_continuity<ExactRiemannSolver>(c, true, 1e-5);
                   },
                   "interface speed placed at every wave of the reference "
                   "solution (contact, shocks, fan heads/tails, vacuum fronts) "
                   "-/+ 1e-7 c"});
  props.push_back({"mirror_hllc", 20000, gen_mirror,
                   [=](const VCase &c) { return o_mirror<HLLCRiemannSolver>(c, TH); },
                   "mirror-image states approaching at Mach in [0,1.5)"});
  props.push_back({"mirror_exact", 20000, gen_mirror,
                   [=](const VCase &c) { return o_mirror<ExactRiemannSolver>(c, TE); },
                   "mirror-image states approaching at Mach in [0,1.5)"});
  return vr::vmain(argc, argv, "C05", props);
}
