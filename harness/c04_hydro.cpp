// C04 - a hydro step conserves mass, momentum and energy and keeps states
//       physical                                   (in-process layer)
// C10 - hydro results do not depend on the subgrid layout / task order and equal
//       a plain sequential execution of the sweeps (in-process layer)
//
// rapidcheck harness.  The code under test is the real grid
// (DensitySubGridCreator<HydroDensitySubGrid>), the real hydro task graph
// (make_hydro_tasks / set_dependencies / reset_hydro_tasks / execute_task) run by
// a sequential scheduler in a generated admissible order, and Hydro /
// HydroBoundary.  Oracles: invariants (totals, positivity), a flat reference
// execution with its own geometry and face enumeration (c04_hydro_model.hpp),
// metamorphic relations (fixed point, mirror image, limited flux = common factor
// times unlimited flux).
#include "c04_hydro_model.hpp"

using namespace c04;
using vr::VProp;
using vr::VResult;

#include <csignal>
#include <unistd.h>

namespace {

// a memory fault / abort inside the code under test (e.g. an out-of-range cell
// index in a sweep) must be reported as a failing case, not as a dead shard
// (an out-of-range write usually surfaces later, in an unrelated allocation:
// the last executed case is kept and blamed then)
VCase g_last;
bool g_have_case = false, g_inside = false;
bool g_replay = false;
const char *g_replay_file = "";
std::string g_pid = "C04";

void crash_handler(int sig) {
  // (a second fault while reporting, e.g. in a corrupted heap, ends the process)
  for (int s2 : {SIGSEGV, SIGABRT, SIGBUS, SIGFPE})
    signal(s2, SIG_DFL);
  if (!g_have_case)
    raise(sig);
  const std::string msg =
      fmt("crash (signal %d) %s the hydro step of this case%s", sig,
          g_inside ? "inside" : "after",
          g_inside ? "" : " (memory corrupted by it)");
  if (g_replay) {
    printf("REPLAY-FAIL %s: %s\n", g_replay_file, msg.c_str());
    fflush(stdout);
    _exit(1);
  }
  const char *fd = getenv("VERIF_FAILDIR");
  char fn[600];
  snprintf(fn, sizeof fn, "%s/%s-%s-crash-%016llx.case", fd ? fd : ".",
           g_pid.c_str(), g_last.prop.c_str(), (unsigned long long)g_last.hash());
  {
    std::ofstream f(fn);
    f << g_last.to_text() << "# " << msg << "\n";
  }
  printf("FAILCASE %s %s\n", g_last.prop.c_str(), fn);
  fflush(stdout);
  if (const char *out = getenv("VERIF_OUT")) {
    std::ofstream o(out);
    o << "{\"property_id\":" << vr::jstr(g_pid) << ",\"props\":{"
      << vr::jstr(g_last.prop)
      << ":{\"evaluations\":1,\"nontrivial\":0,\"distinct_nontrivial\":0,"
         "\"known_excluded\":0,\"wall_s\":0,\"failed\":true,\"fail_msg\":"
      << vr::jstr(msg) << ",\"fail_file\":" << vr::jstr(fn)
      << ",\"rule\":\"\",\"labels\":{},\"starved\":[],\"samples\":[],"
         "\"distinct_hashes\":[]}}}\n";
  }
  _exit(1);
}

struct CaseGuard {
  CaseGuard(const VCase &c) {
    g_last = c;
    g_have_case = g_inside = true;
  }
  ~CaseGuard() { g_inside = false; }
};

const double CFL = 0.2; // default of TaskBasedRadiationHydrodynamicsSimulation:CFL

// ------------------------------------------------------------------ generator
enum { BCM_PERIODIC = 0, BCM_WALLS, BCM_ANY, BCM_FIXEDPOINT };
enum { FM_ALL = 0, FM_HARSH, FM_UNIFORM, FM_GENTLE };

struct GenOpt {
  int bcmode = BCM_PERIODIC;
  int fieldmode = FM_ALL;
  double fmax = 3.;
  int maxcells = 256;
  int nlayouts = 1;
  int maxsteps = 1;
  bool generic_geometry = true;
  double calm = 0.; // probability of scaling all velocities to Mach <~ 0.3
  double subnormal = 0.; // probability of the class 'subnormal-mass-pockets'
  // false: only pocket densities below 2^-1024 (1/rho = inf, the isinf() guards
  // of Hydro apply) and one step; true: densities up to 1e-305 and 1-3 steps
  // (the state then leaves the guarded range, see tiny_density_steps)
  bool subnormal_extended = false;
};

std::vector<int> divisors(int n) {
  std::vector<int> d;
  for (int k = 1; k <= n; ++k)
    if (n % k == 0)
      d.push_back(k);
  return d;
}

int gen_divisor(int n) {
  const std::vector<int> d = divisors(n);
  if (d.size() == 1)
    return 1;
  // 1 subgrid (possibly its own periodic neighbour), one cell per subgrid and
  // the proper divisors are all frequent
  switch (vr::weighted({3, 3, 4})) {
  case 0:
    return 1;
  case 1:
    return n;
  default:
    return vr::pick(d);
  }
}

double gen_gamma() {
  switch (vr::weighted({4, 3, 1, 1, 1, 3})) {
  case 0:
    return 5. / 3.;
  case 1:
    return 1.4;
  case 2:
    return 2.;
  case 3:
    return 1.1;
  case 4:
    return 1.01;
  default:
    return vr::uni(1.01, 2.);
  }
}

const char *family_name[6] = {"uniform", "sinusoid", "random-cells",
                              "two-state", "vacuum-pockets", "supersonic-shear"};

void gen_base_field(int family, const int n[3], double rho0, double P0,
                    double cs0, std::vector<double> W[5]) {
  const int N = n[0] * n[1] * n[2];
  auto pos = [&](int g, double x[3]) {
    const int i[3] = {g / (n[1] * n[2]), (g / n[2]) % n[1], g % n[2]};
    for (int a = 0; a < 3; ++a)
      x[a] = (i[a] + 0.5) / n[a];
  };
  for (int j = 0; j < 5; ++j)
    W[j].assign(N, 0.);
  const double mach = vr::weighted({2, 3, 2}) == 0
                          ? 0.
                          : (vr::coin(0.7) ? vr::uni(0., 3.) : vr::uni(3., 30.));
  double dir[3] = {vr::uni(-1, 1), vr::uni(-1, 1), vr::uni(-1, 1)};
  if (vr::coin(0.3)) { // along one axis
    const int a = (int)vr::irange(0, 2);
    for (int i = 0; i < 3; ++i)
      if (i != a)
        dir[i] = 0.;
  }
  switch (family) {
  case 0:
    for (int g = 0; g < N; ++g) {
      W[0][g] = rho0;
      W[4][g] = P0;
      for (int i = 0; i < 3; ++i)
        W[1 + i][g] = cs0 * mach * dir[i];
    }
    break;
  case 1: {
    double amp[5], ph[5];
    int k[5][3];
    for (int j = 0; j < 5; ++j) {
      amp[j] = vr::coin(0.2) ? 0. : vr::uni(0., 0.95);
      ph[j] = vr::uni(0., 6.283185307179586);
      for (int a = 0; a < 3; ++a)
        k[j][a] = (int)vr::irange(0, 2);
    }
    for (int g = 0; g < N; ++g) {
      double x[3];
      pos(g, x);
      double s[5];
      for (int j = 0; j < 5; ++j)
        s[j] = std::sin(6.283185307179586 *
                            (k[j][0] * x[0] + k[j][1] * x[1] + k[j][2] * x[2]) +
                        ph[j]);
      W[0][g] = rho0 * (1. + amp[0] * s[0]);
      W[4][g] = P0 * (1. + amp[4] * s[4]);
      for (int i = 0; i < 3; ++i)
        W[1 + i][g] = cs0 * (mach * dir[i] + 2. * amp[1 + i] * s[1 + i]);
    }
    break;
  }
  case 2: {
    static const std::vector<double> ranges = {0.3, 1., 3.};
    const double rr = vr::pick(ranges), rp = vr::pick(ranges);
    const double mm = vr::coin(0.2) ? 0. : vr::uni(0., 5.);
    for (int g = 0; g < N; ++g) {
      W[0][g] = rho0 * std::pow(10., vr::uni(-rr, rr));
      W[4][g] = P0 * std::pow(10., vr::uni(-rp, rp));
      for (int i = 0; i < 3; ++i)
        W[1 + i][g] = cs0 * (mach * dir[i] + mm * vr::uni(-1, 1));
    }
    break;
  }
  case 3: {
    double nrm[3] = {vr::uni(-1, 1), vr::uni(-1, 1), vr::uni(-1, 1)};
    if (vr::coin(0.5)) {
      const int a = (int)vr::irange(0, 2);
      for (int i = 0; i < 3; ++i)
        nrm[i] = (i == a) ? 1. : 0.;
    }
    const double off = vr::uni(0.1, 0.9);
    const double rho1 = rho0 * std::pow(10., vr::uni(-4, 1));
    const double P1 = P0 * std::pow(10., vr::uni(-5, 2));
    double v0[3], v1[3];
    for (int i = 0; i < 3; ++i) {
      v0[i] = cs0 * mach * dir[i];
      v1[i] = vr::coin(0.4) ? v0[i] : cs0 * vr::uni(-4, 4);
    }
    for (int g = 0; g < N; ++g) {
      double x[3];
      pos(g, x);
      const bool left =
          nrm[0] * (x[0] - off) + nrm[1] * (x[1] - off) + nrm[2] * (x[2] - off) < 0.;
      W[0][g] = left ? rho0 : rho1;
      W[4][g] = left ? P0 : P1;
      for (int i = 0; i < 3; ++i)
        W[1 + i][g] = left ? v0[i] : v1[i];
    }
    break;
  }
  default: { // 5: supersonic shear
    const int a = (int)vr::irange(0, 2), b = (a + 1 + (int)vr::irange(0, 1)) % 3;
    const double M = vr::uni(1., 30.);
    const bool noisy = vr::coin(0.5);
    for (int g = 0; g < N; ++g) {
      const int i[3] = {g / (n[1] * n[2]), (g / n[2]) % n[1], g % n[2]};
      W[0][g] = rho0 * (noisy ? 1. + 0.3 * vr::uni(-1, 1) : 1.);
      W[4][g] = P0 * (noisy ? 1. + 0.3 * vr::uni(-1, 1) : 1.);
      W[1 + a][g] = cs0 * M * ((i[b] * 2 < n[b]) ? 1. : -1.);
      if (noisy)
        W[1 + b][g] = cs0 * 0.1 * vr::uni(-1, 1);
    }
  }
  }
}

void gen_pockets(int N, std::vector<double> W[5]) {
  const double q = vr::uni(0.05, 0.5);
  for (int g = 0; g < N; ++g) {
    if (!vr::coin(q))
      continue;
    const double s = std::pow(10., vr::uni(-30., -3.));
    switch (vr::weighted({3, 3, 1, 2, 2})) {
    case 0: // thin gas with the same sound speed
      W[0][g] *= s;
      W[4][g] *= s;
      break;
    case 1: // cold
      W[4][g] *= s;
      break;
    case 2: // hot and thin
      W[0][g] *= s;
      break;
    case 3: // exact vacuum (a cell without gas has no pressure)
      W[0][g] = 0.;
      W[4][g] = 0.;
      break;
    default: // pressureless
      W[4][g] = 0.;
    }
  }
}

VCase gen_problem(const GenOpt &o) {
  VCase c;
  // --- cells
  static const std::vector<int> sizes = {1, 1, 2, 2, 2, 3, 3, 4, 4, 4, 4, 5, 6, 6, 6, 7, 8, 8};
  int n[3] = {vr::pick(sizes), vr::pick(sizes), vr::pick(sizes)};
  while (n[0] * n[1] * n[2] > o.maxcells) {
    int a = 0;
    for (int i = 1; i < 3; ++i)
      if (n[i] > n[a])
        a = i;
    n[a] = (n[a] + 1) / 2;
  }
  const int N = n[0] * n[1] * n[2];
  // --- boundaries
  int per[3], bc[6];
  for (int a = 0; a < 3; ++a) {
    switch (o.bcmode) {
    case BCM_PERIODIC:
      per[a] = 1;
      break;
    case BCM_WALLS:
      per[a] = vr::coin(0.4);
      break;
    default:
      per[a] = vr::coin(0.35);
    }
  }
  if (o.bcmode == BCM_WALLS && per[0] && per[1] && per[2])
    per[vr::irange(0, 2)] = 0;
  for (int a = 0; a < 3; ++a)
    for (int s = 0; s < 2; ++s) {
      int code = BC_PERIODIC;
      if (!per[a]) {
        if (o.bcmode == BCM_WALLS)
          code = BC_REFLECTIVE;
        else
          code = 1 + vr::weighted({3, 2, 2});
      }
      bc[2 * a + s] = code;
    }
  // --- geometry: exact class = cell sizes k*2^e with k <= 50, so that every
  // layout derives bit-identical cell sizes, areas and volumes
  const bool exact = !o.generic_geometry || !vr::coin(0.12);
  // class 'subnormal-mass-pockets': ordinary slow gas whose total pressure
  // P + rho v^2 is <= 0.1 in code units, next to pockets with rho in
  // [1e-320, 1e-305] in cells small enough that the cell mass rho*V is a
  // subnormal number (1/mass overflows: the case the isinf() guards of Hydro
  // exist for).  The pressure bound keeps ratios like p*/(P + DBL_MIN) of the
  // Riemann solver finite; contrasts of this size at larger pressures are
  // outside the supported range.
  const bool subn = vr::coin(o.subnormal);
  const int e = subn ? (int)vr::irange(-8, 2) : (int)vr::irange(-8, 60);
  int k[3];
  switch (vr::weighted({4, 3, 3})) {
  case 0:
    k[0] = k[1] = k[2] = (int)vr::irange(1, 50);
    break;
  case 1:
    for (int a = 0; a < 3; ++a)
      k[a] = (int)vr::irange(1, 50);
    break;
  default: { // one extreme axis (aspect ratio up to 1:50)
    const int a = (int)vr::irange(0, 2);
    const bool thin = vr::coin();
    for (int i = 0; i < 3; ++i)
      k[i] = (i == a) == thin ? (int)vr::irange(1, 3) : (int)vr::irange(25, 50);
  }
  }
  double side[3], anchor[3];
  for (int a = 0; a < 3; ++a) {
    side[a] = std::ldexp((double)(k[a] * n[a]), e);
    if (!exact)
      side[a] *= 1. + 0.4 * vr::uni();
    switch (vr::weighted({2, 2, 1})) {
    case 0:
      anchor[a] = 0.;
      break;
    case 1:
      anchor[a] = -0.5 * side[a];
      break;
    default:
      anchor[a] = side[a] * vr::dyadic(-4., 4., 6);
    }
  }
  // --- fields
  const double gamma = gen_gamma();
  const double rho0 = std::pow(10., vr::uni(-24., 3.));
  const double cs0 = std::pow(10., vr::uni(0., 6.));
  const double P0 = rho0 * cs0 * cs0 / gamma;
  int family;
  bool pockets = false;
  switch (o.fieldmode) {
  case FM_UNIFORM:
    family = 0;
    break;
  case FM_GENTLE:
    family = 1 + vr::weighted({3, 2, 2});
    break;
  case FM_HARSH:
    family = vr::weighted({0, 1, 2, 2, 0, 3});
    pockets = vr::coin(0.6);
    break;
  default:
    family = vr::weighted({1, 4, 4, 4, 0, 3});
    pockets = vr::coin(0.25);
  }
  if (subn) {
    family = vr::weighted({2, 3, 2, 3});
    pockets = false;
  }
  std::vector<double> W[5];
  gen_base_field(family, n, rho0, P0, cs0, W);
  if (o.fieldmode == FM_GENTLE) {
    // moderate contrasts and subsonic relative velocities: every face state
    // stays clear of vacuum decisions and of the strong-collision regime in
    // which the HLLC wave speed estimates are unordered (S* < S_L) and the flux
    // is no longer a symmetric function of the two states
    for (int g = 0; g < N; ++g) {
      W[0][g] = std::min(std::max(W[0][g], 0.5 * rho0), 2. * rho0);
      W[4][g] = std::min(std::max(W[4][g], 0.5 * P0), 2. * P0);
      for (int i = 0; i < 3; ++i)
        W[1 + i][g] = std::min(std::max(W[1 + i][g], -0.2 * cs0), 0.2 * cs0);
    }
  }
  if (vr::coin(o.calm)) {
    double vmax = 0.;
    for (int g = 0; g < N; ++g)
      for (int i = 0; i < 3; ++i)
        vmax = std::max(vmax, std::abs(W[1 + i][g]));
    const double fac = vmax > 0. ? vr::uni(0.02, 0.6) * cs0 / vmax : 1.;
    if (fac < 1.)
      for (int g = 0; g < N; ++g)
        for (int i = 0; i < 3; ++i)
          W[1 + i][g] *= fac;
  }
  if (pockets)
    gen_pockets(N, W);
  if (subn) {
    // slow drift, total pressure scale 10^U(-6,-1)
    double vmax = 0., S = 0.;
    for (int g = 0; g < N; ++g)
      for (int i = 0; i < 3; ++i)
        vmax = std::max(vmax, std::abs(W[1 + i][g]));
    const double vfac =
        vmax > 0.5 * cs0 ? vr::uni(0.01, 0.5) * cs0 / vmax : (vr::coin(0.3) ? 0. : 1.);
    for (int g = 0; g < N; ++g) {
      double v2 = 0.;
      for (int i = 0; i < 3; ++i) {
        W[1 + i][g] *= vfac;
        v2 += W[1 + i][g] * W[1 + i][g];
      }
      S = std::max(S, W[4][g] + W[0][g] * v2);
    }
    const double scale = std::pow(10., vr::uni(-6., -1.)) / S;
    for (int g = 0; g < N; ++g) {
      W[0][g] *= scale;
      W[4][g] *= scale;
    }
    // pockets: a slab (cells in its interior keep their mass for a step) or
    // scattered cells
    const bool slab = vr::coin(0.6);
    const int a = (int)vr::irange(0, 2);
    const int lo = (int)vr::irange(0, n[a] - 1);
    const int len = (int)vr::irange(1, n[a]);
    const double q = vr::uni(0.2, 0.8);
    // 1/rho overflows below 2^-1024 = 5.56e-309: there the isinf() guards of
    // Hydro apply; the decades above it (1/rho finite but > 1e305) are a class
    // of their own (label pocket-density-unguarded)
    const bool unguarded = o.subnormal_extended && vr::coin(0.3);
    const double elo = unguarded ? -308.25 : -320., ehi = unguarded ? -305. : -308.26;
    const double rhop = std::pow(10., vr::uni(elo, ehi));
    const bool same = vr::coin(0.5); // one pocket density or one per cell
    const int pmode = vr::weighted({2, 2, 1});
    const double drift = vr::coin(0.6) ? 0. : vr::uni(0., 0.1);
    for (int g = 0; g < N; ++g) {
      const int i3[3] = {g / (n[1] * n[2]), (g / n[2]) % n[1], g % n[2]};
      const bool in = slab ? ((i3[a] - lo + n[a]) % n[a]) < len : vr::coin(q);
      if (!in)
        continue;
      const double r = same ? rhop : std::pow(10., vr::uni(elo, ehi));
      W[0][g] = r;
      W[4][g] = pmode == 0 ? r * cs0 * cs0 / gamma : (pmode == 1 ? r : 0.);
      for (int i = 0; i < 3; ++i)
        W[1 + i][g] *= drift;
    }
  }
  if (o.bcmode == BCM_FIXEDPOINT) {
    // uniform state is a fixed point only if nothing flows through a
    // reflecting / outflow boundary
    for (int a = 0; a < 3; ++a)
      if (!per[a] && (bc[2 * a] != BC_INFLOW || bc[2 * a + 1] != BC_INFLOW))
        for (int g = 0; g < N; ++g)
          W[1 + a][g] = 0.;
  }
  // --- time step
  double f;
  switch (vr::weighted({6, 1, o.fmax > 1. ? 3 : 0})) {
  case 0:
    f = 1. - vr::uni(); // (0,1]
    break;
  case 1:
    f = 1.;
    break;
  default:
    f = vr::uni(1., o.fmax);
  }
  double maxside = std::max(side[0], std::max(side[1], side[2]));
  const double dtmax = 100. * maxside / cs0;
  // --- layouts and task orders
  std::vector<int64_t> layouts, strategy, driver, order;
  for (int l = 0; l < o.nlayouts; ++l) {
    int ns[3];
    for (int a = 0; a < 3; ++a)
      ns[a] = (o.nlayouts > 1 && l == 0) ? 1 : gen_divisor(n[a]);
    if (o.nlayouts > 1 && l == 1 && ns[0] * ns[1] * ns[2] == 1 && N > 1) {
      // make sure a second face partition is present
      int a = 0;
      for (int i = 1; i < 3; ++i)
        if (n[i] > n[a])
          a = i;
      ns[a] = divisors(n[a])[1];
    }
    for (int a = 0; a < 3; ++a)
      layouts.push_back(ns[a]);
    strategy.push_back(vr::irange(0, ORDER_NUMBER - 1));
    driver.push_back(vr::coin(0.75));
  }
  for (int i = 0; i < 12; ++i)
    order.push_back(vr::irange(0, 1000000));
  c.I("n", {n[0], n[1], n[2]}).I("per", {per[0], per[1], per[2]});
  c.I("bc", std::vector<int64_t>(bc, bc + 6));
  c.I("exactgeom", exact).I("family", family).I("pockets", pockets);
  c.I("subnormal", subn);
  c.I("layouts", layouts).I("strategy", strategy).I("taskgraph", driver);
  c.I("order", order);
  c.I("nsteps", o.maxsteps > 1 && !(subn && !o.subnormal_extended)
                    ? vr::irange(1, o.maxsteps)
                    : 1);
  c.D("anchor", {anchor[0], anchor[1], anchor[2]});
  c.D("side", {side[0], side[1], side[2]});
  c.D("gamma", gamma).D("dtf", f).D("dtmax", dtmax);
  c.D("rho", W[0]).D("vx", W[1]).D("vy", W[2]).D("vz", W[3]).D("P", W[4]);
  return c;
}

// ------------------------------------------------------------------ helpers
// a label is counted once per case
void once(VResult &r, const std::string &l) {
  if (std::find(r.labels.begin(), r.labels.end(), l) == r.labels.end())
    r.label(l);
}

struct LayoutSpec {
  int ns[3];
  Schedule sch;
  bool taskgraph;
};

LayoutSpec layout_of(const VCase &c, int l) {
  LayoutSpec s;
  for (int a = 0; a < 3; ++a)
    s.ns[a] = (int)c.i("layouts", 3 * l + a);
  s.sch.strategy = (int)c.i("strategy", l);
  s.sch.choice = c.iv("order");
  s.sch.k = 31 * l;
  s.taskgraph = c.i("taskgraph", l) != 0;
  return s;
}

double choose_dt(const VCase &c, Subject &S, VResult &r) {
  double dt = c.d("dtf") * CFL * S.min_timestep();
  if (!(dt <= c.d("dtmax"))) {
    dt = c.d("dtmax");
    once(r, "dt-capped");
  }
  return dt;
}

void label_problem(const VCase &c, const Problem &P, VResult &r) {
  once(r, std::string("field-") + family_name[c.i("family")]);
  if (c.i("pockets"))
    once(r, "field+vacuum-pockets");
  double dmin = DBL_MAX, dmax = 0.;
  for (int a = 0; a < 3; ++a) {
    dmin = std::min(dmin, P.side[a] / P.n[a]);
    dmax = std::max(dmax, P.side[a] / P.n[a]);
  }
  if (dmax >= 10. * dmin)
    once(r, "aspect>=10");
  else if (dmax == dmin)
    once(r, "cubic-cells");
  once(r, P.exact_geometry ? "geometry-exact" : "geometry-generic");
  if (c.d("dtf") > 1.)
    once(r, "dt-over-cfl");
  else if (c.d("dtf") == 1.)
    once(r, "dt-at-cfl");
  bool zero = false;
  for (int g = 0; g < P.N; ++g)
    if (P.W[0][g] == 0. || P.W[4][g] == 0.)
      zero = true;
  if (zero)
    once(r, "exact-vacuum-cells");
  if (c.has_i("subnormal") && c.i("subnormal")) {
    once(r, "subnormal-mass-pockets");
    const double vol = (P.side[0] / P.n[0]) * (P.side[1] / P.n[1]) * (P.side[2] / P.n[2]);
    int sub = 0;
    for (int g = 0; g < P.N; ++g)
      if (P.W[0][g] * vol > 0. && P.W[0][g] * vol < DBL_MIN)
        ++sub;
    if (sub)
      once(r, "subnormal-mass-cell");
    if (sub == P.N)
      once(r, "subnormal-mass-everywhere");
    for (int g = 0; g < P.N; ++g)
      if (P.W[0][g] > 0. && P.W[0][g] < 1e-300 && std::isfinite(1. / P.W[0][g])) {
        once(r, "pocket-density-unguarded");
        break;
      }
  }
}

// returns true if the layout has >= 2 subgrids or a wrapped axis
bool label_layout(const Problem &P, const LayoutSpec &L, VResult &r) {
  const int nsub = L.ns[0] * L.ns[1] * L.ns[2];
  bool wrapped = false, self = false, onecell = false;
  for (int a = 0; a < 3; ++a) {
    if (P.per[a])
      wrapped = true;
    if (P.per[a] && L.ns[a] == 1)
      self = true;
    if (L.ns[a] == P.n[a] && P.n[a] > 1)
      onecell = true;
  }
  once(r, nsub == 1 ? "layout-1-subgrid" : "layout-multi-subgrid");
  if (self)
    once(r, "layout-self-neighbour");
  if (onecell)
    once(r, "layout-1-cell-subgrid-axis");
  if (P.n[0] / L.ns[0] != P.n[1] / L.ns[1] || P.n[1] / L.ns[1] != P.n[2] / L.ns[2])
    once(r, "layout-noncubic-subgrid");
  once(r, L.taskgraph ? "driver-taskgraph" : "driver-plain");
  return nsub >= 2 || wrapped;
}

void label_step(const StepInfo &s, VResult &r) {
  if (s.clamp_mass || s.clamp_energy)
    once(r, "safeguard");
  if (s.limited_faces || s.limited_ghost_faces)
    once(r, "flux-limiter-active");
  if (s.pressure_floor)
    once(r, "pressure-floor");
  if (s.vacuum_cells)
    once(r, "vacuum-after-step");
  if (s.fast_wall_faces)
    once(r, "fast-wall");
  if (s.fast_wall_cellslow)
    once(r, "fast-wall-face-only");
}

// does a cell next to a reflecting wall move towards it at >= 1.5 c_s (cell
// centred state at the start of the step)?
bool cell_runs_into_wall(const Problem &P, const Subject &S) {
  for (int a = 0; a < 3; ++a)
    for (int side = 0; side < 2; ++side) {
      if (P.bc[2 * a + side] != BC_REFLECTIVE)
        continue;
      const int o = side == 0 ? 1 : -1;
      for (int ix = 0; ix < P.n[0]; ++ix)
        for (int iy = 0; iy < P.n[1]; ++iy)
          for (int iz = 0; iz < P.n[2]; ++iz) {
            const int i[3] = {ix, iy, iz};
            if (i[a] != (side == 0 ? P.n[a] - 1 : 0))
              continue;
            const HydroVariables &h = *S.cell[P.gidx(ix, iy, iz)];
            const double rho = h.primitives(0), Pr = h.primitives(4);
            if (rho > 0. && Pr > 0. &&
                o * h.primitives(1 + a) >= 1.5 * std::sqrt(P.gamma * Pr / rho))
              return true;
          }
    }
  return false;
}

// matcher of the finding 'tiny_density_unguarded': at the start of the step a
// cell has a density or mass that is tiny (below 1e-290 of a problem whose
// pressure scale is <= 0.1) but not below 2^-1024, so that 1/rho and 1/m are
// finite and the isinf() guards of Hydro do not apply.  The pressure of an
// ordinary neighbour then accelerates it to the velocity cap (1e99) in
// set_primitive_variables, or to dt/2 grad(P)/rho ~ 1e300 in the half-step
// prediction; squares and products of such velocities overflow in the Riemann
// solver (e.g. p* / (P + DBL_MIN)) and the fluxes become NaN.
bool tiny_density_unguarded(const Problem &P, const Subject &S, const double dt) {
  double Pmax = 0., dmin = DBL_MAX;
  for (int a = 0; a < 3; ++a)
    dmin = std::min(dmin, P.side[a] / P.n[a]);
  for (int g = 0; g < P.N; ++g)
    Pmax = std::max(Pmax, S.cell[g]->primitives(4));
  for (int g = 0; g < P.N; ++g) {
    const HydroVariables &h = *S.cell[g];
    const double rho = h.primitives(0), m = h.conserved(0);
    if (rho > 0. && std::isfinite(1. / rho) &&
        (rho < 1e-290 || 0.5 * dt * (1. / rho) * (2. * Pmax / dmin) >= 1e100))
      return true;
    if (m > 0. && m < 1e-290 && std::isfinite(1. / m))
      return true;
    if (h.get_primitives_velocity().norm() >= 1e90)
      return true;
  }
  return false;
}

// ------------------------------------------------------------------ C04 oracles
// conservation (periodic: mass, momentum, energy; walls: mass, energy) and
// physical states after every step
VResult o_conservation(const VCase &c, const bool walls, const bool only_physical) {
  VResult r;
  CaseGuard guard(c);
  const Problem P = unpack(c);
  LayoutSpec L = layout_of(c, 0);
  label_problem(c, P, r);
  const bool multi = label_layout(P, L, r);
  Subject S(P, L.ns);
  if (!S.error.empty()) {
    r.fail(S.error);
    return r;
  }
  Flat ref(P, L.ns);
  bool exempt = false;
  const int nsteps = (int)c.i("nsteps");
  for (int step = 0; step < nsteps; ++step) {
    if (step > 0)
      ref.load(S.cell);
    const double dt = choose_dt(c, S, r);
    const bool cellfast = walls && cell_runs_into_wall(P, S);
    const bool overflow_class = tiny_density_unguarded(P, S, dt);
    long double t0[5], a0[5], t1[5], a1[5];
    S.totals(t0, a0);
    const StepInfo info = ref.step(dt);
    if (!S.step(dt, L.sch, L.taskgraph)) {
      r.fail(S.error);
      return r;
    }
    label_step(info, r);
    const std::string phys = S.physical();
    if (!phys.empty()) {
      r.fail(fmt("step %d: ", step + 1) + phys);
      if (overflow_class)
        r.known = "tiny_density_unguarded";
      return r;
    }
    if (only_physical)
      continue;
    S.totals(t1, a1);
    const bool safeguard = info.clamp_mass || info.clamp_energy;
    // the wall sees the reconstructed, half-step predicted face state; that
    // state decides (the cell-centred one is only a label)
    const bool fastwall = walls && info.fast_wall_faces > 0;
    if (cellfast)
      once(r, "fast-wall-cell");
    if (safeguard || fastwall) {
      exempt = true;
      continue;
    }
    static const char *what[5] = {"mass", "x momentum", "y momentum",
                                  "z momentum", "energy"};
    for (int j = 0; j < 5; ++j) {
      if (walls && j >= 1 && j <= 3)
        continue;
      long double tol = 0.L;
      for (int g = 0; g < P.N; ++g)
        tol += info.tol[g][j];
      if (walls)
        tol += (j == 0) ? info.wall_tol_m : info.wall_tol_E;
      if (fabsl(t1[j] - t0[j]) > tol) {
        r.fail(fmt("step %d: total %s changed by %.6Lg (before %.17Lg, after "
                   "%.17Lg, allowed round-off %.3Lg, sum|.| %.6Lg)",
                   step + 1, what[j], t1[j] - t0[j], t0[j], t1[j], tol, a0[j]));
        return r;
      }
    }
  }
  once(r, fmt("steps-%d", nsteps));
  if (only_physical)
    r.nontrivial = !P.uniform();
  else
    r.nontrivial = !P.uniform() && multi && !exempt;
  return r;
}

// a uniform state is a fixed point of the step
VResult o_fixed_point(const VCase &c) {
  VResult r;
  CaseGuard guard(c);
  const Problem P = unpack(c);
  LayoutSpec L = layout_of(c, 0);
  label_problem(c, P, r);
  label_layout(P, L, r);
  Subject S(P, L.ns);
  if (!S.error.empty()) {
    r.fail(S.error);
    return r;
  }
  Flat ref(P, L.ns);
  const double dt = choose_dt(c, S, r);
  const StepInfo info = ref.step(dt);
  label_step(info, r);
  std::vector<HydroVariables> before(P.N);
  for (int g = 0; g < P.N; ++g)
    before[g] = *S.cell[g];
  if (!S.step(dt, L.sch, L.taskgraph)) {
    r.fail(S.error);
    return r;
  }
  const std::string phys = S.physical();
  if (!phys.empty()) {
    r.fail(phys);
    return r;
  }
  const bool open = !(P.per[0] && P.per[1] && P.per[2]);
  if (open && (info.limited_faces || info.limited_ghost_faces)) {
    // the flux limiter of a boundary face only knows one cell: it limits
    // differently from an interior face, so the limited uniform flow past a
    // boundary is not expected to be steady
    once(r, "limiter-at-boundary-skipped");
    return r;
  }
  // analytic flux magnitudes of the uniform state
  const double rho = P.W[0][0], Pr = P.W[4][0];
  const double v[3] = {P.W[1][0], P.W[2][0], P.W[3][0]};
  const double v2 = v[0] * v[0] + v[1] * v[1] + v[2] * v[2];
  double d[3];
  for (int a = 0; a < 3; ++a)
    d[a] = P.side[a] / P.n[a];
  const double vol = d[0] * d[1] * d[2];
  A5 fl = {{0, 0, 0, 0, 0}};
  for (int a = 0; a < 3; ++a) {
    const double A = vol / d[a];
    fl[0] += 2. * A * rho * std::abs(v[a]);
    for (int i = 0; i < 3; ++i)
      fl[1 + i] += 2. * A * (rho * std::abs(v[a] * v[i]) + (i == a ? Pr : 0.));
    fl[4] += 2. * A * (0.5 * rho * v2 + P.gamma / (P.gamma - 1.) * Pr) * std::abs(v[a]);
  }
  bool moving = v2 > 0.;
  for (int g = 0; g < P.N; ++g) {
    A5 tu;
    for (int j = 0; j < 5; ++j) {
      tu[j] = 64. * EPS * (dt * fl[j] + std::abs(before[g].conserved(j)));
      if (std::abs(S.cell[g]->conserved(j) - before[g].conserved(j)) > tu[j]) {
        r.fail(fmt("uniform state is not steady: cell %d conserved[%d] %.17g -> "
                   "%.17g (allowed %.3g)",
                   g, j, before[g].conserved(j), S.cell[g]->conserved(j), tu[j]));
        return r;
      }
    }
    const PrimTol pt = primitive_tolerance(before[g], tu, P.gamma, vol);
    const double tp[5] = {pt.rho, pt.v[0], pt.v[1], pt.v[2], pt.P};
    for (int j = 0; j < 5; ++j) {
      if (j > 0 && !pt.velocity_defined)
        continue;
      if (std::abs(S.cell[g]->primitives(j) - before[g].primitives(j)) > tp[j]) {
        r.fail(fmt("uniform state is not steady: cell %d primitive[%d] %.17g -> "
                   "%.17g (allowed %.3g)",
                   g, j, before[g].primitives(j), S.cell[g]->primitives(j), tp[j]));
        return r;
      }
    }
  }
  once(r, moving ? "moving" : "at-rest");
  r.nontrivial = moving && P.N > 1;
  return r;
}

// ------------------------------------------------------------------ comparison
// tolerances on the conserved variables of every cell for a comparison of two
// executions that differ in the order of the flux sum (exact geometry) or also
// in the last bits of the cell size (generic geometry)
std::vector<A5> compare_tolerances(const Problem &P, const StepInfo &info,
                                   const double loose) {
  std::vector<A5> tol = info.tol;
  if (loose > 0.) {
    A5 scale = {{0, 0, 0, 0, 0}};
    for (int g = 0; g < P.N; ++g)
      for (int j = 0; j < 5; ++j)
        scale[j] = std::max(scale[j], std::abs(info.uold[g][j]) +
                                          std::abs(info.unew[g][j]) +
                                          info.dt * info.absflux[g][j]);
    const double ps = std::max(scale[1], std::max(scale[2], scale[3]));
    scale[1] = scale[2] = scale[3] = ps;
    for (int g = 0; g < P.N; ++g)
      for (int j = 0; j < 5; ++j)
        tol[g][j] += loose * scale[j];
  }
  return tol;
}

// compare the state of a subject with reference cells; map[g] = reference cell
// of subject cell g, sign[j] = factor applied to reference variable j
std::string compare_states(const Problem &P, const Subject &S,
                           const std::vector<HydroVariables> &ref,
                           const std::vector<A5> &tol, const double vol,
                           const std::vector<int> *map, const double *sign,
                           int *skipped) {
  static const char *cn[5] = {"mass", "px", "py", "pz", "energy"};
  static const char *pn[5] = {"density", "vx", "vy", "vz", "pressure"};
  for (int g = 0; g < P.N; ++g) {
    const int rg = map ? (*map)[g] : g;
    const HydroVariables &a = *S.cell[g], &b = ref[rg];
    for (int j = 0; j < 5; ++j) {
      const double want = (sign ? sign[j] : 1.) * b.conserved(j);
      if (!(std::abs(a.conserved(j) - want) <= tol[rg][j]))
        return fmt("cell %d: %s %.17g, reference %.17g (diff %.3g, allowed %.3g)",
                   g, cn[j], a.conserved(j), want, a.conserved(j) - want,
                   tol[rg][j]);
    }
    const PrimTol pt = primitive_tolerance(b, tol[rg], P.gamma, vol);
    const double tp[5] = {pt.rho, pt.v[0], pt.v[1], pt.v[2], pt.P};
    for (int j = 0; j < 5; ++j) {
      if (j > 0 && !pt.velocity_defined) {
        if (skipped && j == 1)
          ++*skipped;
        continue;
      }
      const double want = (sign ? sign[j] : 1.) * b.primitives(j);
      if (!(std::abs(a.primitives(j) - want) <= tp[j]))
        return fmt("cell %d: %s %.17g, reference %.17g (diff %.3g, allowed %.3g)",
                   g, pn[j], a.primitives(j), want, a.primitives(j) - want, tp[j]);
    }
  }
  return "";
}

// ------------------------------------------------------------------ C10 oracle
VResult o_layout(const VCase &c) {
  VResult r;
  CaseGuard guard(c);
  const Problem P = unpack(c);
  label_problem(c, P, r);
  const int nl = (int)c.iv("strategy").size();
  const int nsteps = (int)c.i("nsteps");
  double dt0 = 0.;
  std::set<std::array<int, 3>> partitions;
  for (int l = 0; l < nl; ++l) {
    LayoutSpec L = layout_of(c, l);
    label_layout(P, L, r);
    partitions.insert({{L.ns[0], L.ns[1], L.ns[2]}});
    Subject S(P, L.ns);
    if (!S.error.empty()) {
      r.fail(S.error);
      return r;
    }
    const Schedule sch0 = L.sch;
    // the flat reference execution (it rounds the cell size like this layout)
    Flat ref(P, L.ns);
    for (int step = 0; step < nsteps; ++step) {
      // later steps: the reference restarts from the state this layout reached
      // (differences do not accumulate)
      if (step > 0)
        ref.load(S.cell);
      double dt;
      if (step == 0) {
        if (l == 0)
          dt0 = choose_dt(c, S, r);
        dt = dt0; // every layout advances the same initial state by the same step
      } else
        dt = choose_dt(c, S, r);
      const StepInfo info = ref.step(dt);
      label_step(info, r);
      if (!S.step(dt, L.sch, L.taskgraph)) {
        r.fail(S.error);
        return r;
      }
      const std::string phys = S.physical();
      if (!phys.empty()) {
        r.fail(phys);
        return r;
      }
      int skipped = 0;
      const std::string diff = compare_states(P, S, ref.c, info.tol, ref.vol,
                                              nullptr, nullptr, &skipped);
      if (!diff.empty()) {
        r.fail(fmt("step %d: layout %dx%dx%d (%s, order %d) differs from the "
                   "plain sequential execution: ",
                   step + 1, L.ns[0], L.ns[1], L.ns[2],
                   L.taskgraph ? "task graph" : "plain sweeps", L.sch.strategy) +
               diff);
        return r;
      }
      if (skipped)
        once(r, "ambiguous-near-vacuum-cells");
    }
    if (l == 0) {
      // same layout, same order, fresh allocation: bit-for-bit
      Subject S2(P, L.ns);
      Schedule sch = sch0;
      for (int step = 0; step < nsteps; ++step) {
        const double dt = step == 0 ? dt0 : choose_dt(c, S2, r);
        if (!S2.step(dt, sch, L.taskgraph)) {
          r.fail(S2.error);
          return r;
        }
      }
      for (int g = 0; g < P.N; ++g)
        for (int j = 0; j < 5; ++j)
          if (memcmp(&S.cell[g]->conserved(j), &S2.cell[g]->conserved(j), 8) ||
              memcmp(&S.cell[g]->primitives(j), &S2.cell[g]->primitives(j), 8)) {
            // observed non-determinism (e.g. a dependence on uninitialised
            // memory): by its nature it need not reproduce on replay
            r.schedule_dependent = true;
            r.fail(fmt("two executions of the same layout in the same order are "
                       "not bit-identical: cell %d variable %d: %a / %a vs %a / %a",
                       g, j, S.cell[g]->conserved(j), S.cell[g]->primitives(j),
                       S2.cell[g]->conserved(j), S2.cell[g]->primitives(j)));
            return r;
          }
    }
  }
  once(r, fmt("steps-%d", nsteps));
  if (partitions.size() >= 2)
    once(r, "two-or-more-partitions");
  r.nontrivial = partitions.size() >= 2 && !P.uniform();
  return r;
}

// ------------------------------------------------------------------ mirror
// mirroring the initial state in a coordinate plane mirrors the result
VResult o_mirror(const VCase &c) {
  VResult r;
  CaseGuard guard(c);
  const Problem P = unpack(c);
  LayoutSpec L = layout_of(c, 0);
  label_problem(c, P, r);
  const bool multi = label_layout(P, L, r);
  const int ax = (int)c.i("mirror_axis");
  once(r, fmt("mirror-axis-%d", ax));
  Problem Q = P;
  std::vector<int> map(P.N);
  for (int ix = 0; ix < P.n[0]; ++ix)
    for (int iy = 0; iy < P.n[1]; ++iy)
      for (int iz = 0; iz < P.n[2]; ++iz) {
        int i[3] = {ix, iy, iz};
        const int g = P.gidx(ix, iy, iz);
        i[ax] = P.n[ax] - 1 - i[ax];
        const int h = P.gidx(i[0], i[1], i[2]);
        map[h] = g; // cell h of the mirrored problem is the image of cell g
        for (int j = 0; j < 5; ++j)
          Q.W[j][h] = (j == 1 + ax) ? -P.W[j][g] : P.W[j][g];
      }
  std::swap(Q.bc[2 * ax], Q.bc[2 * ax + 1]);
  Q.anchor[ax] = -(P.anchor[ax] + P.side[ax]);
  Subject S(P, L.ns), T(Q, L.ns);
  if (!S.error.empty() || !T.error.empty()) {
    r.fail(S.error + T.error);
    return r;
  }
  Flat refP(P, L.ns), refQ(Q, L.ns);
  const double dt = choose_dt(c, S, r);
  const StepInfo ip = refP.step(dt), iq = refQ.step(dt);
  label_step(ip, r);
  Schedule s1 = L.sch, s2 = L.sch;
  if (!S.step(dt, s1, L.taskgraph) || !T.step(dt, s2, L.taskgraph)) {
    r.fail(S.error + T.error);
    return r;
  }
  const std::string phys = S.physical() + T.physical();
  if (!phys.empty()) {
    r.fail(phys);
    return r;
  }
  if (ip.limited_faces || ip.limited_ghost_faces || iq.limited_faces ||
      iq.limited_ghost_faces) {
    // the flux limiter is not a symmetric function of the two cells of a face
    once(r, "limiter-active-skipped");
    return r;
  }
  if (ip.clamp_mass || ip.clamp_energy || ip.vacuum_cells) {
    once(r, "vacuum-skipped");
    return r;
  }
  // reference for T: the state of S, mirrored
  std::vector<HydroVariables> img(P.N);
  for (int g = 0; g < P.N; ++g)
    img[g] = *S.cell[g];
  const std::vector<A5> tol = compare_tolerances(P, ip, 1e-9);
  double sign[5] = {1, 1, 1, 1, 1};
  sign[1 + ax] = -1.;
  const std::string diff =
      compare_states(Q, T, img, tol, refP.vol, &map, sign, nullptr);
  if (!diff.empty()) {
    r.fail("mirrored problem does not give the mirrored result: " + diff);
    return r;
  }
  once(r, "compared");
  r.nontrivial = !P.uniform() && multi;
  return r;
}

// ------------------------------------------------------------------ face level
// one face: fluxes are applied with opposite sign to both cells; the flux
// limiter multiplies mass, momentum and energy flux by one common factor in
// [0,1]; mirror ghost => no mass and no energy through a reflecting wall
VCase gen_face() {
  VCase c;
  const double gamma = gen_gamma();
  const int axis = (int)vr::irange(0, 2);
  int k[3];
  if (vr::coin(0.3))
    k[0] = k[1] = k[2] = 8;
  else
    for (int a = 0; a < 3; ++a)
      k[a] = vr::coin(0.5) ? (int)vr::irange(1, 3) : (int)vr::irange(20, 50);
  const int e = (int)vr::irange(-8, 40);
  double d[3];
  for (int a = 0; a < 3; ++a)
    d[a] = std::ldexp((double)k[a], e);
  const double rho0 = std::pow(10., vr::uni(-24., 3.));
  const double cs0 = std::pow(10., vr::uni(0., 6.));
  const double P0 = rho0 * cs0 * cs0 / gamma;
  std::vector<double> WL(5), WR(5), GL(5), GR(5);
  const int contrast = vr::weighted({4, 3, 2});
  const double span = contrast == 0 ? 0.3 : (contrast == 1 ? 3. : 12.);
  WL[0] = rho0 * std::pow(10., vr::uni(-span, span));
  WR[0] = rho0 * std::pow(10., vr::uni(-span, span));
  WL[4] = P0 * std::pow(10., vr::uni(-span, span));
  WR[4] = P0 * std::pow(10., vr::uni(-span, span));
  const double mach = vr::coin(0.3) ? vr::uni(0., 1.) : vr::uni(0., 40.);
  for (int i = 0; i < 3; ++i) {
    WL[1 + i] = cs0 * mach * vr::uni(-1, 1);
    WR[1 + i] = vr::coin(0.3) ? WL[1 + i] : cs0 * mach * vr::uni(-1, 1);
  }
  if (vr::coin(0.1)) {
    WL[0] = 0.;
    WL[4] = 0.;
  }
  if (vr::coin(0.1))
    WR[4] = 0.;
  for (int j = 0; j < 5; ++j) {
    // gradients of the size the slope limiter admits
    const double dw = (WR[j] - WL[j]) / d[axis];
    GL[j] = vr::coin(0.2) ? 0. : dw * vr::uni(-0.5, 1.);
    GR[j] = vr::coin(0.2) ? 0. : dw * vr::uni(-0.5, 1.);
  }
  c.I("axis", axis).I("bc", 1 + vr::weighted({4, 1, 1})).I("side", vr::coin() ? 1 : -1);
  c.D("gamma", gamma).D("d", {d[0], d[1], d[2]});
  c.D("WL", WL).D("WR", WR).D("GL", GL).D("GR", GR);
  c.D("dtf", vr::coin(0.5) ? 1. - vr::uni() : vr::uni(1., 3.));
  return c;
}

struct FaceSetup {
  Hydro hydro;
  HydroVariables l, r;
  int axis;
  double dx, A, vol, dt;
  FaceSetup(const VCase &c)
      : hydro(c.d("gamma"), 100., 1.e4, 1.e99, false), axis((int)c.i("axis")) {
    const double d[3] = {c.d("d", 0), c.d("d", 1), c.d("d", 2)};
    vol = d[0] * d[1] * d[2];
    dx = d[axis];
    A = vol / dx;
    IonizationVariables ion;
    for (int j = 0; j < 5; ++j) {
      l.primitives(j) = c.d("WL", j);
      r.primitives(j) = c.d("WR", j);
      l.primitive_gradients(j)[axis] = c.d("GL", j);
      r.primitive_gradients(j)[axis] = c.d("GR", j);
    }
    hydro.set_conserved_variables(l, vol);
    hydro.set_conserved_variables(r, vol);
    dt = c.d("dtf") * CFL *
         std::min(hydro.get_timestep(l, ion, vol), hydro.get_timestep(r, ion, vol));
    if (!(dt < 1e300))
      dt = dx; // both cells empty and at rest: any step
  }
};

// F1 = s F0 with one s in [0,1]?
std::string common_factor(const double F1[5], const double F0[5], bool *limited) {
  int kmax = 0;
  *limited = false;
  for (int j = 0; j < 5; ++j) {
    if (!std::isfinite(F1[j]) || !std::isfinite(F0[j]))
      return fmt("non-finite flux component %d: %g (unlimited %g)", j, F1[j], F0[j]);
    if (F1[j] != F0[j])
      *limited = true;
    if (std::abs(F0[j]) > std::abs(F0[kmax]))
      kmax = j;
  }
  if (F0[kmax] == 0.) {
    for (int j = 0; j < 5; ++j)
      if (F1[j] != 0.)
        return fmt("zero flux became %g after limiting", F1[j]);
    return "";
  }
  const double s = F1[kmax] / F0[kmax];
  if (!(s >= 0. && s <= 1. + 4. * EPS))
    return fmt("flux limiter factor %.17g outside [0,1]", s);
  for (int j = 0; j < 5; ++j)
    if (std::abs(F1[j] - s * F0[j]) > 8. * EPS * std::abs(F0[j]) + 16. * DBL_MIN)
      return fmt("limited flux is not one common factor times the unlimited "
                 "flux: factor %.17g from component %d, component %d is %.17g "
                 "instead of %.17g (unlimited %.17g)",
                 s, kmax, j, F1[j], s * F0[j], F0[j]);
  return "";
}

VResult o_face(const VCase &c) {
  VResult r;
  FaceSetup f(c);
  HydroVariables l1 = f.l, r1 = f.r, l0 = f.l, r0 = f.r;
  f.hydro.do_flux_calculation(f.axis, l1, r1, f.dx, f.A, f.dt);
  f.hydro.do_flux_calculation(f.axis, l0, r0, f.dx, f.A, 0.);
  double F1[5], F0[5];
  for (int j = 0; j < 5; ++j) {
    F1[j] = r1.delta_conserved(j);
    F0[j] = r0.delta_conserved(j);
    if (!(l1.delta_conserved(j) == -r1.delta_conserved(j))) {
      r.fail(fmt("flux component %d is not applied with opposite sign to the two "
                 "cells: left %+.17g, right %+.17g",
                 j, l1.delta_conserved(j), r1.delta_conserved(j)));
      return r;
    }
  }
  bool limited;
  const std::string e = common_factor(F1, F0, &limited);
  if (!e.empty())
    r.fail(e);
  once(r, limited ? "limiter-active" : "limiter-inactive");
  if (F0[0] == 0. && F0[4] == 0. && F0[1] == 0. && F0[2] == 0. && F0[3] == 0.)
    once(r, "no-flux");
  r.nontrivial = limited;
  return r;
}

VResult o_ghost_face(const VCase &c) {
  VResult r;
  FaceSetup f(c);
  const int code = (int)c.i("bc"), o = (int)c.i("side");
  ReflectiveHydroBoundary refl;
  InflowHydroBoundary inflow;
  OutflowHydroBoundary outflow;
  const HydroBoundary &b =
      code == BC_REFLECTIVE ? (const HydroBoundary &)refl
                            : (code == BC_INFLOW ? (const HydroBoundary &)inflow
                                                 : (const HydroBoundary &)outflow);
  once(r, bcname[code]);
  HydroVariables l1 = f.l, l0 = f.l;
  const CoordinateVector<> pos(0.);
  f.hydro.do_ghost_flux_calculation(f.axis, pos, l1, b, o * f.dx, f.A, f.dt);
  f.hydro.do_ghost_flux_calculation(f.axis, pos, l0, b, o * f.dx, f.A, 0.);
  double F1[5], F0[5];
  for (int j = 0; j < 5; ++j) {
    F1[j] = -l1.delta_conserved(j);
    F0[j] = -l0.delta_conserved(j);
  }
  bool limited;
  const std::string e = common_factor(F1, F0, &limited);
  if (!e.empty()) {
    r.fail(e);
    return r;
  }
  once(r, limited ? "limiter-active" : "limiter-inactive");
  r.nontrivial = true;
  if (code == BC_REFLECTIVE) {
    const double rho = f.l.primitives(0), Pr = f.l.primitives(4);
    const double v = f.l.primitives(1 + f.axis);
    const double vf = face_limit(
        v + 0.5 * o * f.dx * f.l.primitive_gradients(1 + f.axis)[f.axis], v, -v);
    const bool gas = rho > 0. && Pr > 0.;
    const double cs = gas ? std::sqrt(c.d("gamma") * Pr / rho) : 0.;
    if (gas && o * vf >= 1.5 * cs) {
      once(r, "fast-wall");
      r.nontrivial = false;
      return r;
    }
    double v2 = vf * vf;
    for (int i = 0; i < 3; ++i)
      if (i != f.axis)
        v2 += f.l.primitives(1 + i) * f.l.primitives(1 + i);
    const double sp = std::abs(vf) + 3. * cs;
    const double tm = 64. * EPS * f.A * rho * sp;
    const double tE = 64. * EPS * f.A *
                      (0.5 * rho * v2 + c.d("gamma") / (c.d("gamma") - 1.) * Pr) * sp;
    once(r, o * vf > 0. ? "slow-approach" : "receding-or-rest");
    if (std::abs(F0[0]) > tm)
      r.fail(fmt("mass flows through a reflecting wall: %.6g per unit time "
                 "(round-off allowance %.3g), approach speed %.6g, sound speed "
                 "%.6g",
                 F0[0], tm, o * vf, cs));
    else if (std::abs(F0[4]) > tE)
      r.fail(fmt("energy flows through a reflecting wall: %.6g per unit time "
                 "(round-off allowance %.3g), approach speed %.6g, sound speed "
                 "%.6g",
                 F0[4], tE, o * vf, cs));
  }
  return r;
}

VCase gen_mirror() {
  GenOpt o;
  o.bcmode = BCM_ANY;
  o.fieldmode = FM_GENTLE;
  o.fmax = 1.;
  o.maxcells = 128;
  o.generic_geometry = false;
  VCase c = gen_problem(o);
  c.I("mirror_axis", vr::irange(0, 2));
  return c;
}

} // namespace

int main(int argc, char **argv) {
#ifdef _OPENMP
  omp_set_num_threads(1);
#endif
  std::vector<VProp> props;
  // (the common domain of the generated problems is described in the rule of
  // the registry entries)
  const std::string dom = "generated hydro problem, layout and task order; ";
  {
    GenOpt o;
    o.bcmode = BCM_PERIODIC;
    o.maxsteps = 2;
    o.subnormal = 0.08;
    props.push_back(
        {"conservation_periodic", 6000, [o] { return gen_problem(o); },
         [](const VCase &c) { return o_conservation(c, false, false); },
         dom + "Periodic box. Totals of mass, 3 momentum components and energy "
               "before/after each step agree within 16 eps * sum over cells of "
               "(dt*sum|face flux| + |U_old| + |U_new|) unless the positivity "
               "clamp changed a cell by more than round-off (label safeguard). "
               "Non-trivial = non-uniform state and (>=2 subgrids or a wrapped "
               "axis) and no safeguard.",
         {{"layout-self-neighbour", 0.1}, {"layout-multi-subgrid", 0.3},
          {"flux-limiter-active", 0.03}, {"subnormal-mass-cell", 0.04}}});
  }
  {
    GenOpt o;
    o.bcmode = BCM_WALLS;
    o.maxsteps = 2;
    o.calm = 0.5;
    props.push_back(
        {"conservation_walls", 5000, [o] { return gen_problem(o); },
         [](const VCase &c) { return o_conservation(c, true, false); },
         dom + "Every axis periodic or closed by reflecting walls (>=1 closed). "
               "Totals of mass and energy conserved as above (+64 eps per wall "
               "face for the analytically zero wall flux) unless safeguard or a "
               "wall face sees gas approaching at >=1.5 c_s (label fast-wall). "
               "Non-trivial = non-uniform, (>=2 subgrids or wrapped axis), not "
               "exempt.",
         {{"layout-multi-subgrid", 0.3}}});
  }
  {
    GenOpt o;
    o.bcmode = BCM_ANY;
    o.fieldmode = FM_HARSH;
    o.maxsteps = 3;
    o.subnormal = 0.15;
    props.push_back(
        {"physical_states", 5000, [o] { return gen_problem(o); },
         [](const VCase &c) { return o_conservation(c, false, true); },
         dom + "Harsh fields (vacuum pockets 60%, shear, strong discontinuities), "
               "all boundary kinds (periodic, reflective, inflow, outflow), 1-3 "
               "steps: after every step every mass, energy, density, pressure is "
               "finite and >=0, velocities and momenta finite, and the task graph "
               "ran to completion. Non-trivial = non-uniform state.",
         {{"safeguard", 0.02}, {"exact-vacuum-cells", 0.1},
          {"subnormal-mass-cell", 0.08}}});
  }
  {
    GenOpt o;
    o.bcmode = BCM_ANY;
    o.fieldmode = FM_HARSH;
    o.maxsteps = 3;
    o.subnormal = 1.;
    o.subnormal_extended = true;
    props.push_back(
        {"tiny_density_steps", 3000, [o] { return gen_problem(o); },
         [](const VCase &c) { return o_conservation(c, false, true); },
         dom + "NOT part of the registered unit (suspected finding "
               "tiny_density_unguarded). As physical_states, class "
               "subnormal-mass-pockets only, but pocket densities up to 1e-305 "
               "(1/rho finite) and 1-3 steps."});
  }
  {
    GenOpt o;
    o.bcmode = BCM_FIXEDPOINT;
    o.fieldmode = FM_UNIFORM;
    props.push_back(
        {"fixed_point", 2000, [o] { return gen_problem(o); }, o_fixed_point,
         dom + "Uniform state (any velocity along periodic / inflow axes, zero "
               "normal velocity at reflecting / outflow boundaries) is unchanged "
               "by a step within 64 eps (dt * analytic flux magnitudes + |U|). "
               "Non-trivial = moving gas and >1 cell."});
  }
  props.push_back(
      {"mirror", 2000, gen_mirror, o_mirror,
       dom + "Moderate-contrast fields, f<=1, exact geometry: the step of the "
             "mirror image (cells reversed along one axis, that velocity "
             "component negated, low/high boundary swapped) equals the mirror "
             "image of the step within 1e-9 of the global scales. Cases with an "
             "active flux limiter (not a symmetric function of the two cells) "
             "are labelled and skipped. Non-trivial = compared and non-uniform "
             "and (>=2 subgrids or wrapped axis).",
       {{"compared", 0.3}}});
  props.push_back(
      {"face_flux", 100000, gen_face, o_face,
       "one interior face: two cell states (contrast up to 10^24, Mach<=40, "
       "vacuum 10-20%), slope-limited gradients, thin/fat cells, dt=f*0.2*CFL "
       "step, f in (0,3]: both cells receive the flux with opposite sign "
       "(bitwise); flux with limiter = one factor in [0,1] times the flux "
       "computed with dt=0 (limiter off), within 8 eps per component. "
       "Non-trivial = limiter active.",
       {{"limiter-active", 0.05}}});
  props.push_back(
      {"ghost_face", 60000, gen_face, o_ghost_face,
       "one boundary face (reflective 2/3, inflow, outflow; low or high side): "
       "limited flux = common factor times unlimited flux; reflecting wall: "
       "mass and energy flux vanish (64 eps rho (|v|+3c) A) when the face state "
       "approaches slower than 1.5 c_s."});
  {
    GenOpt o;
    o.bcmode = BCM_ANY;
    o.nlayouts = 3;
    o.maxcells = 216;
    o.maxsteps = 2;
    props.push_back(
        {"layout_independence", 8000,
         [o] {
           GenOpt q = o;
           q.nlayouts = (int)vr::irange(2, 4);
           return gen_problem(q);
         },
         o_layout,
         dom + "All boundary kinds. 2-4 layouts of the same problem (the first "
               "is 1x1x1), each with its own task order, 1-2 steps (the reference "
               "of a second step restarts from the state the layout reached): "
               "conserved and primitive "
               "variables of every cell agree with the flat reference execution "
               "(own face enumeration and geometry, every face once by plain "
               "loops; cell size rounded as the layout rounds it) within 16 eps "
               "(dt*sum|face flux of the cell| + |U_old| + |U_new|), "
               "propagated to the primitives; the first layout is executed twice "
               "and must be bit-identical. Non-trivial = >=2 different "
               "partitions and non-uniform state.",
         {{"two-or-more-partitions", 0.5}, {"layout-noncubic-subgrid", 0.2},
          {"layout-self-neighbour", 0.1}}});
  }
  for (int sig : {SIGSEGV, SIGABRT, SIGBUS, SIGFPE})
    signal(sig, crash_handler);
  if (argc >= 3 && std::string(argv[1]) == "--replay") {
    g_replay = true;
    g_replay_file = argv[2];
  }
  // the binary serves C04 and C10 (registry units select sub-checks by name)
  std::string pid = "C04";
  if (const char *fd = getenv("VERIF_FAILDIR")) {
    const std::string f(fd);
    if (f.size() >= 3 && f.substr(f.size() - 3) == "C10")
      pid = "C10";
  }
  g_pid = pid;
  return vr::vmain(argc, argv, pid, props);
}
