// C13 (part c) - "all repeated runs of a given parameter file": the one place
// of a photoionization run that draws random numbers outside the per-thread
// generators is DistributedPhotonSource, which hands the packets left over by
// rounding to randomly chosen sources.  A repeated run - a second
// TaskBasedIonizationSimulation::run() or a later radiation step in the same
// process as much as a second process - has to distribute them identically.
//
// Oracle: an independent model of the allocation (floor share per source, split
// over the copies, the left-over packets placed with a fresh RANLUX stream of
// the default seed taken from the integer reference implementation), and the
// metamorphic relation "constructing the object again gives the same table",
// interleaved with unrelated draws from other generators.
#include "DensityFunction.hpp"
#include "DensitySubGrid.hpp"
#include "DensitySubGridCreator.hpp"
#include "DistributedPhotonSource.hpp"
#include "PhotonSourceDistribution.hpp"
#include "RandomGenerator.hpp"
#include "c13_ranlux_ref.hpp"
#include "verif_rc.hpp"

#include <sys/wait.h>
#include <unistd.h>

using vr::VCase;
using vr::VProp;
using vr::VResult;
using vr::fmt;

namespace {

class FlatDensity : public DensityFunction {
public:
  virtual DensityValues operator()(const Cell &cell) {
    DensityValues v;
    v.set_number_density(1.e8);
    v.set_ionic_fraction(ION_H_n, 1.);
    v.set_temperature(8000.);
    return v;
  }
};

class TableSources : public PhotonSourceDistribution {
  std::vector< CoordinateVector<> > _pos;
  std::vector< double > _w;

public:
  TableSources(const std::vector< double > &pos,
               const std::vector< double > &w) {
    double tot = 0.;
    for (double x : w)
      tot += x;
    for (size_t i = 0; i < w.size(); ++i) {
      _pos.push_back(
          CoordinateVector<>(pos[3 * i], pos[3 * i + 1], pos[3 * i + 2]));
      _w.push_back(w[i] / tot);
    }
  }
  virtual photonsourcenumber_t get_number_of_sources() const {
    return _pos.size();
  }
  virtual CoordinateVector<> get_position(photonsourcenumber_t index) {
    return _pos[index];
  }
  virtual double get_weight(photonsourcenumber_t index) const {
    return _w[index];
  }
  virtual double get_total_luminosity() const { return 1.e48; }
};

// ------------------------------------------------------------------ generator
VCase gen_alloc() {
  VCase c;
  const int64_t ns = vr::weighted({1, 3, 3}) == 0 ? 1 : vr::irange(2, 12);
  // subgrid layout and copy level (the same level everywhere)
  std::vector< int64_t > nsub = {vr::irange(1, 2), vr::irange(1, 2),
                                 vr::irange(1, 2)};
  const int64_t level = vr::weighted({3, 2, 1});
  std::vector< double > pos, w;
  const int wmode = vr::weighted({3, 3, 2});
  for (int64_t s = 0; s < ns; ++s) {
    for (int a = 0; a < 3; ++a)
      pos.push_back(vr::dyadic(0., 1., 5) + 1. / 128.);
    if (wmode == 0)
      w.push_back(1.); // equal weights: 1/ns is rarely a divisor
    else if (wmode == 1)
      w.push_back((double)vr::irange(1, 9));
    else
      w.push_back(vr::uni(0.05, 1.));
  }
  int64_t np;
  switch (vr::weighted({3, 2, 2})) {
  case 0:
    np = vr::irange(ns << level, 2000);
    break;
  case 1:
    np = 100 * vr::irange(1, 1000);
    break;
  default:
    np = vr::irange(1000, 1000000);
  }
  // every copy of every source needs at least one packet (the constructor
  // asserts it; the simulation guarantees it by using >= 1e5 packets)
  np = std::max< int64_t >(np, 64 * ns << level);
  c.I("nsub", nsub).I("level", level).I("np", np).I("repeats", vr::irange(2, 4));
  c.I("draws_between", vr::irange(0, 40));
  c.D("spos", pos).D("sweight", w);
  return c;
}

VResult o_alloc_inner(const VCase &c) {
  VResult r;
  const std::vector< int64_t > &nsub = c.iv("nsub");
  const int level = (int)c.i("level");
  const size_t np = (size_t)c.i("np");
  Box<> box(CoordinateVector<>(0.), CoordinateVector<>(1.));
  DensitySubGridCreator< DensitySubGrid > creator(
      box, CoordinateVector< int_fast32_t >(4, 4, 4),
      CoordinateVector< int_fast32_t >(nsub[0], nsub[1], nsub[2]),
      CoordinateVector< bool >(false, false, false));
  FlatDensity df;
  creator.initialize(df);
  std::vector< uint_fast8_t > levels(creator.number_of_original_subgrids(),
                                     (uint_fast8_t)level);
  creator.create_copies(levels);
  TableSources dist(c.dv("spos"), c.dv("sweight"));
  const size_t ncopy = (size_t)1 << level;
  const size_t nsrc = dist.get_number_of_sources();

  // ---- model
  std::vector< size_t > model;
  std::vector< size_t > overhead_slot;
  size_t done = 0;
  for (size_t s = 0; s < nsrc; ++s) {
    const size_t share = (size_t)(np * dist.get_weight(s));
    const size_t old = model.size();
    for (size_t k = 0; k < ncopy; ++k)
      model.push_back(share / ncopy + (k < share % ncopy ? 1 : 0));
    overhead_slot.push_back(old + share % ncopy);
    done += share;
  }
  if (done > np) {
    r.fail("model: shares exceed the packet number");
    return r;
  }
  const size_t nover = np - done;
  // the last copy slot can be one past the copies of a source when the share
  // divides evenly: the real code then credits the next source's first copy
  // (or writes past the end for the last source) - keep what it does out of
  // the model unless it can happen
  bool slot_past_end = false;
  {
    rlx::Stream ref(42);
    for (size_t k = 0; k < nover; ++k) {
      const double u = (double)ref.next() * 0x1p-48;
      const size_t idx = (size_t)(u * overhead_slot.size());
      if (overhead_slot[idx] >= model.size())
        slot_past_end = true;
      else
        ++model[overhead_slot[idx]];
    }
  }
  if (slot_past_end) {
    // never happens: share % ncopy < ncopy, so the slot is always one of the
    // source's own copies
    r.fail("model: overhead slot outside the table");
    return r;
  }
  r.nontrivial = nover > 0 && nsrc > 1;
  r.labels.push_back(nover == 0 ? "no-overhead"
                                : nover == 1 ? "overhead-1" : "overhead-many");
  if (ncopy > 1)
    r.labels.push_back("copies");
  if (nsrc == 1)
    r.labels.push_back("single-source");

  // ---- the real object, constructed repeatedly in this process
  const int repeats = (int)c.i("repeats");
  RandomGenerator other(7);
  std::vector< size_t > first;
  for (int rep = 0; rep < repeats; ++rep) {
    DistributedPhotonSource< DensitySubGrid > src(np, dist, creator);
    std::vector< size_t > got;
    size_t tot = 0;
    if (src.get_number_of_sources() != model.size()) {
      r.fail(fmt("construction %d: %zu source entries, expected %zu", rep,
                 (size_t)src.get_number_of_sources(), model.size()));
      return r;
    }
    for (size_t i = 0; i < src.get_number_of_sources(); ++i) {
      size_t n = 0, b;
      // drain the source in batches, as the source tasks do
      while ((b = src.get_photon_batch(i, 1000)) > 0)
        n += b;
      got.push_back(n);
      tot += n;
    }
    if (tot != np) {
      r.fail(fmt("construction %d hands out %zu packets, %zu were requested",
                 rep, tot, np));
      return r;
    }
    if (rep == 0)
      first = got;
    for (size_t i = 0; i < got.size(); ++i) {
      if (got[i] != first[i]) {
        r.fail(fmt("repeated construction %d of the same photon source gives "
                   "entry %zu %zu packets, the first construction gave it %zu "
                   "(np=%zu, %zu sources, %zu left-over packets): a repeated "
                   "run is not identical",
                   rep, i, got[i], first[i], np, nsrc, nover));
        return r;
      }
      if (got[i] != model[i]) {
        r.fail(fmt("construction %d: entry %zu gets %zu packets, the model "
                   "(floor shares + left-over packets placed by a fresh "
                   "default-seed RANLUX stream) gives %zu (np=%zu, %zu "
                   "sources, %zu left-over)",
                   rep, i, got[i], model[i], np, nsrc, nover));
        return r;
      }
    }
    // unrelated random draws between two runs must not matter
    for (int64_t k = 0; k < c.i("draws_between"); ++k)
      other.get_uniform_random_double();
  }
  return r;
}

// Every case is evaluated in a forked child: whatever process-wide state the
// tested code keeps (that is what this check is after) starts from the state
// of a fresh process, so the verdict is a pure function of the case and a
// saved case replays.
VResult o_alloc(const VCase &c) {
  int fd[2];
  VResult r;
  if (pipe(fd) != 0) {
    r.fail("harness: pipe() failed");
    return r;
  }
  fflush(nullptr);
  const pid_t pid = fork();
  if (pid == 0) {
    close(fd[0]);
    VResult q;
    try {
      q = o_alloc_inner(c);
    } catch (const std::exception &e) {
      q.fail(std::string("exception: ") + e.what());
    } catch (...) {
      q.fail("the code aborted (cmac_error / assertion)");
    }
    std::string out = std::string(q.ok ? "1" : "0") + (q.nontrivial ? "1" : "0");
    for (auto &l : q.labels)
      out += "\x1f" + l;
    out += "\x1e" + q.msg;
    size_t off = 0;
    while (off < out.size()) {
      const ssize_t n = write(fd[1], out.data() + off, out.size() - off);
      if (n <= 0)
        break;
      off += n;
    }
    close(fd[1]);
    _exit(0);
  }
  close(fd[1]);
  std::string in;
  char buf[4096];
  ssize_t n;
  while ((n = read(fd[0], buf, sizeof buf)) > 0)
    in.append(buf, n);
  close(fd[0]);
  int status = 0;
  waitpid(pid, &status, 0);
  if (in.size() < 3 || !WIFEXITED(status)) {
    r.fail(fmt("the child evaluating the case died (status %d)", status));
    return r;
  }
  const size_t sep = in.find('\x1e');
  const std::string head = in.substr(2, sep - 2);
  r.nontrivial = in[1] == '1';
  size_t a = 0;
  while (a < head.size()) {
    size_t b = head.find('\x1f', a + 1);
    if (b == std::string::npos)
      b = head.size();
    r.labels.push_back(head.substr(a + 1, b - a - 1));
    a = b;
  }
  if (in[0] != '1')
    r.fail(in.substr(sep + 1));
  return r;
}

} // namespace

int main(int argc, char **argv) {
  std::vector< VProp > props;
  props.push_back(
      {"repeated_source_distribution", 1500, gen_alloc, o_alloc,
       "1..12 point sources (equal, small-integer or real weights), 1..8 "
       "subgrids with copy level 0..2, 64*sources*copies..1e6 packets; the "
       "real DistributedPhotonSource is constructed 2..4 times in one process "
       "(as repeated run() calls / radiation steps do) with unrelated draws in "
       "between, drained in batches, and compared entry by entry with the "
       "first construction and with an independent model (floor shares, "
       "left-over packets placed by the integer-reference RANLUX stream of "
       "the default seed). Non-trivial = more than one source and at least "
       "one left-over packet.",
       {{"overhead-many", 0.2}, {"copies", 0.2}}});
  return vr::vmain(argc, argv, "C13", props);
}
