// C14 - restart dumps are rotated safely and the last good dump is never
// destroyed.  Fault enumeration on the real RestartManager / RestartWriter /
// RestartReader in a scratch directory under $VERIF_TMP.
//
// Every dump writes an image that names its state index (header + trailer), so
// the contents of a file identify the state it holds and whether it is a
// complete dump, a truncated one or garbage.  The oracle is a reference model
// written from the property statement:
//   after the d-th dump of a history with b configured backups
//     restart.dump   == image(d)
//     restart.i.back == image(d-1-i)   for i < min(b, d-1)
//     and nothing else is in the directory;
//   if the process dies anywhere inside dump d+1 (b >= 1, d >= 1) some file in
//   the directory is still a byte-exact image(d), every backup file is a
//   complete image of some state and restart.dump is absent, a prefix of
//   image(d+1) or still image(d).
// "The process dies" = a forked child that runs the real get_restart_writer()
// and _exit()s (nothing is flushed) at the selected crash point: one of the
// cmi_verif_event() points inside RestartManager::get_restart_writer or one of
// the harness points while / after the payload is written.
//
// Files are read back with plain POSIX calls (independent of RestartReader);
// the main dump is additionally read through the real RestartReader.
#include "RestartManager.hpp"
#include "verif_rc.hpp"

#include <dirent.h>
#include <fcntl.h>
#include <sys/stat.h>
#include <sys/types.h>
#include <sys/wait.h>
#include <unistd.h>

using vr::VCase;
using vr::VProp;
using vr::VResult;
using vr::fmt;

namespace {

static_assert(sizeof(size_t) == 8, "image layout assumes 64-bit size_t");

const int MAXB = 8;  // box of the property: 0..8 backups
const int MAXD = 20; //                      0..20 dumps
const int NVARIANT = 5;

// ------------------------------------------------------------------ images
const uint64_t MAGIC1 = 0x0043313444554d50ull;
const uint64_t MAGIC2 = 0x00454e4443313421ull;

size_t payload_size(uint64_t s, int variant) {
  // cycles through: nothing, tiny, larger than the stream buffer (so that a
  // crash really leaves a partial file), small, about one buffer
  static const size_t cls[5] = {0, 37, 20000, 300, 9000};
  const size_t base = cls[(s + (uint64_t)variant) % 5];
  return base == 0 ? 0 : base + (size_t)(s % 7);
}

// NUL-free bytes (RestartReader::read<std::string> stops at the first NUL)
std::string payload(uint64_t s, int variant) {
  const size_t n = payload_size(s, variant);
  std::string p(n, ' ');
  for (size_t k = 0; k < n; ++k)
    p[k] = (char)(1 + ((s * 131 + k * 7 + (k >> 8) * 13) % 255));
  return p;
}

uint64_t trailer(uint64_t s) { return MAGIC2 ^ (s * 0x9E3779B97F4A7C15ull); }

void put_raw(std::string &o, const void *p, size_t n) {
  o.append((const char *)p, n);
}
void put64(std::string &o, uint64_t v) { put_raw(o, &v, 8); }

// what a complete dump of state s must look like on disk, written down from
// the documented format of RestartWriter (raw values; string = size + bytes;
// bool = one byte)
std::string image(uint64_t s, int variant) {
  const std::string p = payload(s, variant);
  const std::string a = p.substr(0, p.size() / 2), b = p.substr(p.size() / 2);
  std::string o;
  put64(o, MAGIC1);
  put64(o, s);
  put64(o, a.size());
  o += a;
  put64(o, b.size());
  o += b;
  o.push_back((char)1);
  const double x = 0.5 * (double)s;
  put_raw(o, &x, 8);
  put64(o, trailer(s));
  return o;
}

// state index claimed by the header of a file (0: none)
uint64_t claimed_state(const std::string &c) {
  if (c.size() < 16)
    return 0;
  uint64_t m, s;
  memcpy(&m, c.data(), 8);
  memcpy(&s, c.data() + 8, 8);
  if (m != MAGIC1 || s > 1000000)
    return 0;
  return s;
}

// 0 if c is not a complete image, otherwise the state
uint64_t complete_state(const std::string &c, int variant) {
  const uint64_t s = claimed_state(c);
  if (s == 0)
    return 0;
  return c == image(s, variant) ? s : 0;
}

bool is_prefix(const std::string &c, const std::string &img) {
  return c.size() <= img.size() && memcmp(c.data(), img.data(), c.size()) == 0;
}

std::string describe(const std::string &c, int variant) {
  if (c.empty())
    return "empty file";
  const uint64_t s = claimed_state(c);
  if (s != 0) {
    const std::string img = image(s, variant);
    if (c == img)
      return fmt("complete dump of state %d", (int)s);
    if (is_prefix(c, img))
      return fmt("truncated dump of state %d (%zu of %zu bytes)", (int)s,
                 c.size(), img.size());
    return fmt("inconsistent file claiming state %d (%zu bytes)", (int)s,
               c.size());
  }
  return fmt("unidentifiable file (%zu bytes)", c.size());
}

// ------------------------------------------------------------------ files
void inconclusive(const char *what) {
  fprintf(stderr, "INCONCLUSIVE C14 harness environment: %s (%s)\n", what,
          strerror(errno));
  _exit(2);
}

std::string tmp_root() {
  const char *e = getenv("VERIF_TMP");
  return e ? e : ".";
}

std::string make_dir() {
  static long counter = 0;
  const std::string d =
      fmt("%s/c14-%ld-%ld", tmp_root().c_str(), (long)getpid(), counter++);
  if (mkdir(d.c_str(), 0700) != 0 && errno != EEXIST)
    inconclusive("mkdir");
  return d;
}

std::vector<std::string> list_dir(const std::string &d) {
  std::vector<std::string> v;
  DIR *h = opendir(d.c_str());
  if (!h)
    inconclusive("opendir");
  while (dirent *e = readdir(h)) {
    const std::string n = e->d_name;
    if (n != "." && n != "..")
      v.push_back(n);
  }
  closedir(h);
  std::sort(v.begin(), v.end());
  return v;
}

std::string read_file(const std::string &f) {
  const int fd = open(f.c_str(), O_RDONLY);
  if (fd < 0)
    inconclusive("open for reading");
  std::string c;
  char buf[65536];
  ssize_t n;
  while ((n = read(fd, buf, sizeof buf)) > 0)
    c.append(buf, (size_t)n);
  close(fd);
  return c;
}

void write_file(const std::string &f, const std::string &c) {
  const int fd = open(f.c_str(), O_WRONLY | O_CREAT | O_TRUNC, 0600);
  if (fd < 0)
    inconclusive("open for writing");
  size_t done = 0;
  while (done < c.size()) {
    const ssize_t n = write(fd, c.data() + done, c.size() - done);
    if (n <= 0)
      inconclusive("write");
    done += (size_t)n;
  }
  close(fd);
}

typedef std::map<std::string, std::string> Snap; // file name -> contents

Snap snapshot(const std::string &d) {
  Snap s;
  for (auto &n : list_dir(d))
    s[n] = read_file(d + "/" + n);
  return s;
}

void wipe(const std::string &d) {
  for (auto &n : list_dir(d))
    unlink((d + "/" + n).c_str());
}

void restore(const std::string &d, const Snap &s) {
  wipe(d);
  for (auto &p : s)
    write_file(d + "/" + p.first, p.second);
}

void remove_dir(const std::string &d) {
  wipe(d);
  rmdir(d.c_str());
}

struct DirGuard {
  std::string path;
  DirGuard() : path(make_dir()) {}
  ~DirGuard() { remove_dir(path); }
};

// -1: not a backup name, otherwise the index i of restart.<i>.back
int backup_index(const std::string &n) {
  const std::string pre = "restart.", suf = ".back";
  if (n.size() <= pre.size() + suf.size() || n.compare(0, pre.size(), pre) != 0 ||
      n.compare(n.size() - suf.size(), suf.size(), suf) != 0)
    return -1;
  const std::string mid = n.substr(pre.size(), n.size() - pre.size() - suf.size());
  if (mid.empty() || mid.size() > 6 || (mid.size() > 1 && mid[0] == '0'))
    return -1;
  for (char c : mid)
    if (c < '0' || c > '9')
      return -1;
  return atoi(mid.c_str());
}

std::string backup_name(int i) { return fmt("restart.%d.back", i); }

// ------------------------------------------------------------------ dumping
// crash points, in the order in which exit codes 100+i name them
const char *const POINTS[] = {
    "restart_before_shift", "restart_after_shift", "restart_before_move_current",
    "restart_after_move_current", "restart_before_open", "restart_after_open",
    "payload_0", "payload_half", "payload_full_unflushed", "after_close"};
const int NPOINTS = 10;
const int P_AFTER_CLOSE = 9;

long g_target = -1; // ordinal of the crash point at which the child dies
long g_count = 0;
bool g_armed = false;

void crash_hook(const char *name) {
  if (g_count++ == g_target) {
    for (int i = 0; i < NPOINTS; ++i)
      if (strcmp(name, POINTS[i]) == 0)
        _exit(100 + i);
    _exit(120);
  }
}
void hpoint(const char *name) {
  if (g_armed)
    crash_hook(name);
}

RestartManager *new_manager(const std::string &dir, int b) {
  return new RestartManager(dir, 3600., (uint_fast32_t)b, 1.e9, "");
}

// one complete dump of state s through the real manager and writer, the way
// the simulation does it (get writer, write everything, delete the writer)
void do_dump(RestartManager &m, uint64_t s, int variant) {
  const std::string p = payload(s, variant);
  const std::string a = p.substr(0, p.size() / 2), b = p.substr(p.size() / 2);
  RestartWriter *w = m.get_restart_writer(nullptr);
  hpoint("payload_0");
  w->write(MAGIC1);
  w->write(s);
  w->write(a);
  hpoint("payload_half");
  w->write(b);
  const bool t = true;
  w->write(t);
  const double x = 0.5 * (double)s;
  w->write(x);
  const uint64_t tr = trailer(s);
  w->write(tr);
  hpoint("payload_full_unflushed");
  delete w;
  hpoint("after_close");
}

// run dump s in a forked child that dies at crash point number `ordinal`.
// Returns the index of the crash point (0..NPOINTS-1), -1 if the child
// completed the dump without reaching that ordinal, -2 if the dump aborted
// (cmac_error), -3 for anything else.
int crashing_dump(RestartManager &m, uint64_t s, int variant, long ordinal) {
  fflush(stdout);
  fflush(stderr);
  pid_t pid = -1;
  for (int attempt = 0; attempt < 5 && pid < 0; ++attempt) {
    pid = fork();
    if (pid < 0)
      usleep(20000);
  }
  if (pid < 0)
    inconclusive("fork");
  if (pid == 0) {
    g_armed = true;
    g_target = ordinal;
    g_count = 0;
    cmi_verif_event_hook() = crash_hook;
    int code = 0;
    try {
      do_dump(m, s, variant);
    } catch (const VerifAbort &) {
      code = 78;
    } catch (...) {
      code = 79;
    }
    _exit(code);
  }
  int status = 0;
  while (waitpid(pid, &status, 0) < 0) {
    if (errno != EINTR)
      inconclusive("waitpid");
  }
  if (!WIFEXITED(status))
    return -3;
  const int code = WEXITSTATUS(status);
  if (code == 0)
    return -1;
  if (code == 78)
    return -2;
  if (code >= 100 && code < 100 + NPOINTS)
    return code - 100;
  return -3;
}

// ------------------------------------------------------------------ oracles
// Reference model of the statement: contents after `cur` dumps, b backups.
// Returns "" or a description of the first difference.
std::string check_strong(const std::string &dir, int b, int cur, int variant) {
  std::map<std::string, int> expect;
  if (cur >= 1)
    expect["restart.dump"] = cur;
  for (int i = 0; i < std::min(b, cur - 1); ++i)
    expect[backup_name(i)] = cur - 1 - i;
  const std::vector<std::string> have = list_dir(dir);
  for (auto &n : have)
    if (!expect.count(n))
      return fmt("after dump %d with %d backups: unexpected file %s (%s)", cur, b,
                 n.c_str(), describe(read_file(dir + "/" + n), variant).c_str());
  for (auto &e : expect) {
    if (!std::binary_search(have.begin(), have.end(), e.first))
      return fmt("after dump %d with %d backups: %s is missing (should hold "
                 "state %d)",
                 cur, b, e.first.c_str(), e.second);
    const std::string c = read_file(dir + "/" + e.first);
    if (c != image((uint64_t)e.second, variant))
      return fmt("after dump %d with %d backups: %s should be the complete dump "
                 "of state %d but is: %s",
                 cur, b, e.first.c_str(), e.second, describe(c, variant).c_str());
  }
  return "";
}

// the main dump (already known to be byte-exact) read through the real reader
std::string check_reader(RestartManager &m, int cur, int variant) {
  RestartReader *r = m.get_restart_reader(nullptr);
  const uint64_t m1 = r->read<uint64_t>();
  const uint64_t s = r->read<uint64_t>();
  const std::string a = r->read<std::string>();
  const std::string b = r->read<std::string>();
  const bool t = r->read<bool>();
  const double x = r->read<double>();
  const uint64_t tr = r->read<uint64_t>();
  delete r;
  if (m1 != MAGIC1 || s != (uint64_t)cur || a + b != payload(s, variant) || !t ||
      x != 0.5 * (double)cur || tr != trailer((uint64_t)cur))
    return fmt("RestartReader does not return state %d from restart.dump (index "
               "read: %llu)",
               cur, (unsigned long long)s);
  return "";
}

// Directory after the process died at crash point `point` while taking dump
// cur+1.  demand_prev: a complete image(cur) must still exist.
std::string check_after_crash(const std::string &dir, int b, int cur, int variant,
                              int point, bool demand_prev) {
  const std::string where =
      fmt("crash at %s during dump %d (%d backups)", POINTS[point], cur + 1, b);
  bool prev_found = false;
  std::string inventory;
  const std::vector<std::string> have = list_dir(dir);
  for (auto &n : have) {
    const std::string c = read_file(dir + "/" + n);
    inventory += " " + n + "=[" + describe(c, variant) + "]";
    if ((int)complete_state(c, variant) == cur && cur >= 1)
      prev_found = true;
  }
  for (auto &n : have) {
    const std::string c = read_file(dir + "/" + n);
    if (n == "restart.dump") {
      // absent, still the previous dump, or some prefix of the new one
      if ((int)complete_state(c, variant) == cur && cur >= 1)
        continue;
      if (is_prefix(c, image((uint64_t)cur + 1, variant)))
        continue;
      return where + ": restart.dump is neither the previous dump nor a prefix of "
                     "the new one: " + describe(c, variant);
    }
    const int i = backup_index(n);
    if (i < 0 || i >= b)
      return where + ": unexpected file " + n;
    const uint64_t s = complete_state(c, variant);
    if (s == 0 || (int)s > cur)
      return where + ": backup " + n + " is not a complete earlier dump: " +
             describe(c, variant);
  }
  if (demand_prev && cur >= 1 && !prev_found)
    return where + fmt(": no complete dump of the previous state %d is left on "
                       "disk;",
                       cur) +
           inventory;
  if (point == P_AFTER_CLOSE) {
    // the new dump was closed: it must be complete
    const std::string f = dir + "/restart.dump";
    if (!std::binary_search(have.begin(), have.end(), std::string("restart.dump")) ||
        read_file(f) != image((uint64_t)cur + 1, variant))
      return where + ": the closed dump is not complete;" + inventory;
  }
  return "";
}

// number of crash points of dump cur+1 according to the mechanism described in
// the property (used only to draw ordinals that are reached)
int model_points(int b, int cur) {
  const int shifts = (b >= 1) ? std::min(b - 1, std::max(cur - 1, 0)) : 0;
  return 2 * shifts + ((b >= 1 && cur >= 1) ? 2 : 0) + 2 + 4;
}

void gen_bd(int64_t &b, int64_t &d, int bmin) {
  b = vr::irange(bmin, MAXB);
  switch (vr::weighted({5, 3, 1})) {
  case 0:
    d = vr::irange(0, MAXD);
    break;
  case 1: // around the point where the oldest backup starts to be dropped
    d = std::min<int64_t>(MAXD, b + vr::irange(0, 3));
    break;
  default:
    d = vr::pick(std::vector<int64_t>{0, 1, 2, MAXD});
  }
}

// ------------------------------------------------------------ 1. sequences
VCase gen_sequence() {
  VCase c;
  int64_t b, d;
  gen_bd(b, d, 0);
  c.I("backups", b);
  c.I("dumps", d);
  c.I("variant", vr::irange(0, NVARIANT - 1));
  return c;
}

VResult o_sequence(const VCase &c) {
  VResult r;
  const int b = (int)c.i("backups"), d = (int)c.i("dumps"), v = (int)c.i("variant");
  r.label(b == 0 ? "backups=0" : b == 1 ? "backups=1" : "backups>=2");
  r.label(d == 0 ? "dumps=0" : d == 1 ? "dumps=1" : "dumps>=2");
  if (b >= 1 && d >= b + 2)
    r.label("oldest-backup-dropped");
  if (b >= 2 && d >= 3)
    r.label("multi-backup-shift");
  if (b >= 1 && d == b + 1)
    r.label("backups-exactly-full");
  r.nontrivial = (b >= 1 && d >= 2);
  DirGuard dir;
  RestartManager *m = new_manager(dir.path, b);
  std::string msg = check_strong(dir.path, b, 0, v);
  for (int s = 1; s <= d && msg.empty(); ++s) {
    try {
      do_dump(*m, (uint64_t)s, v);
    } catch (const VerifAbort &e) {
      msg = fmt("dump %d with %d backups aborted: %s", s, b, e.msg.c_str());
      break;
    }
    msg = check_strong(dir.path, b, s, v);
    if (msg.empty())
      msg = check_reader(*m, s, v);
  }
  delete m;
  if (!msg.empty())
    r.fail(msg);
  return r;
}

// ------------------------------------------------------------ 2. one crash
VCase gen_crash() {
  VCase c;
  int64_t b, d;
  gen_bd(b, d, 1);
  c.I("backups", b);
  c.I("dumps_before", d);
  const int n = model_points((int)b, (int)d);
  // mostly a point that exists; sometimes one past the end (dump completes)
  c.I("crash_ordinal", vr::coin(0.03) ? n : vr::irange(0, n - 1));
  c.I("variant", vr::irange(0, NVARIANT - 1));
  return c;
}

VResult o_crash(const VCase &c) {
  VResult r;
  const int b = (int)c.i("backups"), d = (int)c.i("dumps_before"),
            v = (int)c.i("variant");
  const long k = (long)c.i("crash_ordinal");
  DirGuard dir;
  RestartManager *m = new_manager(dir.path, b);
  std::string msg;
  for (int s = 1; s <= d && msg.empty(); ++s) {
    try {
      do_dump(*m, (uint64_t)s, v);
    } catch (const VerifAbort &e) {
      msg = fmt("dump %d with %d backups aborted: %s", s, b, e.msg.c_str());
    }
  }
  if (msg.empty())
    msg = check_strong(dir.path, b, d, v);
  if (msg.empty()) {
    const int point = crashing_dump(*m, (uint64_t)d + 1, v, k);
    if (point == -2)
      msg = fmt("dump %d with %d backups aborted", d + 1, b);
    else if (point == -3)
      msg = fmt("dump %d with %d backups: child ended abnormally", d + 1, b);
    else if (point == -1) {
      r.label("crash-point-not-reached(dump-completed)");
      msg = check_strong(dir.path, b, d + 1, v);
    } else {
      r.label(std::string("crash:") + POINTS[point]);
      if (d == 0)
        r.label("first-dump(no-previous-state)");
      if (payload_size((uint64_t)d + 1, v) >= 9000 && point >= 7 && point <= 8)
        r.label("partial-file-on-disk");
      r.nontrivial = (d >= 1);
      msg = check_after_crash(dir.path, b, d, v, point, true);
    }
  }
  delete m;
  if (!msg.empty())
    r.fail(msg);
  return r;
}

// ------------------------------------------------------------ 3. full sweep
VCase gen_sweep() {
  VCase c;
  c.I("variant", vr::irange(0, NVARIANT - 1));
  return c;
}

VResult o_sweep(const VCase &c) {
  VResult r;
  const int v = (int)c.i("variant");
  long pairs = 0, crash_runs = 0, crash_pairs = 0;
  long per_point[NPOINTS] = {0};
  std::string msg;
  for (int b = 0; b <= MAXB && msg.empty(); ++b) {
    DirGuard dir;
    RestartManager *m = new_manager(dir.path, b);
    for (int d = 0; d <= MAXD && msg.empty(); ++d) {
      // d dumps have been taken
      msg = check_strong(dir.path, b, d, v);
      if (msg.empty() && d >= 1)
        msg = check_reader(*m, d, v);
      if (!msg.empty())
        break;
      ++pairs;
      if (b >= 1) {
        // every crash point of dump d+1
        const Snap snap = snapshot(dir.path);
        ++crash_pairs;
        for (long k = 0; msg.empty(); ++k) {
          if (k > 200) {
            msg = fmt("dump %d with %d backups: more than 200 crash points", d + 1,
                      b);
            break;
          }
          const int point = crashing_dump(*m, (uint64_t)d + 1, v, k);
          if (point == -2)
            msg = fmt("dump %d with %d backups aborted", d + 1, b);
          else if (point == -3)
            msg = fmt("dump %d with %d backups: child ended abnormally", d + 1, b);
          else if (point == -1) {
            msg = check_strong(dir.path, b, d + 1, v);
            restore(dir.path, snap);
            break;
          } else {
            ++crash_runs;
            ++per_point[point];
            msg = check_after_crash(dir.path, b, d, v, point, true);
          }
          restore(dir.path, snap);
        }
      }
      if (msg.empty() && d < MAXD) {
        try {
          do_dump(*m, (uint64_t)d + 1, v);
        } catch (const VerifAbort &e) {
          msg = fmt("dump %d with %d backups aborted: %s", d + 1, b, e.msg.c_str());
        }
      }
    }
    delete m;
  }
  r.nontrivial = true;
  if (!msg.empty()) {
    r.fail(msg);
    return r;
  }
  r.label(fmt("complete-box:(backups,dumps)-pairs=%ld", pairs));
  r.label(fmt("complete-box:(backups>=1,dumps)-pairs-crash-enumerated=%ld",
              crash_pairs));
  r.label(fmt("complete-box:crash-runs=%ld", crash_runs));
  for (int i = 0; i < NPOINTS; ++i)
    r.label(fmt("complete-box:crash-runs-at-%s=%ld", POINTS[i], per_point[i]));
  return r;
}

// ------------------------------------------------------------ 4. process restarts
// dumps_per_process[i] = number of dumps taken by the i-th process; between
// two entries the process ends and a new one (fresh manager, same parameters)
// takes over the directory
VCase gen_restarts() {
  // fixed-position draws first (so that shrinking the history does not
  // re-interpret them), the history last
  const int64_t b = vr::irange(0, MAXB);
  const int64_t variant = vr::irange(0, NVARIANT - 1);
  const bool crash = !vr::coin(0.25);
  const int64_t sel = vr::irange(0, 999);
  const int np_ = (int)vr::irange(1, 6);
  std::vector<int64_t> per;
  int cur = 0;
  for (int i = 0; i < np_; ++i) {
    // mostly short lives (0, 1, 2 dumps are the interesting ones for a
    // takeover), sometimes long enough to fill all backups
    per.push_back(vr::weighted({3, 1}) == 0 ? vr::irange(0, 3) : vr::irange(0, 12));
    cur += (int)per.back();
  }
  VCase c;
  c.I("backups", b);
  c.I("dumps_per_process", per);
  // the dump after the history is crashed at this point (-1: no crash)
  const int np = model_points((int)b, cur);
  c.I("crash_ordinal", crash ? sel * np / 1000 : -1);
  c.I("variant", variant);
  return c;
}

VResult o_restarts(const VCase &c) {
  VResult r;
  const int b = (int)c.i("backups"), v = (int)c.i("variant");
  std::vector<int64_t> ops; // 0 = dump, 1 = new process
  {
    const std::vector<int64_t> &per = c.iv("dumps_per_process");
    for (size_t i = 0; i < per.size(); ++i) {
      if (i > 0)
        ops.push_back(1);
      for (int64_t j = 0; j < per[i]; ++j)
        ops.push_back(0);
    }
  }
  const long k = (long)c.i("crash_ordinal");
  DirGuard dir;
  RestartManager *m = new_manager(dir.path, b);
  int cur = 0, ksince = 0, takeovers = 0, dumps_after_takeover = 0;
  bool taken_over = false; // a manager started over a non-empty directory
  std::string msg;
  for (size_t i = 0; i < ops.size() && msg.empty(); ++i) {
    if (ops[i] == 1) {
      delete m;
      m = new_manager(dir.path, b);
      ksince = 0;
      if (cur >= 1) {
        taken_over = true;
        ++takeovers;
      }
      continue;
    }
    try {
      do_dump(*m, (uint64_t)cur + 1, v);
    } catch (const VerifAbort &e) {
      msg = fmt("dump %d with %d backups aborted: %s", cur + 1, b, e.msg.c_str());
      break;
    }
    ++cur;
    ++ksince;
    if (taken_over)
      ++dumps_after_takeover;
    msg = check_strong(dir.path, b, cur, v);
    if (msg.empty())
      msg = check_reader(*m, cur, v);
  }
  if (msg.empty() && k >= 0 && b >= 1) {
    const int point = crashing_dump(*m, (uint64_t)cur + 1, v, k);
    if (point == -2)
      msg = fmt("dump %d with %d backups aborted", cur + 1, b);
    else if (point == -3)
      msg = fmt("dump %d with %d backups: child ended abnormally", cur + 1, b);
    else if (point == -1) {
      r.label("crash-point-not-reached(dump-completed)");
      msg = check_strong(dir.path, b, cur + 1, v);
    } else {
      r.label(std::string("crash:") + POINTS[point]);
      if (ksince == 0 && cur >= 1)
        r.label("crash-in-first-dump-of-new-process");
      if (cur == 0)
        r.label("crash-in-first-dump-ever(no-previous-state)");
      msg = check_after_crash(dir.path, b, cur, v, point, true);
    }
  }
  delete m;
  r.label(takeovers == 0 ? "no-takeover" : takeovers == 1 ? "one-takeover"
                                                          : "several-takeovers");
  r.nontrivial = (takeovers >= 1 && dumps_after_takeover >= 1 && b >= 1);
  if (r.nontrivial)
    r.label("dumps-after-takeover");
  if (!msg.empty())
    r.fail(msg);
  return r;
}

// ------------------------------------------------------------ 5. takeover keeps last dump
// The statement applied across a process restart (stop file / wall-clock limit
// -> final dump -> resubmission -> new process restarts from restart.dump and
// takes its first dump): the dump the new process started from must survive
// that dump and a crash inside it, and the backups must still be the previous
// states newest first.  (Violated before the repair "new RestartManager over an
// existing directory overwrites the dump it restarted from"; regression cases
// in replays/C14/prefix-F11-*.)
VCase gen_takeover() {
  VCase c;
  const int64_t b = vr::irange(1, MAXB);
  c.I("backups", b);
  c.I("dumps_first_process", vr::weighted({2, 3}) == 0
                                 ? vr::irange(1, 2)
                                 : vr::irange(1, MAXD));
  c.I("dumps_second_process", vr::irange(1, b + 2));
  c.I("crash_ordinal",
      vr::coin(0.3) ? -1
                    : vr::irange(0, model_points((int)b, (int)c.i("dumps_first_process")) - 1));
  c.I("variant", vr::irange(0, NVARIANT - 1));
  return c;
}

VResult o_takeover(const VCase &c) {
  VResult r;
  const int b = (int)c.i("backups"), d1 = (int)c.i("dumps_first_process"),
            d2 = (int)c.i("dumps_second_process"), v = (int)c.i("variant");
  const long k = (long)c.i("crash_ordinal");
  DirGuard dir;
  RestartManager *m = new_manager(dir.path, b);
  std::string msg;
  for (int s = 1; s <= d1 && msg.empty(); ++s) {
    try {
      do_dump(*m, (uint64_t)s, v);
    } catch (const VerifAbort &e) {
      msg = fmt("dump %d with %d backups aborted: %s", s, b, e.msg.c_str());
      break;
    }
    msg = check_strong(dir.path, b, s, v);
  }
  delete m;
  m = new_manager(dir.path, b); // the resubmitted process
  r.nontrivial = true;
  r.label(d1 == 1 ? "only-one-dump-before-restart" : "several-dumps-before-restart");
  if (msg.empty() && k >= 0) {
    const Snap snap = snapshot(dir.path);
    const int point = crashing_dump(*m, (uint64_t)d1 + 1, v, k);
    if (point == -2)
      msg = fmt("dump %d with %d backups aborted", d1 + 1, b);
    else if (point == -3)
      msg = fmt("dump %d with %d backups: child ended abnormally", d1 + 1, b);
    else if (point >= 0) {
      r.label(std::string("crash:") + POINTS[point]);
      msg = check_after_crash(dir.path, b, d1, v, point, true);
      if (!msg.empty())
        msg = "first dump of a new process over an existing directory: " + msg;
    }
    restore(dir.path, snap);
  } else
    r.label("no-crash");
  for (int s = d1 + 1; s <= d1 + d2 && msg.empty(); ++s) {
    try {
      do_dump(*m, (uint64_t)s, v);
    } catch (const VerifAbort &e) {
      msg = fmt("dump %d with %d backups aborted: %s", s, b, e.msg.c_str());
      break;
    }
    msg = check_strong(dir.path, b, s, v);
    if (!msg.empty())
      msg = fmt("new process took over after dump %d: ", d1) + msg;
  }
  delete m;
  if (!msg.empty())
    r.fail(msg);
  return r;
}

} // namespace

int main(int argc, char **argv) {
  std::vector<VProp> props;
  props.push_back(
      {"rotation_sequence", 1600, gen_sequence, o_sequence,
       "backups 0..8 x dumps 0..20 (drawn from the finite box, weight on dumps "
       "= backups..backups+3) x 5 payload-size patterns; the directory is "
       "compared with the reference model after EVERY dump of the history "
       "(names and byte-exact contents; restart.dump also through the real "
       "RestartReader). Non-trivial: backups>=1 and dumps>=2 (a rotation "
       "happened).",
       {{"oldest-backup-dropped", 0.15}, {"multi-backup-shift", 0.3},
        {"backups=0", 0.03}, {"backups=1", 0.03}}});
  props.push_back(
      {"crash_point", 4800, gen_crash, o_crash,
       "backups 1..8 x dumps before 0..20 x crash-point ordinal of the next "
       "dump x 5 payload-size patterns; the next dump runs in a forked child "
       "that _exit()s at that point. Non-trivial: a previous state existed and "
       "the child really died at the point (exit status names the point).",
       {{"crash:restart_before_shift", 0.05},
        {"crash:restart_after_shift", 0.05},
        {"crash:restart_before_move_current", 0.03},
        {"crash:restart_after_move_current", 0.03},
        {"crash:restart_before_open", 0.03},
        {"crash:restart_after_open", 0.03},
        {"crash:payload_half", 0.03},
        {"crash:after_close", 0.03},
        {"partial-file-on-disk", 0.02}}});
  props.push_back(
      {"exhaustive_box", 16, gen_sweep, o_sweep,
       "ONE case = the complete box: for backups 0..8 a history of 20 dumps "
       "with the model compared after each of the dumps 0..20 (189 "
       "(backups,dumps) pairs), and for every pair with backups>=1 the next "
       "dump crashed at EVERY crash point in turn (ordinals 0,1,2,... until the "
       "child completes the dump): each cmi_verif_event in "
       "get_restart_writer (before/after every shift rename, before/after "
       "moving the current dump, before/after the truncating open) and the "
       "harness points payload 0% / 50% / 100% unflushed / after close. The "
       "case field only selects the payload-size pattern. Counts are in the "
       "labels.",
       {}});
  props.push_back(
      {"restart_histories", 4000, gen_restarts, o_restarts,
       "backups 0..8, 1..6 successive processes with 0..12 dumps each (between "
       "them the process ends and a fresh manager with the same parameters "
       "takes over the directory, as a resubmitted run does; the last process "
       "may have taken no dump yet), the full model compared after every dump, then "
       "optionally one more dump crashed at a drawn ordinal (previous state "
       "must stay complete on disk, also when it is the first dump of a new "
       "process). Non-trivial: backups>=1 and at least one dump after a "
       "takeover of a non-empty directory.",
       {{"dumps-after-takeover", 0.3}}});
  props.push_back(
      {"new_process_keeps_last_dump", 800, gen_takeover, o_takeover,
       "backups 1..8, d1 in 1..20 dumps by a first process (weight on 1..2), a "
       "fresh manager over the same directory, optionally its first dump "
       "crashed at any of its crash points, then 1..backups+2 dumps compared with the full "
       "model: the dump the new process started from must survive. All cases "
       "non-trivial.",
       {{"only-one-dump-before-restart", 0.08}}});
  return vr::vmain(argc, argv, "C14", props);
}
