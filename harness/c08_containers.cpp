// C08 - shared scheduler containers never give one slot or task to two owners.
//
// A generated case = per-logical-thread operation programs + a choice vector.
// The programs run on the REAL containers (ThreadSafeVector, MemorySpace,
// TaskQueue, Task, Scheduler, ThreadLock, AtomicValue, LockFree) under a
// deterministic scheduler that switches threads only at the yield hook compiled
// into every AtomicValue/LockFree operation (guard CMI_VERIF): the interleaving
// is a pure function of (programs, choices), so it shrinks and replays.
//
// Oracle: a sequential OWNERSHIP MODEL that is updated only from returned
// values.  A release is entered in the model BEFORE the real call starts and an
// acquisition AFTER the real call returned, so the model's "held" interval is
// contained in the real one: a slot / task / lock that is returned while the
// model still says "held" was given to two owners.  Operations that ran SOLO
// (every other logical thread parked between two operations for the whole
// duration of the call) must obey the sequential specification exactly
// (occupancy count, refusal iff full, a task is handed out iff one is
// eligible, counter values).  After the run the main thread checks the
// quiescent state: occupancy == |held|, a fill-to-capacity probe obtains
// exactly the free slots, a final drain hands out every queued task exactly
// once, no lock is left behind.
//
// Engines: 0 = fibers (harness/common/c08_fiber.hpp, same scheduling rule as
// baton.hpp, ~100x cheaper), 1 = baton.hpp (real std::threads handing over a
// baton), 2 = real unsynchronised threads with seeded jitter (sampled
// schedules, reported separately, sub-checks real_threads_*).
#include "AtomicValue.hpp"
#include "LockFree.hpp"
#include "MemorySpace.hpp"
#include "Scheduler.hpp"
#include "Task.hpp"
#include "TaskQueue.hpp"
#include "ThreadLock.hpp"
#include "ThreadSafeVector.hpp"

#include "baton.hpp"
#include "c08_fiber.hpp"
#include "verif_rc.hpp"

#include <atomic>
#include <fcntl.h>
#include <memory>
#include <mutex>
#include <omp.h>
#include <signal.h>
#include <thread>
#include <unistd.h>

using vr::VCase;
using vr::VProp;
using vr::VResult;
using vr::fmt;

namespace {

// ================================================================== crash net
// A broken container can corrupt memory before the ownership model notices
// (e.g. a queue whose lock admits two holders underflows its size).  A fatal
// signal inside an oracle is therefore turned into a reported failure of the
// current case: the (unshrunk) case is written without using the heap, a
// partial evidence file naming it is written, and the process exits 1.  In
// --replay mode the crash is reported as REPLAY-FAIL.
bool g_replay = false;

size_t put_s(char *b, size_t pos, size_t cap, const char *t) {
  while (*t && pos + 1 < cap)
    b[pos++] = *t++;
  return pos;
}
size_t put_i(char *b, size_t pos, size_t cap, long long v) {
  char tmp[24];
  int n = 0;
  unsigned long long u = v < 0 ? (unsigned long long)(-(v + 1)) + 1 : (unsigned long long)v;
  do {
    tmp[n++] = (char)('0' + u % 10);
    u /= 10;
  } while (u);
  if (v < 0 && pos + 1 < cap)
    b[pos++] = '-';
  while (n > 0 && pos + 1 < cap)
    b[pos++] = tmp[--n];
  return pos;
}

// rendered copy of the current case in static storage (the heap - including the
// VCase itself - may be overwritten by the time the handler runs)
char g_text[1 << 17];
size_t g_text_len = 0;
char g_prop[96];
unsigned long long g_hash = 0;
bool g_in_case = false;

void render_case(const VCase &c) {
  size_t n = put_s(g_text, 0, sizeof g_text, "prop ");
  n = put_s(g_text, n, sizeof g_text, c.prop.c_str());
  n = put_s(g_text, n, sizeof g_text, "\n");
  for (auto &f : c.ii) {
    n = put_s(g_text, n, sizeof g_text, "i ");
    n = put_s(g_text, n, sizeof g_text, f.first.c_str());
    n = put_s(g_text, n, sizeof g_text, " ");
    n = put_i(g_text, n, sizeof g_text, (long long)f.second.size());
    for (auto v : f.second) {
      n = put_s(g_text, n, sizeof g_text, " ");
      n = put_i(g_text, n, sizeof g_text, v);
    }
    n = put_s(g_text, n, sizeof g_text, "\n");
  }
  g_text_len = n;
  const size_t m = put_s(g_prop, 0, sizeof g_prop, c.prop.c_str());
  g_prop[m] = 0;
  g_hash = c.hash();
}

// failures that the oracles of this process already reported (vmain writes the
// last failing case of a sub-check to <faildir>/C08-<prop>-<hash as %016x>.case)
struct PriorFail {
  char prop[96];
  unsigned long long hash;
  char msg[512];
};
PriorFail g_prior[8];
int g_nprior = 0;

void remember_failure(const VCase &c, const std::string &msg) {
  int k = -1;
  for (int i = 0; i < g_nprior; ++i)
    if (c.prop == g_prior[i].prop)
      k = i;
  if (k < 0 && g_nprior < 8)
    k = g_nprior++;
  if (k < 0)
    return;
  snprintf(g_prior[k].prop, sizeof g_prior[k].prop, "%s", c.prop.c_str());
  g_prior[k].hash = c.hash();
  size_t m = 0;
  for (char ch : msg) {
    if (m + 1 >= sizeof g_prior[k].msg)
      break;
    g_prior[k].msg[m++] = (ch == '"' || ch == '\\' || (unsigned char)ch < 0x20) ? ' ' : ch;
  }
  g_prior[k].msg[m] = 0;
}

size_t put_hex16(char *b, size_t pos, size_t cap, unsigned long long v) {
  for (int k = 15; k >= 0 && pos + 1 < cap; --k)
    b[pos++] = "0123456789abcdef"[(v >> (4 * k)) & 15];
  return pos;
}

std::atomic<int> g_crashing{0};
thread_local int tl_in_handler = 0;

void crash_handler(int sig) {
  static char buf[1 << 14];
  static char path[1024];
  if (tl_in_handler)
    _exit(71); // fault inside the handler itself
  tl_in_handler = 1;
  if (g_crashing.exchange(1)) {
    // another thread is already reporting: wait for its _exit
    for (;;)
      pause();
  }
  const char *what = sig == SIGSEGV ? "SIGSEGV" : sig == SIGBUS ? "SIGBUS"
                     : sig == SIGABRT ? "SIGABRT" : sig == SIGFPE ? "SIGFPE" : "signal";
  if (g_replay || !g_in_case) {
    size_t n = put_s(buf, 0, sizeof buf, g_in_case ? "REPLAY-FAIL crash: fatal " : "CRASH outside an oracle: fatal ");
    n = put_s(buf, n, sizeof buf, what);
    n = put_s(buf, n, sizeof buf, " inside the container code under this schedule (memory corrupted by a double hand-out?)\n");
    (void)!write(1, buf, n);
    _exit(g_in_case ? 1 : 70);
  }
  const char *fd = getenv("VERIF_FAILDIR");
  size_t m = put_s(path, 0, sizeof path, fd ? fd : ".");
  m = put_s(path, m, sizeof path, "/C08-");
  m = put_s(path, m, sizeof path, g_prop);
  m = put_s(path, m, sizeof path, "-crash-");
  m = put_i(path, m, sizeof path, (long long)(g_hash >> 1));
  m = put_s(path, m, sizeof path, ".case");
  path[m] = 0;
  int f = open(path, O_WRONLY | O_CREAT | O_TRUNC, 0644);
  if (f >= 0) {
    (void)!write(f, g_text, g_text_len);
    size_t n = put_s(buf, 0, sizeof buf, "# fatal ");
    n = put_s(buf, n, sizeof buf, what);
    n = put_s(buf, n, sizeof buf, " inside the container code (case not shrunk)\n");
    (void)!write(f, buf, n);
    close(f);
  }
  size_t n = put_s(buf, 0, sizeof buf, "FAILCASE ");
  n = put_s(buf, n, sizeof buf, g_prop);
  n = put_s(buf, n, sizeof buf, " ");
  n = put_s(buf, n, sizeof buf, path);
  n = put_s(buf, n, sizeof buf, "\n");
  (void)!write(1, buf, n);
  if (const char *out = getenv("VERIF_OUT")) {
    n = put_s(buf, 0, sizeof buf, "{\"property_id\":\"C08\",\"props\":{\"");
    n = put_s(buf, n, sizeof buf, g_prop);
    n = put_s(buf, n, sizeof buf, "\":{\"evaluations\":1,\"nontrivial\":0,\"distinct_nontrivial\":0,"
              "\"known_excluded\":0,\"wall_s\":0,\"failed\":true,\"fail_msg\":\"fatal ");
    n = put_s(buf, n, sizeof buf, what);
    n = put_s(buf, n, sizeof buf, " inside the container code under a generated schedule (case not shrunk; "
              "evidence of the other sub-checks of this shard is lost)\",\"fail_file\":\"");
    n = put_s(buf, n, sizeof buf, path);
    n = put_s(buf, n, sizeof buf, "\",\"rule\":\"\",\"labels\":{},\"starved\":[],\"samples\":[],"
              "\"distinct_hashes\":[]}");
    for (int i = 0; i < g_nprior; ++i) {
      bool same = true;
      for (size_t k = 0; g_prior[i].prop[k] || g_prop[k]; ++k)
        if (g_prior[i].prop[k] != g_prop[k]) {
          same = false;
          break;
        }
      if (same)
        continue;
      n = put_s(buf, n, sizeof buf, ",\"");
      n = put_s(buf, n, sizeof buf, g_prior[i].prop);
      n = put_s(buf, n, sizeof buf, "\":{\"evaluations\":1,\"nontrivial\":0,\"distinct_nontrivial\":0,"
                "\"known_excluded\":0,\"wall_s\":0,\"failed\":true,\"fail_msg\":\"");
      n = put_s(buf, n, sizeof buf, g_prior[i].msg);
      n = put_s(buf, n, sizeof buf, "\",\"fail_file\":\"");
      n = put_s(buf, n, sizeof buf, fd ? fd : ".");
      n = put_s(buf, n, sizeof buf, "/C08-");
      n = put_s(buf, n, sizeof buf, g_prior[i].prop);
      n = put_s(buf, n, sizeof buf, "-");
      n = put_hex16(buf, n, sizeof buf, g_prior[i].hash);
      n = put_s(buf, n, sizeof buf, ".case\",\"rule\":\"\",\"labels\":{},\"starved\":[],\"samples\":[],"
                "\"distinct_hashes\":[]}");
    }
    n = put_s(buf, n, sizeof buf, "}}\n");
    f = open(out, O_WRONLY | O_CREAT | O_TRUNC, 0644);
    if (f >= 0) {
      (void)!write(f, buf, n);
      close(f);
    }
  }
  _exit(1);
}

void install_crash_net() {
  static char altstack[1 << 16];
  stack_t ss;
  ss.ss_sp = altstack;
  ss.ss_size = sizeof altstack;
  ss.ss_flags = 0;
  sigaltstack(&ss, nullptr);
  struct sigaction sa;
  memset(&sa, 0, sizeof sa);
  sa.sa_handler = crash_handler;
  sa.sa_flags = SA_ONSTACK | SA_NODEFER;
  sigemptyset(&sa.sa_mask);
  sigaction(SIGSEGV, &sa, nullptr);
  sigaction(SIGBUS, &sa, nullptr);
  sigaction(SIGABRT, &sa, nullptr);
  sigaction(SIGFPE, &sa, nullptr);
}

struct CaseScope {
  CaseScope(const VCase &c) {
    render_case(c);
    g_in_case = true;
  }
  ~CaseScope() { g_in_case = false; }
};

// ===================================================================== engine
enum { ENG_FIBER = 0, ENG_THREAD = 1, ENG_FREE = 2 };

struct Stop {};      // this logical thread stops: a violation was recorded
struct FreeAbort {}; // real-thread mode: unwind out of a (spinning) operation

struct Run {
  int engine = ENG_FIBER, nth = 0;
  fbaton::Scheduler *fs = nullptr;
  baton::Scheduler *bs = nullptr;
  std::vector<uint64_t> ycount, op_y0, nops;
  std::vector<char> in_op;
  uint64_t epoch = 0, midop = 0, solo_ops = 0, yields = 0, switches = 0;
  std::atomic<bool> failed{false};
  std::string msg;
  std::mutex m;
  bool budget_hit = false;
  uint64_t free_yield_limit = 3000000;
  std::vector<int64_t> trace; // (thread, value) pairs in global order

  void init(int eng, int n) {
    engine = eng;
    nth = n;
    ycount.assign(n, 0);
    op_y0.assign(n, 0);
    nops.assign(n, 0);
    in_op.assign(n, 0);
    epoch = midop = solo_ops = yields = switches = 0;
    failed = false;
    msg.clear();
    budget_hit = false;
    trace.clear();
  }
  // record a violation (first one wins) without unwinding
  void note(const std::string &s) {
    std::lock_guard<std::mutex> g(m);
    if (!failed) {
      msg = s;
      failed = true;
    }
  }
  // record a violation and stop the calling logical thread
  void fail(const std::string &s) {
    note(s);
    throw Stop();
  }
  void tr(int t, int64_t v) {
    if (engine != ENG_FREE) {
      trace.push_back(t);
      trace.push_back(v);
    }
  }
  uint64_t total_ops() const {
    uint64_t s = 0;
    for (auto x : nops)
      s += x;
    return s;
  }
};

Run *G = nullptr;
thread_local int tl_id = -1;

// the yield hook: counts the yields of the calling logical thread and notes a
// hand-over that happens at the 2nd or a later yield of one container call
// (= strictly between the first and the last atomic operation of that call)
void c08_hook() {
  Run *R = G;
  if (R == nullptr)
    return;
  if (R->engine == ENG_FIBER) {
    fbaton::Scheduler *s = R->fs;
    const int me = s->current();
    if (me < 0)
      return;
    ++R->ycount[me];
    const uint64_t before = s->switches;
    s->yield();
    if (s->switches != before && R->in_op[me] &&
        R->ycount[me] - R->op_y0[me] >= 2)
      ++R->midop;
  } else if (R->engine == ENG_THREAD) {
    baton::Scheduler *s = R->bs;
    const int me = baton::my_id();
    if (me < 0)
      return;
    ++R->ycount[me];
    const uint64_t before = s->switches;
    s->yield();
    if (s->switches != before && R->in_op[me] &&
        R->ycount[me] - R->op_y0[me] >= 2)
      ++R->midop;
  } else {
    const int me = tl_id;
    if (me < 0)
      return;
    if (R->failed.load())
      throw FreeAbort();
    if (++R->ycount[me] > R->free_yield_limit) {
      R->budget_hit = true;
      R->note("bounded termination: a real thread did not finish its program "
              "within the yield budget");
      throw FreeAbort();
    }
    cmi_verif_jitter();
  }
}

inline void pause_between_ops() { c08_hook(); }

// the quiescent checks run on the main thread; a container that is corrupt may
// spin there for ever: bound it
uint64_t epi_count = 0;
void epi_hook() {
  if (++epi_count > 2000000)
    throw FreeAbort();
}
struct EpiGuard {
  EpiGuard() {
    epi_count = 0;
    cmi_verif_yield_hook() = &epi_hook;
  }
  ~EpiGuard() { cmi_verif_yield_hook() = nullptr; }
};

// one container call of one logical thread
struct Op {
  Run &R;
  int t;
  bool solo0 = false;
  uint64_t ep = 0;
  Op(Run &r, int tt) : R(r), t(tt) {
    ++R.nops[t];
    if (R.engine != ENG_FREE) {
      ++R.epoch;
      ep = R.epoch;
      solo0 = true;
      for (int i = 0; i < R.nth; ++i)
        if (i != t && R.in_op[i])
          solo0 = false;
      R.in_op[t] = 1;
      R.op_y0[t] = R.ycount[t];
    }
  }
  // true if no other logical thread was inside an operation at any time since
  // this operation began
  bool solo() const {
    return R.engine != ENG_FREE && solo0 && R.epoch == ep;
  }
  ~Op() {
    if (R.engine != ENG_FREE)
      R.in_op[t] = 0;
  }
};

template <class Body>
std::function<void()> make_prog(Run &R, int t, Body body) {
  return [&R, t, body]() {
    tl_id = t;
    if (R.engine != ENG_FREE)
      cmi_verif_yield_hook() = &c08_hook; // wrap the scheduler's own hook
    try {
      body(t);
    } catch (const Stop &) {
    } catch (const FreeAbort &) {
    } catch (const VerifAbort &e) {
      R.note("unexpected abort inside a container call: " + e.msg);
    }
    tl_id = -1;
  };
}

bool run_engine(Run &R, const std::vector<std::function<void()>> &progs,
                const std::vector<int> &choices, uint64_t maxy) {
  G = &R;
  bool ok = true;
  if (R.engine == ENG_FIBER) {
    static fbaton::Scheduler S;
    R.fs = &S;
    ok = S.run(progs, choices, maxy);
    R.yields = S.yields;
    R.switches = S.switches;
    if (S.foreign_exception)
      R.note("harness error: foreign exception in a fiber");
  } else if (R.engine == ENG_THREAD) {
    baton::Scheduler S;
    R.bs = &S;
    ok = S.run(progs, choices, maxy);
    R.yields = S.yields;
    R.switches = S.switches;
  } else {
    cmi_verif_yield_hook() = &c08_hook;
    std::vector<std::thread> th;
    for (size_t i = 0; i < progs.size(); ++i)
      th.emplace_back(progs[i]);
    for (auto &x : th)
      x.join();
    cmi_verif_yield_hook() = nullptr;
    ok = !R.budget_hit;
  }
  cmi_verif_yield_hook() = nullptr;
  G = nullptr;
  if (!ok)
    R.budget_hit = true;
  return ok;
}

// ================================================================= generators
std::vector<int64_t> gen_choices(int nth, int maxlen) {
  std::vector<int64_t> v;
  const int mode = vr::weighted({3, 4, 2, 1});
  // 0: independent uniform choices  1: runs (one thread keeps the baton for a
  // while)  2: a short prefix, then round-robin at every yield  3: empty
  int len = 0;
  if (mode == 0 || mode == 1)
    len = (int)vr::irange(1, maxlen);
  else if (mode == 2)
    len = (int)vr::irange(1, 12);
  static const std::vector<int> runs = {1, 1, 1, 2, 2, 3, 4, 6, 9, 14, 25, 40};
  while ((int)v.size() < len) {
    const int64_t who = vr::irange(0, nth - 1);
    int r = 1;
    if (mode == 1)
      r = vr::pick(runs);
    for (int k = 0; k < r && (int)v.size() < len; ++k)
      v.push_back(who);
  }
  return v;
}

std::vector<int> to_int(const std::vector<int64_t> &v) {
  return std::vector<int>(v.begin(), v.end());
}

// quotas q_t >= 0 with sum <= size; at least two threads get something when
// size >= 2
std::vector<int64_t> gen_quota(int nth, int size) {
  std::vector<int64_t> q(nth, 0);
  int left = size;
  if (vr::coin(0.25)) { // leave part of the pool unused
    left = (int)vr::irange(1, size);
  }
  // deal the units out
  const int start = (int)vr::irange(0, nth - 1);
  if (left >= 2) {
    q[start] += 1;
    q[(start + 1) % nth] += 1;
    left -= 2;
  }
  const bool skew = vr::coin(0.3);
  while (left > 0) {
    const int t = skew ? start : (int)vr::irange(0, nth - 1);
    q[t] += 1;
    --left;
  }
  return q;
}

std::string pname(const char *base, int t) { return fmt("%s%d", base, t); }

// ============================================================== 1. slot pool
// ThreadSafeVector<int>: get_free_element / get_free_element_safe /
// free_element / get_number_of_active_elements
enum { P_GET = 0, P_GETSAFE, P_FREE, P_COUNT, P_OVER, P_NOPS };

struct PoolSim {
  Run R;
  int nth, size;
  std::vector<int> quota;
  bool with_over, drain;
  std::vector<std::vector<int64_t>> prog;
  std::unique_ptr<ThreadSafeVector<int>> vec;
  std::unique_ptr<std::atomic<int>[]> owner;
  std::vector<std::vector<std::pair<size_t, int>>> held; // (slot, token)
  std::vector<int> seq;
  // occupancy model (deterministic engines only)
  int H = 0, F = 0, Gn = 0;
  std::vector<char> in_get;
  std::vector<int> occmax;
  int over_busy = 0;
  // statistics
  bool reached_capacity = false;
  std::atomic<uint64_t> gets{0}, refusals{0}, solo_checks{0}, over_tried{0},
      over_got{0}, skipped{0};

  PoolSim(const VCase &c, int engine) {
    nth = (int)c.i("nth");
    size = (int)c.i("size");
    for (auto q : c.iv("quota"))
      quota.push_back((int)q);
    with_over = c.i("with_over") != 0;
    drain = with_over || c.i("drain") != 0;
    for (int t = 0; t < nth; ++t)
      prog.push_back(c.iv(pname("p", t)));
    R.init(engine, nth);
    vec.reset(new ThreadSafeVector<int>(size, "c08"));
    owner.reset(new std::atomic<int>[size]);
    for (int i = 0; i < size; ++i)
      owner[i] = -1;
    held.resize(nth);
    seq.assign(nth, 0);
    in_get.assign(nth, 0);
    occmax.assign(nth, 0);
  }

  bool det() const { return R.engine != ENG_FREE; }

  void occ_changed() {
    const int occ = H + F + Gn;
    for (int t = 0; t < nth; ++t)
      if (in_get[t])
        occmax[t] = std::max(occmax[t], occ - 1);
  }

  void acquire(int t, bool safe, bool over) {
    size_t idx;
    bool solo;
    int occ_seen = 0;
    {
      Op o(R, t);
      if (det()) {
        ++Gn;
        in_get[t] = 1;
        occmax[t] = H + F + Gn - 1;
        occ_changed();
      }
      idx = safe ? vec->get_free_element_safe() : vec->get_free_element();
      solo = o.solo();
      if (det()) {
        --Gn;
        in_get[t] = 0;
        occ_seen = occmax[t];
      }
      R.tr(t, (int64_t)idx);
      if (idx > (size_t)size || (!safe && idx == (size_t)size))
        R.fail(fmt("thread %d: %s returned index %zu outside the pool of size "
                   "%d", t, safe ? "get_free_element_safe" : "get_free_element",
                   idx, size));
      if (idx == (size_t)size) {
        // refusal: the count that was read can only have been >= size if
        // held + releases in progress + other acquisitions in progress reached
        // the capacity at some moment during the call
        ++refusals;
        if (!det())
          R.fail(fmt("thread %d: get_free_element_safe refused although the "
                     "quotas keep at least one slot of %d free for this "
                     "requester", t, size));
        if (occ_seen < size)
          R.fail(fmt("thread %d: get_free_element_safe refused although at "
                     "most %d of %d slots were held or in transit during the "
                     "call (a free slot was not available to its only "
                     "requester)", t, occ_seen, size));
        if (solo)
          ++solo_checks;
        return;
      }
      if (solo && det() && H >= size)
        R.fail(fmt("thread %d: a slot (%zu) was handed out although all %d "
                   "slots are held", t, idx, size));
      const int prev = owner[idx].exchange(t);
      if (prev != -1)
        R.fail(fmt("slot %zu handed to thread %d while thread %d still holds "
                   "it (pool size %d)", idx, t, prev, size));
      const int token = t * 100000 + (++seq[t]);
      (*vec)[idx] = token;
      held[t].emplace_back(idx, token);
      ++gets;
      if (det()) {
        ++H;
        occ_changed();
        if (H >= size)
          reached_capacity = true;
      }
      if (solo)
        ++solo_checks;
    }
    (void)over;
  }

  void release(int t, size_t j) {
    Op o(R, t);
    const size_t idx = held[t][j].first;
    const int token = held[t][j].second;
    held[t].erase(held[t].begin() + j);
    if ((*vec)[idx] != token)
      R.fail(fmt("slot %zu held by thread %d was overwritten (%d instead of "
                 "%d): two owners", idx, t, (*vec)[idx], token));
    if (det()) {
      --H;
      ++F;
    }
    const int prev = owner[idx].exchange(-1);
    if (prev != t)
      R.fail(fmt("slot %zu: model owner %d, releasing thread %d", idx, prev, t));
    vec->free_element(idx);
    R.tr(t, -(int64_t)idx - 1);
    if (det())
      --F;
  }

  void count(int t) {
    Op o(R, t);
    const int h0 = H;
    const size_t n = vec->get_number_of_active_elements();
    R.tr(t, 1000 + (int64_t)n);
    if (o.solo()) {
      ++solo_checks;
      if ((int)n != h0)
        R.fail(fmt("no operation in progress: occupancy count %zu but %d slots "
                   "are held", n, h0));
    }
  }

  void step(int t, int op, int64_t a) {
    switch (op) {
    case P_GET:
    case P_GETSAFE:
      if ((int)held[t].size() < quota[t])
        acquire(t, op == P_GETSAFE, false);
      else
        ++skipped;
      break;
    case P_FREE:
      if (!held[t].empty())
        release(t, (size_t)(a % (int64_t)held[t].size()));
      else
        ++skipped;
      break;
    case P_COUNT:
      count(t);
      break;
    case P_OVER:
      // a request beyond the quota: at most one in flight, the slot (if any)
      // is given back at once.  Only the refusing variant may be used here.
      if (with_over && det() && over_busy == 0) {
        over_busy = 1;
        ++over_tried;
        const size_t before = held[t].size();
        acquire(t, true, true);
        if (held[t].size() > before) {
          ++over_got;
          pause_between_ops();
          release(t, held[t].size() - 1);
        }
        over_busy = 0;
      } else
        ++skipped;
      break;
    }
  }

  void body(int t) {
    const auto &p = prog[t];
    for (size_t k = 0; k + 1 < p.size(); k += 2) {
      if (R.failed)
        return;
      pause_between_ops();
      step(t, (int)p[k], p[k + 1]);
    }
    if (drain) {
      while (!held[t].empty()) {
        if (R.failed)
          return;
        pause_between_ops();
        release(t, 0);
      }
    }
  }

  // quiescent state after the run (main thread)
  void epilogue() {
    if (R.failed)
      return;
    EpiGuard guard;
    try {
      epilogue_checks();
    } catch (const FreeAbort &) {
      R.note("quiescent probe: a request for a slot that the model says is "
             "free does not return (the pool lost a slot)");
    }
  }
  void epilogue_checks() {
    size_t hf = 0;
    std::vector<char> is_held(size, 0);
    for (int t = 0; t < nth; ++t) {
      hf += held[t].size();
      for (auto &h : held[t]) {
        is_held[h.first] = 1;
        if ((*vec)[h.first] != h.second)
          return R.note(fmt("slot %zu held by thread %d was overwritten",
                            h.first, t));
      }
    }
    const size_t n = vec->get_number_of_active_elements();
    if (n != hf)
      return R.note(fmt("quiescent: occupancy count %zu but %zu slots are held",
                        n, hf));
    // fill-to-capacity probe: exactly the free slots, each once, then refusal
    std::vector<size_t> got;
    for (int k = 0; k < size + 2; ++k) {
      if (got.size() + hf == (size_t)size) {
        // full by the model: the refusing variant must refuse (the other one
        // would spin)
        const size_t r = vec->get_free_element_safe();
        if (r != (size_t)size)
          return R.note(fmt("quiescent probe: pool of %d is full (%zu held + "
                            "%zu probed) but slot %zu was handed out", size, hf,
                            got.size(), r));
        break;
      }
      const size_t r = (k % 2) ? vec->get_free_element_safe()
                               : vec->get_free_element();
      if (r >= (size_t)size)
        return R.note(fmt("quiescent probe: %zu of %d slots held, request "
                          "refused / out of range (%zu): a released slot did "
                          "not become available again", hf + got.size(), size,
                          r));
      if (is_held[r])
        return R.note(fmt("quiescent probe: slot %zu handed out twice", r));
      is_held[r] = 1;
      got.push_back(r);
    }
    if (vec->get_number_of_active_elements() != (size_t)size)
      return R.note("quiescent probe: count != size after filling");
    for (size_t r : got)
      vec->free_element(r);
    if (vec->get_number_of_active_elements() != hf)
      return R.note("quiescent probe: count wrong after releasing the probe");
  }

  void run(const std::vector<int> &choices) {
    std::vector<std::function<void()>> progs;
    for (int t = 0; t < nth; ++t)
      progs.push_back(make_prog(R, t, [this](int tt) { body(tt); }));
    uint64_t nops = 0;
    for (auto &p : prog)
      nops += p.size() / 2;
    const uint64_t maxy = choices.size() + 4000 * (nops + 4 * nth) + 20000;
    const bool ok = run_engine(R, progs, choices, maxy);
    if (!ok && !R.failed)
      R.note(fmt("bounded termination: more than %llu yields for %llu "
                 "operations (demand never exceeded the capacity)",
                 (unsigned long long)maxy, (unsigned long long)nops));
    if (ok)
      epilogue();
  }
};

VCase gen_pool_case(int max_threads, int max_ops) {
  VCase c;
  const int nth = (int)vr::irange(2, max_threads);
  const int size = vr::coin(0.2) ? (int)vr::irange(1, 2) : (int)vr::irange(1, 8);
  c.I("nth", nth);
  c.I("size", size);
  c.I("quota", gen_quota(nth, size));
  const bool with_over = vr::coin(0.35);
  c.I("with_over", with_over);
  c.I("drain", vr::coin(0.4));
  const int style = vr::weighted({5, 3, 2});
  // 0: balanced  1: acquire-heavy (fills up)  2: churn (get/free pairs)
  for (int t = 0; t < nth; ++t) {
    const int n = (int)vr::irange(1, max_ops);
    std::vector<int64_t> p;
    for (int k = 0; k < n; ++k) {
      int op;
      if (style == 0)
        op = vr::weighted({4, 4, 5, 2, with_over ? 2 : 0});
      else if (style == 1)
        op = vr::weighted({5, 5, 2, 1, with_over ? 3 : 0});
      else
        op = (k % 2 == 0) ? vr::weighted({1, 1, 0, 0, 0})
                          : vr::weighted({0, 0, 6, 1, with_over ? 1 : 0});
      p.push_back(op);
      p.push_back(vr::irange(0, 7));
    }
    c.I(pname("p", t), p);
  }
  c.I("choices", gen_choices(nth, 60 + 12 * max_ops));
  return c;
}

void pool_labels(VResult &r, const PoolSim &S) {
  r.label(fmt("threads=%d", S.nth));
  r.label(S.size <= 2 ? "size<=2" : "size>=3");
  if (S.R.midop)
    r.label("interleaved-inside-one-call");
  if (S.reached_capacity)
    r.label("pool-reached-capacity");
  if (S.gets > (uint64_t)S.size)
    r.label("cursor-wrapped");
  if (S.refusals)
    r.label("refusal-seen");
  if (S.over_tried)
    r.label("beyond-quota-request");
  if (S.over_got)
    r.label("beyond-quota-request-served");
  if (S.solo_checks)
    r.label("sequential-spec-checked-solo");
  if (S.R.budget_hit)
    r.label("budget-hit");
}

VResult o_pool(const VCase &c) {
  CaseScope scope(c);
  VResult r;
  PoolSim S(c, ENG_FIBER);
  S.run(to_int(c.iv("choices")));
  pool_labels(r, S);
  r.nontrivial = S.R.midop > 0 && S.reached_capacity;
  if (S.R.failed)
    r.fail(S.R.msg);
  return r;
}

// ============================ 1b. bulk / quiescent operations of the slot pool
// get_free_elements, clear_after, clear_fast, clear are only legal while no
// other operation is in progress (the simulation calls them between parallel
// regions): a sequential history against the ownership model
enum { PH_GET = 0, PH_SAFE, PH_FREE, PH_BULK, PH_CLEAR_AFTER, PH_CLEAR_FAST,
       PH_CLEAR, PH_NOPS };

VCase gen_phase_case() {
  VCase c;
  const int size = (int)vr::irange(2, 9);
  c.I("size", size);
  const int n = (int)vr::irange(4, 40);
  std::vector<int64_t> ops;
  for (int k = 0; k < n; ++k) {
    int op;
    if (k == 0 && vr::coin(0.6))
      op = PH_BULK;
    else
      op = vr::weighted({8, 3, 5, 2, 3, 1, 1});
    ops.push_back(op);
    ops.push_back(vr::irange(0, 999));
  }
  c.I("ops", ops);
  return c;
}

VResult o_phases(const VCase &c) {
  CaseScope scope(c);
  VResult r;
  const size_t size = (size_t)c.i("size");
  const auto &ops = c.iv("ops");
  ThreadSafeVector<int> vec(size, "c08-phases");
  std::map<size_t, int> held; // slot -> tag written by the holder
  int next_tag = 1;
  int bulk_ops = 0, gets_after_bulk = 0, released_by_clear_after = 0,
      kept_by_clear_after = 0, refused = 0, wrapped = 0, skipped = 0;
  size_t gets = 0;
  std::vector<int *> out(size + 1);

  // quiescent-state invariants; returns false (and records why) on a violation
  auto invariants = [&](const char *after, int k) -> bool {
    const size_t count = vec.get_number_of_active_elements();
    if (count != held.size()) {
      r.fail(fmt("op %d (%s): occupancy count %zu, slots held %zu", k, after,
                 count, held.size()));
      return false;
    }
    if (vec.is_empty() != held.empty()) {
      r.fail(fmt("op %d (%s): is_empty() = %d with %zu slots held", k, after,
                 (int)vec.is_empty(), held.size()));
      return false;
    }
    const size_t nact = vec.get_active_elements(size + 1, out.data());
    if (nact != held.size()) {
      r.fail(fmt("op %d (%s): %zu slots are marked in use, %zu are held", k,
                 after, nact, held.size()));
      return false;
    }
    size_t j = 0;
    for (const auto &h : held) {
      if (out[j] != &vec[h.first]) {
        r.fail(fmt("op %d (%s): slot marked in use #%zu is not the held slot "
                   "%zu",
                   k, after, j, h.first));
        return false;
      }
      if (vec[h.first] != h.second) {
        r.fail(fmt("op %d (%s): content of held slot %zu changed from %d to "
                   "%d",
                   k, after, h.first, h.second, vec[h.first]));
        return false;
      }
      ++j;
    }
    return true;
  };
  // a request that the model says must succeed: never call into a pool whose
  // flags are all set (the call would spin forever)
  auto take = [&](bool safe, int k) -> bool {
    const size_t nact = vec.get_active_elements(size + 1, out.data());
    if (nact >= size) {
      r.fail(fmt("op %d: %zu of %zu slots are held but all slots are marked "
                 "in use: a released slot did not become available again",
                 k, held.size(), size));
      return false;
    }
    const size_t i = safe ? vec.get_free_element_safe() : vec.get_free_element();
    if (safe && i == size) {
      r.fail(fmt("op %d: get_free_element_safe refused with %zu of %zu slots "
                 "held",
                 k, held.size(), size));
      return false;
    }
    if (i >= size) {
      r.fail(fmt("op %d: slot index %zu outside the pool of %zu", k, i, size));
      return false;
    }
    if (held.count(i)) {
      r.fail(fmt("op %d: slot %zu handed out while it is still held", k, i));
      return false;
    }
    ++gets;
    if (gets > size)
      wrapped = 1;
    if (bulk_ops)
      ++gets_after_bulk;
    held[i] = next_tag;
    vec[i] = next_tag++;
    return true;
  };

  for (size_t q = 0; q + 1 < ops.size() && r.ok; q += 2) {
    const int k = (int)(q / 2);
    const int op = (int)ops[q];
    const int64_t a = ops[q + 1];
    const char *name = "?";
    switch (op) {
    case PH_GET:
      name = "get_free_element";
      if (held.size() == size) { // the documented precondition: not full
        name = "get_free_element_safe(full)";
        if (vec.get_free_element_safe() != size)
          r.fail(fmt("op %d: a full pool handed out a slot", k));
        ++refused;
      } else
        take(false, k);
      break;
    case PH_SAFE:
      name = "get_free_element_safe";
      if (held.size() == size) {
        if (vec.get_free_element_safe() != size)
          r.fail(fmt("op %d: a full pool handed out a slot", k));
        ++refused;
      } else
        take(true, k);
      break;
    case PH_FREE: {
      name = "free_element";
      if (held.empty()) {
        ++skipped;
        break;
      }
      auto it = held.begin();
      std::advance(it, (size_t)a % held.size());
      vec.free_element(it->first);
      held.erase(it);
      break;
    }
    case PH_BULK: {
      name = "get_free_elements";
      if (!held.empty()) { // start-up only: the pool is empty
        ++skipped;
        break;
      }
      const size_t n = (size_t)a % size; // the call requires n < size
      vec.get_free_elements(n);
      for (size_t i = 0; i < n; ++i) {
        held[i] = next_tag;
        vec[i] = next_tag++;
      }
      ++bulk_ops;
      break;
    }
    case PH_CLEAR_AFTER: {
      name = "clear_after";
      // the caller keeps a leading block (the hydro tasks) and drops the rest
      size_t lead = 0;
      while (lead < size && held.count(lead))
        ++lead;
      const size_t offset = (size_t)a % (lead + 1);
      vec.clear_after(offset);
      for (auto it = held.begin(); it != held.end();) {
        if (it->first >= offset) {
          it = held.erase(it);
          ++released_by_clear_after;
        } else {
          ++it;
          ++kept_by_clear_after;
        }
      }
      ++bulk_ops;
      break;
    }
    case PH_CLEAR_FAST:
      name = "clear_fast";
      if (!held.empty()) { // asserted precondition
        ++skipped;
        break;
      }
      vec.clear_fast();
      ++bulk_ops;
      break;
    case PH_CLEAR:
      name = "clear";
      vec.clear();
      held.clear();
      ++bulk_ops;
      break;
    default:
      ++skipped;
    }
    if (r.ok)
      invariants(name, k);
  }
  // every slot that is not held can be obtained again, each exactly once
  while (r.ok && held.size() < size)
    if (!take((held.size() % 2) == 0, 9999))
      break;
  if (r.ok) {
    invariants("final fill", 9999);
    if (r.ok && vec.get_free_element_safe() != size)
      r.fail("the completely filled pool handed out one more slot");
  }
  if (bulk_ops)
    r.label("bulk-operation");
  if (released_by_clear_after && kept_by_clear_after)
    r.label("clear_after-kept-a-block-and-released-slots");
  if (gets_after_bulk)
    r.label("slot-requested-after-a-bulk-operation");
  if (refused)
    r.label("refusal-seen");
  if (wrapped)
    r.label("cursor-wrapped");
  r.nontrivial = bulk_ops > 0 && gets_after_bulk > 0;
  return r;
}

// ========================================================= 2. tasks and queues
enum { T_NEW = 0, T_GETQ, T_TRYQ, T_SCHED, T_FINISH, T_CS, T_NOPS };
enum { ST_FREE = 0, ST_SETUP, ST_QUEUED, ST_HANDED };

struct TaskSim {
  Run R;
  int nth, P, L, nq; // nq = nth thread queues + 1 shared
  std::vector<std::vector<int64_t>> prog;
  std::unique_ptr<ThreadSafeVector<Task>> tasks;
  std::unique_ptr<ThreadLock[]> locks;
  std::vector<TaskQueue *> queues; // per thread
  std::unique_ptr<TaskQueue> shared;
  std::unique_ptr<::Scheduler> sched;
  struct TM {
    std::atomic<int> st{ST_FREE};
    int q = -1, d0 = -1, d1 = -1;
    std::atomic<int> added{0}; // add_task returned
  };
  std::unique_ptr<TM[]> tm;
  std::unique_ptr<std::atomic<int>[]> lock_owner; // -1 free, else 100*kind+t
  std::atomic<int> live{0};                        // created and not yet freed
  std::vector<std::vector<int>> held;              // tasks held per thread
  int prefill = 0;
  bool prefill_split = false;
  // statistics
  std::atomic<uint64_t> created{0}, handed{0}, notask{0}, notask_nonempty{0},
      two_dep_handed{0}, stolen{0}, cs_done{0}, solo_checks{0}, skipped{0},
      try_failed{0};

  TaskSim(const VCase &c, int engine) {
    nth = (int)c.i("nth");
    P = (int)c.i("pool");
    L = (int)c.i("locks");
    nq = nth + 1;
    for (int t = 0; t < nth; ++t)
      prog.push_back(c.iv(pname("p", t)));
    R.init(engine, nth);
    tasks.reset(new ThreadSafeVector<Task>(P, "c08-tasks"));
    locks.reset(new ThreadLock[L]);
    for (int t = 0; t < nth; ++t)
      queues.push_back(new TaskQueue(P + 1, "c08-queue"));
    shared.reset(new TaskQueue(P + 1, "c08-shared"));
    sched.reset(new ::Scheduler(*tasks, queues, *shared));
    tm.reset(new TM[P]);
    lock_owner.reset(new std::atomic<int>[L]);
    for (int l = 0; l < L; ++l)
      lock_owner[l] = -1;
    held.resize(nth);
    // initial content, created the way the simulation start-up does it:
    // a block of slots at the start of the vector + add_tasks on one queue
    const auto &pre = c.iv("prefill"); // dependency codes
    prefill = (int)std::min<size_t>(pre.size(), (size_t)(P - 1));
    if (prefill > 0) {
      tasks->get_free_elements(prefill);
      const int q = (int)c.i("prefill_queue") % nq;
      for (int k = 0; k < prefill; ++k) {
        set_deps(k, pre[k]);
        tm[k].q = q;
        tm[k].st = ST_QUEUED;
        tm[k].added = 1;
      }
      // the block is added in one or two bulk adds: the second one lands on
      // a queue that is not empty (add_tasks appends after the queued tasks)
      int split = c.has_i("prefill_split") ? (int)c.i("prefill_split") : 0;
      split = std::max(0, std::min(split, prefill));
      if (split > 0 && split < prefill) {
        queue(q).add_tasks(0, split);
        queue(q).add_tasks(split, prefill);
        prefill_split = true;
      } else {
        queue(q).add_tasks(0, prefill);
      }
      live = prefill;
    }
  }
  ~TaskSim() {
    for (auto *q : queues)
      delete q;
  }

  bool det() const { return R.engine != ENG_FREE; }
  TaskQueue &queue(int q) { return q == nth ? *shared : *queues[q]; }

  // dependency code -> (d0, d1); codes: 0 none, 1..L single, then pairs
  void decode(int64_t code, int &d0, int &d1) const {
    const int ncodes = 1 + L + L * L;
    int k = (int)(code % ncodes);
    d0 = d1 = -1;
    if (k == 0)
      return;
    if (k <= L) {
      d0 = k - 1;
      return;
    }
    k -= L + 1;
    d0 = k / L;
    d1 = k % L; // may equal d0: the task then declares the resource once
  }

  void set_deps(int idx, int64_t code) {
    int d0, d1;
    decode(code, d0, d1);
    Task &task = (*tasks)[idx];
    // a reused slot keeps the pointers of its previous user: clear both
    // through the public interface (set_extra_dependency ignores a pointer
    // equal to the first dependency)
    task.set_dependency(&locks[0]);
    task.set_extra_dependency(nullptr);
    task.set_dependency(d0 >= 0 ? &locks[d0] : nullptr);
    if (d1 >= 0)
      task.set_extra_dependency(&locks[d1]);
    tm[idx].d0 = d0;
    tm[idx].d1 = (d1 == d0) ? -1 : d1;
    if (d0 < 0)
      tm[idx].d1 = -1;
  }

  bool deps_free(int idx) const {
    const TM &m = tm[idx];
    if (m.d0 >= 0 && lock_owner[m.d0] != -1)
      return false;
    if (m.d1 >= 0 && lock_owner[m.d1] != -1)
      return false;
    return true;
  }
  // number of queued tasks (add completed) in queue q (or any queue if q<0)
  // and whether one of them is eligible
  void queue_state(int q, int &n, int &eligible) const {
    n = 0;
    eligible = -1;
    for (int k = 0; k < P; ++k) {
      if (tm[k].st == ST_QUEUED && tm[k].added && (q < 0 || tm[k].q == q)) {
        ++n;
        if (eligible < 0 && deps_free(k))
          eligible = k;
      }
    }
  }

  void new_task(int t, int64_t a, int64_t b) {
    // keep demand below capacity: created-and-not-freed + this one <= P
    int cur = live.load();
    do {
      if (cur >= P) {
        ++skipped;
        return;
      }
    } while (!live.compare_exchange_weak(cur, cur + 1));
    size_t idx;
    {
      Op o(R, t);
      idx = tasks->get_free_element();
      R.tr(t, (int64_t)idx);
      if (idx >= (size_t)P)
        R.fail(fmt("thread %d: get_free_element returned %zu, task pool size "
                   "%d", t, idx, P));
      int exp = ST_FREE;
      if (!tm[idx].st.compare_exchange_strong(exp, ST_SETUP))
        R.fail(fmt("task slot %zu handed to thread %d while it is in use "
                   "(model state %d)", idx, t, exp));
      set_deps((int)idx, b);
    }
    pause_between_ops();
    {
      Op o(R, t);
      const int q = (int)(a % nq);
      tm[idx].q = q;
      tm[idx].added = 0;
      tm[idx].st = ST_QUEUED;
      queue(q).add_task(idx);
      tm[idx].added = 1;
      ++created;
      R.tr(t, 2000 + q);
    }
  }

  // the thread received task k from a get; qexp = queue it must come from
  // (-1: any)
  void received(int t, size_t k, int qexp, const char *how) {
    if (k >= (size_t)P)
      R.fail(fmt("thread %d: %s returned task index %zu (pool size %d)", t, how,
                 k, P));
    TM &m = tm[k];
    int exp = ST_QUEUED;
    if (!m.st.compare_exchange_strong(exp, ST_HANDED))
      R.fail(fmt("task %zu handed to thread %d by %s but it is not waiting in a "
                 "queue (model state %d: %s)", k, t, how, exp,
                 exp == ST_HANDED ? "already handed out - two owners"
                                  : "not queued"));
    if (qexp >= 0 && m.q != qexp)
      R.fail(fmt("task %zu was put into queue %d but came out of queue %d", k,
                 m.q, qexp));
    if (m.q != t && m.q != nth)
      ++stolen;
    const int deps[2] = {m.d0, m.d1};
    for (int d : deps) {
      if (d < 0)
        continue;
      const int prev = lock_owner[d].exchange(100 + t);
      if (prev != -1)
        R.fail(fmt("task %zu (resources %d,%d) handed to thread %d while "
                   "resource %d is held by %s %d", k, m.d0, m.d1, t, d,
                   prev >= 100 ? "a task of thread" : "a critical section of "
                                                      "thread",
                   prev % 100));
    }
    if (m.d1 >= 0)
      ++two_dep_handed;
    held[t].push_back((int)k);
    ++handed;
  }

  void get(int t, int op, int64_t a) {
    if (held[t].size() >= 2) {
      ++skipped;
      return;
    }
    Op o(R, t);
    size_t k;
    int q = -1;
    const char *how;
    // sequential expectation, valid if the call runs solo
    int n0 = 0, el0 = -1;
    if (op == T_SCHED) {
      if (det())
        queue_state(-1, n0, el0);
      k = sched->get_task((int_fast8_t)t);
      how = "Scheduler::get_task";
    } else {
      q = (int)(a % nq);
      if (det())
        queue_state(q, n0, el0);
      if (op == T_GETQ) {
        k = queue(q).get_task(*tasks);
        how = "TaskQueue::get_task";
      } else {
        k = queue(q).try_get_task(*tasks);
        how = "TaskQueue::try_get_task";
      }
    }
    const bool solo = o.solo();
    R.tr(t, k == NO_TASK ? -1 : (int64_t)k);
    if (k == NO_TASK) {
      ++notask;
      int n1 = 0, el1 = -1;
      if (det())
        queue_state(q, n1, el1);
      else
        n1 = live.load();
      if (n1 > 0)
        ++notask_nonempty;
      if (solo) {
        ++solo_checks;
        if (el0 >= 0)
          R.fail(fmt("thread %d: %s found no task although task %d is queued "
                     "and none of its resources (%d,%d) is held by anyone and "
                     "no other operation is in progress", t, how, el0,
                     tm[el0].d0, tm[el0].d1));
      }
      return;
    }
    if (solo)
      ++solo_checks;
    received(t, k, q, how);
  }

  void finish(int t, size_t j) {
    Op o(R, t);
    const int k = held[t][j];
    held[t].erase(held[t].begin() + j);
    TM &m = tm[k];
    const int deps[2] = {m.d1, m.d0};
    for (int d : deps) {
      if (d < 0)
        continue;
      const int prev = lock_owner[d].exchange(-1);
      if (prev != 100 + t)
        R.fail(fmt("resource %d of task %d: model owner %d, thread %d", d, k,
                   prev, t));
    }
    (*tasks)[k].unlock_dependency();
    m.st = ST_FREE;
    tasks->free_element(k);
    --live;
    R.tr(t, 3000 + k);
  }

  void critical(int t, int64_t a) {
    const int l = (int)(a % L);
    const bool blocking = held[t].empty() && ((a / L) % 2 == 0);
    Op o(R, t);
    if (blocking) {
      locks[l].lock();
    } else if (!locks[l].try_lock()) {
      ++try_failed;
      R.tr(t, 4000);
      return;
    }
    const int prev = lock_owner[l].exchange(t);
    if (prev != -1)
      R.fail(fmt("lock %d acquired by thread %d while %s %d holds it", l, t,
                 prev >= 100 ? "a task of thread" : "thread", prev % 100));
    // stay inside for a few scheduling points
    pause_between_ops();
    pause_between_ops();
    const int now = lock_owner[l].exchange(-1);
    if (now != t)
      R.fail(fmt("lock %d: thread %d was inside, model owner became %d", l, t,
                 now));
    locks[l].unlock();
    ++cs_done;
    R.tr(t, 4001 + l);
  }

  void step(int t, int op, int64_t a, int64_t b) {
    switch (op) {
    case T_NEW:
      new_task(t, a, b);
      break;
    case T_GETQ:
    case T_TRYQ:
    case T_SCHED:
      get(t, op, a);
      break;
    case T_FINISH:
      if (!held[t].empty())
        finish(t, (size_t)(a % (int64_t)held[t].size()));
      else
        ++skipped;
      break;
    case T_CS:
      critical(t, a);
      break;
    }
  }

  void body(int t) {
    const auto &p = prog[t];
    for (size_t k = 0; k + 2 < p.size(); k += 3) {
      if (R.failed)
        return;
      pause_between_ops();
      step(t, (int)p[k], p[k + 1], p[k + 2]);
    }
    while (!held[t].empty()) {
      if (R.failed)
        return;
      pause_between_ops();
      finish(t, 0);
    }
  }

  // quiescent state + final drain (main thread)
  void epilogue() {
    if (R.failed)
      return;
    EpiGuard guard;
    try {
      epilogue_checks();
    } catch (const FreeAbort &) {
      R.note("final drain: a queue operation does not return although no "
             "other operation is in progress (a queue lock was left behind)");
    }
  }
  void epilogue_checks() {
    for (int l = 0; l < L; ++l)
      if (lock_owner[l] != -1)
        return R.note("harness error: model lock still owned at the end");
    for (int q = 0; q < nq; ++q) {
      for (int guard = 0; guard <= P; ++guard) {
        int n, el;
        queue_state(q, n, el);
        if ((size_t)n != queue(q).size())
          return R.note(fmt("quiescent: queue %d reports %zu entries, %d tasks "
                            "were added and not yet handed out", q,
                            queue(q).size(), n));
        if (n == 0)
          break;
        const size_t k = (guard % 2) ? queue(q).try_get_task(*tasks)
                                     : queue(q).get_task(*tasks);
        if (k == NO_TASK)
          return R.note(fmt("final drain: queue %d still holds %d task(s) (e.g. "
                            "task %d, resources %d,%d), nobody holds any "
                            "resource, yet no task is handed out: the task is "
                            "never handed out / a lock was left behind", q, n,
                            el, el >= 0 ? tm[el].d0 : -1,
                            el >= 0 ? tm[el].d1 : -1));
        try {
          received(0, k, q, "final drain");
          finish(0, held[0].size() - 1);
        } catch (const Stop &) {
          return;
        }
      }
    }
    for (int k = 0; k < P; ++k)
      if (tm[k].st != ST_FREE)
        return R.note(fmt("task %d was never handed out (model state %d)", k,
                          (int)tm[k].st));
    if (tasks->get_number_of_active_elements() != 0)
      return R.note(fmt("quiescent: %zu task slots active after every task was "
                        "released",
                        tasks->get_number_of_active_elements()));
    for (int l = 0; l < L; ++l) {
      if (!locks[l].try_lock())
        return R.note(fmt("lock %d is still locked although nobody holds it", l));
      locks[l].unlock();
    }
  }

  void run(const std::vector<int> &choices) {
    std::vector<std::function<void()>> progs;
    for (int t = 0; t < nth; ++t)
      progs.push_back(make_prog(R, t, [this](int tt) { body(tt); }));
    uint64_t nops = 0;
    for (auto &p : prog)
      nops += p.size() / 3;
    const uint64_t maxy = choices.size() + 20000 * (nops + 4 * nth) + 50000;
    const bool ok = run_engine(R, progs, choices, maxy);
    if (!ok && !R.failed)
      R.note(fmt("bounded termination: more than %llu yields for %llu "
                 "operations (no thread blocks while it holds a task)",
                 (unsigned long long)maxy, (unsigned long long)nops));
    if (ok)
      epilogue();
  }
};

VCase gen_task_case(int max_threads, int max_ops) {
  VCase c;
  const int nth = (int)vr::irange(2, max_threads);
  const int P = (int)vr::irange(2, 10);
  const int L = vr::weighted({4, 4, 2}) + 1;
  c.I("nth", nth);
  c.I("pool", P);
  c.I("locks", L);
  const int ncodes = 1 + L + L * L;
  // dependency codes: bias towards tasks WITH dependencies
  auto depcode = [&]() -> int64_t {
    const int kind = vr::weighted({2, 4, 5});
    if (kind == 0)
      return 0;
    if (kind == 1)
      return vr::irange(1, L);
    return vr::irange(L + 1, ncodes - 1);
  };
  std::vector<int64_t> pre;
  const int npre = vr::coin(0.7) ? (int)vr::irange(0, P - 1) : 0;
  for (int k = 0; k < npre; ++k)
    pre.push_back(depcode());
  c.I("prefill", pre);
  c.I("prefill_queue", vr::irange(0, nth));
  // half of the prefilled cases: two bulk adds, the second on a non-empty queue
  c.I("prefill_split", (npre > 1 && vr::coin(0.5)) ? vr::irange(1, npre - 1) : 0);
  for (int t = 0; t < nth; ++t) {
    const int n = (int)vr::irange(1, max_ops);
    std::vector<int64_t> p;
    for (int k = 0; k < n; ++k) {
      const int op = vr::weighted({5, 3, 2, 4, 4, 3});
      p.push_back(op);
      if (op == T_NEW) {
        // queue: own, shared or someone else's
        const int w = vr::weighted({3, 3, 2});
        p.push_back(w == 0 ? t : (w == 1 ? nth : vr::irange(0, nth)));
        p.push_back(depcode());
      } else if (op == T_GETQ || op == T_TRYQ) {
        const int w = vr::weighted({3, 3, 2});
        p.push_back(w == 0 ? t : (w == 1 ? nth : vr::irange(0, nth)));
        p.push_back(0);
      } else {
        p.push_back(vr::irange(0, 2 * L - 1));
        p.push_back(0);
      }
    }
    c.I(pname("p", t), p);
  }
  c.I("choices", gen_choices(nth, 100 + 30 * max_ops));
  return c;
}

void task_labels(VResult &r, const TaskSim &S) {
  r.label(fmt("threads=%d", S.nth));
  r.label(fmt("locks=%d", S.L));
  if (S.R.midop)
    r.label("interleaved-inside-one-call");
  if (S.handed)
    r.label("task-handed-out");
  if (S.two_dep_handed)
    r.label("two-resource-task-handed-out");
  if (S.notask_nonempty)
    r.label("no-task-from-nonempty-queue(contention)");
  if (S.stolen)
    r.label("task-taken-from-foreign-queue");
  if (S.cs_done)
    r.label("critical-section");
  if (S.try_failed)
    r.label("try-lock-failed");
  if (S.solo_checks)
    r.label("sequential-spec-checked-solo");
  if (S.prefill)
    r.label("prefilled-by-add_tasks");
  if (S.prefill_split)
    r.label("add_tasks-on-non-empty-queue");
  if (S.R.budget_hit)
    r.label("budget-hit");
}

VResult o_tasks(const VCase &c) {
  CaseScope scope(c);
  VResult r;
  TaskSim S(c, ENG_FIBER);
  S.run(to_int(c.iv("choices")));
  task_labels(r, S);
  r.nontrivial = S.R.midop > 0 && S.handed > 0 &&
                 (S.notask_nonempty > 0 || S.try_failed > 0 || S.stolen > 0);
  if (S.R.failed)
    r.fail(S.R.msg);
  return r;
}

// ================================================================ 3. counters
enum {
  A_POSTINC = 0, // mono
  A_PREINC,      // mono
  A_POSTADD,     // mono
  A_PREADD,      // mono
  A_PREDEC,      // countdown (uint8, like Task::_number_of_unfinished_parents)
  A_PRESUB,      // mixed
  A_MIXADD,      // mixed
  A_MAX,
  A_READMAX,
  A_FLAGLOCK,
  A_FLAGUNLOCK,
  A_LFADD_U,
  A_LFADD_D,
  A_READMONO,
  A_NOPS
};

struct AtomSim {
  Run R;
  int nth;
  std::vector<std::vector<int64_t>> prog;
  AtomicValue<uint64_t> mono;
  AtomicValue<uint_least8_t> countdown;
  Task parent_task; // its parent counter is the second countdown (real Task API)
  AtomicValue<int32_t> mixed;
  AtomicValue<int64_t> mx;
  AtomicValue<bool> flag;
  uint64_t lf_u = 0;
  double lf_d = 0.;
  // model
  uint64_t mono0;
  int countdown0, countdown_budget;
  int32_t mixed0;
  int64_t mx0;
  std::vector<std::pair<uint64_t, uint64_t>> mono_iv; // [old, new)
  uint64_t mono_done = 0, mono_started = 0;            // sums of increments
  std::vector<int> countdown_seen, parents_seen;
  int64_t mixed_model = 0; // exact when no mixed operation is in progress
  int mixed_inflight = 0;
  int64_t mx_done, mx_started; // max of completed / started max() operations
  int flag_owner = -1;
  uint64_t lf_u_sum = 0;
  double lf_d_sum = 0.;
  uint64_t solo_checks = 0, flag_fail = 0, flag_ok = 0, max_ops = 0, lf_ops = 0;

  AtomSim(const VCase &c, int engine)
      : mono((uint64_t)c.i("mono0")),
        countdown((uint_least8_t)c.i("countdown0")),
        mixed((int32_t)c.i("mixed0")), mx(c.i("mx0")), flag(false) {
    nth = (int)c.i("nth");
    for (int t = 0; t < nth; ++t)
      prog.push_back(c.iv(pname("p", t)));
    R.init(engine, nth);
    mono0 = (uint64_t)c.i("mono0");
    countdown0 = countdown_budget = (int)c.i("countdown0");
    parent_task.set_number_of_unfinished_parents((uint_fast8_t)countdown0);
    mixed0 = (int32_t)c.i("mixed0");
    mixed_model = mixed0;
    mx0 = mx_done = mx_started = c.i("mx0");
  }

  void mono_op(int t, int op, int64_t a) {
    const uint64_t k = (op == A_POSTINC || op == A_PREINC) ? 1 : (uint64_t)(1 + a % 5);
    Op o(R, t);
    const uint64_t before_done = mono_done;
    mono_started += k;
    uint64_t oldv, newv;
    switch (op) {
    case A_POSTINC:
      oldv = mono.post_increment();
      newv = oldv + 1;
      break;
    case A_PREINC:
      newv = mono.pre_increment();
      oldv = newv - 1;
      break;
    case A_POSTADD:
      oldv = mono.post_add(k);
      newv = oldv + k;
      break;
    default:
      newv = mono.pre_add(k);
      oldv = newv - k;
      break;
    }
    R.tr(t, (int64_t)oldv);
    if (o.solo()) {
      ++solo_checks;
      if (oldv != mono0 + before_done)
        R.fail(fmt("counter operation %d alone: returned old value %llu, "
                   "expected %llu", op, (unsigned long long)oldv,
                   (unsigned long long)(mono0 + before_done)));
    }
    mono_iv.emplace_back(oldv, newv);
    mono_done += k;
  }

  void step(int t, int op, int64_t a) {
    switch (op) {
    case A_POSTINC:
    case A_PREINC:
    case A_POSTADD:
    case A_PREADD:
      mono_op(t, op, a);
      break;
    case A_PREDEC: {
      if (countdown_budget <= 0)
        break;
      --countdown_budget;
      Op o(R, t);
      const int v = (int)countdown.pre_decrement();
      R.tr(t, v);
      countdown_seen.push_back(v);
      // the same countdown through Task's own interface: the value returned is
      // what decides which parent releases the child
      const int w = (int)parent_task.decrement_number_of_unfinished_parents();
      R.tr(t, w);
      parents_seen.push_back(w);
      break;
    }
    case A_PRESUB:
    case A_MIXADD: {
      const int32_t k = (int32_t)(a % 7) - 2;
      Op o(R, t);
      const int64_t m0 = mixed_model;
      const bool quiet0 = mixed_inflight == 0;
      ++mixed_inflight;
      int32_t got, want_delta;
      if (op == A_PRESUB) {
        got = mixed.pre_subtract(k);
        want_delta = -k;
      } else {
        got = mixed.pre_add(k);
        want_delta = k;
      }
      R.tr(t, got);
      --mixed_inflight;
      if (o.solo() && quiet0) {
        ++solo_checks;
        if (got != (int32_t)(m0 + want_delta))
          R.fail(fmt("%s(%d) alone: returned %d, expected %d",
                     op == A_PRESUB ? "pre_subtract" : "pre_add", k, got,
                     (int32_t)(m0 + want_delta)));
      }
      mixed_model += want_delta;
      break;
    }
    case A_MAX: {
      const int64_t v = mx0 + (a % 41) - 10;
      Op o(R, t);
      mx_started = std::max(mx_started, v);
      mx.max(v);
      mx_done = std::max(mx_done, v);
      ++max_ops;
      R.tr(t, v);
      break;
    }
    case A_READMAX: {
      Op o(R, t);
      const int64_t lo = mx_done;
      const int64_t v = mx.value();
      const int64_t hi = mx_started;
      R.tr(t, v);
      if (v < lo || v > hi)
        R.fail(fmt("max counter read %lld, completed maximum %lld, largest "
                   "value offered %lld", (long long)v, (long long)lo,
                   (long long)hi));
      break;
    }
    case A_FLAGLOCK: {
      if (flag_owner == t)
        break;
      Op o(R, t);
      const bool got = flag.lock();
      R.tr(t, got);
      if (got) {
        ++flag_ok;
        if (flag_owner != -1)
          R.fail(fmt("AtomicValue<bool>::lock succeeded for thread %d while "
                     "thread %d holds the flag", t, flag_owner));
        flag_owner = t;
      } else {
        ++flag_fail;
        if (o.solo() && flag_owner == -1)
          R.fail("AtomicValue<bool>::lock failed although nobody holds the "
                 "flag");
      }
      break;
    }
    case A_FLAGUNLOCK: {
      if (flag_owner != t)
        break;
      Op o(R, t);
      flag_owner = -1;
      flag.unlock();
      R.tr(t, 0);
      break;
    }
    case A_LFADD_U: {
      const uint64_t k = 1 + (uint64_t)(a % 1000);
      Op o(R, t);
      lf_u_sum += k;
      LockFree::add(lf_u, k);
      ++lf_ops;
      R.tr(t, (int64_t)k);
      break;
    }
    case A_LFADD_D: {
      const double k = (double)(1 + a % 1000) * 0.25; // exact in any order
      Op o(R, t);
      lf_d_sum += k;
      LockFree::add(lf_d, k);
      ++lf_ops;
      R.tr(t, (int64_t)(4 * k));
      break;
    }
    case A_READMONO: {
      Op o(R, t);
      const uint64_t lo = mono0 + mono_done;
      const uint64_t v = mono.value();
      const uint64_t hi = mono0 + mono_started;
      R.tr(t, (int64_t)v);
      if (v < lo || v > hi)
        R.fail(fmt("counter read %llu outside [%llu completed, %llu started]",
                   (unsigned long long)v, (unsigned long long)lo,
                   (unsigned long long)hi));
      break;
    }
    }
  }

  void body(int t) {
    const auto &p = prog[t];
    for (size_t k = 0; k + 1 < p.size(); k += 2) {
      if (R.failed)
        return;
      pause_between_ops();
      step(t, (int)p[k], p[k + 1]);
    }
    if (flag_owner == t) {
      pause_between_ops();
      step(t, A_FLAGUNLOCK, 0);
    }
  }

  void epilogue() {
    if (R.failed)
      return;
    EpiGuard guard;
    // no update lost: the intervals [old,new) tile [initial, final)
    std::sort(mono_iv.begin(), mono_iv.end());
    uint64_t at = mono0;
    for (auto &iv : mono_iv) {
      if (iv.first != at)
        return R.note(fmt("counter: an operation returned old value %llu, the "
                          "previous one ended at %llu (%s)",
                          (unsigned long long)iv.first, (unsigned long long)at,
                          iv.first < at ? "two operations saw the same value: "
                                          "an update was lost"
                                        : "gap"));
      at = iv.second;
    }
    if (mono.value() != at || at != mono0 + mono_done)
      return R.note(fmt("counter: final value %llu, sum of increments gives "
                        "%llu", (unsigned long long)mono.value(),
                        (unsigned long long)(mono0 + mono_done)));
    std::sort(countdown_seen.begin(), countdown_seen.end());
    for (size_t k = 0; k < countdown_seen.size(); ++k) {
      const int want = countdown0 - (int)countdown_seen.size() + (int)k;
      if (countdown_seen[k] != want)
        return R.note(fmt("countdown from %d: %zu decrements returned a value "
                          "%d (expected %d): not pairwise distinct", countdown0,
                          countdown_seen.size(), countdown_seen[k], want));
    }
    if ((int)countdown.value() != countdown0 - (int)countdown_seen.size())
      return R.note("countdown: final value wrong");
    std::sort(parents_seen.begin(), parents_seen.end());
    for (size_t k = 0; k < parents_seen.size(); ++k) {
      const int want = countdown0 - (int)parents_seen.size() + (int)k;
      if (parents_seen[k] != want)
        return R.note(fmt("Task::decrement_number_of_unfinished_parents from "
                          "%d: %zu calls returned a value %d (expected %d): "
                          "two parents saw the same count (both, or neither, "
                          "would release the child)", countdown0,
                          parents_seen.size(), parents_seen[k], want));
    }
    if ((int)parent_task.get_number_of_unfinished_parents() !=
        countdown0 - (int)parents_seen.size())
      return R.note("Task parent counter: final value wrong");
    if (mixed.value() != (int32_t)mixed_model)
      return R.note(fmt("mixed counter: final value %d, arithmetic gives %d",
                        mixed.value(), (int32_t)mixed_model));
    if (mx.value() != mx_done)
      return R.note(fmt("max: final value %lld, largest value offered %lld",
                        (long long)mx.value(), (long long)mx_done));
    if (lf_u != lf_u_sum)
      return R.note(fmt("LockFree::add<integer>: final %llu, sum %llu",
                        (unsigned long long)lf_u, (unsigned long long)lf_u_sum));
    if (lf_d != lf_d_sum)
      return R.note(fmt("LockFree::add<double>: final %g, sum %g", lf_d,
                        lf_d_sum));
    if (flag.value())
      return R.note("flag still set after every holder unlocked it");
  }

  void run(const std::vector<int> &choices) {
    std::vector<std::function<void()>> progs;
    for (int t = 0; t < nth; ++t)
      progs.push_back(make_prog(R, t, [this](int tt) { body(tt); }));
    uint64_t nops = 0;
    for (auto &p : prog)
      nops += p.size() / 2;
    const uint64_t maxy = choices.size() + 2000 * (nops + 4 * nth) + 20000;
    const bool ok = run_engine(R, progs, choices, maxy);
    if (!ok && !R.failed)
      R.note("bounded termination: counter operations did not finish");
    if (ok)
      epilogue();
  }
};

VCase gen_atom_case() {
  VCase c;
  const int nth = (int)vr::irange(2, 4);
  c.I("nth", nth);
  c.I("mono0", vr::coin(0.5) ? 0 : vr::irange(0, 1000));
  c.I("countdown0", vr::irange(0, 200));
  c.I("mixed0", vr::irange(-50, 50));
  c.I("mx0", vr::irange(-100, 100));
  const int focus = vr::weighted({4, 2, 2, 2, 2});
  // 0: everything  1: monotone counter  2: max  3: LockFree::add  4: flag
  for (int t = 0; t < nth; ++t) {
    const int n = (int)vr::irange(1, 25);
    std::vector<int64_t> p;
    for (int k = 0; k < n; ++k) {
      int op;
      switch (focus) {
      case 1:
        op = vr::pick(std::vector<int>{A_POSTINC, A_PREINC, A_POSTADD, A_PREADD,
                                       A_READMONO, A_PREDEC});
        break;
      case 2:
        op = vr::pick(std::vector<int>{A_MAX, A_MAX, A_READMAX});
        break;
      case 3:
        op = vr::pick(std::vector<int>{A_LFADD_U, A_LFADD_D});
        break;
      case 4:
        op = vr::pick(std::vector<int>{A_FLAGLOCK, A_FLAGUNLOCK, A_FLAGLOCK,
                                       A_PRESUB, A_MIXADD});
        break;
      default:
        op = (int)vr::irange(0, A_NOPS - 1);
      }
      p.push_back(op);
      p.push_back(vr::irange(0, 999));
    }
    c.I(pname("p", t), p);
  }
  c.I("choices", gen_choices(nth, 200));
  return c;
}

VResult o_atoms(const VCase &c) {
  CaseScope scope(c);
  VResult r;
  AtomSim S(c, ENG_FIBER);
  S.run(to_int(c.iv("choices")));
  r.label(fmt("threads=%d", S.nth));
  if (S.R.midop)
    r.label("interleaved-inside-one-call(max/LockFree)");
  if (S.R.switches >= 2)
    r.label("operations-of-different-threads-interleaved");
  if (S.flag_fail)
    r.label("flag-contended");
  if (S.max_ops)
    r.label("max");
  if (S.lf_ops)
    r.label("LockFree::add");
  if (S.solo_checks)
    r.label("return-value-checked-solo");
  r.nontrivial = S.R.switches >= 2 && S.R.total_ops() >= 3;
  if (S.R.failed)
    r.fail(S.R.msg);
  return r;
}

// ============================================================ 4. MemorySpace
enum { M_GET = 0, M_ADD, M_FREE, M_COUNT, M_NOPS };

struct MemSim {
  Run R;
  int nth, size;
  std::vector<int> quota;
  std::vector<std::vector<int64_t>> prog;
  std::unique_ptr<MemorySpace> ms;
  std::unique_ptr<std::atomic<int>[]> owner;
  struct HB {
    size_t idx;
    std::vector<double> tags; // expected content (in order)
    size_t subgrid;
    int dir;
  };
  std::vector<std::vector<HB>> held;
  std::vector<std::unique_ptr<PhotonBuffer>> local;
  std::vector<int> seq;
  int H = 0;
  uint64_t overflow = 0, exact_full = 0, plain_add = 0, solo_checks = 0;
  bool reached_capacity = false;

  MemSim(const VCase &c, int engine) {
    nth = (int)c.i("nth");
    size = (int)c.i("size");
    for (auto q : c.iv("quota"))
      quota.push_back((int)q);
    for (int t = 0; t < nth; ++t)
      prog.push_back(c.iv(pname("p", t)));
    R.init(engine, nth);
    ms.reset(new MemorySpace(size));
    owner.reset(new std::atomic<int>[size]);
    for (int i = 0; i < size; ++i)
      owner[i] = -1;
    held.resize(nth);
    seq.assign(nth, 0);
    for (int t = 0; t < nth; ++t)
      local.emplace_back(new PhotonBuffer());
  }

  double next_tag(int t) { return (double)(t * 10000000 + (++seq[t])); }

  void put(PhotonBuffer &b, double tag) {
    const uint_fast32_t k = b.get_next_free_photon();
    b[k].set_energy(tag);
    b[k].set_weight(0.5 * tag);
  }

  void check_content(int t, const HB &h, const char *when) {
    PhotonBuffer &b = (*ms)[h.idx];
    if (b.size() != h.tags.size())
      R.fail(fmt("%s: buffer %zu of thread %d holds %u packets, expected %zu",
                 when, h.idx, t, (unsigned)b.size(), h.tags.size()));
    std::vector<double> got;
    for (uint_fast32_t k = 0; k < b.size(); ++k) {
      got.push_back(b[k].get_energy());
      if (b[k].get_weight() != 0.5 * b[k].get_energy())
        R.fail(fmt("%s: packet %u of buffer %zu is corrupt", when, (unsigned)k,
                   h.idx));
    }
    std::vector<double> want = h.tags;
    std::sort(got.begin(), got.end());
    std::sort(want.begin(), want.end());
    if (got != want)
      R.fail(fmt("%s: buffer %zu of thread %d does not hold the packets that "
                 "were put into it (multiset differs): written by another "
                 "owner or lost in the overflow copy", when, h.idx, t));
    if (b.get_subgrid_index() != h.subgrid || b.get_direction() != h.dir)
      R.fail(fmt("%s: buffer %zu lost its subgrid/direction (%zu,%d instead of "
                 "%zu,%d)", when, h.idx, b.get_subgrid_index(),
                 (int)b.get_direction(), h.subgrid, h.dir));
  }

  void own(int t, size_t idx, const char *how) {
    if (idx >= (size_t)size)
      R.fail(fmt("thread %d: %s returned buffer %zu, space size %d although "
                 "demand never exceeds the capacity", t, how, idx, size));
    const int prev = owner[idx].exchange(t);
    if (prev != -1)
      R.fail(fmt("buffer %zu handed to thread %d by %s while thread %d still "
                 "holds it", idx, t, how, prev));
    ++H;
    if (H >= size)
      reached_capacity = true;
  }

  void step(int t, int op, int64_t a, int64_t b) {
    switch (op) {
    case M_GET: {
      if ((int)held[t].size() >= quota[t])
        break;
      Op o(R, t);
      const size_t idx = ms->get_free_buffer();
      R.tr(t, (int64_t)idx);
      own(t, idx, "get_free_buffer");
      PhotonBuffer &buf = (*ms)[idx];
      if (buf.size() != 0)
        R.fail(fmt("fresh buffer %zu is not empty (%u packets)", idx,
                   (unsigned)buf.size()));
      HB h;
      h.idx = idx;
      h.subgrid = (size_t)(t * 100 + a % 50);
      h.dir = (int)(b % 27);
      buf.set_subgrid_index(h.subgrid);
      buf.set_direction(h.dir);
      // initial fill: often close to the capacity
      const int n0 = (int)((a / 50) % 4 == 0 ? b % 200 : 150 + b % 50);
      for (int k = 0; k < n0; ++k) {
        const double tag = next_tag(t);
        put(buf, tag);
        h.tags.push_back(tag);
      }
      held[t].push_back(h);
      break;
    }
    case M_ADD: {
      if (held[t].empty() || (int)held[t].size() >= quota[t])
        break;
      // callers only add to a buffer that is not full
      size_t j = (size_t)(a % (int64_t)held[t].size());
      if (held[t][j].tags.size() >= PHOTONBUFFER_SIZE)
        break;
      const size_t old = held[t][j].tags.size();
      // number of packets: aim at the boundary old+n == 200 often
      int n;
      const int mode = (int)(b % 4);
      if (mode == 0)
        n = (int)(PHOTONBUFFER_SIZE - old); // exactly full, nothing left over
      else if (mode == 1)
        n = (int)std::min<size_t>(PHOTONBUFFER_SIZE, PHOTONBUFFER_SIZE - old + 1 + (b / 4) % 30);
      else if (mode == 2)
        n = (int)std::max<int64_t>(1, (int64_t)(PHOTONBUFFER_SIZE - old) - 1 - (b / 4) % 30);
      else
        n = 1 + (int)((b / 4) % PHOTONBUFFER_SIZE);
      PhotonBuffer &loc = *local[t];
      loc.reset();
      std::vector<double> tags;
      for (int k = 0; k < n; ++k) {
        const double tag = next_tag(t);
        put(loc, tag);
        tags.push_back(tag);
      }
      Op o(R, t);
      const size_t idx = held[t][j].idx;
      const size_t r = ms->add_photons(idx, loc);
      R.tr(t, (int64_t)r);
      const bool must_overflow = old + (size_t)n >= PHOTONBUFFER_SIZE;
      if (!must_overflow) {
        ++plain_add;
        if (r != idx)
          R.fail(fmt("add_photons(%zu): %zu+%d packets fit, yet index %zu was "
                     "returned", idx, old, n, r));
        for (double x : tags)
          held[t][j].tags.push_back(x);
        check_content(t, held[t][j], "after add_photons");
      } else {
        ++overflow;
        if (old + (size_t)n == PHOTONBUFFER_SIZE)
          ++exact_full;
        if (r == idx)
          R.fail(fmt("add_photons(%zu): buffer became full (%zu+%d) but no new "
                     "buffer index was returned: the caller would never queue "
                     "the full buffer", idx, old, n));
        own(t, r, "add_photons");
        HB nb;
        nb.idx = r;
        nb.subgrid = held[t][j].subgrid;
        nb.dir = held[t][j].dir;
        const size_t fit = PHOTONBUFFER_SIZE - old;
        for (size_t k = 0; k < tags.size(); ++k) {
          if (k < fit)
            held[t][j].tags.push_back(tags[k]);
          else
            nb.tags.push_back(tags[k]);
        }
        check_content(t, held[t][j], "full buffer after add_photons");
        check_content(t, nb, "overflow buffer after add_photons");
        held[t].push_back(nb);
      }
      break;
    }
    case M_FREE: {
      if (held[t].empty())
        break;
      const size_t j = (size_t)(a % (int64_t)held[t].size());
      Op o(R, t);
      HB h = held[t][j];
      held[t].erase(held[t].begin() + j);
      check_content(t, h, "before free_buffer");
      --H;
      const int prev = owner[h.idx].exchange(-1);
      if (prev != t)
        R.fail("harness error: owner mismatch");
      ms->free_buffer(h.idx);
      R.tr(t, -(int64_t)h.idx - 1);
      break;
    }
    case M_COUNT: {
      Op o(R, t);
      const int h0 = H;
      const size_t n = ms->get_number_of_active_buffers();
      const bool e = ms->is_empty();
      R.tr(t, (int64_t)n);
      if (o.solo()) {
        ++solo_checks;
        if ((int)n != h0 || e != (h0 == 0))
          R.fail(fmt("no operation in progress: %zu active buffers reported "
                     "(is_empty=%d), %d held", n, (int)e, h0));
      }
      break;
    }
    }
  }

  void body(int t) {
    const auto &p = prog[t];
    for (size_t k = 0; k + 2 < p.size(); k += 3) {
      if (R.failed)
        return;
      pause_between_ops();
      step(t, (int)p[k], p[k + 1], p[k + 2]);
    }
  }

  void epilogue() {
    if (R.failed)
      return;
    EpiGuard guard;
    try {
      size_t hf = 0;
      for (int t = 0; t < nth; ++t) {
        hf += held[t].size();
        for (auto &h : held[t])
          check_content(t, h, "at the end");
      }
      if (ms->get_number_of_active_buffers() != hf)
        R.fail(fmt("quiescent: %zu active buffers reported, %zu held",
                   ms->get_number_of_active_buffers(), hf));
      for (int t = 0; t < nth; ++t)
        for (auto &h : held[t])
          ms->free_buffer(h.idx);
      if (!ms->is_empty())
        R.fail("memory space not empty after every buffer was released");
    } catch (const Stop &) {
    } catch (const FreeAbort &) {
      R.note("quiescent check of the memory space does not return");
    }
  }

  void run(const std::vector<int> &choices) {
    std::vector<std::function<void()>> progs;
    for (int t = 0; t < nth; ++t)
      progs.push_back(make_prog(R, t, [this](int tt) { body(tt); }));
    uint64_t nops = 0;
    for (auto &p : prog)
      nops += p.size() / 3;
    const uint64_t maxy = choices.size() + 4000 * (nops + 4 * nth) + 20000;
    const bool ok = run_engine(R, progs, choices, maxy);
    if (!ok && !R.failed)
      R.note("bounded termination: buffer operations did not finish although "
             "demand never exceeded the capacity");
    if (ok)
      epilogue();
  }
};

VCase gen_mem_case() {
  VCase c;
  const int nth = (int)vr::irange(2, 3);
  const int size = (int)vr::irange(2, 8);
  c.I("nth", nth);
  c.I("size", size);
  // add_photons may need a second buffer: prefer quotas >= 2
  std::vector<int64_t> q(nth, 0);
  int left = size;
  for (int t = 0; t < nth && left >= 2; ++t) {
    q[t] = 2;
    left -= 2;
  }
  while (left > 0 && vr::coin(0.8)) {
    q[vr::irange(0, nth - 1)] += 1;
    --left;
  }
  if (size < 2 * nth && left > 0)
    q[nth - 1] += 1;
  c.I("quota", q);
  for (int t = 0; t < nth; ++t) {
    const int n = (int)vr::irange(1, 16);
    std::vector<int64_t> p;
    for (int k = 0; k < n; ++k) {
      p.push_back(k == 0 ? M_GET : vr::weighted({3, 6, 3, 1}));
      p.push_back(vr::irange(0, 999));
      p.push_back(vr::irange(0, 9999));
    }
    c.I(pname("p", t), p);
  }
  c.I("choices", gen_choices(nth, 150));
  return c;
}

VResult o_mem(const VCase &c) {
  CaseScope scope(c);
  VResult r;
  MemSim S(c, ENG_FIBER);
  S.run(to_int(c.iv("choices")));
  r.label(fmt("threads=%d", S.nth));
  if (S.R.midop)
    r.label("interleaved-inside-one-call");
  if (S.overflow)
    r.label("overflow-into-fresh-buffer");
  if (S.exact_full)
    r.label("exactly-full-empty-remainder");
  if (S.plain_add)
    r.label("add-without-overflow");
  if (S.reached_capacity)
    r.label("space-reached-capacity");
  if (S.solo_checks)
    r.label("sequential-spec-checked-solo");
  r.nontrivial = S.R.midop > 0 && S.overflow > 0;
  if (S.R.failed)
    r.fail(S.R.msg);
  return r;
}

// ====================================== 5. the two deterministic engines agree
// the same case under baton.hpp (real threads handing over a baton) and under
// the fiber twin must produce the identical global sequence of returned values
VCase gen_agree_case() {
  VCase c = vr::coin(0.5) ? gen_pool_case(3, 10) : gen_task_case(3, 8);
  return c;
}

VResult o_agree(const VCase &c) {
  CaseScope scope(c);
  VResult r;
  const std::vector<int> ch = to_int(c.iv("choices"));
  std::vector<int64_t> tr[2];
  bool failed[2];
  uint64_t sw[2], mid[2];
  std::string msg;
  const bool is_pool = c.has_i("size");
  for (int e = 0; e < 2; ++e) {
    if (is_pool) {
      PoolSim S(c, e);
      S.run(ch);
      tr[e] = S.R.trace;
      failed[e] = S.R.failed;
      sw[e] = S.R.switches;
      mid[e] = S.R.midop;
      if (S.R.failed)
        msg = S.R.msg;
    } else {
      TaskSim S(c, e);
      S.run(ch);
      tr[e] = S.R.trace;
      failed[e] = S.R.failed;
      sw[e] = S.R.switches;
      mid[e] = S.R.midop;
      if (S.R.failed)
        msg = S.R.msg;
    }
  }
  r.label(is_pool ? "pool-programs" : "task-programs");
  if (mid[1])
    r.label("interleaved-inside-one-call");
  r.nontrivial = sw[1] >= 2 && mid[1] > 0;
  if (failed[0] || failed[1])
    r.fail("violation under " +
           std::string(failed[0] ? "fibers" : "baton threads") + ": " + msg);
  else if (tr[0] != tr[1] || sw[0] != sw[1])
    r.fail(fmt("the two deterministic engines disagree: %zu vs %zu trace "
               "entries, %llu vs %llu switches (the schedule is not a pure "
               "function of the case)", tr[0].size(), tr[1].size(),
               (unsigned long long)sw[0], (unsigned long long)sw[1]));
  return r;
}

// ================================= 6. real unsynchronised threads with jitter
// sampled OS schedules (reported separately): the same programs, the same
// ownership model (kept in atomics), only the checks that do not need to know
// the interleaving
// repetitions per case: part of the case, so a replay repeats as often
int free_reps() {
  const char *t = getenv("VERIF_TIER");
  return (t && std::string(t) == "thorough") ? 20 : 12;
}
VCase gen_free_pool_case() {
  VCase c = gen_pool_case(4, 25);
  c.I("jitter", vr::irange(1, 1000000));
  c.I("reps", free_reps());
  return c;
}
VCase gen_free_task_case() {
  VCase c = gen_task_case(4, 20);
  c.I("jitter", vr::irange(1, 1000000));
  c.I("reps", free_reps());
  return c;
}

VResult o_free_pool(const VCase &c) {
  CaseScope scope(c);
  VResult r;
  uint64_t ops = 0;
  bool cap = false;
  // sampled schedules: a replay samples 25x more, so that a failure that was
  // seen once in the search is very likely to be seen again
  const int FREE_REPS = (int)c.i("reps") * (g_replay ? 25 : 1);
  for (int rep = 0; rep < FREE_REPS && r.ok; ++rep) {
    cmi_verif_jitter_seed() = (uint_least64_t)c.i("jitter") * 1000 + rep;
    PoolSim S(c, ENG_FREE);
    S.run({});
    ops += S.R.total_ops();
    size_t hf = 0;
    for (auto &h : S.held)
      hf += h.size();
    if (S.gets >= (uint64_t)S.size)
      cap = true;
    if (S.R.failed) {
      r.schedule_dependent = true; // observed on real, unsynchronised threads
      r.fail(fmt("repetition %d on real threads: ", rep) + S.R.msg);
    }
  }
  r.label(fmt("threads=%d", (int)c.i("nth")));
  if (cap)
    r.label("at-least-size-acquisitions");
  r.nontrivial = ops >= 4 * FREE_REPS;
  return r;
}

VResult o_free_tasks(const VCase &c) {
  CaseScope scope(c);
  VResult r;
  uint64_t ops = 0, handed = 0, contention = 0;
  // sampled schedules: a replay samples 25x more, so that a failure that was
  // seen once in the search is very likely to be seen again
  const int FREE_REPS = (int)c.i("reps") * (g_replay ? 25 : 1);
  for (int rep = 0; rep < FREE_REPS && r.ok; ++rep) {
    cmi_verif_jitter_seed() = (uint_least64_t)c.i("jitter") * 1000 + rep;
    TaskSim S(c, ENG_FREE);
    S.run({});
    ops += S.R.total_ops();
    handed += S.handed;
    contention += S.notask_nonempty + S.try_failed;
    if (S.R.failed) {
      r.schedule_dependent = true; // observed on real, unsynchronised threads
      r.fail(fmt("repetition %d on real threads: ", rep) + S.R.msg);
    }
  }
  r.label(fmt("threads=%d", (int)c.i("nth")));
  if (handed)
    r.label("task-handed-out");
  if (contention)
    r.label("contention-observed");
  r.nontrivial = handed > 0 && ops >= 4 * FREE_REPS;
  return r;
}

} // namespace

int main(int argc, char **argv) {
  // TaskQueue::add_tasks contains an OpenMP loop: one thread is enough and
  // keeps idle OpenMP workers from spinning
  omp_set_num_threads(1);
  g_replay = argc >= 2 && std::string(argv[1]) == "--replay";
  install_crash_net();
  std::vector<VProp> props;
  props.push_back(
      {"pool_slots", 60000, []() { return gen_pool_case(4, 25); }, o_pool,
       "2-4 logical threads x 1-25 operations (get_free_element, "
       "get_free_element_safe, free_element, occupancy count, one request "
       "beyond the quota at a time) on one ThreadSafeVector<int> of size 1-8 "
       "with per-thread quotas (sum <= size), interleaved at every atomic "
       "operation by a generated choice vector. Non-trivial: a hand-over "
       "happened strictly inside one container call AND the pool reached its "
       "capacity.",
       {{"interleaved-inside-one-call", 0.5},
        {"refusal-seen", 0.04},
        {"pool-reached-capacity", 0.3},
        {"cursor-wrapped", 0.3},
        {"sequential-spec-checked-solo", 0.3}}});
  props.push_back(
      {"pool_phases", 40000, gen_phase_case, o_phases,
       "sequential histories of 4-40 operations on one ThreadSafeVector<int> "
       "of 2-9 slots mixing the per-slot calls (get_free_element, "
       "get_free_element_safe, free_element) with the bulk calls that are only "
       "legal while nothing else is in progress (get_free_elements on an "
       "empty pool, clear_after(offset) with the leading block held, "
       "clear_fast on an empty pool, clear); after every call: occupancy "
       "count, is_empty and the set of slots marked in use equal the model's "
       "held set and held contents are intact; at the end every slot not held "
       "is obtained exactly once and the full pool refuses. Non-trivial: a "
       "bulk call was executed and a slot was requested after it.",
       {{"bulk-operation", 0.6},
        {"clear_after-kept-a-block-and-released-slots", 0.1},
        {"slot-requested-after-a-bulk-operation", 0.5}}});
  props.push_back(
      {"task_queues", 40000, []() { return gen_task_case(4, 20); }, o_tasks,
       "2-4 logical threads x 1-20 operations on a ThreadSafeVector<Task> "
       "(2-10 slots), one TaskQueue per thread + a shared one, 1-3 ThreadLock "
       "resources: create a task with 0/1/2 resources and queue it, "
       "TaskQueue::get_task / try_get_task, Scheduler::get_task (stealing), "
       "finish (unlock_dependency + free_element), plain lock/try_lock "
       "critical sections on the same locks; start-up content through "
       "get_free_elements + add_tasks; final drain. Non-trivial: a hand-over "
       "inside one call, a task was handed out, and contention was observed "
       "(NO_TASK from a non-empty queue, failed try_lock or a stolen task).",
       {{"interleaved-inside-one-call", 0.5},
        {"task-handed-out", 0.5},
        {"two-resource-task-handed-out", 0.15},
        {"no-task-from-nonempty-queue(contention)", 0.1},
        {"sequential-spec-checked-solo", 0.3}}});
  props.push_back(
      {"atomic_counters", 60000, gen_atom_case, o_atoms,
       "2-4 logical threads x 1-25 operations on AtomicValue counters "
       "(post/pre-increment, post/pre-add, pre-decrement of a uint8 countdown and of a Task's parent counter through Task::decrement_number_of_unfinished_parents, "
       "pre-subtract, max, value, lock/unlock of a flag) and LockFree::add on "
       "an integer and a double. Non-trivial: operations of different threads "
       "were interleaved (>=2 hand-overs, >=3 operations).",
       {{"operations-of-different-threads-interleaved", 0.5}}});
  props.push_back(
      {"memory_space", 15000, gen_mem_case, o_mem,
       "2-3 logical threads on one MemorySpace of 2-6 PhotonBuffers with "
       "per-thread quotas: get_free_buffer, add_photons with packet counts "
       "aimed at the capacity boundary (exactly full, one more, one less), "
       "free_buffer, active count. Packets carry unique tags. Non-trivial: a "
       "hand-over inside one call and at least one overflow copy.",
       {{"overflow-into-fresh-buffer", 0.4},
        {"exactly-full-empty-remainder", 0.1}}});
  props.push_back(
      {"engines_agree", 600, gen_agree_case, o_agree,
       "the same pool / task case executed by baton.hpp (real std::threads "
       "handing over a baton) and by its fiber twin: identical sequence of "
       "returned values and identical number of hand-overs (the interleaving "
       "is a pure function of the case). Non-trivial: >=2 hand-overs, one of "
       "them inside a call.",
       {}});
  props.push_back(
      {"real_threads_pool", 150, gen_free_pool_case, o_free_pool,
       "SAMPLED schedules: the pool programs on 2-4 real unsynchronised "
       "std::threads with seeded jitter at every atomic operation, 12 "
       "(thorough: 20) repetitions per case; ownership model kept in atomics.",
       {}});
  props.push_back(
      {"real_threads_tasks", 150, gen_free_task_case, o_free_tasks,
       "SAMPLED schedules: the task/queue programs on 2-4 real unsynchronised "
       "std::threads with seeded jitter, 12 (thorough: 20) repetitions per "
       "case.",
       {}});
  for (auto &p : props) {
    auto inner = p.oracle;
    p.oracle = [inner](const VCase &c) {
      VResult r = inner(c);
      if (!r.ok)
        remember_failure(c, r.msg);
      return r;
    };
  }
  // line-buffered stdout in static storage: FAILCASE lines survive a crash
  static char outbuf[1 << 14];
  setvbuf(stdout, outbuf, _IOLBF, sizeof outbuf);
  return vr::vmain(argc, argv, "C08", props);
}
