// C03 - ray tracing results do not depend on how the grid is split into
// subgrids.  rapidcheck harness, four sub-checks:
//
//  tables        exhaustive consistency of the 27-direction tables of
//                TravelDirections.hpp (out->in involution, direction
//                compatibility, 6-bit mask table) against an independent offset
//                table written from the enum documentation, and of the
//                neighbour wiring / re-positioning of every subgrid of a
//                generated layout against pos(s)+offset(o)
//  layout_trace  differential: the same packets traced through layout L and
//                through the undivided 1x1x1 grid by a sequential driver that
//                uses the public API the way PhotonTraversalTaskContext does;
//                every hand-over is checked for physical self-consistency
//  copies_wiring create_copies()/update_copies(): neighbour tables, ranges and
//                contents of the duplicates
//  copies_trace  packets distributed over duplicates, folded back with
//                update_original_counters(), against the copy-free layout
//                (bit-exact per packet, re-association tolerance per cell);
//                update_copy_properties() and a second iteration
#include "DensityFunction.hpp"
#include "DensitySubGridCreator.hpp"
#include "PhotonPacket.hpp"
#include "TravelDirections.hpp"
#include "verif_rc.hpp"

#include <array>
#include <map>
#include <memory>
#include <omp.h>

using vr::VCase;
using vr::VProp;
using vr::VResult;
using vr::fmt;

namespace {

const double EPS = 0x1p-52;
const int ND = TRAVELDIRECTION_NUMBER;

// ------------------------------------------------------------------ offsets
// Independent table: classification -> offset in {-1,0,1}^3, written from the
// documentation of enum TravelDirection ("P means the upper limit of that
// coordinate, N the lower limit"; edges are labelled by the axis they are
// parallel to and the two remaining coordinates in x<y<z order; faces by their
// normal axis and side).
struct OffTable {
  int o[27][3];
  void set(int d, int x, int y, int z) {
    o[d][0] = x;
    o[d][1] = y;
    o[d][2] = z;
  }
  OffTable() {
    for (int i = 0; i < 27; ++i)
      set(i, 9, 9, 9);
    set(TRAVELDIRECTION_INSIDE, 0, 0, 0);
    set(TRAVELDIRECTION_CORNER_PPP, +1, +1, +1);
    set(TRAVELDIRECTION_CORNER_PPN, +1, +1, -1);
    set(TRAVELDIRECTION_CORNER_PNP, +1, -1, +1);
    set(TRAVELDIRECTION_CORNER_PNN, +1, -1, -1);
    set(TRAVELDIRECTION_CORNER_NPP, -1, +1, +1);
    set(TRAVELDIRECTION_CORNER_NPN, -1, +1, -1);
    set(TRAVELDIRECTION_CORNER_NNP, -1, -1, +1);
    set(TRAVELDIRECTION_CORNER_NNN, -1, -1, -1);
    set(TRAVELDIRECTION_EDGE_X_PP, 0, +1, +1);
    set(TRAVELDIRECTION_EDGE_X_PN, 0, +1, -1);
    set(TRAVELDIRECTION_EDGE_X_NP, 0, -1, +1);
    set(TRAVELDIRECTION_EDGE_X_NN, 0, -1, -1);
    set(TRAVELDIRECTION_EDGE_Y_PP, +1, 0, +1);
    set(TRAVELDIRECTION_EDGE_Y_PN, +1, 0, -1);
    set(TRAVELDIRECTION_EDGE_Y_NP, -1, 0, +1);
    set(TRAVELDIRECTION_EDGE_Y_NN, -1, 0, -1);
    set(TRAVELDIRECTION_EDGE_Z_PP, +1, +1, 0);
    set(TRAVELDIRECTION_EDGE_Z_PN, +1, -1, 0);
    set(TRAVELDIRECTION_EDGE_Z_NP, -1, +1, 0);
    set(TRAVELDIRECTION_EDGE_Z_NN, -1, -1, 0);
    set(TRAVELDIRECTION_FACE_X_P, +1, 0, 0);
    set(TRAVELDIRECTION_FACE_X_N, -1, 0, 0);
    set(TRAVELDIRECTION_FACE_Y_P, 0, +1, 0);
    set(TRAVELDIRECTION_FACE_Y_N, 0, -1, 0);
    set(TRAVELDIRECTION_FACE_Z_P, 0, 0, +1);
    set(TRAVELDIRECTION_FACE_Z_N, 0, 0, -1);
  }
  // classification with the given offset, -1 if none
  int find(int x, int y, int z) const {
    for (int d = 0; d < 27; ++d)
      if (o[d][0] == x && o[d][1] == y && o[d][2] == z)
        return d;
    return -1;
  }
  int order(int d) const { // 0 inside, 1 face, 2 edge, 3 corner
    return std::abs(o[d][0]) + std::abs(o[d][1]) + std::abs(o[d][2]);
  }
};
const OffTable OFF;

int sgn(double x) { return (x > 0.) - (x < 0.); }

// ------------------------------------------------------------------ layout
// independent model of the subgrid layout (row-major index, x slowest, as
// documented by get_grid_position)
struct Lay {
  int ns[3];
  bool per[3];
  int n() const { return ns[0] * ns[1] * ns[2]; }
  int idx(const int p[3]) const { return (p[0] * ns[1] + p[1]) * ns[2] + p[2]; }
  void pos(int i, int p[3]) const {
    p[2] = i % ns[2];
    p[1] = (i / ns[2]) % ns[1];
    p[0] = i / (ns[1] * ns[2]);
  }
  // geometric neighbour of original subgrid i in classification o; -1 if
  // outside the box.  wrap[a] = +1/-1 if the step wraps upward/downward.
  int ngb(int i, int o, int wrap[3]) const {
    int p[3], q[3];
    pos(i, p);
    for (int a = 0; a < 3; ++a) {
      wrap[a] = 0;
      q[a] = p[a] + OFF.o[o][a];
      if (q[a] < 0) {
        if (!per[a])
          return -1;
        q[a] = ns[a] - 1;
        wrap[a] = -1;
      } else if (q[a] >= ns[a]) {
        if (!per[a])
          return -1;
        q[a] = 0;
        wrap[a] = +1;
      }
    }
    return idx(q);
  }
};

struct Geo {
  double anchor[3], side[3];
  int nc[3]; // total number of cells per axis
  double cs(int a) const { return side[a] / nc[a]; }
  double S() const { // magnitude of the coordinates that occur
    double s = 0.;
    for (int a = 0; a < 3; ++a)
      s = std::max(s, std::abs(anchor[a]) + side[a]);
    return s;
  }
  int ncell() const { return nc[0] * nc[1] * nc[2]; }
  int gcell(const int c[3]) const { return (c[0] * nc[1] + c[1]) * nc[2] + c[2]; }
  // global cell containing a point that is not near a cell boundary
  int gcell_of(const double x[3]) const {
    int c[3];
    for (int a = 0; a < 3; ++a) {
      c[a] = (int)std::floor((x[a] - anchor[a]) / cs(a));
      c[a] = std::max(0, std::min(nc[a] - 1, c[a]));
    }
    return gcell(c);
  }
};

Geo geo_of(const VCase &c) {
  Geo g;
  for (int a = 0; a < 3; ++a) {
    g.anchor[a] = c.d("anchor", a);
    g.side[a] = c.d("side", a);
    g.nc[a] = (int)c.i("nc", a);
  }
  return g;
}
Lay lay_of(const VCase &c) {
  Lay l;
  for (int a = 0; a < 3; ++a) {
    l.ns[a] = (int)c.i("ns", a);
    l.per[a] = c.i("per", a) != 0;
  }
  return l;
}

// ------------------------------------------------------------------ subgrid
// DensitySubGrid with the protected re-positioning routine made observable
// (observation only: the driver itself calls interact()).
class Probe : public DensitySubGrid {
public:
  Probe(const double *box, const CoordinateVector< int_fast32_t > ncell)
      : DensitySubGrid(box, ncell) {}
  Probe(const Probe &o) : DensitySubGrid(o) {}
  void reposition(int in, CoordinateVector<> &p) const {
    update_photon_position(in, p);
  }
};
typedef DensitySubGridCreator< Probe > Creator;

// ------------------------------------------------------------------ field
uint64_t mix64(uint64_t x) {
  x += 0x9e3779b97f4a7c15ull;
  x = (x ^ (x >> 30)) * 0xbf58476d1ce4e5b9ull;
  x = (x ^ (x >> 27)) * 0x94d049bb133111ebull;
  return x ^ (x >> 31);
}
uint64_t hcell(uint64_t seed, int i, int j, int k) {
  return mix64(mix64(mix64(mix64(seed) ^ (uint64_t)i) ^ (uint64_t)j) ^ (uint64_t)k);
}

struct Field {
  std::vector< double > n, xH, xHe, T;
};

// kind 0: uniform, 1: blocky palette, 2: smooth ramp, 3: per-cell palette
Field build_field(const VCase &c, const Geo &g, uint64_t salt) {
  Field f;
  const int kind = (int)c.i("fkind");
  const uint64_t seed = (uint64_t)c.i("fseed") + salt * 7919u;
  const int blk = std::max(1, (int)c.i("fblock"));
  const auto &pn = c.dv("pal_n");
  const auto &px = c.dv("pal_xH");
  const auto &pe = c.dv("pal_xHe");
  const int P = (int)pn.size();
  f.n.resize(g.ncell());
  f.xH.resize(g.ncell());
  f.xHe.resize(g.ncell());
  f.T.resize(g.ncell());
  for (int i = 0; i < g.nc[0]; ++i)
    for (int j = 0; j < g.nc[1]; ++j)
      for (int k = 0; k < g.nc[2]; ++k) {
        const int cc[3] = {i, j, k};
        const int gi = g.gcell(cc);
        int p = 0;
        if (kind == 1)
          p = (int)(hcell(seed, i / blk, j / blk, k / blk) % P);
        else if (kind == 3)
          p = (int)(hcell(seed, i, j, k) % P);
        if (kind == 2) {
          // smooth, strictly positive if the palette is
          const double tx = (i + 0.5) / g.nc[0], ty = (j + 0.5) / g.nc[1],
                       tz = (k + 0.5) / g.nc[2];
          const double s = (4. * tx * (1. - tx) + ty + (1. - tz)) / 3.;
          const double lo = pn[P - 1], hi = pn[0];
          f.n[gi] = lo + (hi - lo) * s;
          f.xH[gi] = px[P - 1] + (px[0] - px[P - 1]) * (1. - s);
          f.xHe[gi] = pe[0];
        } else {
          f.n[gi] = pn[p];
          f.xH[gi] = px[(p + (salt ? 1 : 0)) % P];
          f.xHe[gi] = pe[p];
        }
        if (salt)
          f.n[gi] *= 1. + 0.25 * (double)(hcell(seed, k, i, j) % 3);
        f.T[gi] = 5000. + 100. * (double)(hcell(seed, j, k, i) % 50);
      }
  return f;
}

class TableDensity : public DensityFunction {
  const Geo &_g;
  const Field &_f;

public:
  TableDensity(const Geo &g, const Field &f) : _g(g), _f(f) {}
  virtual DensityValues operator()(const Cell &cell) {
    const CoordinateVector<> m = cell.get_cell_midpoint();
    const double x[3] = {m[0], m[1], m[2]};
    const int gi = _g.gcell_of(x);
    DensityValues v;
    v.set_number_density(_f.n[gi]);
    v.set_ionic_fraction(ION_H_n, _f.xH[gi]);
    v.set_ionic_fraction(ION_He_n, _f.xHe[gi]);
    v.set_temperature(_f.T[gi]);
    return v;
  }
};

std::unique_ptr< Creator > make_creator(const Geo &g, const Lay &l,
                                        const Field *f) {
  Box<> box(CoordinateVector<>(g.anchor[0], g.anchor[1], g.anchor[2]),
            CoordinateVector<>(g.side[0], g.side[1], g.side[2]));
  std::unique_ptr< Creator > c(new Creator(
      box, CoordinateVector< int_fast32_t >(g.nc[0], g.nc[1], g.nc[2]),
      CoordinateVector< int_fast32_t >(l.ns[0], l.ns[1], l.ns[2]),
      CoordinateVector< bool >(l.per[0], l.per[1], l.per[2])));
  if (f) {
    TableDensity df(g, *f);
    c->initialize(df);
  }
  return c;
}

// per-cell estimators of the ORIGINAL subgrids in global cell order
struct Est {
  std::vector< double > I; // [gcell*NUMBER_OF_IONNAMES+ion]
  std::vector< double > H; // [gcell*NUMBER_OF_HEATINGTERMS+term]
};
Est collect(Creator &cr, const Geo &g) {
  Est e;
  e.I.assign((size_t)g.ncell() * NUMBER_OF_IONNAMES, 0.);
  e.H.assign((size_t)g.ncell() * NUMBER_OF_HEATINGTERMS, 0.);
  for (auto it = cr.begin(); it != cr.original_end(); ++it) {
    for (auto ct = (*it).begin(); ct != (*it).end(); ++ct) {
      const CoordinateVector<> m = ct.get_cell_midpoint();
      const double x[3] = {m[0], m[1], m[2]};
      const int gi = g.gcell_of(x);
      const IonizationVariables &iv = ct.get_ionization_variables();
      for (int k = 0; k < NUMBER_OF_IONNAMES; ++k)
        e.I[(size_t)gi * NUMBER_OF_IONNAMES + k] += iv.get_mean_intensity(k);
      for (int k = 0; k < NUMBER_OF_HEATINGTERMS; ++k)
        e.H[(size_t)gi * NUMBER_OF_HEATINGTERMS + k] += iv.get_heating(k);
    }
  }
  return e;
}

// ------------------------------------------------------------------ packets
struct Pk {
  double pos[3], d[3];
  double tauf, w, sH, sHe, E;
  int copysel;
  bool on_sub_boundary;
  double sigma(int ion) const {
    if (ion == ION_H_n)
      return sH;
    if (ion == ION_He_n)
      return sHe;
    return sH * 0.01 * (ion + 1);
  }
  double dmin() const {
    double m = 2.;
    for (int a = 0; a < 3; ++a)
      if (d[a] != 0.)
        m = std::min(m, std::abs(d[a]));
    return m;
  }
};

// start position: cell index + fraction, one formula for generator and oracle
double start_coord(double anchor, double side, int nc, int cell, int fkind,
                   double f) {
  const double cs = side / nc;
  if (fkind == 0)
    return anchor + cell * cs;
  return anchor + (cell + f) * cs;
}

std::vector< Pk > packets_of(const VCase &c, const Geo &g, const Lay &l) {
  const auto &pc = c.iv("pcell");
  const auto &fk = c.iv("pfk");
  const auto &ff = c.dv("pf");
  const auto &pd = c.dv("pdir");
  const auto &pp = c.dv("pphys"); // tauf,w,sH,sHe,E
  const auto &cs = c.iv("pcopy");
  const size_t N = cs.size();
  std::vector< Pk > v(N);
  for (size_t p = 0; p < N; ++p) {
    Pk &k = v[p];
    k.on_sub_boundary = false;
    for (int a = 0; a < 3; ++a) {
      k.pos[a] = start_coord(g.anchor[a], g.side[a], g.nc[a], (int)pc[3 * p + a],
                             (int)fk[3 * p + a], ff[3 * p + a]);
      k.d[a] = pd[3 * p + a];
      const int cps = g.nc[a] / l.ns[a];
      if (fk[3 * p + a] == 0 && pc[3 * p + a] % cps == 0 && l.ns[a] > 1)
        k.on_sub_boundary = true;
    }
    k.tauf = pp[5 * p];
    k.w = pp[5 * p + 1];
    k.sH = pp[5 * p + 2];
    k.sHe = pp[5 * p + 3];
    k.E = pp[5 * p + 4];
    k.copysel = (int)cs[p];
  }
  return v;
}

double kappa(const Field &f, const Pk &p, int gi) {
  return f.n[gi] * (p.sH * f.xH[gi] + p.sHe * f.xHe[gi]);
}
double kappa_max(const Field &f, const Pk &p) {
  double m = 0.;
  for (size_t gi = 0; gi < f.n.size(); ++gi)
    m = std::max(m, kappa(f, p, (int)gi));
  return m;
}
double tau_target(const Field &f, const Geo &g, const Pk &p) {
  const double km = kappa_max(f, p);
  const double L = std::max(g.side[0], std::max(g.side[1], g.side[2]));
  return km > 0. ? p.tauf * km * L : p.tauf;
}

// ------------------------------------------------------------------ driver
struct PRes {
  bool absorbed = false;
  double pos[3] = {0, 0, 0};  // final position as reported by the code
  double upos[3] = {0, 0, 0}; // unwrapped (periodic images undone)
  double taurem = 0.;
  int wraps = 0, nface = 0, nedge = 0, ncorner = 0, wrap1 = 0, wrap2 = 0;
  int viacopy = 0, lvlchange = 0, steps = 0;
};

// The model of the copies (independent of the creator's tables): copies are
// appended in order of their original, 2^level-1 each.
struct CopyModel {
  std::vector< int > level, first, orig;
  int nact = 0;
  void build(int norig, const std::vector< int > &lev) {
    level = lev;
    first.assign(norig, -1);
    orig.resize(norig);
    for (int i = 0; i < norig; ++i)
      orig[i] = i;
    nact = norig;
    for (int i = 0; i < norig; ++i) {
      const int nc = (1 << lev[i]) - 1;
      if (nc > 0)
        first[i] = nact;
      for (int k = 0; k < nc; ++k)
        orig.push_back(i);
      nact += nc;
    }
  }
};

// Sequential packet driver: interact -> map exit to the neighbour through the
// subgrid's own table -> output_to_input_direction -> continue, exactly the
// sequence of PhotonTraversalTaskContext::execute for one packet.  Every
// hand-over is checked against the independent layout model.
std::string trace(Creator &cr, const Lay &l, const Geo &g, const CopyModel &cm,
                  const Field &f, const Pk &pk, int start, PRes &r) {
  PhotonPacket ph;
  ph.set_position(CoordinateVector<>(pk.pos[0], pk.pos[1], pk.pos[2]));
  ph.set_direction(CoordinateVector<>(pk.d[0], pk.d[1], pk.d[2]));
  ph.set_target_optical_depth(tau_target(f, g, pk));
  ph.set_weight(pk.w);
  ph.set_energy(pk.E);
  ph.set_type(PHOTONTYPE_PRIMARY);
  ph.set_scatter_counter(0);
  for (int k = 0; k < NUMBER_OF_IONNAMES; ++k)
    ph.set_photoionization_cross_section(k, pk.sigma(k));

  static const bool dbg = getenv("C03_DEBUG") != nullptr;
  if (dbg)
    fprintf(stderr,
            "packet start (%.17g %.17g %.17g) dir (%.17g %.17g %.17g) tau %.17g "
            "subgrid %d\n",
            pk.pos[0], pk.pos[1], pk.pos[2], pk.d[0], pk.d[1], pk.d[2],
            ph.get_target_optical_depth(), start);
  const double S = g.S();
  const double ptol = 64. * EPS * S;
  double unwrap[3] = {0., 0., 0.};
  size_t cur = start;
  int in = TRAVELDIRECTION_INSIDE;
  double exitpos[3] = {0, 0, 0};
  double entrypos[3] = {pk.pos[0], pk.pos[1], pk.pos[2]};
  int lastwrap[3] = {0, 0, 0};
  const size_t nact = cr.number_of_actual_subgrids();
  // Bound on the number of subgrid visits of one packet, so that a livelock is
  // a failure and not a hang.  Sound packets stay far below it: at most ~25
  // box lengths of path (optical depth <= 2 kappa_max L, opacity contrast
  // <= 11 on periodic grids), i.e. some hundred hand-overs.
  const int MAXVISITS = 4000;
  std::map< std::array< uint64_t, 5 >, int > seen;
  int zero_run = 0;
  for (;;) {
    if (++r.steps > MAXVISITS)
      return fmt("packet did not terminate within %d subgrid visits", MAXVISITS);
    if (zero_run >= 4) {
      // the same (subgrid, entry, position) for the third time, reached
      // through zero-length visits only: the packet is caught in a cycle
      const CoordinateVector<> q = ph.get_position();
      std::array< uint64_t, 5 > key{{(uint64_t)cur, (uint64_t)in, 0, 0, 0}};
      for (int a = 0; a < 3; ++a)
        memcpy(&key[2 + a], &q[a], 8);
      if (++seen[key] >= 3 && zero_run >= 8)
        return fmt("[vertex_pingpong] packet is handed round in a cycle of "
                   "zero-length visits and never terminates: subgrid %zu "
                   "entered through %d at (%.17g %.17g %.17g) for the third "
                   "time, remaining optical depth %.6g",
                   cur, in, q[0], q[1], q[2], ph.get_target_optical_depth());
    }
    if (cur >= nact)
      return fmt("hand-over to subgrid %zu of %zu", cur, nact);
    if ((int)cur >= l.n())
      r.viacopy = 1;
    Probe &sg = *cr.get_subgrid(cur);
    double box[6];
    sg.get_grid_box(box);
    if (in != TRAVELDIRECTION_INSIDE) {
      // where will interact() put the packet?  It must be the physical exit
      // position (modulo the box length on a wrapped axis), on the entry
      // element named by the classification.
      const CoordinateVector<> q = ph.get_position();
      CoordinateVector<> loc(q[0] - box[0], q[1] - box[1], q[2] - box[2]);
      const CoordinateVector<> before = loc;
      sg.reposition(in, loc);
      for (int a = 0; a < 3; ++a) {
        const int oi = OFF.o[in][a];
        if (oi == -1 && loc[a] != 0.)
          return fmt("entry %d: local coordinate %d is %.17g, expected 0", in, a,
                     loc[a]);
        if (oi == +1 && loc[a] != box[3 + a])
          return fmt("entry %d: local coordinate %d is %.17g, expected the "
                     "upper boundary %.17g",
                     in, a, loc[a], box[3 + a]);
        if (oi == 0 && loc[a] != before[a])
          return fmt("entry %d: coordinate %d changed although the entry "
                     "element does not fix it",
                     in, a);
        const double entry = loc[a] + box[a];
        entrypos[a] = entry;
        const double expect = exitpos[a] - lastwrap[a] * g.side[a];
        if (std::abs(entry - expect) > ptol)
          return fmt("hand-over into subgrid %zu through %d: entry coordinate "
                     "%d = %.17g but the packet left at %.17g (wrap %d, "
                     "expected %.17g)",
                     cur, in, a, entry, exitpos[a], lastwrap[a], expect);
      }
    } else {
      // (is_in_box() itself is too strict here: a start on a subgrid boundary
      // may be an ulp outside the box get_subgrid() selects)
      for (int a = 0; a < 3; ++a)
        if (pk.pos[a] < box[a] - ptol || pk.pos[a] > box[a] + box[3 + a] + ptol)
          return fmt("start subgrid %zu does not contain the start position "
                     "(axis %d: %.17g not in [%.17g,%.17g])",
                     cur, a, pk.pos[a], box[a], box[a] + box[3 + a]);
    }
    const int out = sg.interact(ph, in);
    if (dbg)
      fprintf(stderr,
              "  visit %d: subgrid %zu entry %d -> exit %d at (%.17g %.17g "
              "%.17g) tau left %.17g\n",
              r.steps, cur, in, out, ph.get_position()[0], ph.get_position()[1],
              ph.get_position()[2], ph.get_target_optical_depth());
    if (out < 0 || out >= ND)
      return fmt("interact returned %d", out);
    const CoordinateVector<> q = ph.get_position();
    if (out == TRAVELDIRECTION_INSIDE) {
      r.absorbed = true;
      for (int a = 0; a < 3; ++a) {
        r.pos[a] = q[a];
        r.upos[a] = q[a] + unwrap[a];
      }
      r.taurem = ph.get_target_optical_depth();
      return "";
    }
    // exit: position on the named element of this subgrid, direction
    // compatible with it
    // (before fix 170f330 a packet put exactly on an upper boundary arrived
    // with a computed index one beyond the block and was passed on at once
    // against its direction of travel; since the fix no exit may be
    // incompatible with the direction)
    if (std::abs(q[0] - entrypos[0]) <= ptol &&
        std::abs(q[1] - entrypos[1]) <= ptol &&
        std::abs(q[2] - entrypos[2]) <= ptol)
      ++zero_run;
    else
      zero_run = 0;
    for (int a = 0; a < 3; ++a) {
      const int oo = OFF.o[out][a];
      exitpos[a] = q[a];
      if (oo != 0 && sgn(pk.d[a]) != oo)
        return fmt("exit %d from subgrid %zu against the direction of travel "
                   "(direction[%d] = %g)",
                   out, cur, a, pk.d[a]);
      const double want = oo > 0 ? box[a] + box[3 + a] : box[a];
      if (oo != 0 && std::abs(q[a] - want) > ptol)
        return fmt("exit %d from subgrid %zu: coordinate %d = %.17g is not on "
                   "the boundary %.17g",
                   out, cur, a, q[a], want);
      if (oo == 0 &&
          (q[a] < box[a] - ptol || q[a] > box[a] + box[3 + a] + ptol))
        return fmt("exit %d from subgrid %zu: coordinate %d = %.17g outside "
                   "[%.17g,%.17g]",
                   out, cur, a, q[a], box[a], box[a] + box[3 + a]);
    }
    const uint_fast32_t ngb = sg.get_neighbour(out);
    const int mo = l.ngb(cm.orig[cur], out, lastwrap);
    if (ngb == NEIGHBOUR_OUTSIDE) {
      if (mo >= 0)
        return fmt("subgrid %zu: neighbour %d is OUTSIDE, geometric neighbour "
                   "is %d",
                   cur, out, mo);
      for (int a = 0; a < 3; ++a) {
        r.pos[a] = q[a];
        r.upos[a] = q[a] + unwrap[a];
      }
      r.taurem = ph.get_target_optical_depth();
      return "";
    }
    if (ngb >= nact)
      return fmt("subgrid %zu: neighbour %d = %u out of range", cur, out,
                 (unsigned)ngb);
    if (cm.orig[ngb] != mo)
      return fmt("subgrid %zu (original %d): neighbour %d = %u (original %d), "
                 "geometric neighbour is %d",
                 cur, cm.orig[cur], out, (unsigned)ngb, cm.orig[ngb], mo);
    const int ord = OFF.order(out);
    (ord == 1 ? r.nface : ord == 2 ? r.nedge : r.ncorner)++;
    for (int a = 0; a < 3; ++a)
      if (lastwrap[a]) {
        ++r.wraps;
        unwrap[a] += lastwrap[a] * g.side[a];
        if (l.ns[a] == 1)
          ++r.wrap1;
        if (l.ns[a] == 2)
          ++r.wrap2;
      }
    if (cm.level[cm.orig[cur]] != cm.level[cm.orig[ngb]])
      ++r.lvlchange;
    cur = ngb;
    in = TravelDirections::output_to_input_direction(out);
  }
}

// optical depth along the ray from a to b (both unwrapped, b-a parallel to d)
// in long double, closed-form plane crossings (no marching)
long double tau_between(const Geo &g, const Field &f, const Pk &p,
                        const double a[3], const double b[3]) {
  long double len = 0;
  for (int k = 0; k < 3; ++k)
    len += ((long double)b[k] - a[k]) * p.d[k];
  long double dn = 0;
  for (int k = 0; k < 3; ++k)
    dn += (long double)p.d[k] * p.d[k];
  len /= dn; // parameter along d
  long double s0 = 0, s1 = len;
  if (s1 < s0)
    std::swap(s0, s1);
  std::vector< long double > cuts{s0, s1};
  for (int k = 0; k < 3; ++k) {
    if (p.d[k] == 0.)
      continue;
    const long double cs = (long double)g.side[k] / g.nc[k];
    const long double x0 = (long double)a[k] + s0 * p.d[k],
                      x1 = (long double)a[k] + s1 * p.d[k];
    const long m0 = (long)std::floor((std::min(x0, x1) - g.anchor[k]) / cs) - 1;
    const long m1 = (long)std::floor((std::max(x0, x1) - g.anchor[k]) / cs) + 1;
    for (long m = m0; m <= m1 && m - m0 < 4000; ++m) {
      const long double s = (g.anchor[k] + m * cs - a[k]) / p.d[k];
      if (s > s0 && s < s1)
        cuts.push_back(s);
    }
  }
  std::sort(cuts.begin(), cuts.end());
  long double tau = 0;
  const long double dl = std::sqrt(dn);
  for (size_t i = 0; i + 1 < cuts.size(); ++i) {
    const long double sm = 0.5L * (cuts[i] + cuts[i + 1]);
    int c[3];
    for (int k = 0; k < 3; ++k) {
      const long double cs = (long double)g.side[k] / g.nc[k];
      long m = (long)std::floor(((long double)a[k] + sm * p.d[k] - g.anchor[k]) / cs);
      m %= g.nc[k];
      if (m < 0)
        m += g.nc[k];
      c[k] = (int)m;
    }
    tau += kappa(f, p, g.gcell(c)) * (cuts[i + 1] - cuts[i]) * dl;
  }
  return tau;
}

double tol_len(const Geo &g, const Pk &p, int wraps) {
  return 1024. * (1 + wraps) * EPS * g.S() / p.dmin();
}

// compare the fate of one packet in the reference (R) and the test (T) run.
// returns "" (agree), "ambiguous" or a failure text
std::string cmp_packet(const Geo &g, const Field &f, const Pk &p, const PRes &R,
                       const PRes &T, size_t ip) {
  for (int a = 0; a < 3; ++a)
    if (!std::isfinite(R.upos[a]) || !std::isfinite(T.upos[a]))
      return fmt("packet %zu: final position component %d is %g (undivided) / "
                 "%g (layout)", ip, a, R.upos[a], T.upos[a]);
  if (!std::isfinite(R.taurem) || !std::isfinite(T.taurem))
    return fmt("packet %zu: remaining optical depth %g (undivided) / %g "
               "(layout)", ip, R.taurem, T.taurem);
  const int W = std::max(R.wraps, T.wraps);
  const double tl = tol_len(g, p, W);
  const double km = kappa_max(f, p);
  const double tt = tau_target(f, g, p);
  const double ttol = 64. * EPS * tt + km * tl * 40. * (1 + W);
  if (R.absorbed != T.absorbed) {
    const PRes &esc = R.absorbed ? T : R;
    if (esc.taurem <= ttol && esc.taurem >= -ttol)
      return "ambiguous";
    return fmt("packet %zu: %s in the undivided grid but %s in the layout "
               "(remaining optical depth of the escaped one %.6g, tolerance "
               "%.3g)",
               ip, R.absorbed ? "absorbed" : "escaped",
               T.absorbed ? "absorbed" : "escaped", esc.taurem, ttol);
  }
  double dist = 0.;
  for (int a = 0; a < 3; ++a)
    dist = std::max(dist, std::abs(R.upos[a] - T.upos[a]));
  if (!R.absorbed) {
    if (dist > 4. * tl)
      return fmt("packet %zu: escape position differs by %.6g (tolerance %.3g): "
                 "(%.17g %.17g %.17g) vs (%.17g %.17g %.17g)",
                 ip, dist, 4. * tl, R.upos[0], R.upos[1], R.upos[2], T.upos[0],
                 T.upos[1], T.upos[2]);
    if (std::abs(R.taurem - T.taurem) > ttol)
      return fmt("packet %zu: remaining optical depth at escape %.17g vs %.17g "
                 "(tolerance %.3g)",
                 ip, R.taurem, T.taurem, ttol);
    return "";
  }
  // both absorbed: positions agree, or the optical depth between them is
  // within tolerance (threshold reached at a cell boundary next to vacuum)
  if (dist <= 4. * tl)
    return "";
  const long double tb = tau_between(g, f, p, R.upos, T.upos);
  if (tb <= ttol) {
    // also require that the two points are on one ray
    return "ambiguous";
  }
  return fmt("packet %zu: absorption position differs by %.6g (tolerance %.3g, "
             "optical depth between the two points %.6Lg, tolerance %.3g): "
             "(%.17g %.17g %.17g) vs (%.17g %.17g %.17g)",
             ip, dist, 4. * tl, tb, ttol, R.upos[0], R.upos[1], R.upos[2],
             T.upos[0], T.upos[1], T.upos[2]);
}

// (the "[vertex_pingpong]" class was finding C03-F14, fixed in /repo by
// clamping the computed entry index; it is an ordinary failure now)
void fail_with(VResult &r, const std::string &m) { r.fail(m); }

// ------------------------------------------------------------------ generators
void gen_geometry(VCase &c, const int nc[3]) {
  std::vector< double > anchor(3), side(3);
  const bool dy = vr::coin(0.4);
  if (dy) {
    const int k0 = (int)vr::irange(-3, 1);
    const bool same = vr::coin(0.7);
    for (int a = 0; a < 3; ++a) {
      const int k = same ? k0 : (int)vr::irange(-3, 1);
      const double cs = std::ldexp(1., k);
      side[a] = nc[a] * cs;
      anchor[a] = cs * (double)vr::irange(-nc[a], nc[a]);
    }
  } else {
    const double scale = vr::pick(std::vector< double >{1., 1e-3, 3.0857e16});
    for (int a = 0; a < 3; ++a) {
      side[a] = scale * vr::uni(0.5, 2.);
      const int m = vr::weighted({3, 3, 1, 1});
      if (m == 0)
        anchor[a] = -0.5 * side[a];
      else if (m == 1)
        anchor[a] = scale * vr::uni(-2., 2.);
      else if (m == 2)
        anchor[a] = scale * vr::uni(20., 100.);
      else
        anchor[a] = -scale * vr::uni(20., 100.);
    }
  }
  c.I("dyadic", dy ? 1 : 0);
  c.D("anchor", anchor);
  c.D("side", side);
}

// layout for the tracing sub-checks: total cells from {4,6,8,12}, subgrids per
// axis any divisor <= maxsub
void gen_layout(VCase &c, int maxsub, int nc[3], int ns[3], int per[3]) {
  const bool smallgrid = vr::coin(0.5);
  for (int a = 0; a < 3; ++a) {
    nc[a] = smallgrid ? (int)vr::pick(std::vector< int64_t >{4, 6})
                      : (int)vr::pick(std::vector< int64_t >{4, 6, 8, 12});
    std::vector< int64_t > div;
    for (int s = 1; s <= maxsub; ++s)
      if (nc[a] % s == 0)
        div.push_back(s);
    ns[a] = (int)vr::pick(div);
    per[a] = vr::coin(0.45) ? 1 : 0;
  }
  c.I("nc", std::vector< int64_t >{nc[0], nc[1], nc[2]});
  c.I("ns", std::vector< int64_t >{ns[0], ns[1], ns[2]});
  c.I("per", std::vector< int64_t >{per[0], per[1], per[2]});
}

void gen_field(VCase &c, bool anyper) {
  int kind = vr::weighted({2, 4, 2, 3});
  c.I("fkind", kind);
  c.I("fseed", vr::irange(0, 1000000));
  c.I("fblock", vr::irange(1, 3));
  const int P = kind == 0 ? 1 : (int)vr::irange(2, 4);
  const double n0 = vr::logu(1e2, 1e10);
  const double lo = anyper ? 0.3 : 1e-4;
  std::vector< double > pn(P), px(P), pe(P);
  for (int p = 0; p < P; ++p) {
    pn[p] = n0 * vr::logu(lo, 1.);
    px[p] = vr::logu(anyper ? 0.3 : 1e-4, 1.);
    pe[p] = vr::coin(0.3) ? 0. : vr::uni(0., 1.);
    // vacuum pockets / fully ionized cells only where no axis is periodic
    if (!anyper && kind != 2 && p > 0 && vr::coin(0.5)) {
      if (vr::coin(0.5))
        pn[p] = 0.;
      else {
        px[p] = 0.;
        pe[p] = 0.;
      }
    }
  }
  if (kind == 2) { // ramp from pn[0] (high) to pn[P-1] (low), both positive
    pn[0] = n0;
    pn[P - 1] = n0 * vr::logu(anyper ? 0.3 : 1e-2, 1.);
  }
  c.D("pal_n", pn);
  c.D("pal_xH", px);
  c.D("pal_xHe", pe);
}

void gen_packets(VCase &c, const int nc[3], const int ns[3], bool anyper,
                 int maxn) {
  const std::vector< double > anchor = c.dv("anchor");
  const std::vector< double > side = c.dv("side");
  const int N = vr::coin(0.1) ? (int)vr::irange(1, maxn)
                              : (int)vr::irange(1, std::min(maxn, 30));
  std::vector< int64_t > pcell, pfk, pcopy;
  std::vector< double > pf, pdir, pphys;
  const double a3 = 1. / std::sqrt(3.), a2 = 1. / std::sqrt(2.);
  for (int p = 0; p < N; ++p) {
    int cell[3], fk[3];
    double f[3], d[3];
    const bool nearsub = vr::coin(0.4);
    const int fmode = vr::weighted({4, 2, 2}); // generic / boundary-ish / dyadic
    double fq = vr::pick(std::vector< double >{0.25, 0.5, 0.75});
    for (int a = 0; a < 3; ++a) {
      const int cps = nc[a] / ns[a];
      if (nearsub) // a cell whose lower face is a subgrid boundary
        cell[a] = cps * (int)vr::irange(0, ns[a] - 1);
      else
        cell[a] = (int)vr::irange(0, nc[a] - 1);
      if (fmode == 0)
        fk[a] = 1;
      else if (fmode == 1)
        fk[a] = vr::coin(0.6) ? 0 : 1;
      else
        fk[a] = vr::coin(0.3) ? 0 : 2;
      f[a] = fk[a] == 2 ? fq : vr::uni(0.01, 0.99);
    }
    const int dmode = vr::weighted({5, 1, 2, 3, 3});
    auto sign = [] { return vr::coin(0.5) ? 1. : -1.; };
    if (dmode == 0) { // generic
      double nn = 0.;
      for (int a = 0; a < 3; ++a) {
        d[a] = sign() * vr::logu(1e-2, 1.);
        nn += d[a] * d[a];
      }
      nn = std::sqrt(nn);
      for (int a = 0; a < 3; ++a)
        d[a] /= nn;
    } else if (dmode == 1) { // axis aligned
      const int ax = (int)vr::irange(0, 2);
      for (int a = 0; a < 3; ++a)
        d[a] = a == ax ? sign() : 0.;
    } else if (dmode == 2) { // in a coordinate plane
      const int z = (int)vr::irange(0, 2);
      double nn = 0.;
      for (int a = 0; a < 3; ++a) {
        d[a] = a == z ? 0. : sign() * vr::logu(1e-2, 1.);
        nn += d[a] * d[a];
      }
      nn = std::sqrt(nn);
      for (int a = 0; a < 3; ++a)
        d[a] /= nn;
    } else if (dmode == 3) { // exact diagonal: identical components
      const int z = (int)vr::irange(0, 3);
      for (int a = 0; a < 3; ++a)
        d[a] = a == z ? 0. : sign() * (z == 3 ? a3 : a2);
    } else { // aimed at a subgrid corner / edge vertex
      int v[3];
      for (int a = 0; a < 3; ++a) {
        const int cps = nc[a] / ns[a];
        v[a] = cps * (int)vr::irange(0, ns[a]);
      }
      for (int pass = 0; pass < 2; ++pass) {
        double nn = 0.;
        bool again = false;
        for (int a = 0; a < 3; ++a) {
          const double x =
              start_coord(anchor[a], side[a], nc[a], cell[a], fk[a], f[a]);
          const double t = anchor[a] + v[a] * (side[a] / nc[a]);
          d[a] = t - x;
          if (fk[a] == 0 && v[a] == cell[a]) {
            fk[a] = 2;
            f[a] = 0.5;
            again = true;
          }
          nn += d[a] * d[a];
        }
        if (!again) {
          nn = std::sqrt(nn);
          bool tiny = false;
          for (int a = 0; a < 3; ++a) {
            d[a] /= nn;
            if (d[a] != 0. && std::abs(d[a]) < 2e-3)
              tiny = true;
          }
          if (tiny) // very elongated cells: fall back to an exact diagonal
            for (int a = 0; a < 3; ++a)
              d[a] = d[a] < 0. ? -a3 : a3;
          break;
        }
      }
    }
    // a packet must not travel inside a cell-boundary plane (its cell would be
    // a matter of round-off): zero component => generic coordinate
    for (int a = 0; a < 3; ++a)
      if (d[a] == 0. && fk[a] != 1) {
        fk[a] = 1;
        f[a] = vr::uni(0.01, 0.99);
      }
    for (int a = 0; a < 3; ++a) {
      pcell.push_back(cell[a]);
      pfk.push_back(fk[a]);
      pf.push_back(f[a]);
      pdir.push_back(d[a]);
    }
    const double tauf = vr::coin(anyper ? 0. : 0.15) ? 10. : vr::logu(1e-3, 2.);
    const double sH = vr::logu(1e-23, 1e-21);
    pphys.push_back(tauf);
    pphys.push_back(vr::uni(0.1, 2.));
    pphys.push_back(sH);
    pphys.push_back(vr::coin(0.2) ? 0. : sH * vr::uni(0., 1.));
    pphys.push_back(vr::uni(6e15, 2e16));
    pcopy.push_back(vr::irange(0, 7));
  }
  c.I("pcell", pcell);
  c.I("pfk", pfk);
  c.D("pf", pf);
  c.D("pdir", pdir);
  c.D("pphys", pphys);
  c.I("pcopy", pcopy);
}

// copy levels: the shape real callers produce (sources at level L, face
// neighbours restricted to differ by <= 1) or arbitrary
std::vector< int64_t > gen_levels(const int ns[3], const int per[3], int cap,
                                  int &mode) {
  const int n = ns[0] * ns[1] * ns[2];
  std::vector< int64_t > lev(n, 0);
  mode = vr::weighted({3, 3, 1});
  if (mode == 0) {
    const int nsrc = (int)vr::irange(1, 2);
    for (int s = 0; s < nsrc; ++s)
      lev[vr::irange(0, n - 1)] = vr::irange(1, 3);
    // the restriction loop of TaskBasedIonizationSimulation, on an own
    // face-neighbour computation
    for (int L = 3; L > 0; --L)
      for (int i = 0; i < n; ++i)
        if (lev[i] == L) {
          int p[3] = {i / (ns[1] * ns[2]), (i / ns[2]) % ns[1], i % ns[2]};
          for (int a = 0; a < 3; ++a)
            for (int s = -1; s <= 1; s += 2) {
              int q[3] = {p[0], p[1], p[2]};
              q[a] += s;
              if (q[a] < 0 || q[a] >= ns[a]) {
                if (!per[a])
                  continue;
                q[a] = (q[a] + ns[a]) % ns[a];
              }
              const int j = (q[0] * ns[1] + q[1]) * ns[2] + q[2];
              if (lev[j] < L - 1)
                lev[j] = L - 1;
            }
        }
  } else if (mode == 1) {
    for (int i = 0; i < n; ++i)
      lev[i] = vr::weighted({5, 3, 2, 1});
  } else {
    const int64_t L = vr::irange(0, 2);
    for (int i = 0; i < n; ++i)
      lev[i] = L;
  }
  // bound the total number of subgrids
  for (;;) {
    long tot = 0;
    int64_t mx = 0;
    for (auto x : lev) {
      tot += 1l << x;
      mx = std::max(mx, x);
    }
    if (tot <= cap || mx == 0)
      break;
    for (auto &x : lev)
      if (x == mx)
        --x;
  }
  return lev;
}

VCase gen_trace() {
  VCase c;
  int nc[3], ns[3], per[3];
  gen_layout(c, 4, nc, ns, per);
  gen_geometry(c, nc);
  const bool anyper = per[0] || per[1] || per[2];
  gen_field(c, anyper);
  gen_packets(c, nc, ns, anyper, 200);
  return c;
}

VCase gen_copies_trace() {
  VCase c;
  int nc[3], ns[3], per[3];
  gen_layout(c, 3, nc, ns, per);
  gen_geometry(c, nc);
  const bool anyper = per[0] || per[1] || per[2];
  gen_field(c, anyper);
  gen_packets(c, nc, ns, anyper, 80);
  int mode;
  c.I("levels", gen_levels(ns, per, 160, mode));
  c.I("lmode", mode);
  return c;
}

VCase gen_small_layout(bool with_levels) {
  VCase c;
  int nc[3], ns[3], per[3];
  for (int a = 0; a < 3; ++a) {
    ns[a] = (int)vr::irange(1, with_levels ? 4 : 5);
    nc[a] = ns[a] * (int)vr::irange(1, with_levels ? 2 : 3);
    per[a] = vr::coin(0.5) ? 1 : 0;
  }
  c.I("nc", std::vector< int64_t >{nc[0], nc[1], nc[2]});
  c.I("ns", std::vector< int64_t >{ns[0], ns[1], ns[2]});
  c.I("per", std::vector< int64_t >{per[0], per[1], per[2]});
  gen_geometry(c, nc);
  if (with_levels) {
    int mode;
    c.I("levels", gen_levels(ns, per, 400, mode));
    c.I("lmode", mode);
    const bool upd = vr::coin(0.5);
    c.I("update", upd ? 1 : 0);
    int mode2;
    c.I("levels2", gen_levels(ns, per, 400, mode2));
  } else {
    c.D("mag", std::vector< double >{vr::logu(1e-6, 1.), vr::logu(1e-6, 1.),
                                     vr::logu(1e-6, 1.)});
    c.D("point", std::vector< double >{vr::uni(0.02, 0.98), vr::uni(0.02, 0.98),
                                       vr::uni(0.02, 0.98)});
    c.I("probe", vr::irange(0, ns[0] * ns[1] * ns[2] - 1));
  }
  return c;
}

// ------------------------------------------------------------------ tables
VResult o_tables(const VCase &c) {
  VResult r;
  const Geo g = geo_of(c);
  const Lay l = lay_of(c);
  // (0) the independent table itself is a bijection onto {-1,0,1}^3
  for (int x = -1; x <= 1; ++x)
    for (int y = -1; y <= 1; ++y)
      for (int z = -1; z <= 1; ++z)
        if (OFF.find(x, y, z) < 0) {
          r.fail("harness: offset table incomplete");
          return r;
        }
  // (1) out -> in is the negation and an involution
  for (int o = 0; o < ND; ++o) {
    const int in = TravelDirections::output_to_input_direction(o);
    if (in < 0 || in >= ND) {
      r.fail(fmt("output_to_input_direction(%d) = %d", o, in));
      return r;
    }
    for (int a = 0; a < 3; ++a)
      if (OFF.o[in][a] != -OFF.o[o][a]) {
        r.fail(fmt("output_to_input_direction(%d) = %d is not the opposite "
                   "element (axis %d: %d vs %d)",
                   o, in, a, OFF.o[in][a], OFF.o[o][a]));
        return r;
      }
    if (TravelDirections::output_to_input_direction(in) != o) {
      r.fail(fmt("output_to_input_direction is not an involution at %d", o));
      return r;
    }
  }
  // (2) compatibility tables, all 27 sign patterns of the direction
  for (int sx = -1; sx <= 1; ++sx)
    for (int sy = -1; sy <= 1; ++sy)
      for (int sz = -1; sz <= 1; ++sz) {
        const CoordinateVector<> d(sx * c.d("mag", 0), sy * c.d("mag", 1),
                                   sz * c.d("mag", 2));
        const int s[3] = {sx, sy, sz};
        for (int o = 0; o < ND; ++o) {
          bool eo = true, ei = true;
          for (int a = 0; a < 3; ++a) {
            if (OFF.o[o][a] != 0 && s[a] != OFF.o[o][a])
              eo = false;
            if (OFF.o[o][a] != 0 && s[a] != -OFF.o[o][a])
              ei = false;
          }
          const bool co = TravelDirections::is_compatible_output_direction(d, o);
          const bool ci = TravelDirections::is_compatible_input_direction(d, o);
          if (co != eo) {
            r.fail(fmt("is_compatible_output_direction((%d,%d,%d),%d) = %d, "
                       "expected %d",
                       sx, sy, sz, o, co, eo));
            return r;
          }
          if (ci != ei) {
            r.fail(fmt("is_compatible_input_direction((%d,%d,%d),%d) = %d, "
                       "expected %d",
                       sx, sy, sz, o, ci, ei));
            return r;
          }
          const bool cio = TravelDirections::is_compatible_input_direction(
              d, TravelDirections::output_to_input_direction(o));
          if (cio != co) {
            r.fail(fmt("direction (%d,%d,%d) may leave through %d (%d) but may "
                       "not enter through the opposite element (%d)",
                       sx, sy, sz, o, co, cio));
            return r;
          }
        }
      }
  // (3) the 6-bit mask table is the offset table
  for (int m = 0; m < 64; ++m) {
    int off[3];
    bool valid = true;
    for (int a = 0; a < 3; ++a) {
      const int hi = (m >> (5 - 2 * a)) & 1, lo = (m >> (4 - 2 * a)) & 1;
      if (hi && lo)
        valid = false;
      off[a] = hi - lo;
    }
    const int want = valid ? OFF.find(off[0], off[1], off[2]) : -1;
    const int got = TravelDirections::get_output_direction(m);
    if (got != want) {
      r.fail(fmt("get_output_direction(mask %d) = %d, expected %d", m, got, want));
      return r;
    }
  }
  // (4) neighbour wiring of every subgrid of the layout
  std::unique_ptr< Creator > cr = make_creator(g, l, nullptr);
  const int n = l.n();
  if ((int)cr->number_of_original_subgrids() != n) {
    r.fail("number_of_original_subgrids");
    return r;
  }
  const double S = g.S();
  for (int i = 0; i < n; ++i) {
    int p[3];
    l.pos(i, p);
    const CoordinateVector< int_fast32_t > gp = cr->get_grid_position(i);
    if (gp[0] != p[0] || gp[1] != p[1] || gp[2] != p[2]) {
      r.fail(fmt("get_grid_position(%d) = (%d,%d,%d), expected (%d,%d,%d)", i,
                 (int)gp[0], (int)gp[1], (int)gp[2], p[0], p[1], p[2]));
      return r;
    }
    std::unique_ptr< Probe > sg(cr->create_subgrid(i));
    double box[6];
    sg->get_grid_box(box);
    double mid[3];
    for (int a = 0; a < 3; ++a) {
      const double ss = g.side[a] / l.ns[a];
      if (std::abs(box[a] - (g.anchor[a] + p[a] * ss)) > 8. * EPS * S ||
          std::abs(box[3 + a] - ss) > 8. * EPS * S) {
        r.fail(fmt("subgrid %d: box axis %d = [%.17g,+%.17g], expected "
                   "[%.17g,+%.17g]",
                   i, a, box[a], box[3 + a], g.anchor[a] + p[a] * ss, ss));
        return r;
      }
      mid[a] = g.anchor[a] + (p[a] + 0.5) * ss;
    }
    if ((int)cr->get_subgrid(CoordinateVector<>(mid[0], mid[1], mid[2]))
            .get_index() != i) {
      r.fail(fmt("get_subgrid(centre of subgrid %d) returns another subgrid", i));
      return r;
    }
    for (int o = 0; o < ND; ++o) {
      int w[3];
      const int want = l.ngb(i, o, w);
      const uint_fast32_t got = sg->get_neighbour(o);
      if (want < 0 ? got != NEIGHBOUR_OUTSIDE : got != (uint_fast32_t)want) {
        r.fail(fmt("layout %dx%dx%d periodic %d%d%d: neighbour of subgrid %d "
                   "(%d,%d,%d) in classification %d is %ld, expected %d",
                   l.ns[0], l.ns[1], l.ns[2], l.per[0], l.per[1], l.per[2], i,
                   p[0], p[1], p[2], o,
                   got == NEIGHBOUR_OUTSIDE ? -1l : (long)got, want));
        return r;
      }
    }
    // the six face neighbours used for the copy-level restriction
    size_t nb[6];
    const int nn = cr->get_neighbours(i, nb);
    std::vector< long > gotn(nb, nb + nn), wantn;
    for (int o = 1; o < ND; ++o)
      if (OFF.order(o) == 1) {
        int w[3];
        const int x = l.ngb(i, o, w);
        if (x >= 0)
          wantn.push_back(x);
      }
    std::sort(gotn.begin(), gotn.end());
    std::sort(wantn.begin(), wantn.end());
    if (gotn != wantn) {
      r.fail(fmt("get_neighbours(%d) returns %d neighbours that are not the "
                 "%zu face neighbours",
                 i, nn, wantn.size()));
      return r;
    }
  }
  // (5) exit classification and re-positioning on one subgrid
  {
    const int i = (int)c.i("probe");
    std::unique_ptr< Probe > sg(cr->create_subgrid(i));
    double box[6];
    sg->get_grid_box(box);
    int cps[3];
    for (int a = 0; a < 3; ++a)
      cps[a] = g.nc[a] / l.ns[a];
    for (int x = 0; x < 5; ++x)
      for (int y = 0; y < 5; ++y)
        for (int z = 0; z < 5; ++z) {
          const int t[3] = {x, y, z};
          int ti[3], off[3];
          for (int a = 0; a < 3; ++a) {
            const int vals[5] = {-1, 0, cps[a] / 2, cps[a] - 1, cps[a]};
            ti[a] = vals[t[a]];
            off[a] = ti[a] < 0 ? -1 : ti[a] >= cps[a] ? 1 : 0;
          }
          const int got = sg->get_output_direction(
              CoordinateVector< int_fast32_t >(ti[0], ti[1], ti[2]));
          const int want = OFF.find(off[0], off[1], off[2]);
          if (got != want) {
            r.fail(fmt("get_output_direction(%d,%d,%d) on %dx%dx%d cells = %d, "
                       "expected %d",
                       ti[0], ti[1], ti[2], cps[0], cps[1], cps[2], got, want));
            return r;
          }
        }
    for (int in = 0; in < ND; ++in) {
      CoordinateVector<> loc(c.d("point", 0) * box[3], c.d("point", 1) * box[4],
                             c.d("point", 2) * box[5]);
      const CoordinateVector<> before = loc;
      sg->reposition(in, loc);
      CoordinateVector< int_fast32_t > ti;
      sg->get_start_index(loc, in, ti);
      for (int a = 0; a < 3; ++a) {
        const int oi = OFF.o[in][a];
        const double want = oi < 0 ? 0. : oi > 0 ? box[3 + a] : before[a];
        if (loc[a] != want) {
          r.fail(fmt("update_photon_position(entry %d): coordinate %d = %.17g, "
                     "expected %.17g",
                     in, a, loc[a], want));
          return r;
        }
        const int wi = oi < 0 ? 0
                       : oi > 0
                           ? cps[a] - 1
                           : (int)std::floor(c.d("point", a) * cps[a]);
        // the generated point is generic; skip the index if it is within
        // round-off of a cell boundary
        const double fr = c.d("point", a) * cps[a];
        if (oi == 0 && std::abs(fr - std::round(fr)) < 1e-9)
          continue;
        if (ti[a] != wi) {
          r.fail(fmt("get_start_index(entry %d): index %d = %d, expected %d", in,
                     a, (int)ti[a], wi));
          return r;
        }
      }
    }
  }
  bool p1 = false, p2 = false, anyp = false;
  for (int a = 0; a < 3; ++a) {
    if (l.per[a]) {
      anyp = true;
      if (l.ns[a] == 1)
        p1 = true;
      if (l.ns[a] == 2)
        p2 = true;
    }
  }
  if (p1)
    r.label("periodic-axis-with-1-subgrid");
  if (p2)
    r.label("periodic-axis-with-2-subgrids");
  if (!anyp)
    r.label("non-periodic");
  if (n == 1)
    r.label("single-subgrid");
  r.nontrivial = n > 1 || anyp;
  return r;
}

// ------------------------------------------------------------------ layout_trace
void label_runs(VResult &r, const std::vector< PRes > &T, const Lay &l) {
  int nf = 0, ne = 0, ncn = 0, nw = 0, w1 = 0, w2 = 0, nabs = 0, nesc = 0;
  for (auto &t : T) {
    nf += t.nface;
    ne += t.nedge;
    ncn += t.ncorner;
    nw += t.wraps;
    w1 += t.wrap1;
    w2 += t.wrap2;
    (t.absorbed ? nabs : nesc)++;
  }
  if (nf)
    r.label("handover-face");
  if (ne)
    r.label("handover-edge");
  if (ncn)
    r.label("handover-corner");
  if (ne || ncn)
    r.label("handover-edge-or-corner");
  if (nw)
    r.label("periodic-wrap");
  if (w1)
    r.label("wrap-on-1-subgrid-axis");
  if (w2)
    r.label("wrap-on-2-subgrid-axis");
  if (nabs)
    r.label("some-absorbed");
  if (nesc)
    r.label("some-escaped");
  if (l.n() == 1)
    r.label("layout-1x1x1");
}

VResult o_layout_trace(const VCase &c) {
  VResult r;
  const Geo g = geo_of(c);
  const Lay l = lay_of(c);
  Lay l1 = l;
  l1.ns[0] = l1.ns[1] = l1.ns[2] = 1;
  const Field f = build_field(c, g, 0);
  const std::vector< Pk > pk = packets_of(c, g, l);
  std::unique_ptr< Creator > R = make_creator(g, l1, &f);
  std::unique_ptr< Creator > T = make_creator(g, l, &f);
  CopyModel cmR, cmT;
  cmR.build(1, std::vector< int >(1, 0));
  cmT.build(l.n(), std::vector< int >(l.n(), 0));
  std::vector< PRes > rr(pk.size()), tt(pk.size());
  bool ambiguous = false, startb = false;
  for (size_t p = 0; p < pk.size(); ++p) {
    if (pk[p].dmin() < 1e-4) {
      r.fail("harness: unsound direction generated");
      return r;
    }
    const CoordinateVector<> x(pk[p].pos[0], pk[p].pos[1], pk[p].pos[2]);
    std::string e = trace(*R, l1, g, cmR, f, pk[p], 0, rr[p]);
    if (!e.empty()) {
      fail_with(r, fmt("undivided grid, packet %zu: %s", p, e.c_str()));
      return r;
    }
    const size_t s0 = T->get_subgrid(x).get_index();
    if (s0 >= (size_t)l.n()) {
      r.fail(fmt("get_subgrid(start position of packet %zu) = %zu", p, s0));
      return r;
    }
    e = trace(*T, l, g, cmT, f, pk[p], (int)s0, tt[p]);
    if (!e.empty()) {
      fail_with(r, fmt("layout %dx%dx%d periodic %d%d%d, packet %zu: %s",
                       l.ns[0], l.ns[1], l.ns[2], l.per[0], l.per[1], l.per[2],
                       p, e.c_str()));
      return r;
    }
    if (pk[p].on_sub_boundary)
      startb = true;
    const std::string m = cmp_packet(g, f, pk[p], rr[p], tt[p], p);
    if (m == "ambiguous")
      ambiguous = true;
    else if (!m.empty()) {
      r.fail(fmt("layout %dx%dx%d periodic %d%d%d: %s", l.ns[0], l.ns[1],
                 l.ns[2], l.per[0], l.per[1], l.per[2], m.c_str()));
      return r;
    }
  }
  label_runs(r, tt, l);
  if (startb)
    r.label("start-on-subgrid-boundary");
  if (c.i("dyadic"))
    r.label("dyadic-geometry");
  bool vac = false;
  for (size_t i = 0; i < f.n.size(); ++i)
    if (f.n[i] == 0. || (f.xH[i] == 0. && f.xHe[i] == 0.))
      vac = true;
  if (vac)
    r.label("transparent-cells");
  if (ambiguous) {
    // a decision within tolerance of its threshold: per-cell sums are not
    // comparable for this case
    r.label("ambiguous-threshold");
    r.nontrivial = false;
    return r;
  }
  // per-cell estimators of the assembled grids
  const Est eR = collect(*R, g), eT = collect(*T, g);
  std::vector< double > tolI(NUMBER_OF_IONNAMES, 0.), tolH(NUMBER_OF_HEATINGTERMS, 0.);
  for (size_t p = 0; p < pk.size(); ++p) {
    const int W = std::max(rr[p].wraps, tt[p].wraps);
    const double tl = 2. * tol_len(g, pk[p], W) * (1 + W);
    for (int k = 0; k < NUMBER_OF_IONNAMES; ++k)
      tolI[k] += pk[p].w * pk[p].sigma(k) * tl;
    tolH[HEATINGTERM_H] += pk[p].w * pk[p].sH * tl * std::abs(pk[p].E - 3.288e15);
    tolH[HEATINGTERM_He] += pk[p].w * pk[p].sHe * tl * std::abs(pk[p].E - 5.948e15);
  }
  const double rel = 64. * EPS * (double)pk.size();
  for (int gi = 0; gi < g.ncell(); ++gi) {
    for (int k = 0; k < NUMBER_OF_IONNAMES; ++k) {
      const double a = eR.I[(size_t)gi * NUMBER_OF_IONNAMES + k],
                   b = eT.I[(size_t)gi * NUMBER_OF_IONNAMES + k];
      if (!(std::abs(a - b) <= tolI[k] + rel * std::max(std::abs(a), std::abs(b)))) {
        r.fail(fmt("layout %dx%dx%d periodic %d%d%d: path-length estimator of "
                   "ion %d in global cell %d: undivided %.17g, layout %.17g "
                   "(difference %.3g, tolerance %.3g)",
                   l.ns[0], l.ns[1], l.ns[2], l.per[0], l.per[1], l.per[2], k,
                   gi, a, b, a - b, tolI[k]));
        return r;
      }
    }
    for (int k = 0; k < NUMBER_OF_HEATINGTERMS; ++k) {
      const double a = eR.H[(size_t)gi * NUMBER_OF_HEATINGTERMS + k],
                   b = eT.H[(size_t)gi * NUMBER_OF_HEATINGTERMS + k];
      if (!(std::abs(a - b) <= tolH[k] + rel * std::max(std::abs(a), std::abs(b)))) {
        r.fail(fmt("layout %dx%dx%d: heating estimator %d in global cell %d: "
                   "undivided %.17g, layout %.17g (tolerance %.3g)",
                   l.ns[0], l.ns[1], l.ns[2], k, gi, a, b, tolH[k]));
        return r;
      }
    }
  }
  int ne = 0, nw = 0;
  for (auto &t : tt) {
    ne += t.nedge + t.ncorner;
    nw += t.wraps;
  }
  r.nontrivial = ne > 0 || nw > 0;
  return r;
}

// ------------------------------------------------------------------ copies
std::vector< int > levels_of(const VCase &c, const char *name) {
  std::vector< int > v;
  for (auto x : c.iv(name))
    v.push_back((int)x);
  return v;
}

// structure of the creator after create_copies(levels) against the model
std::string check_copy_structure(Creator &cr, const Lay &l, const CopyModel &cm) {
  const int n = l.n();
  if ((int)cr.number_of_original_subgrids() != n)
    return "number_of_original_subgrids changed";
  if ((int)cr.number_of_actual_subgrids() != cm.nact)
    return fmt("number_of_actual_subgrids = %d, expected %d",
               (int)cr.number_of_actual_subgrids(), cm.nact);
  for (int i = 0; i < n; ++i) {
    Probe &s = *cr.get_subgrid((size_t)i);
    // originals keep their geometric neighbours
    for (int o = 0; o < ND; ++o) {
      int w[3];
      const int want = l.ngb(i, o, w);
      const uint_fast32_t got = s.get_neighbour(o);
      if (want < 0 ? got != NEIGHBOUR_OUTSIDE : got != (uint_fast32_t)want)
        return fmt("original %d: neighbour %d is %ld after creating copies, "
                   "geometric neighbour %d",
                   i, o, got == NEIGHBOUR_OUTSIDE ? -1l : (long)got, want);
    }
    auto range = cr.get_subgrid((size_t)i).get_copies();
    const int nc = (1 << cm.level[i]) - 1;
    if (nc == 0) {
      if (range.first != range.second)
        return fmt("original %d has level 0 but a non-empty copy range", i);
    } else {
      if ((int)range.first.get_index() != cm.first[i] ||
          (int)range.second.get_index() != cm.first[i] + nc)
        return fmt("original %d (level %d): copy range [%zu,%zu), expected "
                   "[%d,%d)",
                   i, cm.level[i], range.first.get_index(),
                   range.second.get_index(), cm.first[i], cm.first[i] + nc);
    }
    double b0[6];
    s.get_grid_box(b0);
    for (int k = 0; k < nc; ++k) {
      const int ci = cm.first[i] + k;
      Probe &cp = *cr.get_subgrid((size_t)ci);
      double b1[6];
      cp.get_grid_box(b1);
      for (int a = 0; a < 6; ++a)
        if (b0[a] != b1[a])
          return fmt("copy %d of original %d has a different box", ci, i);
      if (cp.get_number_of_cells() != s.get_number_of_cells())
        return fmt("copy %d of original %d has a different cell count", ci, i);
      auto a = s.begin();
      auto b = cp.begin();
      for (; a != s.end(); ++a, ++b) {
        const IonizationVariables &x = a.get_ionization_variables(),
                                  &y = b.get_ionization_variables();
        if (x.get_number_density() != y.get_number_density() ||
            x.get_ionic_fraction(ION_H_n) != y.get_ionic_fraction(ION_H_n) ||
            x.get_ionic_fraction(ION_He_n) != y.get_ionic_fraction(ION_He_n))
          return fmt("copy %d of original %d: cell %d differs", ci, i,
                     (int)a.get_index());
      }
      if (cp.get_neighbour(TRAVELDIRECTION_INSIDE) != (uint_fast32_t)ci)
        return fmt("copy %d: INSIDE neighbour is %u, not itself", ci,
                   (unsigned)cp.get_neighbour(TRAVELDIRECTION_INSIDE));
      for (int o = 1; o < ND; ++o) {
        int w[3];
        const int want = l.ngb(i, o, w);
        const uint_fast32_t got = cp.get_neighbour(o);
        if (want < 0) {
          if (got != NEIGHBOUR_OUTSIDE)
            return fmt("copy %d of original %d: neighbour %d is %u but the "
                       "original has none",
                       ci, i, o, (unsigned)got);
          continue;
        }
        if (got == NEIGHBOUR_OUTSIDE)
          return fmt("copy %d of original %d: neighbour %d is OUTSIDE but the "
                     "original's is %d",
                     ci, i, o, want);
        if (got >= (uint_fast32_t)cm.nact)
          return fmt("copy %d (copy %d of original %d, level %d): neighbour %d "
                     "= %u is not a subgrid (%d exist; geometric neighbour %d "
                     "has level %d)",
                     ci, k + 1, i, cm.level[i], o, (unsigned)got, cm.nact, want,
                     cm.level[want]);
        if (cm.orig[got] != want)
          return fmt("copy %d (copy %d of original %d, level %d): neighbour %d "
                     "= %u is a duplicate of %d, but the geometric neighbour "
                     "is %d (level %d)",
                     ci, k + 1, i, cm.level[i], o, (unsigned)got, cm.orig[got],
                     want, cm.level[want]);
      }
    }
  }
  return "";
}

void label_levels(VResult &r, const Lay &l, const CopyModel &cm, int lmode) {
  r.label(lmode == 0 ? "levels-caller-shaped"
                     : lmode == 1 ? "levels-arbitrary" : "levels-uniform");
  bool up = false, down = false, big = false;
  for (int i = 0; i < l.n(); ++i)
    for (int o = 1; o < ND; ++o) {
      int w[3];
      const int j = l.ngb(i, o, w);
      if (j < 0 || cm.level[i] == 0)
        continue;
      if (cm.level[j] > cm.level[i])
        up = true;
      if (cm.level[j] < cm.level[i])
        down = true;
      if (std::abs(cm.level[j] - cm.level[i]) > 1)
        big = true;
    }
  if (up)
    r.label("copy-next-to-higher-level");
  if (down)
    r.label("copy-next-to-lower-level");
  if (big)
    r.label("level-jump-over-1");
  if (cm.nact == l.n())
    r.label("no-copies");
}

VResult o_copies_wiring(const VCase &c) {
  VResult r;
  const Geo g = geo_of(c);
  const Lay l = lay_of(c);
  Field f;
  f.n.resize(g.ncell());
  f.xH.resize(g.ncell());
  f.xHe.resize(g.ncell());
  f.T.assign(g.ncell(), 8000.);
  for (int i = 0; i < g.ncell(); ++i) {
    f.n[i] = 1. + i;
    f.xH[i] = 1. / (1. + i);
    f.xHe[i] = 0.5 / (1. + i);
  }
  std::unique_ptr< Creator > cr = make_creator(g, l, &f);
  CopyModel cm;
  cm.build(l.n(), levels_of(c, "levels"));
  {
    std::vector< uint_fast8_t > lv(cm.level.begin(), cm.level.end());
    cr->create_copies(lv);
  }
  std::string e = check_copy_structure(*cr, l, cm);
  if (!e.empty()) {
    r.fail(fmt("layout %dx%dx%d periodic %d%d%d, create_copies: %s", l.ns[0],
               l.ns[1], l.ns[2], l.per[0], l.per[1], l.per[2], e.c_str()));
    return r;
  }
  label_levels(r, l, cm, (int)c.i("lmode"));
  r.nontrivial = cm.nact > l.n();
  if (c.i("update")) {
    CopyModel cm2;
    cm2.build(l.n(), levels_of(c, "levels2"));
    std::vector< uint_fast8_t > lv(cm2.level.begin(), cm2.level.end());
    cr->update_copies(lv);
    e = check_copy_structure(*cr, l, cm2);
    if (!e.empty()) {
      r.fail(fmt("layout %dx%dx%d periodic %d%d%d, update_copies: %s", l.ns[0],
                 l.ns[1], l.ns[2], l.per[0], l.per[1], l.per[2], e.c_str()));
      return r;
    }
    r.label("update_copies");
    if (cm2.nact > l.n())
      r.nontrivial = true;
  }
  return r;
}

void reset_all(Creator &cr) {
  for (auto it = cr.begin(); it != cr.all_end(); ++it)
    (*it).reset_intensities();
}
// give the ORIGINAL subgrids a new physical state (what the ionization-state
// calculation does between two iterations)
void set_state(Creator &cr, const Geo &g, const Field &f) {
  for (auto it = cr.begin(); it != cr.original_end(); ++it)
    for (auto ct = (*it).begin(); ct != (*it).end(); ++ct) {
      const CoordinateVector<> m = ct.get_cell_midpoint();
      const double x[3] = {m[0], m[1], m[2]};
      const int gi = g.gcell_of(x);
      IonizationVariables &iv = ct.get_ionization_variables();
      iv.set_number_density(f.n[gi]);
      iv.set_ionic_fraction(ION_H_n, f.xH[gi]);
      iv.set_ionic_fraction(ION_He_n, f.xHe[gi]);
      iv.set_temperature(f.T[gi]);
    }
}

// one iteration on the copy-free creator A and the creator with copies B
std::string copies_iteration(Creator &A, Creator &B, const Lay &l, const Geo &g,
                             const CopyModel &cm0, const CopyModel &cm,
                             const Field &f, const std::vector< Pk > &pk,
                             int rot, std::vector< PRes > &tb) {
  std::vector< PRes > ta(pk.size());
  tb.assign(pk.size(), PRes());
  for (size_t p = 0; p < pk.size(); ++p) {
    const CoordinateVector<> x(pk[p].pos[0], pk[p].pos[1], pk[p].pos[2]);
    const size_t s0 = A.get_subgrid(x).get_index();
    if (s0 >= (size_t)l.n())
      return fmt("get_subgrid(start of packet %zu) = %zu", p, s0);
    std::string e = trace(A, l, g, cm0, f, pk[p], (int)s0, ta[p]);
    if (!e.empty())
      return fmt("copy-free layout, packet %zu: %s", p, e.c_str());
    // the source is distributed over the original and its copies
    // (DistributedPhotonSource)
    const int nc = 1 << cm.level[s0];
    const int k = (pk[p].copysel + rot) % nc;
    const int start = k == 0 ? (int)s0 : cm.first[s0] + k - 1;
    e = trace(B, l, g, cm, f, pk[p], start, tb[p]);
    if (!e.empty())
      return fmt("with copies, packet %zu started in subgrid %d: %s", p, start,
                 e.c_str());
    // a duplicate has the geometry and the contents of its original: the fate
    // of a packet is bit-identical
    if (ta[p].absorbed != tb[p].absorbed || ta[p].taurem != tb[p].taurem ||
        ta[p].pos[0] != tb[p].pos[0] || ta[p].pos[1] != tb[p].pos[1] ||
        ta[p].pos[2] != tb[p].pos[2])
      return fmt("packet %zu (started in subgrid %d) ends differently with "
                 "copies: %s at (%.17g %.17g %.17g) tau %.17g vs %s at (%.17g "
                 "%.17g %.17g) tau %.17g",
                 p, start, tb[p].absorbed ? "absorbed" : "escaped", tb[p].pos[0],
                 tb[p].pos[1], tb[p].pos[2], tb[p].taurem,
                 ta[p].absorbed ? "absorbed" : "escaped", ta[p].pos[0],
                 ta[p].pos[1], ta[p].pos[2], ta[p].taurem);
  }
  B.update_original_counters();
  const Est ea = collect(A, g), eb = collect(B, g);
  // only the order of summation differs: |a-b| <= 8 N eps sum|terms|
  const double rel = 8. * EPS * (double)(pk.size() + 8);
  for (size_t i = 0; i < ea.I.size(); ++i)
    if (!(std::abs(ea.I[i] - eb.I[i]) <=
          rel * std::max(std::abs(ea.I[i]), std::abs(eb.I[i]))))
      return fmt("after update_original_counters: path-length estimator of ion "
                 "%d in global cell %d is %.17g, copy-free %.17g (ratio %.6g)",
                 (int)(i % NUMBER_OF_IONNAMES), (int)(i / NUMBER_OF_IONNAMES),
                 eb.I[i], ea.I[i], ea.I[i] != 0. ? eb.I[i] / ea.I[i] : 0.);
  for (size_t i = 0; i < ea.H.size(); ++i)
    if (!(std::abs(ea.H[i] - eb.H[i]) <=
          rel * std::max(std::abs(ea.H[i]), std::abs(eb.H[i]))))
      return fmt("after update_original_counters: heating estimator %d in "
                 "global cell %d is %.17g, copy-free %.17g",
                 (int)(i % NUMBER_OF_HEATINGTERMS),
                 (int)(i / NUMBER_OF_HEATINGTERMS), eb.H[i], ea.H[i]);
  return "";
}

VResult o_copies_trace(const VCase &c) {
  VResult r;
  const Geo g = geo_of(c);
  const Lay l = lay_of(c);
  const Field f = build_field(c, g, 0);
  const std::vector< Pk > pk = packets_of(c, g, l);
  std::unique_ptr< Creator > A = make_creator(g, l, &f);
  std::unique_ptr< Creator > B = make_creator(g, l, &f);
  CopyModel cm0, cm;
  cm0.build(l.n(), std::vector< int >(l.n(), 0));
  cm.build(l.n(), levels_of(c, "levels"));
  {
    std::vector< uint_fast8_t > lv(cm.level.begin(), cm.level.end());
    B->create_copies(lv);
  }
  const std::string hdr = fmt("layout %dx%dx%d periodic %d%d%d", l.ns[0], l.ns[1],
                              l.ns[2], l.per[0], l.per[1], l.per[2]);
  std::string e = check_copy_structure(*B, l, cm);
  if (!e.empty()) {
    r.fail(hdr + ", create_copies: " + e);
    return r;
  }
  reset_all(*A);
  reset_all(*B);
  std::vector< PRes > t1, t2;
  e = copies_iteration(*A, *B, l, g, cm0, cm, f, pk, 0, t1);
  if (!e.empty()) {
    fail_with(r, hdr + ", iteration 1: " + e);
    return r;
  }
  // new state on the originals, pushed to the copies
  const Field f2 = build_field(c, g, 1);
  set_state(*A, g, f2);
  set_state(*B, g, f2);
  reset_all(*A);
  reset_all(*B);
  B->update_copy_properties();
  for (int i = 0; i < l.n(); ++i) {
    Probe &s = *B->get_subgrid((size_t)i);
    for (int k = 0; k + 1 < (1 << cm.level[i]); ++k) {
      Probe &cp = *B->get_subgrid((size_t)(cm.first[i] + k));
      auto a = s.begin();
      auto b = cp.begin();
      for (; a != s.end(); ++a, ++b) {
        const IonizationVariables &x = a.get_ionization_variables(),
                                  &y = b.get_ionization_variables();
        bool same = x.get_number_density() == y.get_number_density() &&
                    x.get_temperature() == y.get_temperature();
        for (int q = 0; q < NUMBER_OF_IONNAMES; ++q)
          same = same && x.get_ionic_fraction(q) == y.get_ionic_fraction(q) &&
                 y.get_mean_intensity(q) == 0.;
        if (!same) {
          r.fail(hdr + fmt(": after update_copy_properties copy %d of original "
                           "%d differs from it in cell %d (density %.17g vs "
                           "%.17g, x(H0) %.17g vs %.17g)",
                           cm.first[i] + k, i, (int)a.get_index(),
                           y.get_number_density(), x.get_number_density(),
                           y.get_ionic_fraction(ION_H_n),
                           x.get_ionic_fraction(ION_H_n)));
          return r;
        }
      }
    }
  }
  e = copies_iteration(*A, *B, l, g, cm0, cm, f2, pk, 1, t2);
  if (!e.empty()) {
    fail_with(r, hdr + ", iteration 2 (after update_copy_properties): " + e);
    return r;
  }
  label_runs(r, t1, l);
  label_levels(r, l, cm, (int)c.i("lmode"));
  int via = 0, lc = 0;
  for (auto &t : t1) {
    via += t.viacopy;
    lc += t.lvlchange;
  }
  for (auto &t : t2)
    via += t.viacopy;
  if (via)
    r.label("packet-through-copy");
  if (lc)
    r.label("handover-between-levels");
  r.nontrivial = via > 0;
  return r;
}

} // namespace

int main(int argc, char **argv) {
  omp_set_num_threads(1);
  std::vector< VProp > props;
  props.push_back(
      {"tables", 16000, [] { return gen_small_layout(false); }, o_tables,
       "layout 1..5 subgrids per axis, 1..3 cells per subgrid and axis, 8 "
       "periodicity combinations, dyadic / generic / far-from-origin boxes; per "
       "case EXHAUSTIVE over the 27 classifications x 27 sign patterns of the "
       "direction, the 64 masks, all subgrids x 27 neighbour entries, 125 exit "
       "index patterns and 27 entry classifications. Non-trivial = more than "
       "one subgrid or a periodic axis.",
       {{"periodic-axis-with-1-subgrid", 0.1},
        {"periodic-axis-with-2-subgrids", 0.1}}});
  props.push_back(
      {"layout_trace", 80000, gen_trace, o_layout_trace,
       "cells per axis from {4,6,8,12}, every dividing layout with 1..4 "
       "subgrids per axis, 8 periodicity combinations, uniform / blocky / "
       "smooth / per-cell density and neutral-fraction fields (transparent "
       "cells only without periodic axes), 1..200 packets: starts generic, on "
       "cell and subgrid boundaries, dyadic; directions generic, axis- and "
       "plane-aligned, exact diagonals, aimed at subgrid corners; optical "
       "depths from 1e-3 to beyond the box. Non-trivial = a packet is handed "
       "over through an edge or corner, or wraps periodically; cases with a "
       "decision within tolerance of its threshold are labelled "
       "ambiguous-threshold and not compared.",
       {{"handover-edge-or-corner", 0.1},
        {"handover-corner", 0.01},
        {"periodic-wrap", 0.15},
        {"wrap-on-1-subgrid-axis", 0.03},
        {"wrap-on-2-subgrid-axis", 0.03},
        {"start-on-subgrid-boundary", 0.1}}});
  props.push_back(
      {"copies_wiring", 60000, [] { return gen_small_layout(true); },
       o_copies_wiring,
       "layout 1..4 subgrids per axis, 8 periodicity combinations, copy levels "
       "0..3 per subgrid: caller-shaped (sources + face-neighbour restriction), "
       "arbitrary, uniform; half of the cases followed by update_copies() with "
       "a second assignment. Non-trivial = at least one copy exists.",
       {{"levels-arbitrary", 0.2},
        {"levels-caller-shaped", 0.2},
        {"level-jump-over-1", 0.1},
        {"update_copies", 0.3}}});
  props.push_back(
      {"copies_trace", 32000, gen_copies_trace, o_copies_trace,
       "as layout_trace with 1..3 subgrids per axis plus copy levels 0..3; "
       "packets start in the original or a copy of their start subgrid; two "
       "iterations with a state update in between. Non-trivial = a packet "
       "passes through a copy.",
       {{"packet-through-copy", 0.3}, {"handover-between-levels", 0.1}}});
  return vr::vmain(argc, argv, "C03", props);
}
