// C02 - a packet crossing a subgrid deposits exactly its geometric path.
//
// rapidcheck harness.  The real DensitySubGrid::interact / propagate /
// compute_optical_depth are run on a generated block, packet and entry
// classification; everything observable afterwards (every cell's intensity
// and heating integrals, the packet's position and remaining optical depth,
// the returned classification) is compared with an independent long double
// reference of the straight line through the block (geom_oracle.hpp: closed
// form parameter intervals per cell, sorted plane crossings, no marching).
//
// Tolerance model (DESIGN.md section 3).  The code tracks the position with
// an absolute error of a few ulp of the block size per step; the reference
// therefore brackets what the code may legitimately do: every cell gets the
// parameter interval of the line inside the cell inflated by E (upper bound
// of the credited length) and deflated by E (lower bound), with
//   E_i = 16 eps L_i (number of cells along the three axes + 2).
// The optical depth along the line is bracketed the same way, which gives a
// bracket [t_lo, t_hi] for the stopping parameter and a three-valued decision
// (must stop / must leave / ambiguous).  A start point within E of a wall
// (not exactly on it) may be assigned to the cell on the other side; the
// traversal then begins with a step of up to E/|d| backwards, so for such
// starts the brackets reach back to -E/|d| and E grows by the displacement
// this causes in the other coordinates (only noticeable for grazing
// directions; labelled and not counted as non-trivial).  When every operation of the code is
// provably exact (axis aligned direction, small dyadic geometry and cell
// contents) E = 0 and the bracket collapses: the stop/leave decision and the
// stopping cell are then demanded exactly, equality included.
#include "DensitySubGrid.hpp"
#include "geom_oracle.hpp"
#include "verif_rc.hpp"

using geo::Block;
using geo::EPS;
using geo::INF;
using geo::Interval;
using geo::LD;
using geo::Line;
using vr::fmt;
using vr::VCase;
using vr::VProp;
using vr::VResult;

namespace {

enum Method { M_INTERACT = 0, M_PROPAGATE = 1, M_OPTICAL_DEPTH = 2 };

// ---------------------------------------------------------------------------
// Meaning of the 27 classifications, written from their documentation:
// s[i] = +1: upper boundary of dimension i, -1: lower boundary, 0: not fixed.
struct TDSpec {
  int td;
  int s[3];
};
const TDSpec TDS[27] = {
    {TRAVELDIRECTION_INSIDE, {0, 0, 0}},
    {TRAVELDIRECTION_CORNER_PPP, {1, 1, 1}},
    {TRAVELDIRECTION_CORNER_PPN, {1, 1, -1}},
    {TRAVELDIRECTION_CORNER_PNP, {1, -1, 1}},
    {TRAVELDIRECTION_CORNER_PNN, {1, -1, -1}},
    {TRAVELDIRECTION_CORNER_NPP, {-1, 1, 1}},
    {TRAVELDIRECTION_CORNER_NPN, {-1, 1, -1}},
    {TRAVELDIRECTION_CORNER_NNP, {-1, -1, 1}},
    {TRAVELDIRECTION_CORNER_NNN, {-1, -1, -1}},
    {TRAVELDIRECTION_EDGE_X_PP, {0, 1, 1}},
    {TRAVELDIRECTION_EDGE_X_PN, {0, 1, -1}},
    {TRAVELDIRECTION_EDGE_X_NP, {0, -1, 1}},
    {TRAVELDIRECTION_EDGE_X_NN, {0, -1, -1}},
    {TRAVELDIRECTION_EDGE_Y_PP, {1, 0, 1}},
    {TRAVELDIRECTION_EDGE_Y_PN, {1, 0, -1}},
    {TRAVELDIRECTION_EDGE_Y_NP, {-1, 0, 1}},
    {TRAVELDIRECTION_EDGE_Y_NN, {-1, 0, -1}},
    {TRAVELDIRECTION_EDGE_Z_PP, {1, 1, 0}},
    {TRAVELDIRECTION_EDGE_Z_PN, {1, -1, 0}},
    {TRAVELDIRECTION_EDGE_Z_NP, {-1, 1, 0}},
    {TRAVELDIRECTION_EDGE_Z_NN, {-1, -1, 0}},
    {TRAVELDIRECTION_FACE_X_P, {1, 0, 0}},
    {TRAVELDIRECTION_FACE_X_N, {-1, 0, 0}},
    {TRAVELDIRECTION_FACE_Y_P, {0, 1, 0}},
    {TRAVELDIRECTION_FACE_Y_N, {0, -1, 0}},
    {TRAVELDIRECTION_FACE_Z_P, {0, 0, 1}},
    {TRAVELDIRECTION_FACE_Z_N, {0, 0, -1}},
};
const int *td_spec(int td) {
  for (auto &t : TDS)
    if (t.td == td)
      return t.s;
  return nullptr;
}
std::string spec_str(const int s[3]) {
  std::string o;
  for (int i = 0; i < 3; ++i)
    o += s[i] > 0 ? 'P' : (s[i] < 0 ? 'N' : ':');
  return o;
}

// heating thresholds as documented for the estimators (Hz)
const double NU_H = 3.288e15, NU_HE = 5.948e15;

// ---------------------------------------------------------------------------
// unpacked case
struct Case {
  Block B;
  int method, entry;
  double pos[3], dirin[3];
  double tau, weight, energy, J0;
  std::vector<double> sigma; // per ion
  std::vector<double> nH, xH, xHe;
};

Case unpack(const VCase &c, int method) {
  Case k;
  int n[3];
  double an[3], sd[3];
  for (int i = 0; i < 3; ++i) {
    n[i] = (int)c.i("ncell", i);
    an[i] = c.d("anchor", i);
    sd[i] = c.d("side", i);
    k.pos[i] = c.d("pos", i);
    k.dirin[i] = c.d("dir", i);
  }
  k.B = geo::make_block(n, an, sd);
  k.method = method;
  k.entry = (int)c.i("entry");
  k.tau = c.d("tau");
  k.weight = c.d("weight");
  k.energy = c.d("energy");
  k.J0 = c.d("J0");
  k.sigma = c.dv("sigma");
  k.nH = c.dv("nH");
  k.xH = c.dv("xH");
  k.xHe = c.dv("xHe");
  return k;
}

// what the code did
struct Obs {
  int out = -1;
  double d[3];
  double pend[3];     // absolute
  double tau_after = 0;
  std::vector<double> dJ; // ncell * NUMBER_OF_IONNAMES increments
  std::vector<double> dH; // ncell * NUMBER_OF_HEATINGTERMS increments
};

Obs run_code(const Case &k) {
  const Block &B = k.B;
  double box[6] = {B.anchor[0], B.anchor[1], B.anchor[2],
                   B.side[0],   B.side[1],   B.side[2]};
  DensitySubGrid grid(box,
                      CoordinateVector<int_fast32_t>(B.n[0], B.n[1], B.n[2]));
  const int nc = B.ncell();
  for (auto it = grid.begin(); it != grid.end(); ++it) {
    IonizationVariables &iv = it.get_ionization_variables();
    const int c = (int)it.get_index();
    iv.set_number_density(k.nH[c]);
    for (int ion = 0; ion < NUMBER_OF_IONNAMES; ++ion) {
      iv.set_ionic_fraction(ion, 0.5);
      iv.set_mean_intensity(ion, k.J0);
    }
    iv.set_ionic_fraction(ION_H_n, k.xH[c]);
    iv.set_ionic_fraction(ION_He_n, k.xHe[c]);
    for (int h = 0; h < NUMBER_OF_HEATINGTERMS; ++h)
      iv.set_heating(h, k.J0);
  }
  PhotonPacket ph;
  ph.set_position(CoordinateVector<>(k.pos[0], k.pos[1], k.pos[2]));
  ph.set_direction(CoordinateVector<>(k.dirin[0], k.dirin[1], k.dirin[2]));
  for (int ion = 0; ion < NUMBER_OF_IONNAMES; ++ion)
    ph.set_photoionization_cross_section(ion, k.sigma[ion]);
  ph.set_weight(k.weight);
  ph.set_energy(k.energy);
  ph.set_target_optical_depth(k.tau);
  ph.set_type(PHOTONTYPE_PRIMARY);
  ph.set_scatter_counter(0);
  Obs o;
  for (int i = 0; i < 3; ++i)
    o.d[i] = ph.get_direction()[i];
  switch (k.method) {
  case M_INTERACT:
    o.out = (int)grid.interact(ph, k.entry);
    break;
  case M_PROPAGATE:
    o.out = (int)grid.propagate(ph, k.entry);
    break;
  default:
    o.out = (int)grid.compute_optical_depth(ph, k.entry);
  }
  for (int i = 0; i < 3; ++i)
    o.pend[i] = ph.get_position()[i];
  o.tau_after = ph.get_target_optical_depth();
  o.dJ.resize((size_t)nc * NUMBER_OF_IONNAMES);
  o.dH.resize((size_t)nc * NUMBER_OF_HEATINGTERMS);
  for (auto it = grid.begin(); it != grid.end(); ++it) {
    const IonizationVariables &iv = it.get_ionization_variables();
    const int c = (int)it.get_index();
    for (int ion = 0; ion < NUMBER_OF_IONNAMES; ++ion)
      o.dJ[(size_t)c * NUMBER_OF_IONNAMES + ion] =
          iv.get_mean_intensity(ion) - k.J0;
    for (int h = 0; h < NUMBER_OF_HEATINGTERMS; ++h)
      o.dH[(size_t)c * NUMBER_OF_HEATINGTERMS + h] = iv.get_heating(h) - k.J0;
  }
  return o;
}

// start point relative to the anchor as the traversal sees it
void start_point(const Case &k, double x0[3]) {
  const int *s = td_spec(k.entry);
  for (int i = 0; i < 3; ++i) {
    x0[i] = k.pos[i] - k.B.anchor[i];
    // interact() moves an entering packet onto the boundary element it is
    // classified with; the two other traversals take the position as it is
    if (k.method == M_INTERACT && s[i] != 0)
      x0[i] = s[i] > 0 ? k.B.L[i] : 0.;
  }
}

LD kappa_of(const Case &k, int cell) {
  return (LD)k.nH[cell] * ((LD)k.sigma[ION_H_n] * (LD)k.xH[cell] +
                           (LD)k.sigma[ION_He_n] * (LD)k.xHe[cell]);
}

// dyadic with few bits: v * 2^q is an integer of magnitude < 2^bits
bool sdy(double v, int q, int bits) {
  const double s = std::ldexp(v, q);
  return std::abs(s) < std::ldexp(1., bits) && std::floor(s) == s;
}

// All arithmetic of the traversal is exact for this case: one moving
// dimension with |d| = 1, positions / walls multiples of 2^-8 below 256 (16
// bits), densities, neutral fractions and cross sections multiples of 1/16 up
// to 16 (9 bits): every product and partial sum of
// length * n * (sigma_H x_H + sigma_He x_He) over <= 36 cells needs at most
// 16 + 9 + 19 + 6 = 50 bits, in any order of evaluation.
bool exact_mode(const Case &k, const Line &ln) {
  int nm = 0, m = -1;
  for (int i = 0; i < 3; ++i)
    if (ln.moving(i)) {
      ++nm;
      m = i;
    }
  if (nm != 1 || std::abs(ln.d[m]) != 1.)
    return false;
  const Block &B = k.B;
  if (!sdy(ln.x0[m], 8, 16) || !sdy(B.cs[m], 8, 16) ||
      B.cs[m] * B.n[m] != B.side[m] || !sdy(B.L[m], 8, 16))
    return false;
  if (!sdy(k.sigma[ION_H_n], 4, 9) || !sdy(k.sigma[ION_He_n], 4, 9))
    return false;
  for (int c = 0; c < B.ncell(); ++c)
    if (!sdy(k.nH[c], 4, 9) || !sdy(k.xH[c], 4, 9) || !sdy(k.xHe[c], 4, 9))
      return false;
  return true;
}

// ---------------------------------------------------------------------------
// Exit classification that the code is *provably* bound to see: follows the
// line only while every coordinate of the position is exactly known (start
// point, or all moving coordinates snapped to walls by a tie whose floating
// point evaluation is provably a tie: equal mantissas of the direction
// components and of the exact wall distances).  Returns false if no such
// statement can be made.
bool same_mantissa_ratio(double Ai, double di, double Aj, double dj) {
  int eAi, eAj, edi, edj;
  const double mAi = std::frexp(std::abs(Ai), &eAi);
  const double mAj = std::frexp(std::abs(Aj), &eAj);
  const double mdi = std::frexp(std::abs(di), &edi);
  const double mdj = std::frexp(std::abs(dj), &edj);
  return mAi == mAj && mdi == mdj && (eAi - edi) == (eAj - edj);
}

bool provable_exit(const Block &B, const Line &ln, int must[3]) {
  double p[3];
  for (int i = 0; i < 3; ++i) {
    p[i] = ln.x0[i];
    must[i] = 0;
  }
  // start points within a few ulp of a wall without being on it: the first
  // cell is rounding dependent
  for (int i = 0; i < 3; ++i) {
    if (!ln.moving(i))
      continue;
    if (geo::on_wall(B, i, p[i]) >= 0)
      continue;
    for (int k = 0; k <= B.n[i]; ++k)
      if (std::abs(p[i] - B.wall[i][k]) <= 64. * EPS * B.L[i])
        return false;
    if (p[i] < 0. || p[i] > B.L[i])
      return false;
  }
  // immediate exit: start on the boundary the packet is leaving through
  {
    bool any = false;
    for (int i = 0; i < 3; ++i) {
      if (!ln.moving(i))
        continue;
      if ((ln.d[i] > 0. && p[i] == B.L[i]) || (ln.d[i] < 0. && p[i] == 0.)) {
        must[i] = ln.d[i] > 0. ? 1 : -1;
        any = true;
      }
    }
    if (any)
      return true;
  }
  for (int iter = 0; iter < 64; ++iter) {
    double w[3], A[3];
    bool bnd[3];
    LD t[3];
    int m = -1;
    for (int i = 0; i < 3; ++i) {
      t[i] = INF;
      if (!ln.moving(i))
        continue;
      int kk = -1;
      if (ln.d[i] > 0.) {
        for (int k = 0; k <= B.n[i]; ++k)
          if (B.wall[i][k] > p[i]) {
            kk = k;
            break;
          }
      } else {
        for (int k = B.n[i]; k >= 0; --k)
          if (B.wall[i][k] < p[i]) {
            kk = k;
            break;
          }
      }
      if (kk < 0)
        return false;
      w[i] = B.wall[i][kk];
      bnd[i] = (kk == 0 || kk == B.n[i]);
      A[i] = w[i] - p[i];
      if ((LD)w[i] - (LD)p[i] != (LD)A[i])
        return false; // the wall distance itself is rounded
      t[i] = (LD)A[i] / (LD)ln.d[i];
      if (m < 0 || t[i] < t[m])
        m = i;
    }
    bool inG[3] = {false, false, false};
    bool total = true;
    for (int i = 0; i < 3; ++i) {
      if (!ln.moving(i))
        continue;
      if (i == m || same_mantissa_ratio(A[i], ln.d[i], A[m], ln.d[m])) {
        inG[i] = true;
      } else {
        total = false;
        // strictly later, but floating point could still reorder: no claim
        if (t[i] - t[m] <= 32.L * EPS * t[i])
          return false;
      }
    }
    bool exits = false;
    for (int i = 0; i < 3; ++i)
      if (inG[i] && bnd[i]) {
        must[i] = ln.d[i] > 0. ? 1 : -1;
        exits = true;
      }
    if (exits)
      return true;
    if (!total)
      return false; // coordinates of the other dimensions are rounded from here
    for (int i = 0; i < 3; ++i)
      if (inG[i])
        p[i] = w[i];
  }
  return false;
}

// ---------------------------------------------------------------------------
// the comparison for one choice of slab indices in the non-moving dimensions
struct Verdict {
  bool ok = true;
  std::string msg;
  std::vector<std::string> labels;
  bool nontrivial = false;
  void fail(const std::string &m) {
    if (ok) {
      ok = false;
      msg = m;
    }
  }
};

Verdict judge(const Case &k, const Obs &o, const Line &ln, const int stat[3]) {
  Verdict v;
  const Block &B = k.B;
  const bool exact = exact_mode(k, ln);
  const int nsteps = B.n[0] + B.n[1] + B.n[2] + 2;
  const LD Ldiag = B.diag();
  LD E0[3], E[3], Epos[3];
  for (int i = 0; i < 3; ++i) {
    E0[i] = exact ? 0.L : 16.L * EPS * (LD)B.L[i] * nsteps;
    // position + anchor and back costs ulps of the absolute coordinates
    Epos[i] = 4.L * EPS * (std::abs((LD)B.anchor[i]) + (LD)B.L[i]);
  }
  // A start point within rounding of a wall (not exactly on it) may be
  // assigned to the cell on the other side; the traversal then begins with a
  // step of up to E/|d| backwards along the line, which displaces the other
  // coordinates by tback*|d_j|.  Only relevant for grazing directions; the
  // brackets below widen accordingly and such cases are labelled.
  LD tback = 0.L;
  for (int i = 0; i < 3; ++i) {
    if (!ln.moving(i) || E0[i] == 0.L)
      continue;
    for (int kk = 0; kk <= B.n[i]; ++kk)
      if (fabsl((LD)ln.x0[i] - (LD)B.wall[i][kk]) <= E0[i] &&
          ln.x0[i] != B.wall[i][kk])
        tback = std::max(tback, E0[i] / fabsl((LD)ln.d[i]));
  }
  for (int i = 0; i < 3; ++i)
    E[i] = E0[i] + tback * fabsl((LD)ln.d[i]);
  const LD slack = 16.L * EPS * Ldiag;
  const LD Esum = E[0] + E[1] + E[2];
  const LD KT = exact ? 0.L : 8.L * EPS * nsteps; // relative, optical depth

  const geo::Exit ex = geo::exit_of(B, ln);
  const std::vector<geo::Near> near =
      geo::near_cells(B, ln, stat, E, tback);
  const std::vector<geo::Segment> segs = geo::segments(B, ln, stat);

  geo::TauFn thi, tlo;
  for (auto &nc : near) {
    const LD kap = kappa_of(k, nc.cell);
    thi.add(nc.infl, kap);
    tlo.add(nc.defl, kap);
  }
  thi.factor = 1.L + KT;
  tlo.factor = 1.L - KT;
  // optical depth that negative (backward / wrong side of a wall) steps of
  // rounding size can take away
  LD NEG = 0.L;
  for (auto &nc : near)
    NEG += kappa_of(k, nc.cell) * (nc.infl.len() - nc.defl.len());
  if (exact)
    NEG = 0.L;
  const LD tau_hi_tot = thi.at(INF) , tau_lo_raw = tlo.total();
  const LD tau_lo_tot = tau_lo_raw - NEG;
  const LD target = k.tau;

  // ------------------------------------------------------------- decision
  enum { MUST_STOP, MUST_EXIT, AMBIG } dec;
  LD t_lo = 0.L, t_hi = INF; // bracket of the stopping parameter
  if (k.method == M_OPTICAL_DEPTH) {
    dec = MUST_EXIT;
  } else if (tau_hi_tot < target) {
    dec = MUST_EXIT;
  } else if (tau_lo_tot >= target) {
    dec = MUST_STOP;
  } else {
    dec = AMBIG;
  }
  if (dec != MUST_EXIT) {
    t_lo = thi.first_passage(target);
    t_hi = tlo.first_passage(target + NEG); // INF if never reached
    if (t_lo == INF) // cannot happen (tau_hi_tot >= target), be safe
      t_lo = 0.L;
    t_lo -= slack;
    if (t_hi < INF)
      t_hi += slack;
  }
  const bool stopped = (o.out == TRAVELDIRECTION_INSIDE);
  switch (dec) {
  case MUST_EXIT:
    v.labels.push_back("tau-beyond-block");
    break;
  case MUST_STOP:
    v.labels.push_back("stop-inside");
    break;
  default:
    v.labels.push_back("ambiguous-decision");
  }
  if (exact)
    v.labels.push_back("exact-arithmetic");
  if (dec == MUST_EXIT && stopped)
    v.fail(fmt("packet stopped inside although the optical depth along the "
               "whole chord is at most %.17Lg < target %.17g",
               tau_hi_tot, k.tau));
  if (dec == MUST_STOP && !stopped)
    v.fail(fmt("packet left (classification %d) although the optical depth "
               "along the chord is at least %.17Lg >= target %.17g",
               o.out, tau_lo_tot, k.tau));
  const int *so = td_spec(o.out);
  if (so == nullptr) {
    v.fail(fmt("returned classification %d is not one of the 27", o.out));
    return v;
  }

  // ------------------------------------------------------------- end point
  LD pe[3], s_code = 0.L, dist2 = 0.L;
  for (int i = 0; i < 3; ++i) {
    pe[i] = (LD)o.pend[i] - (LD)B.anchor[i];
    s_code += (pe[i] - (LD)ln.x0[i]) * (LD)ln.d[i];
    dist2 += (pe[i] - (LD)ln.x0[i]) * (pe[i] - (LD)ln.x0[i]);
  }
  const LD dist = sqrtl(dist2);
  for (int i = 0; i < 3; ++i) {
    const LD off = pe[i] - ((LD)ln.x0[i] + s_code * (LD)ln.d[i]);
    if (fabsl(off) > E[i] + Epos[i] + slack)
      v.fail(fmt("end point is off the line in dimension %d by %.3Lg "
                 "(allowed %.3Lg)",
                 i, off, E[i] + Epos[i] + slack));
  }
  LD Eposmax = std::max(Epos[0], std::max(Epos[1], Epos[2]));
  if (stopped && dec != MUST_EXIT) {
    if (s_code < t_lo - Eposmax - Esum || s_code > t_hi + Eposmax + Esum)
      v.fail(fmt("packet stopped at path parameter %.17Lg, the target optical "
                 "depth is reached in [%.17Lg, %.17Lg]",
                 s_code, t_lo, t_hi));
    if (t_hi - t_lo > 1e-9L * Ldiag + 2.L * slack)
      v.labels.push_back("ambiguous-stop-position");
  }
  // exit: which boundary planes, and the end point lies on them
  int must[3] = {0, 0, 0};
  bool have_must = false;
  if (!stopped && dec != MUST_STOP) {
    int may[3] = {0, 0, 0};
    int nmay = 0;
    LD uend = 0.L;
    for (int i = 0; i < 3; ++i) {
      if (!ln.moving(i))
        continue;
      const LD ui = E[i] / fabsl((LD)ln.d[i]);
      const LD um = E[ex.amin] / fabsl((LD)ln.d[ex.amin]);
      if (ex.t[i] - ex.tend <= ui + um + 32.L * EPS * ex.t[i]) {
        may[i] = ln.d[i] > 0. ? 1 : -1;
        ++nmay;
        uend = std::max(uend, ui);
      }
    }
    have_must = provable_exit(B, ln, must);
    int ncode = 0;
    for (int i = 0; i < 3; ++i) {
      if (so[i] == 0)
        continue;
      ++ncode;
      if (so[i] != may[i])
        v.fail(fmt("left through %s, but the line leaves the block through "
                   "%s (exit parameters %.17Lg %.17Lg %.17Lg)",
                   spec_str(so).c_str(), spec_str(may).c_str(), ex.t[0],
                   ex.t[1], ex.t[2]));
    }
    if (ncode == 0)
      v.fail("left the block without a boundary classification");
    if (have_must) {
      int nm = 0;
      for (int i = 0; i < 3; ++i) {
        nm += must[i] != 0;
        if (must[i] != so[i])
          v.fail(fmt("left through %s, but the line crosses exactly %s (an "
                     "exact tie by construction)",
                     spec_str(so).c_str(), spec_str(must).c_str()));
      }
      v.labels.push_back(nm == 3   ? "exact-corner-exit"
                         : nm == 2 ? "exact-edge-exit"
                                   : "exact-face-exit");
      if (nm >= 2)
        v.labels.push_back("exact-tie-exit");
    } else if (nmay > 1) {
      v.labels.push_back("near-tie-exit");
    }
    // on the planes, exactly as representable
    for (int i = 0; i < 3; ++i) {
      if (so[i] == 0)
        continue;
      const double W = so[i] > 0 ? B.L[i] : 0.;
      if (o.pend[i] != W + B.anchor[i])
        v.fail(fmt("left through %s but coordinate %d ends at %.17g, the "
                   "boundary is at %.17g",
                   spec_str(so).c_str(), i, o.pend[i], W + B.anchor[i]));
    }
    // travelled the whole chord
    if (fabsl(s_code - ex.tend) > uend + slack + Eposmax + Esum)
      v.fail(fmt("left the block after a path of %.17Lg, the chord is %.17Lg",
                 s_code, ex.tend));
  }

  // ------------------------------------------------------------- deposits
  const int NI = NUMBER_OF_IONNAMES, NH = NUMBER_OF_HEATINGTERMS;
  int ref = -1;
  if (k.sigma[ION_H_n] > 0.)
    ref = ION_H_n;
  else
    for (int ion = 0; ion < NI; ++ion)
      if (k.sigma[ion] > 0.) {
        ref = ion;
        break;
      }
  std::vector<char> isnear(B.ncell(), 0);
  for (auto &nc : near)
    isnear[nc.cell] = 1;
  const bool deposits = (k.method == M_INTERACT);
  // cells away from the line, and everything for the non-depositing methods
  for (int c = 0; c < B.ncell() && v.ok; ++c) {
    if (deposits && isnear[c])
      continue;
    for (int ion = 0; ion < NI; ++ion)
      if (o.dJ[(size_t)c * NI + ion] != 0.)
        v.fail(fmt("cell %d is not on the line but its intensity integral of "
                   "ion %d changed by %g",
                   c, ion, o.dJ[(size_t)c * NI + ion]));
    for (int h = 0; h < NH; ++h)
      if (o.dH[(size_t)c * NH + h] != 0.)
        v.fail(fmt("cell %d is not on the line but its heating term %d "
                   "changed by %g",
                   c, h, o.dH[(size_t)c * NH + h]));
  }
  LD sum_ell = 0.L, sum_abs_ell = 0.L, sum_tau = 0.L, scale_tau = 0.L;
  LD tau_res = 0.L; // resolution of sum_tau when J0 != 0
  int nvisited = 0;
  if (deposits) {
    // bracket of the parameter range in which deposits can be made
    const LD cap_hi = (dec == MUST_EXIT) ? INF : (stopped ? t_hi : INF);
    const LD cap_lo = (dec == MUST_EXIT || !stopped) ? INF : t_lo;
    // (a packet that legitimately left made all deposits up to the exit)
    for (auto &nc : near) {
      const int c = nc.cell;
      const double *dJ = &o.dJ[(size_t)c * NI];
      const double *dH = &o.dH[(size_t)c * NH];
      const LD jtol = 4.L * EPS * k.J0; // J0 + increment - J0
      LD ell = 0.L;
      if (ref >= 0)
        ell = (LD)dJ[ref] / ((LD)k.sigma[ref] * (LD)k.weight);
      // resolution of a length recovered from (J0 + increment) - J0
      const LD elltol =
          ref >= 0 ? jtol / ((LD)k.sigma[ref] * (LD)k.weight) : 0.L;
      // every ion and heating term is the same length
      for (int ion = 0; ion < NI; ++ion) {
        const LD want = ell * (LD)k.sigma[ion] * (LD)k.weight;
        if (fabsl((LD)dJ[ion] - want) >
            8.L * EPS * fabsl(want) + 2.L * jtol + 1e-290L +
                elltol * (LD)k.sigma[ion] * (LD)k.weight)
          v.fail(fmt("cell %d: intensity integral of ion %d grew by %.17g, "
                     "weight*sigma*length = %.17Lg (length %.17Lg from ion %d)",
                     c, ion, dJ[ion], want, ell, ref));
      }
      {
        const LD wH = ell * (LD)k.sigma[ION_H_n] * (LD)k.weight *
                      ((LD)k.energy - (LD)NU_H);
        if (fabsl((LD)dH[HEATINGTERM_H] - wH) >
            8.L * EPS * fabsl(wH) + 2.L * jtol +
                elltol * (LD)k.sigma[ION_H_n] * (LD)k.weight *
                    fabsl((LD)k.energy - (LD)NU_H))
          v.fail(fmt("cell %d: hydrogen heating grew by %.17g, expected "
                     "%.17Lg",
                     c, dH[HEATINGTERM_H], wH));
        const LD wHe = ell * (LD)k.sigma[ION_He_n] * (LD)k.weight *
                       ((LD)k.energy - (LD)NU_HE);
        if (fabsl((LD)dH[HEATINGTERM_He] - wHe) >
            8.L * EPS * fabsl(wHe) + 2.L * jtol +
                elltol * (LD)k.sigma[ION_He_n] * (LD)k.weight *
                    fabsl((LD)k.energy - (LD)NU_HE))
          v.fail(fmt("cell %d: helium heating grew by %.17g, expected %.17Lg",
                     c, dH[HEATINGTERM_He], wHe));
      }
      if (ref < 0)
        continue;
      // geometric bracket of the credited length
      Interval up = nc.infl, lo = nc.defl;
      if (cap_hi < INF)
        up = geo::isect(up, Interval{0.L, cap_hi});
      if (cap_lo < INF)
        lo = geo::isect(lo, Interval{0.L, cap_lo});
      const LD tol = slack + elltol + 8.L * EPS * fabsl(ell);
      // a cell that is only touched within rounding can also be credited a
      // negative length of that size
      const LD negallow = std::min(nc.infl.len() - nc.defl.len(),
                                   tback + slack);
      if (ell > up.len() + tol || ell < lo.len() - tol - (lo.len() > 0.L ? 0.L : negallow))
        v.fail(fmt("cell (%d,%d,%d) was credited a path length of %.17Lg; "
                   "the line spends between %.17Lg and %.17Lg in it",
                   nc.idx[0], nc.idx[1], nc.idx[2], ell, lo.len(), up.len()));
      sum_ell += ell;
      sum_abs_ell += fabsl(ell);
      const LD kap = kappa_of(k, c);
      sum_tau += kap * ell;
      tau_res += kap * elltol;
      if (!(stopped && t_hi < INF) || nc.infl.a <= t_hi)
        scale_tau += kap * nc.infl.len();
      if (ell != 0.L)
        ++nvisited;
    }
    if (ref >= 0) {
      // the lengths add up to the straight-line distance travelled
      const LD tol = slack * nsteps + 8.L * EPS * sum_abs_ell + Eposmax + Esum +
                     4.L * EPS * k.J0 * near.size() /
                         ((LD)k.sigma[ref] * (LD)k.weight);
      // (signed: a packet may end a rounding-sized step behind its start)
      if (fabsl(sum_ell - s_code) > tol || fabsl(dist - fabsl(s_code)) > tol)
        v.fail(fmt("credited path lengths add up to %.17Lg, the packet moved "
                   "%.17Lg",
                   sum_ell, dist));
    }
  }

  // ------------------------------------------------------------- optical depth
  {
    const LD rt = 16.L * EPS * nsteps;
    if (k.method == M_OPTICAL_DEPTH) {
      const LD used = (LD)o.tau_after - (LD)k.tau;
      const LD r = rt * (tau_hi_tot + target) + 2.L * EPS * (LD)o.tau_after;
      if (used < tau_lo_tot - r || used > tau_hi_tot + r)
        v.fail(fmt("optical depth added is %.17Lg, along the chord it is in "
                   "[%.17Lg, %.17Lg]",
                   used, tau_lo_tot, tau_hi_tot));
    } else if (!stopped) {
      const LD used = (LD)k.tau - (LD)o.tau_after;
      const LD r = rt * (tau_hi_tot + target);
      if (!(o.tau_after > 0.))
        v.fail(fmt("packet left the block with a remaining optical depth of "
                   "%.17g",
                   o.tau_after));
      if (used < tau_lo_tot - r || used > tau_hi_tot + r)
        v.fail(fmt("optical depth used up is %.17Lg, along the chord it is in "
                   "[%.17Lg, %.17Lg]",
                   used, tau_lo_tot, tau_hi_tot));
      if (deposits && ref >= 0 &&
          fabsl(used - sum_tau) >
              rt * (scale_tau + target) + tau_res)
        v.fail(fmt("optical depth used up is %.17Lg, density x neutral "
                   "fraction x cross section x credited length sums to %.17Lg",
                   used, sum_tau));
    } else {
      if (o.tau_after > 0.)
        v.fail(fmt("packet stopped with %.17g of its target optical depth "
                   "left",
                   o.tau_after));
      if (deposits && ref >= 0 &&
          fabsl(target - sum_tau) > rt * (scale_tau + target) + tau_res)
        v.fail(fmt("packet stopped; density x neutral fraction x cross "
                   "section x credited length sums to %.17Lg, the target was "
                   "%.17g",
                   sum_tau, k.tau));
    }
  }

  // ------------------------------------------------------------- labels
  int nwall = 0, nzero = 0;
  for (int i = 0; i < 3; ++i) {
    if (geo::on_wall(B, i, ln.x0[i]) >= 0)
      ++nwall;
    if (!ln.moving(i))
      ++nzero;
  }
  v.labels.push_back(nwall == 0   ? "interior-start"
                     : nwall == 1 ? "face-start"
                     : nwall == 2 ? "edge-start"
                                  : "corner-start");
  v.labels.push_back(nzero == 2   ? "axis-aligned"
                     : nzero == 1 ? "plane-aligned"
                                  : "generic-direction");
  v.labels.push_back(k.entry == TRAVELDIRECTION_INSIDE ? "entry-inside"
                                                       : "entry-boundary");
  if (segs.size() >= 2)
    v.labels.push_back("multi-cell");
  bool tau_tie = false, stop_in_cell = false;
  if (dec == MUST_STOP && t_hi < INF) {
    const LD tm = 0.5L * (t_lo + t_hi);
    for (auto &g : segs) {
      if (fabsl(g.tb - tm) <= 4.L * slack)
        tau_tie = true;
      if (tm > g.ta + 4.L * slack && tm < g.tb - 4.L * slack)
        stop_in_cell = true;
    }
    if (tau_tie && exact)
      v.labels.push_back("exact-tau-tie");
    if (stop_in_cell)
      v.labels.push_back("stop-strictly-inside-cell");
  }
  int nm = 0;
  for (int i = 0; i < 3; ++i)
    nm += must[i] != 0;
  v.nontrivial = segs.size() >= 2 || nwall > 0 || stop_in_cell ||
                 (have_must && nm >= 2);
  if (dec == AMBIG)
    v.nontrivial = false;
  if (tback > 1e-9L * Ldiag) {
    v.labels.push_back("grazing-start-within-rounding-of-a-wall");
    v.nontrivial = false;
  }
  (void)nvisited;
  return v;
}

VResult oracle(const VCase &vc, int method) {
  VResult r;
  const Case k = unpack(vc, method);
  const Block &B = k.B;
  Obs o = run_code(k); // a VerifAbort propagates: "unexpected abort"
  // everything the code returns is finite (the comparisons below are written
  // as |a-b| > tol and would let a NaN pass)
  {
    for (int i = 0; i < 3; ++i)
      if (!std::isfinite(o.pend[i]) || !std::isfinite(o.d[i])) {
        r.fail(fmt("the packet's final position/direction component %d is "
                   "%g / %g", i, o.pend[i], o.d[i]));
        return r;
      }
    if (!std::isfinite(o.tau_after)) {
      r.fail(fmt("the packet's remaining optical depth is %g", o.tau_after));
      return r;
    }
    for (size_t q = 0; q < o.dJ.size(); ++q)
      if (!std::isfinite(o.dJ[q])) {
        r.fail(fmt("cell %zu: intensity integral of ion %zu grew by %g",
                   q / NUMBER_OF_IONNAMES, q % NUMBER_OF_IONNAMES, o.dJ[q]));
        return r;
      }
    for (size_t q = 0; q < o.dH.size(); ++q)
      if (!std::isfinite(o.dH[q])) {
        r.fail(fmt("cell %zu: heating term %zu grew by %g",
                   q / NUMBER_OF_HEATINGTERMS, q % NUMBER_OF_HEATINGTERMS,
                   o.dH[q]));
        return r;
      }
  }
  if (getenv("C02_TRACE")) { // diagnostics for --replay only
    fprintf(stderr, "TRACE out=%d pend-anchor=%.17g %.17g %.17g tau_after=%.17g d=%.17g %.17g %.17g\n",
            o.out, o.pend[0] - B.anchor[0], o.pend[1] - B.anchor[1],
            o.pend[2] - B.anchor[2], o.tau_after, o.d[0], o.d[1], o.d[2]);
    for (int c = 0; c < B.ncell(); ++c)
      if (o.dJ[(size_t)c * NUMBER_OF_IONNAMES] != 0.)
        fprintf(stderr, "TRACE cell %d dJ_H=%.17g ell=%.17g kappa=%.6Lg\n", c,
                o.dJ[(size_t)c * NUMBER_OF_IONNAMES],
                o.dJ[(size_t)c * NUMBER_OF_IONNAMES] / (k.sigma[0] * k.weight), kappa_of(k, c));
  }
  Line ln;
  start_point(k, ln.x0);
  for (int i = 0; i < 3; ++i)
    ln.d[i] = o.d[i];
  // candidate slab indices for dimensions in which the line does not move: a
  // line that runs inside a wall (or within rounding of one) belongs to either
  // neighbouring column
  std::vector<int> cand[3];
  for (int i = 0; i < 3; ++i) {
    if (ln.moving(i)) {
      cand[i].push_back(0);
      continue;
    }
    const int k0 = geo::locate(B, i, ln.x0[i]);
    cand[i].push_back(k0);
    const LD tol = 16.L * EPS * (LD)B.L[i];
    if (k0 > 0 && (LD)ln.x0[i] - (LD)B.wall[i][k0] <= tol)
      cand[i].push_back(k0 - 1);
    if (k0 + 1 < B.n[i] && (LD)B.wall[i][k0 + 1] - (LD)ln.x0[i] <= tol)
      cand[i].push_back(k0 + 1);
  }
  Verdict first;
  bool have = false;
  size_t ncand = 0;
  for (int a : cand[0])
    for (int b : cand[1])
      for (int c : cand[2]) {
        const int stat[3] = {a, b, c};
        Verdict v = judge(k, o, ln, stat);
        ++ncand;
        if (!have || (v.ok && !first.ok)) {
          first = v;
          have = true;
        }
        if (first.ok)
          goto done;
      }
done:
  for (auto &l : first.labels)
    r.label(l);
  if (cand[0].size() * cand[1].size() * cand[2].size() > 1)
    r.label("line-inside-a-wall");
  r.nontrivial = first.nontrivial;
  if (!first.ok)
    r.fail(first.msg);
  return r;
}

// ===========================================================================
// generator
// ===========================================================================
double nextafter_n(double x, int n) {
  for (int i = 0; i < std::abs(n); ++i)
    x = std::nextafter(x, n > 0 ? HUGE_VAL : -HUGE_VAL);
  return x;
}
// n "ulps" next to a coordinate of a block of size L: next to 0 the rounding
// of anchor additions is of the order eps * L, not a denormal
double jitter(double x, int n, double L) {
  return x == 0. ? n * EPS * L : nextafter_n(x, n);
}

int gen_ncell() {
  switch (vr::weighted({35, 40, 25})) {
  case 0:
    return (int)vr::irange(1, 3);
  case 1:
    return (int)vr::irange(4, 8);
  default:
    return (int)vr::irange(9, 12);
  }
}

VCase gen_case(int method) {
  VCase c;
  // scenario: 0 general, 1 provably exact arithmetic (axis aligned, small
  // dyadic data: exact optical depth ties), 2 provably exact geometric ties
  // (lattice diagonal through cell corners ending on a block edge / corner)
  const int scen = vr::weighted({68, 16, 16});
  // ------------------------------------------------------------ geometry
  int n[3];
  double anchor[3], side[3];
  for (int i = 0; i < 3; ++i)
    n[i] = gen_ncell();
  if (vr::coin(0.2))
    n[1] = n[2] = n[0];
  const int gmode = scen != 0 ? 0 : vr::weighted({35, 35, 30});
  bool smallcontent = false;
  if (gmode == 0) { // dyadic cells, dyadic anchor: everything exact
    const double h = std::ldexp(1., -(int)vr::irange(0, 3));
    const double odd = vr::coin(0.2) ? (double)vr::pick<int>({3, 5}) : 1.;
    const bool cubic = vr::coin(0.5);
    static const std::vector<double> f = {1., 1., 1., 2., 4., 0.5};
    const double f0 = vr::pick(f);
    for (int i = 0; i < 3; ++i) {
      const double cs = h * odd * (cubic ? f0 : vr::pick(f));
      side[i] = n[i] * cs;
      anchor[i] = vr::coin(0.4) ? 0. : (double)vr::irange(-128, 128) / 16.;
    }
    smallcontent = scen == 1 || vr::coin(0.4);
  } else if (gmode == 1) { // generic sides and anchors, several length scales
    static const std::vector<double> sc = {1., 1., 1e-3, 1e3, 3.0857e16};
    const double S = vr::pick(sc);
    const bool cubic = vr::coin(0.3);
    const double cs0 = vr::uni(0.2, 2.);
    for (int i = 0; i < 3; ++i) {
      const double cs = cubic ? cs0 : vr::uni(0.2, 2.);
      side[i] = n[i] * cs * S;
      anchor[i] = vr::coin(0.3) ? 0. : vr::uni(-3., 3.) * side[i];
    }
  } else { // dyadic box, cell size not representable for most cell counts
    for (int i = 0; i < 3; ++i) {
      side[i] = std::ldexp(1., (int)vr::irange(-2, 2));
      anchor[i] = vr::coin(0.4) ? 0. : (double)vr::irange(-64, 64) / 8.;
    }
  }
  const Block B = geo::make_block(n, anchor, side);
  const int nc = B.ncell();

  int entry = TRAVELDIRECTION_INSIDE;
  double rel[3];
  double v[3] = {0., 0., 0.};
  int es_store[3] = {0, 0, 0};
  const int *es = es_store;

  if (scen == 2) {
    // ---------------------------------------------------------- exact ties
    // moving dimensions step one cell per event (v_i = +-cs_i); the dimensions
    // in G reach the block boundary together after m events
    int s[3], mov[3], inG[3];
    int nmov = 0;
    const int stat = vr::coin(0.3) ? (int)vr::irange(0, 2) : -1;
    for (int i = 0; i < 3; ++i) {
      s[i] = vr::coin() ? 1 : -1;
      mov[i] = (i != stat);
      nmov += mov[i];
      inG[i] = 0;
    }
    // choose G: all moving dims, or two of three
    int drop = (nmov == 3 && vr::coin(0.45)) ? (int)vr::irange(0, 2) : -1;
    int mmax = 1000;
    for (int i = 0; i < 3; ++i) {
      inG[i] = mov[i] && i != drop;
      if (inG[i])
        mmax = std::min(mmax, n[i]);
    }
    int m = (int)vr::irange(1, mmax);
    if (drop >= 0 && n[drop] <= m) { // cannot stay inside longer: joins the tie
      m = n[drop];
      inG[drop] = 1;
    }
    int k[3];
    for (int i = 0; i < 3; ++i) {
      if (!mov[i]) {
        k[i] = -1;
        continue;
      }
      const int W = s[i] > 0 ? n[i] : 0;
      const int steps = inG[i] ? m : (int)vr::irange(m + 1, n[i]);
      k[i] = W - s[i] * steps;
    }
    for (int i = 0; i < 3; ++i) {
      if (!mov[i]) {
        const int kw = (int)vr::irange(0, n[i] - 1);
        rel[i] = vr::coin(0.3) ? B.wall[i][kw]
                               : B.wall[i][kw] + B.cs[i] * (double)vr::irange(1, 15) / 16.;
        v[i] = 0.;
        continue;
      }
      rel[i] = B.wall[i][k[i]];
      v[i] = s[i] * B.cs[i];
      // start on the block boundary: enters through it (upper boundary:
      // always; lower boundary: half of the time, otherwise INSIDE at 0)
      if (k[i] == n[i])
        es_store[i] = 1;
      else if (k[i] == 0 && vr::coin())
        es_store[i] = -1;
    }
    for (auto &t : TDS)
      if (t.s[0] == es_store[0] && t.s[1] == es_store[1] &&
          t.s[2] == es_store[2])
        entry = t.td;
  } else {
    // ------------------------------------------------------------ entry
    if (scen == 1) {
      if (vr::coin(0.4))
        entry = (int)vr::irange(TRAVELDIRECTION_FACE_X_P, TRAVELDIRECTION_FACE_Z_N);
    } else if (vr::coin(0.45)) {
      entry = (int)vr::irange(1, TRAVELDIRECTION_NUMBER - 1);
    }
    es = td_spec(entry);
  }
  int sign[3]; // required sign of the direction component
  for (int i = 0; i < 3; ++i)
    sign[i] = -es[i];

  int sclass = -1, dclass = -1;
  if (scen != 2) {
    // ---------------------------------------------------------- start point
    // relative coordinates; walls are computed the way the grid defines them
    sclass = scen == 1 ? vr::weighted({40, 30, 15, 15, 0, 0, 0})
                       : vr::weighted({30, 14, 12, 14, 8, 4, 6});
    // 0 generic, 1 one coordinate on a wall, 2 two, 3 three, 4 within ulps of
    // a wall, 5 within ulps of the upper boundary, 6 cell centre
    int onw[3] = {0, 0, 0};
    {
      const int want = sclass <= 3 ? sclass : 0;
      int order[3];
      const int rot = (int)vr::irange(0, 2);
      for (int i = 0; i < 3; ++i)
        order[i] = (i + rot) % 3;
      if (vr::coin())
        std::swap(order[0], order[1]);
      for (int j = 0; j < 3; ++j)
        if (j < want)
          onw[order[j]] = 1;
    }
    for (int i = 0; i < 3; ++i) {
      if (es[i] != 0) {
        rel[i] = es[i] > 0 ? B.L[i] : 0.;
        // what a hand-over from the neighbour really delivers: the boundary
        // up to the rounding of two anchor additions
        if (scen == 0 && vr::coin(0.3))
          rel[i] = jitter(rel[i], (int)vr::irange(-2, 2), B.L[i]);
        continue;
      }
      const int kw = (int)vr::irange(0, n[i] - 1);
      if (onw[i]) {
        rel[i] = B.wall[i][kw];
      } else if (sclass == 4 && vr::coin(0.7)) {
        rel[i] = jitter(B.wall[i][kw], (int)vr::irange(-3, 3), B.L[i]);
        if (rel[i] < 0.)
          rel[i] = 0.;
      } else if (sclass == 5 && vr::coin(0.6)) {
        // (the closed upper boundary included: a hand-over through a face
        // can deliver a free coordinate exactly on it)
        rel[i] = nextafter_n(B.L[i], -(int)vr::irange(0, 3));
      } else if (sclass == 6) {
        rel[i] = (kw + 0.5) * B.cs[i];
      } else if (gmode == 0 && (scen == 1 || vr::coin(0.5))) {
        rel[i] = B.wall[i][kw] + B.cs[i] * (double)vr::irange(1, 15) / 16.;
      } else {
        rel[i] = vr::uni() * B.L[i];
      }
    }
  }
  double pos[3], x0[3];
  for (int i = 0; i < 3; ++i) {
    pos[i] = anchor[i] + rel[i];
    if (es[i] == 0) {
      // free coordinates live in the closed block as the traversal sees
      // them (position - anchor)
      int guard = 0;
      while (pos[i] - anchor[i] > B.L[i] && guard++ < 64)
        pos[i] = std::nextafter(pos[i], -HUGE_VAL);
      while (pos[i] - anchor[i] < 0. && guard++ < 128)
        pos[i] = std::nextafter(pos[i], HUGE_VAL);
    }
    x0[i] = pos[i] - anchor[i];
    if (method == M_INTERACT && es[i] != 0)
      x0[i] = es[i] > 0 ? B.L[i] : 0.;
  }

  if (scen != 2) {
    // ---------------------------------------------------------- direction
    int ncon = 0;
    for (int i = 0; i < 3; ++i)
      ncon += sign[i] != 0;
    dclass = scen == 1 ? 1 : vr::weighted({32, 10, 12, 14, 24, 8});
    // 0 generic, 1 axis, 2 plane, 3 lattice / power-of-two diagonal,
    // 4 aimed at a lattice point / block corner / block edge, 5 grazing
    if (dclass == 1 && ncon >= 2)
      dclass = 2;
    if (dclass == 2 && ncon == 3)
      dclass = 3;
    auto generic = [&]() {
      for (int i = 0; i < 3; ++i)
        v[i] = vr::uni(-1., 1.);
      if (std::abs(v[0]) + std::abs(v[1]) + std::abs(v[2]) < 0.1)
        v[0] = 1.;
    };
    switch (dclass) {
    case 0:
      generic();
      break;
    case 1: {
      int a = (int)vr::irange(0, 2);
      for (int i = 0; i < 3; ++i)
        if (sign[i] != 0)
          a = i;
      static const std::vector<double> mag = {1., 1., 3., 0.7, 1e-3};
      v[a] = (vr::coin() ? 1. : -1.) * vr::pick(mag);
      break;
    }
    case 2: {
      generic();
      std::vector<int> fr;
      for (int i = 0; i < 3; ++i)
        if (sign[i] == 0)
          fr.push_back(i);
      const int z = vr::pick(fr);
      if (vr::coin(0.4)) { // equal magnitudes in the plane
        for (int i = 0; i < 3; ++i)
          v[i] = v[i] < 0 ? -1. : 1.;
      }
      v[z] = 0.;
      break;
    }
    case 3: {
      const bool lattice = vr::coin(0.6);
      for (int i = 0; i < 3; ++i) {
        const double m =
            lattice ? B.cs[i] : std::ldexp(1., (int)vr::irange(0, 2));
        v[i] = (vr::coin() ? 1. : -1.) * m;
      }
      if (vr::coin(0.3)) {
        std::vector<int> fr;
        for (int i = 0; i < 3; ++i)
          if (sign[i] == 0)
            fr.push_back(i);
        if (!fr.empty())
          v[vr::pick(fr)] = 0.;
      }
      break;
    }
    case 4: {
      // aim at a point whose coordinates are walls (block corner: all on the
      // block boundary; block edge: two; lattice point: any walls)
      const int kind = vr::weighted({40, 30, 30});
      const int nfree = (kind == 1) ? 1 : 0; // generic target coordinates
      const int skip = (int)vr::irange(0, 2);
      for (int i = 0; i < 3; ++i) {
        double tgt;
        const int kc = geo::locate(B, i, x0[i]);
        int lo = 0, hi = n[i];
        if (sign[i] > 0)
          lo = std::min(n[i], kc + 1);
        if (sign[i] < 0)
          hi = (x0[i] > B.wall[i][kc]) ? kc : std::max(0, kc - 1);
        if (kind == 2) {
          tgt = B.wall[i][vr::irange(lo, hi)];
        } else {
          // far or near block boundary, consistent with the required sign
          const bool up =
              sign[i] > 0 ? true : (sign[i] < 0 ? false : vr::coin());
          tgt = up ? B.L[i] : 0.;
        }
        if (nfree > 0 && i == skip && sign[i] == 0)
          tgt = vr::uni() * B.L[i];
        v[i] = tgt - x0[i];
      }
      break;
    }
    default: {
      generic();
      std::vector<int> fr;
      for (int i = 0; i < 3; ++i)
        if (sign[i] == 0)
          fr.push_back(i);
      if (!fr.empty())
        v[vr::pick(fr)] =
            (vr::coin() ? 1. : -1.) * std::pow(10., -vr::uni(6., 17.));
    }
    }
    for (int i = 0; i < 3; ++i) {
      if (sign[i] == 0)
        continue;
      if (v[i] == 0.)
        v[i] = dclass == 3 ? B.cs[i] : 0.5;
      v[i] = sign[i] * std::abs(v[i]);
    }
    if (v[0] == 0. && v[1] == 0. && v[2] == 0.)
      v[(int)vr::irange(0, 2)] = 1.; // (only free dimensions can be zero here)
  }
  // the unit direction the packet will hold (same operation as set_direction)
  Line ln;
  {
    const double nrm = std::sqrt(v[0] * v[0] + v[1] * v[1] + v[2] * v[2]);
    for (int i = 0; i < 3; ++i) {
      ln.x0[i] = x0[i];
      ln.d[i] = v[i] / nrm;
    }
  }

  // ------------------------------------------------------------ cell contents
  std::vector<double> nH(nc), xH(nc), xHe(nc);
  std::vector<double> sigma(NUMBER_OF_IONNAMES, 0.);
  double weight, energy;
  const int cmode =
      smallcontent ? 0 : (int)(1 + vr::weighted({25, 30, 35, 10}));
  // 0 small dyadic, 1 homogeneous, 2 narrow, 3 twenty decades, 4 mostly empty
  const double pzero = cmode == 4 ? 0.8 : (vr::coin(0.5) ? 0.2 : 0.);
  if (cmode == 0) {
    static const std::vector<double> sv = {0.25, 0.5, 1., 2.};
    static const std::vector<double> xv = {0., 0.25, 0.5, 1., 1.};
    sigma[ION_H_n] = vr::pick(sv);
    sigma[ION_He_n] = vr::coin(0.5) ? 0. : vr::pick(sv);
    const double pz = vr::coin(0.5) ? 0.5 : 0.15;
    for (int k = 0; k < nc; ++k) {
      nH[k] = vr::coin(pz) ? 0. : (double)vr::irange(1, 32) / 16.;
      xH[k] = vr::pick(xv);
      xHe[k] = vr::pick(xv);
    }
    weight = vr::pick(sv);
  } else {
    const double Lref = std::max(B.L[0], std::max(B.L[1], B.L[2]));
    sigma[ION_H_n] = vr::coin(0.05) ? 0. : 6.3e-22 * vr::uni(0.01, 1.);
    sigma[ION_He_n] = vr::coin(0.4) ? 0. : 7.8e-22 * vr::uni(0.01, 1.);
    const double sref = std::max(sigma[ION_H_n], 1e-23);
    const double n0 = vr::logu(1e-3, 1e3) / (sref * Lref);
    const double nhom = n0, xhom = vr::coin(0.3) ? 1. : vr::logu(1e-6, 1.);
    for (int k = 0; k < nc; ++k) {
      if (cmode == 1) {
        nH[k] = nhom;
        xH[k] = xhom;
        xHe[k] = xhom;
      } else if (cmode == 2) {
        nH[k] = n0 * vr::uni(0.3, 3.);
        xH[k] = vr::uni();
        xHe[k] = vr::uni();
      } else {
        nH[k] = n0 * vr::logu(1e-10, 1e10);
        xH[k] = vr::coin(0.2) ? 1. : vr::logu(1e-10, 1.);
        xHe[k] = vr::coin(0.2) ? 1. : vr::logu(1e-10, 1.);
      }
      if (pzero > 0. && vr::coin(pzero)) {
        if (vr::coin())
          nH[k] = 0.;
        else
          xH[k] = xHe[k] = 0.;
      }
    }
    weight = vr::coin(0.5) ? 1. : vr::logu(1e-3, 1e3);
  }
  for (int ion = 0; ion < NUMBER_OF_IONNAMES; ++ion) {
    if (ion == ION_H_n || ion == ION_He_n)
      continue;
    sigma[ion] = vr::coin(0.5) ? 0.
                               : sigma[ION_H_n] * vr::uni(0., 2.) +
                                     1e-24 * vr::uni();
  }
  energy = NU_H * vr::uni(1.0001, 4.);
  if (energy < NU_HE && cmode != 0)
    sigma[ION_He_n] = 0.; // below the helium threshold
  double J0 = 0.;
  if (vr::coin(0.2))
    J0 = (cmode == 0) ? 1.
                      : weight * std::max(sigma[ION_H_n], 1e-23) *
                            std::max(B.L[0], B.L[1]) * vr::logu(0.01, 100.);

  // ------------------------------------------------------------ target tau
  // optical depth along the exact path (first candidate column)
  int stat[3];
  for (int i = 0; i < 3; ++i)
    stat[i] = geo::locate(B, i, x0[i]);
  const std::vector<geo::Segment> segs = geo::segments(B, ln, stat);
  std::vector<double> cum;
  double tot = 0.;
  for (auto &g : segs) {
    const double kap = nH[g.cell] * (sigma[ION_H_n] * xH[g.cell] +
                                     sigma[ION_He_n] * xHe[g.cell]);
    tot += (double)(g.tb - g.ta) * kap;
    cum.push_back(tot);
  }
  double tau;
  int tmode = scen == 1   ? vr::weighted({15, 20, 55, 0, 0, 10})
              : scen == 2 ? vr::weighted({70, 20, 10, 0, 0, 0})
                          : vr::weighted({26, 44, 14, 6, 4, 6});
  // 0 beyond the block, 1 a fraction of the chord, 2 exactly the optical depth
  // at a cell wall on the path, 3 tiny, 4 the chord total up to rounding,
  // 5 a wall value +- 1 ulp
  if (!(tot > 0.) && tmode != 0)
    tmode = 0;
  switch (tmode) {
  case 0:
    tau = tot > 0. ? tot * (vr::coin(0.3) ? 1e6 : vr::uni(1.001, 10.))
                   : vr::logu(1e-12, 1e3);
    if (cmode == 0)
      tau = std::ceil(tot) + (double)vr::irange(1, 8) / 4.;
    break;
  case 1:
    tau = tot * vr::uni(1e-6, 1.);
    if (cmode == 0)
      tau = std::max(1. / 16., std::floor(tau * 16.) / 16.);
    break;
  case 2:
  case 5: {
    std::vector<double> pos_cum;
    for (double x : cum)
      if (x > 0.)
        pos_cum.push_back(x);
    // the chord total itself only in the exact scenario (elsewhere it is
    // within rounding of the stop / leave threshold by construction)
    if (scen != 1 && pos_cum.size() > 1 && vr::coin(0.9))
      pos_cum.pop_back();
    tau = vr::pick(pos_cum);
    if (tmode == 5)
      tau = nextafter_n(tau, vr::coin() ? 1 : -1);
    break;
  }
  case 3:
    tau = tot * 1e-12;
    break;
  default: {
    static const std::vector<double> off = {0.,     1e-15, -1e-15, 1e-12,
                                            -1e-12, 1e-9,  -1e-9};
    tau = tot * (1. + vr::pick(off));
  }
  }
  if (!(tau > 0.))
    tau = 1.;

  c.I("ncell", {n[0], n[1], n[2]});
  c.I("entry", entry);
  c.I("scenario", {scen, sclass, dclass, tmode});
  c.D("anchor", {anchor[0], anchor[1], anchor[2]});
  c.D("side", {side[0], side[1], side[2]});
  c.D("pos", {pos[0], pos[1], pos[2]});
  c.D("dir", {v[0], v[1], v[2]});
  c.D("tau", tau);
  c.D("weight", weight);
  c.D("energy", energy);
  c.D("J0", J0);
  c.D("sigma", sigma);
  c.D("nH", nH);
  c.D("xH", xH);
  c.D("xHe", xHe);
  return c;
}

} // namespace

int main(int argc, char **argv) {
  std::vector<VProp> props;
  const std::string dom =
      "block of 1..12 cells per axis (independent), dyadic cells / generic "
      "sides on length scales 1e-3..3e16 / dyadic box with non-representable "
      "cell size; anchors 0, dyadic or generic; start generic, exactly on 1/2/3 "
      "cell walls, within 3 ulp of a wall or of (and exactly on) the upper boundary, cell "
      "centre; entry INSIDE (55%) or one of the 26 boundary classifications "
      "with the position on that element (30% perturbed by <=2 ulp as a "
      "hand-over delivers it) and a compatible direction; directions generic, "
      "axis aligned, plane aligned, lattice / power-of-two diagonals, aimed "
      "at a block corner / block edge / lattice point, grazing (one component "
      "1e-6..1e-17); cell contents small dyadic / homogeneous / narrow / 20 "
      "decades / mostly empty with exact zeros; target optical depth beyond "
      "the block, a fraction of the chord, exactly the value at a cell wall "
      "(+-1 ulp), tiny, the chord total up to rounding. Non-trivial = at "
      "least 2 cells on the line, or start on a cell wall, or a stop strictly "
      "inside a cell, or a provably exact edge/corner exit; cases whose "
      "stop/leave decision lies within the rounding bracket are not counted.";
  const std::map<std::string, double> floors = {
      {"face-start", 0.03},    {"edge-start", 0.03},
      {"corner-start", 0.03},  {"axis-aligned", 0.03},
      {"exact-tie-exit", 0.03}, {"stop-inside", 0.03},
      {"tau-beyond-block", 0.03}};
  props.push_back({"interact", 60000, [] { return gen_case(M_INTERACT); },
                   [](const VCase &c) { return oracle(c, M_INTERACT); },
                   "interact(): " + dom, floors});
  props.push_back({"propagate", 20000, [] { return gen_case(M_PROPAGATE); },
                   [](const VCase &c) { return oracle(c, M_PROPAGATE); },
                   "propagate() (no deposits, position not moved onto the "
                   "boundary): " + dom,
                   {{"stop-inside", 0.03}, {"tau-beyond-block", 0.03}}});
  props.push_back({"optical_depth", 20000,
                   [] { return gen_case(M_OPTICAL_DEPTH); },
                   [](const VCase &c) { return oracle(c, M_OPTICAL_DEPTH); },
                   "compute_optical_depth() (always crosses the block, adds "
                   "the chord's optical depth): " + dom,
                   {{"multi-cell", 0.3}}});
  return vr::vmain(argc, argv, "C02", props);
}
