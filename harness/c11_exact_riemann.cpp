// C11 - the exact Riemann solver returns the solution of the Riemann problem.
// Oracles: an independent long-double solver (riemann_ref.hpp), the pressure
// equation residual, jump conditions / isentropic relations evaluated on the
// solver's own samples, one-sided continuity in the sampling speed.
#include "ExactRiemannSolver.hpp"
#include "riemann_ref.hpp"
#include "verif_rc.hpp"

using vr::VCase;
using vr::VProp;
using vr::VResult;
using vr::fmt;
typedef long double LD;

namespace {

struct In {
  double g, rhoL, uL, PL, rhoR, uR, PR;
};
In unpack(const VCase &c) {
  return In{c.d("gamma"), c.d("rhoL"), c.d("uL"), c.d("PL"),
            c.d("rhoR"),  c.d("uR"),   c.d("PR")};
}
rref::Solution refsol(const In &s) {
  return rref::solve(s.g, rref::State{s.rhoL, s.uL, s.PL},
                     rref::State{s.rhoR, s.uR, s.PR});
}
double cscale(const In &s, const rref::Solution &sol) {
  return (double)(sol.aL + sol.aR) + std::abs(s.uL) + std::abs(s.uR);
}

struct Smp {
  double rho, u, P;
  int flag;
};
Smp sample(const ExactRiemannSolver &S, const In &s, double xi) {
  Smp o;
  o.flag = S.solve(s.rhoL, s.uL, s.PL, s.rhoR, s.uR, s.PR, o.rho, o.u, o.P, xi);
  return o;
}

double gen_gamma() {
  switch (vr::weighted({3, 3, 1, 1, 1, 3})) {
  case 0:
    return 5. / 3.;
  case 1:
    return 1.4;
  case 2:
    return 1.01;
  case 3:
    return 2.;
  case 4:
    return 1.1;
  default:
    return vr::uni(1.01, 2.);
  }
}

// mode 0: generic non-vacuum; 1: near / beyond vacuum generation;
// 2: vacuum on one side
VCase gen_states(int mode) {
  VCase c;
  const double g = gen_gamma();
  double rhoL = std::pow(10., vr::uni(-3, 3)), PL = std::pow(10., vr::uni(-3, 3));
  double rhoR = std::pow(10., vr::uni(-3, 3)), PR = std::pow(10., vr::uni(-3, 3));
  if (vr::coin(0.3)) {
    rhoR = rhoL * std::pow(10., vr::uni(-1, 1));
    PR = PL * std::pow(10., vr::uni(-1, 1));
  }
  if (mode == 2) {
    if (vr::coin()) {
      rhoL = 0.;
      PL = 0.;
    } else {
      rhoR = 0.;
      PR = 0.;
    }
  }
  const double aL = rhoL > 0. ? std::sqrt(g * PL / rhoL) : 0.;
  const double aR = rhoR > 0. ? std::sqrt(g * PR / rhoR) : 0.;
  const double aref = std::max(aL, aR);
  double uL = (aL > 0. ? aL : aref) * vr::uni(-5, 5);
  double uR = (aR > 0. ? aR : aref) * vr::uni(-5, 5);
  if (vr::coin(0.15))
    uL = 0.;
  if (vr::coin(0.15))
    uR = 0.;
  if (mode == 1) {
    static const std::vector<double> off = {0.,   1e-12, -1e-12, 1e-6, -1e-6,
                                            0.1,  -0.1,  -0.01,  1.,   -0.5};
    const double lim = 2. / (g - 1.) * (aL + aR);
    const double sep = lim * (1. + vr::pick(off));
    const double mid = aref * vr::uni(-3, 3);
    const double w = vr::uni(0, 1);
    uL = mid - w * sep;
    uR = mid + (1. - w) * sep;
  }
  c.D("gamma", g).D("rhoL", rhoL).D("uL", uL).D("PL", PL);
  c.D("rhoR", rhoR).D("uR", uR).D("PR", PR);
  return c;
}

void classify(const rref::Solution &sol, VResult &r) {
  if (sol.vacL || sol.vacR)
    r.label("vacuum-side");
  else if (sol.vacgen)
    r.label("vacuum-generated");
  else {
    r.label(sol.shockL ? "left-shock" : "left-fan");
    r.label(sol.shockR ? "right-shock" : "right-fan");
  }
}

bool near(double a, double b, double rel, double abs_) {
  return std::abs(a - b) <= rel * std::max(std::abs(a), std::abs(b)) + abs_;
}

// does the sample agree with the reference state st?
std::string match(const In &s, const Smp &o, const rref::State &st, double c,
                  double tol) {
  const double ex = 2. * s.g / (s.g - 1.); // steepest exponent inside a fan
  const double rs = std::max(s.rhoL, s.rhoR), ps = std::max(s.PL, s.PR);
  const double tr = tol * (1. + ex);
  if (!near(o.rho, (double)st.rho, tr, 1e-12 * rs))
    return fmt("rho %.15g vs ref %.15Lg", o.rho, st.rho);
  if (!near(o.P, (double)st.p, tr, 1e-12 * ps))
    return fmt("P %.15g vs ref %.15Lg", o.P, st.p);
  // (the velocity of a numerically empty region is meaningless)
  if (st.rho > 1e-280L * rs && o.rho > 1e-280 * rs &&
      std::abs(o.u - (double)st.u) > tol * c)
    return fmt("u %.15g vs ref %.15Lg", o.u, st.u);
  return "";
}

// ------------------------------------------------------------------ oracles
// star state: p*, u* against the reference and the pressure equation
VResult o_star(const VCase &c) {
  VResult r;
  const In s = unpack(c);
  ExactRiemannSolver S(s.g);
  const rref::Solution sol = refsol(s);
  classify(sol, r);
  if (sol.vacL || sol.vacR || sol.vacgen) {
    r.label("vacuum-skipped");
    return r;
  }
  if (sol.pstar < 1e-290L * std::min(s.PL, s.PR)) {
    // not representable in double: the star region is a vacuum to the solver
    r.label("pstar-underflow-skipped");
    return r;
  }
  const double cc = cscale(s, sol);
  // sample just left and right of the contact: both must report p*, u*
  const double du = 1e-6 * cc;
  // the star region must be wide enough to sample inside it
  const LD leftedge = sol.shockL ? sol.SL : sol.STL;
  const LD rightedge = sol.shockR ? sol.SR : sol.STR;
  r.nontrivial = std::abs((double)sol.pstar - s.PL) > 1e-6 * s.PL &&
                 std::abs((double)sol.pstar - s.PR) > 1e-6 * s.PR;
  for (int side = 0; side < 2; ++side) {
    const double xi = (double)sol.ustar + (side ? du : -du);
    if (!(xi > leftedge + du && xi < rightedge - du)) {
      r.label("narrow-star-region");
      continue;
    }
    const Smp o = sample(S, s, xi);
    if (!std::isfinite(o.P) || !std::isfinite(o.u) || !std::isfinite(o.rho) ||
        o.rho < 0. || o.P < 0.) {
      r.fail(fmt("non-physical star sample rho %g u %g P %g", o.rho, o.u, o.P));
      return r;
    }
    if (std::abs(o.P - (double)sol.pstar) > 2e-8 * (double)sol.pstar + 1e-300) {
      r.fail(fmt("p* %.17g vs reference %.17Lg (rel %.3g)", o.P, sol.pstar,
                 std::abs(o.P / (double)sol.pstar - 1.)));
      return r;
    }
    if (std::abs(o.u - (double)sol.ustar) > 2e-8 * (double)(sol.aL + sol.aR)) {
      r.fail(fmt("u* %.17g vs reference %.17Lg", o.u, sol.ustar));
      return r;
    }
    // pressure equation residual at the returned p*, in long double:
    // f(p) = fL + fR + du; |f| <= |f'| * 2e-8 p*
    const LD p = o.P;
    const rref::State L{s.rhoL, s.uL, s.PL}, R{s.rhoR, s.uR, s.PR};
    const LD f = rref::fK(p, L, sol.aL, s.g) + rref::fK(p, R, sol.aR, s.g) +
                 ((LD)s.uR - s.uL);
    const LD h = 1e-6L * p;
    const LD fp = (rref::fK(p + h, L, sol.aL, s.g) + rref::fK(p + h, R, sol.aR, s.g) -
                   rref::fK(p - h, L, sol.aL, s.g) - rref::fK(p - h, R, sol.aR, s.g)) /
                  (2.L * h);
    if (fabsl(f) > fabsl(fp) * 2e-8L * p + 1e-13L * cc) {
      r.fail(fmt("pressure equation residual %.3Lg exceeds f' * 2e-8 p* = %.3Lg",
                 f, fp * 2e-8L * p));
      return r;
    }
    // the density on either side of the contact
    const LD rref_ = side ? sol.rhostarR : sol.rhostarL;
    if (std::abs(o.rho - (double)rref_) > 1e-7 * (double)rref_) {
      r.fail(fmt("rho* (%s) %.17g vs reference %.17Lg", side ? "right" : "left",
                 o.rho, rref_));
      return r;
    }
  }
  return r;
}

// the sampled state at speed xi agrees with the reference at xi-eta or xi+eta
VResult o_sample(const VCase &c) {
  VResult r;
  const In s = unpack(c);
  ExactRiemannSolver S(s.g);
  const rref::Solution sol = refsol(s);
  classify(sol, r);
  const double cc = cscale(s, sol);
  const double xi = c.d("xi");
  const Smp o = sample(S, s, xi);
  if (!std::isfinite(o.P) || !std::isfinite(o.u) || !std::isfinite(o.rho) ||
      o.rho < 0. || o.P < 0.) {
    r.fail(fmt("non-physical sample rho %g u %g P %g at xi %g", o.rho, o.u, o.P, xi));
    return r;
  }
  const double eta = 1e-7 * cc;
  rref::Region ra, rb;
  const rref::State a = rref::sample(sol, (LD)xi - eta, &ra);
  const rref::State b = rref::sample(sol, (LD)xi + eta, &rb);
  const double dist = (double)rref::wave_distance(sol, xi);
  if (dist < 1e-6 * cc)
    r.label("near-wave");
  if (ra == rref::R_LFAN || ra == rref::R_RFAN)
    r.label("in-fan");
  if (ra == rref::R_LSTAR || ra == rref::R_RSTAR)
    r.label("in-star");
  r.nontrivial = (dist < 1e-6 * cc) || ra == rref::R_LFAN || ra == rref::R_RFAN ||
                 ((ra == rref::R_LSTAR || ra == rref::R_RSTAR) &&
                  std::abs((double)sol.pstar - s.PL) > 1e-6 * s.PL);
  const double tol = 5e-6;
  const std::string ma = match(s, o, a, cc, tol);
  if (ma.empty())
    return r;
  const std::string mb = match(s, o, b, cc, tol);
  if (mb.empty())
    return r;
  // inside a steep fan the two reference samples themselves differ by more
  // than the tolerance: the solution is monotone there, so a sample between
  // them (component-wise, with the same tolerance) is correct
  // (also across a fan head/tail or vacuum front, where the solution is continuous)
  {
    const double ex = 2. * s.g / (s.g - 1.);
    auto between = [&](double x, LD p, LD q, double rel, double abs_) {
      const double lo = (double)fminl(p, q), hi = (double)fmaxl(p, q);
      return x >= lo - rel * std::abs(lo) - abs_ && x <= hi + rel * std::abs(hi) + abs_;
    };
    if (between(o.rho, a.rho, b.rho, tol * (1. + ex), 1e-12 * std::max(s.rhoL, s.rhoR)) &&
        between(o.P, a.p, b.p, tol * (1. + ex), 1e-12 * std::max(s.PL, s.PR)) &&
        between(o.u, a.u, b.u, 0., tol * cc)) {
      r.label("steep-fan-between");
      return r;
    }
  }
  r.fail(fmt("sample at xi=%.17g matches neither side: [xi-eta] %s ; [xi+eta] %s",
             xi, ma.c_str(), mb.c_str()));
  return r;
}

// relations that the solver's own samples must satisfy (no reference values
// except for knowing which wave family xi belongs to)
VResult o_relations(const VCase &c) {
  VResult r;
  const In s = unpack(c);
  ExactRiemannSolver S(s.g);
  const rref::Solution sol = refsol(s);
  classify(sol, r);
  const double cc = cscale(s, sol);
  const double xi = c.d("xi");
  const double dist = (double)rref::wave_distance(sol, xi);
  if (dist < 1e-5 * cc) {
    r.label("near-wave-skipped");
    return r;
  }
  rref::Region reg;
  rref::sample(sol, xi, &reg);
  const Smp o = sample(S, s, xi);
  const double g = s.g;
  const double ex = 2. * g / (g - 1.);
  // denormal densities/pressures have lost their precision: nothing to check
  if ((o.rho != 0. && o.rho < 1e-280 * std::max(s.rhoL, s.rhoR)) ||
      (o.P != 0. && o.P < 1e-280 * std::max(s.PL, s.PR))) {
    r.label("denormal-skipped");
    return r;
  }
  if (reg == rref::R_LFAN || reg == rref::R_RFAN) {
    r.label("in-fan");
    r.nontrivial = true;
    const bool left = reg == rref::R_LFAN;
    const double rhoK = left ? s.rhoL : s.rhoR, PK = left ? s.PL : s.PR,
                 uK = left ? s.uL : s.uR;
    const double aK = std::sqrt(g * PK / rhoK);
    if (!(o.rho > 0. && o.P > 0.)) {
      // deep inside a steep fan the density may underflow: fine
      if (o.rho == 0. && o.P == 0.)
        return r;
      r.fail("fan sample with non-positive density or pressure");
      return r;
    }
    // isentropic: P / rho^g constant
    const double lhs = std::log(o.P / PK), rhs = g * std::log(o.rho / rhoK);
    if (std::abs(lhs - rhs) > 1e-9 * (1. + std::abs(lhs))) {
      r.fail(fmt("fan sample not isentropic: ln(P/PK)=%.15g, g ln(rho/rhoK)=%.15g",
                 lhs, rhs));
      return r;
    }
    // generalised Riemann invariant u +- 2a/(g-1) and the characteristic
    // u -+ a = xi
    const double a = std::sqrt(g * o.P / o.rho);
    const double inv = left ? (o.u + 2. * a / (g - 1.)) : (o.u - 2. * a / (g - 1.));
    const double invK = left ? (uK + 2. * aK / (g - 1.)) : (uK - 2. * aK / (g - 1.));
    if (std::abs(inv - invK) > 1e-9 * ex * cc) {
      r.fail(fmt("Riemann invariant %.15g vs %.15g of the undisturbed state", inv, invK));
      return r;
    }
    const double ch = left ? (o.u - a) : (o.u + a);
    if (std::abs(ch - xi) > 1e-9 * ex * cc) {
      r.fail(fmt("characteristic speed %.15g != sampling speed %.15g inside a fan", ch, xi));
      return r;
    }
  } else if ((reg == rref::R_LSTAR && sol.shockL) ||
             (reg == rref::R_RSTAR && sol.shockR)) {
    r.label("behind-shock");
    r.nontrivial = true;
    // Rankine-Hugoniot between the undisturbed state K and the sampled star
    // state with the shock speed from mass conservation
    const bool left = reg == rref::R_LSTAR;
    const double rhoK = left ? s.rhoL : s.rhoR, PK = left ? s.PL : s.PR,
                 uK = left ? s.uL : s.uR;
    if (!(o.rho > rhoK * (1. + 1e-9))) {
      if (std::abs(o.P - PK) < 1e-6 * PK)
        return r; // degenerate shock
      r.fail(fmt("no compression behind a shock: rho %.15g vs %.15g", o.rho, rhoK));
      return r;
    }
    const double Ssh = (o.rho * o.u - rhoK * uK) / (o.rho - rhoK);
    const double m1 = rhoK * (uK - Ssh), m2 = o.rho * (o.u - Ssh);
    const double mom1 = m1 * (uK - Ssh) + PK, mom2 = m2 * (o.u - Ssh) + o.P;
    const double e1 = PK / ((g - 1.) * rhoK) + 0.5 * (uK - Ssh) * (uK - Ssh);
    const double e2 = o.P / ((g - 1.) * o.rho) + 0.5 * (o.u - Ssh) * (o.u - Ssh);
    const double en1 = m1 * (e1 + PK / rhoK), en2 = m2 * (e2 + o.P / o.rho);
    const double amp = o.rho / (o.rho - rhoK); // weak shocks amplify round-off
    const double tol = 1e-6 * (1. + amp * 1e-2);
    if (std::abs(mom1 - mom2) > tol * (std::abs(mom1) + std::abs(mom2)) ||
        std::abs(en1 - en2) > tol * (std::abs(en1) + std::abs(en2) + std::abs(m1) * cc * cc)) {
      r.fail(fmt("Rankine-Hugoniot violated: momentum %.12g vs %.12g, energy %.12g vs %.12g",
                 mom1, mom2, en1, en2));
      return r;
    }
    // entropy must not decrease through a shock
    if (o.P / std::pow(o.rho, g) < PK / std::pow(rhoK, g) * (1. - 1e-6)) {
      r.fail("entropy decreases through the shock");
      return r;
    }
  } else if (reg == rref::R_LSTAR || reg == rref::R_RSTAR) {
    r.label("behind-fan");
    r.nontrivial = true;
    const bool left = reg == rref::R_LSTAR;
    const double rhoK = left ? s.rhoL : s.rhoR, PK = left ? s.PL : s.PR;
    if (o.rho > 0. && o.P > 0.) {
      const double lhs = std::log(o.P / PK), rhs = g * std::log(o.rho / rhoK);
      if (std::abs(lhs - rhs) > 1e-7 * (1. + std::abs(lhs))) {
        r.fail(fmt("star state behind a fan not isentropic: %.15g vs %.15g", lhs, rhs));
        return r;
      }
    }
  } else if (reg == rref::R_LEFT || reg == rref::R_RIGHT) {
    r.label("undisturbed");
    const bool left = reg == rref::R_LEFT;
    const double rhoK = left ? s.rhoL : s.rhoR, PK = left ? s.PL : s.PR,
                 uK = left ? s.uL : s.uR;
    if (o.rho != rhoK || o.P != PK || o.u != uK)
      r.fail(fmt("undisturbed region not returned verbatim: (%g,%g,%g) vs (%g,%g,%g)",
                 o.rho, o.u, o.P, rhoK, uK, PK));
  } else {
    r.label("vacuum");
    if (o.rho != 0. || o.P != 0.)
      r.fail(fmt("vacuum region sampled as rho %g P %g", o.rho, o.P));
  }
  return r;
}

// continuity in xi: away from shocks and the contact the jump over 2 delta is
// O(delta); at a fan head/tail and at the vacuum front the solution is continuous
VResult o_continuity(const VCase &c) {
  VResult r;
  const In s = unpack(c);
  ExactRiemannSolver S(s.g);
  const rref::Solution sol = refsol(s);
  classify(sol, r);
  const double cc = cscale(s, sol);
  const double xi = c.d("xi");
  const double delta = 1e-8 * cc;
  // skip if a discontinuity (shock, contact) lies within 10 delta
  auto disc_near = [&](LD w) { return fabsl(w - (LD)xi) < 10. * delta + 3e-8 * cc; };
  if (!(sol.vacL || sol.vacR || sol.vacgen)) {
    if (disc_near(sol.ustar) || (sol.shockL && disc_near(sol.SL)) ||
        (sol.shockR && disc_near(sol.SR))) {
      r.label("discontinuity-skipped");
      return r;
    }
  }
  const Smp a = sample(S, s, xi - delta), b = sample(S, s, xi + delta);
  const double dist = (double)rref::wave_distance(sol, xi);
  r.nontrivial = dist < 1e-6 * cc;
  if (r.nontrivial)
    r.label("across-continuous-wave");
  // slope bound inside a fan: d ln rho / d xi = 2/((g+1) a_local) ... use the
  // reference values at both ends instead of an analytic bound
  rref::State ra = rref::sample(sol, (LD)xi - delta), rb = rref::sample(sol, (LD)xi + delta);
  const double ex = 2. * s.g / (s.g - 1.);
  const double rs = std::max(s.rhoL, s.rhoR), ps = std::max(s.PL, s.PR);
  const double allow_r = std::abs((double)(ra.rho - rb.rho)) * 1.5 +
                         3e-7 * (1. + ex) * std::max(a.rho, b.rho) + 1e-12 * rs;
  const double allow_p = std::abs((double)(ra.p - rb.p)) * 1.5 +
                         3e-7 * (1. + ex) * std::max(a.P, b.P) + 1e-12 * ps;
  const double allow_u = std::abs((double)(ra.u - rb.u)) * 1.5 + 3e-7 * cc;
  if (std::abs(a.rho - b.rho) > allow_r)
    r.fail(fmt("density jumps %.15g -> %.15g across xi=%.17g (allowed %.3g)", a.rho,
               b.rho, xi, allow_r));
  else if (std::abs(a.P - b.P) > allow_p)
    r.fail(fmt("pressure jumps %.15g -> %.15g across xi=%.17g (allowed %.3g)", a.P,
               b.P, xi, allow_p));
  else if (a.rho > 0. && b.rho > 0. && std::abs(a.u - b.u) > allow_u)
    r.fail(fmt("velocity jumps %.15g -> %.15g across xi=%.17g (allowed %.3g)", a.u,
               b.u, xi, allow_u));
  return r;
}

// ------------------------------------------------------------------ xi gens
double gen_xi(const VCase &c) {
  const In s = unpack(c);
  const rref::Solution sol = refsol(s);
  const double cc = cscale(s, sol);
  std::vector<double> waves;
  if (sol.vacL && sol.vacR) {
  } else if (sol.vacL || sol.vacR || sol.vacgen) {
    if (!sol.vacL) {
      waves.push_back((double)sol.SHL);
      waves.push_back((double)sol.STL);
    }
    if (!sol.vacR) {
      waves.push_back((double)sol.SHR);
      waves.push_back((double)sol.STR);
    }
  } else {
    waves.push_back((double)sol.ustar);
    if (sol.shockL)
      waves.push_back((double)sol.SL);
    else {
      waves.push_back((double)sol.SHL);
      waves.push_back((double)sol.STL);
    }
    if (sol.shockR)
      waves.push_back((double)sol.SR);
    else {
      waves.push_back((double)sol.SHR);
      waves.push_back((double)sol.STR);
    }
  }
  const int kind = vr::weighted({4, 5, 3});
  if (kind == 1 && !waves.empty()) {
    // within 1e-9 (relative to the speed scale) of a wave, both sides, incl. 0
    static const std::vector<double> off = {0.,    1e-9, -1e-9, 1e-12, -1e-12,
                                            1e-15, -1e-15, 3e-8, -3e-8};
    return vr::pick(waves) + vr::pick(off) * cc;
  }
  if (kind == 2 && waves.size() >= 2) {
    // strictly between two adjacent waves
    std::sort(waves.begin(), waves.end());
    const int k = (int)vr::irange(0, (int64_t)waves.size() - 2);
    return waves[k] + (waves[k + 1] - waves[k]) * vr::uni(0.001, 0.999);
  }
  double lo = -cc, hi = cc;
  if (!waves.empty()) {
    lo = *std::min_element(waves.begin(), waves.end()) - 0.5 * cc;
    hi = *std::max_element(waves.begin(), waves.end()) + 0.5 * cc;
  }
  return vr::coin(0.1) ? 0. : vr::uni(lo, hi);
}

VCase gen_with_xi(int mode) {
  VCase c = gen_states(mode);
  c.D("xi", gen_xi(c));
  return c;
}
int gen_mode() { return vr::weighted({10, 4, 2}); }

} // namespace

int main(int argc, char **argv) {
  std::vector<VProp> props;
  const std::string dom =
      "gamma in {5/3,1.4,1.01,2,1.1,U(1.01,2)}; rho,P = 10^U(-3,3) per side; "
      "velocities Mach U(-5,5), or separation at the vacuum-generation limit "
      "times (1+{0,+-1e-12,+-1e-6,+-0.01,+-0.1,..}); vacuum on one side; "
      "sampling speed: 42% within {0,+-1e-15,+-1e-12,+-1e-9,+-3e-8} c of a wave "
      "of the reference solution (heads, tails, shocks, contact, vacuum fronts), "
      "25% strictly between adjacent waves, rest uniform over the pattern.";
  props.push_back({"star_state", 60000, [] { return gen_states(vr::weighted({10, 3, 0})); },
                   o_star,
                   dom + " Non-trivial: p* differs from both pL and pR by >1e-6."});
  props.push_back({"sample_vs_reference", 120000, [] { return gen_with_xi(gen_mode()); },
                   o_sample,
                   dom + " Non-trivial: xi within 1e-6 c of a wave, inside a fan, "
                         "or in a star region with p* != pL.",
                   {{"near-wave", 0.2}, {"in-fan", 0.05}}});
  props.push_back({"wave_relations", 80000, [] { return gen_with_xi(gen_mode()); },
                   o_relations,
                   dom + " Isentropy + Riemann invariant + characteristic speed in "
                         "fans; Rankine-Hugoniot + entropy behind shocks; verbatim "
                         "states outside; exact zeros in vacuum."});
  props.push_back({"continuity_in_xi", 80000, [] { return gen_with_xi(gen_mode()); },
                   o_continuity,
                   dom + " Pairs xi -/+ 1e-8 c not straddling a shock/contact; "
                         "non-trivial: straddling a fan head/tail or vacuum front."});
  return vr::vmain(argc, argv, "C11", props);
}
