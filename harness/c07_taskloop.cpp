// C07 (layer L2) - hydro task graph: every task once, in order, conflict-free,
//                  finishes - for generated interleavings of the worker threads.
//
// rapidcheck harness.  A generated case = subgrid layout (1..3 per axis),
// periodicity flags, 2..4 logical threads, owning thread of every subgrid,
// 1..3 consecutive steps, number of scheduling points inside the "execution" of
// a task, and one schedule per step.
//
// REAL code: DensitySubGridCreator<HydroDensitySubGrid> (1 cell per subgrid),
// ThreadSafeVector<Task>, one TaskQueue per logical thread, make_hydro_tasks /
// set_dependencies / reset_hydro_tasks / steal_task (obtained by including
// TaskBasedRadiationHydrodynamicsSimulation.cpp), Task, TaskQueue, ThreadLock,
// AtomicValue.
// REPLICA (a copy - the known threat of this layer): the queue seeding and the
// ~40 line worker loop of the hydro step, see "REPLICA" below; the text follows
// TaskBasedRadiationHydrodynamicsSimulation.cpp line by line, execute_task is
// replaced by a recorder (begin event, scheduling points, end event).
//
// The logical threads are fibers (harness/common/c08_fiber.hpp) that switch
// only at the yield hook at the top of every AtomicValue operation (guard
// CMI_VERIF) and at the scheduling points inside the recorded execution: the
// interleaving is a pure function of the case, it shrinks and replays.
//
// Oracle (from the recorded events of every step, against a model of the scheme
// that is derived from layout + periodicity only, c07_model below):
//   * the task table is the one the scheme prescribes (types, subgrid, partner)
//   * every task executed exactly once
//   * end(parent) < begin(child) for every edge of the model AND for every edge
//     of the children lists
//   * two tasks that touch a common subgrid never overlap
//   * the step terminates within a yield budget (deterministic here)
//   * afterwards: all queues empty, number_of_tasks == 0, no lock held
#include "TaskBasedRadiationHydrodynamicsSimulation.cpp"

#include "DensityFunction.hpp"
#include "DensitySubGridCreator.hpp"
#include "HydroDensitySubGrid.hpp"
#include "Task.hpp"
#include "TaskQueue.hpp"
#include "ThreadLock.hpp"
#include "ThreadSafeVector.hpp"

#include "c08_fiber.hpp"
#include "verif_rc.hpp"

#include <array>
#include <csignal>
#include <fcntl.h>
#include <map>
#include <memory>
#include <omp.h>
#include <unistd.h>

using vr::VCase;
using vr::VProp;
using vr::VResult;
using vr::fmt;

namespace {

// ================================================================== crash net
// a broken lock / queue can corrupt memory before an invariant is evaluated: a
// fatal signal inside an oracle is reported as a failure of the current case
// (the heap may be destroyed by then: the case is rendered into static storage
// before the oracle starts and the handler uses only that and raw system calls)
char g_text[1 << 20];
size_t g_text_len = 0;
char g_prop[96];
unsigned long long g_hash = 0;
bool g_have_case = false, g_replay = false;
const char *g_replay_file = "";

void remember_case(const VCase &c) {
  const std::string t = c.to_text();
  g_text_len = std::min(t.size(), sizeof g_text);
  memcpy(g_text, t.data(), g_text_len);
  snprintf(g_prop, sizeof g_prop, "%s", c.prop.c_str());
  g_hash = c.hash();
  g_have_case = true;
}

void crash_handler(int sig) {
  static char buf[4096], fn[1024];
  for (int s2 : {SIGSEGV, SIGABRT, SIGBUS, SIGFPE})
    signal(s2, SIG_DFL);
  if (!g_have_case)
    raise(sig);
  static const char *what =
      "inside the task loop under this schedule (memory corrupted, e.g. by two "
      "holders of one queue lock or a queue that lost count)";
  if (g_replay) {
    const int n = snprintf(buf, sizeof buf, "REPLAY-FAIL %s: crash (signal %d) %s\n",
                           g_replay_file, sig, what);
    (void)!write(1, buf, (size_t)n);
    _exit(1);
  }
  const char *fd = getenv("VERIF_FAILDIR");
  snprintf(fn, sizeof fn, "%s/C07-%s-crash-%016llx.case", fd ? fd : ".", g_prop,
           g_hash);
  int f = open(fn, O_WRONLY | O_CREAT | O_TRUNC, 0644);
  if (f >= 0) {
    (void)!write(f, g_text, g_text_len);
    const int n = snprintf(buf, sizeof buf, "# crash (signal %d) %s (case not shrunk)\n",
                           sig, what);
    (void)!write(f, buf, (size_t)n);
    close(f);
  }
  int n = snprintf(buf, sizeof buf, "FAILCASE %s %s\n", g_prop, fn);
  (void)!write(1, buf, (size_t)n);
  if (const char *out = getenv("VERIF_OUT")) {
    n = snprintf(buf, sizeof buf,
                 "{\"property_id\":\"C07\",\"props\":{\"%s\":{\"evaluations\":1,"
                 "\"nontrivial\":0,\"distinct_nontrivial\":0,\"known_excluded\":0,"
                 "\"wall_s\":0,\"failed\":true,\"fail_msg\":\"crash (signal %d) %s "
                 "(case not shrunk; the evidence of this shard is lost)\","
                 "\"fail_file\":\"%s\",\"rule\":\"\",\"labels\":{},\"starved\":[],"
                 "\"samples\":[],\"distinct_hashes\":[]}}}\n",
                 g_prop, sig, what, fn);
    f = open(out, O_WRONLY | O_CREAT | O_TRUNC, 0644);
    if (f >= 0) {
      (void)!write(f, buf, (size_t)n);
      close(f);
    }
  }
  _exit(1);
}

void install_crash_net() {
  static char altstack[1 << 16];
  stack_t ss;
  ss.ss_sp = altstack;
  ss.ss_size = sizeof altstack;
  ss.ss_flags = 0;
  sigaltstack(&ss, nullptr);
  struct sigaction sa;
  memset(&sa, 0, sizeof sa);
  sa.sa_handler = crash_handler;
  sa.sa_flags = SA_ONSTACK | SA_NODEFER;
  sigemptyset(&sa.sa_mask);
  for (int s : {SIGSEGV, SIGABRT, SIGBUS, SIGFPE})
    sigaction(s, &sa, nullptr);
}

// ============================================================ model (c07_model)
// Written from the scheme, from layout + periodicity only (own index
// arithmetic, no call into the grid):
//   per subgrid s:   gradient sweeps touching s  ->  slope limiter(s)
//                    -> predict(s) -> flux sweeps touching s
//                    -> update conserved(s) -> update primitives(s)
//   a face between two subgrids (interior, or periodic wrap - also when the
//   neighbour is the subgrid itself or when both faces lead to the same
//   neighbour) is ONE pair task per sweep kind, stored with the subgrid on the
//   negative side under the positive direction; a face on a non-periodic box
//   wall is a boundary task of its subgrid.
enum { PH_GRAD = 0, PH_LIMIT, PH_PREDICT, PH_FLUX, PH_CONS, PH_PRIM, PH_N };
enum { K_INTERNAL = 0, K_PAIR, K_BOUNDARY, K_SINGLE };

struct MTask {
  int phase, kind, s, dir, partner; // dir 0..5 = x+,x-,y+,y-,z+,z- ; -1 none
  std::vector<int> touches;         // distinct subgrids
  std::vector<int> parents;         // model task ids
  int real = -1;                    // matched real task index
};

struct Model {
  int N[3], nsub;
  bool per[3];
  std::vector<MTask> t;
  std::vector<std::vector<int>> touching; // subgrid -> model tasks

  int index(int ix, int iy, int iz) const { return (ix * N[1] + iy) * N[2] + iz; }
  // neighbour of s across face (axis, positive?) or -1 (box wall)
  int neighbour(int s, int axis, bool positive) const {
    int c[3] = {s / (N[1] * N[2]), (s / N[2]) % N[1], s % N[2]};
    c[axis] += positive ? 1 : -1;
    if (c[axis] < 0) {
      if (!per[axis])
        return -1;
      c[axis] = N[axis] - 1;
    } else if (c[axis] >= N[axis]) {
      if (!per[axis])
        return -1;
      c[axis] = 0;
    }
    return index(c[0], c[1], c[2]);
  }
  int add(int phase, int kind, int s, int dir, int partner) {
    MTask m;
    m.phase = phase;
    m.kind = kind;
    m.s = s;
    m.dir = dir;
    m.partner = partner;
    m.touches.push_back(s);
    if (partner >= 0 && partner != s)
      m.touches.push_back(partner);
    t.push_back(m);
    return (int)t.size() - 1;
  }
  void build(const int n[3], const bool p[3]) {
    for (int a = 0; a < 3; ++a) {
      N[a] = n[a];
      per[a] = p[a];
    }
    nsub = N[0] * N[1] * N[2];
    std::vector<int> limiter(nsub), predict(nsub), cons(nsub), prim(nsub);
    for (int s = 0; s < nsub; ++s) {
      for (int sweep = 0; sweep < 2; ++sweep) {
        const int ph = sweep ? PH_FLUX : PH_GRAD;
        add(ph, K_INTERNAL, s, -1, -1);
        for (int a = 0; a < 3; ++a) {
          const int np = neighbour(s, a, true), nn = neighbour(s, a, false);
          if (np >= 0)
            add(ph, K_PAIR, s, 2 * a, np);
          else
            add(ph, K_BOUNDARY, s, 2 * a, -1);
          if (nn < 0)
            add(ph, K_BOUNDARY, s, 2 * a + 1, -1);
        }
      }
      limiter[s] = add(PH_LIMIT, K_SINGLE, s, -1, -1);
      predict[s] = add(PH_PREDICT, K_SINGLE, s, -1, -1);
      cons[s] = add(PH_CONS, K_SINGLE, s, -1, -1);
      prim[s] = add(PH_PRIM, K_SINGLE, s, -1, -1);
    }
    touching.assign(nsub, {});
    for (size_t i = 0; i < t.size(); ++i)
      for (int s : t[i].touches)
        touching[s].push_back((int)i);
    for (int s = 0; s < nsub; ++s) {
      for (int i : touching[s]) {
        if (t[i].phase == PH_GRAD)
          t[limiter[s]].parents.push_back(i);
        if (t[i].phase == PH_FLUX) {
          t[i].parents.push_back(predict[s]);
          t[cons[s]].parents.push_back(i);
        }
      }
      t[predict[s]].parents.push_back(limiter[s]);
      t[prim[s]].parents.push_back(cons[s]);
    }
  }
};

const char *phase_name(int ph) {
  static const char *n[PH_N] = {"gradient sweep", "slope limiter", "predict",
                                "flux sweep", "update conserved",
                                "update primitives"};
  return n[ph];
}
const char *dir_name(int d) {
  static const char *n[6] = {"x+", "x-", "y+", "y-", "z+", "z-"};
  return d < 0 ? "" : n[d];
}

// ================================================================== the run
class ZeroDensityFunction : public DensityFunction {
public:
  virtual DensityValues operator()(const Cell &) { return DensityValues(); }
};

struct Stop {}; // a violation was recorded, the run is being torn down

enum { EV_BEGIN = 0, EV_END, EV_EXIT };
struct Ev {
  int kind, thread;
  size_t task;
};

struct Sim {
  // ---- the case
  int N[3], nsub, nth, nsteps;
  bool per[3];
  std::vector<int> owner0, pauses;
  std::vector<std::vector<int>> sched; // expanded choice vector per step

  // ---- real objects (names as in the simulation)
  std::unique_ptr<DensitySubGridCreator<HydroDensitySubGrid>> grid_creator;
  std::unique_ptr<ThreadSafeVector<Task>> tasks;
  std::vector<TaskQueue *> queues;
  int_fast32_t num_thread;
  size_t queue_capacity = 0;

  // ---- model and task table
  Model M;
  std::vector<size_t> table;       // real task indices (hydro task slots)
  std::vector<int> model_of;       // real task index -> model task
  std::vector<std::pair<size_t, size_t>> child_edges; // (parent, child), real

  // ---- per step observation (harness side only; never read by the replica)
  fbaton::Scheduler *S = nullptr;
  std::vector<Ev> events;
  std::vector<int> nbegin;
  std::vector<std::vector<size_t>> mirror; // per queue: tasks in insertion order
  std::vector<int> executed_by_thread;
  int cur_step = 0;
  bool failed = false, budget_hit = false;
  std::string msg;

  // ---- statistics over all steps
  uint64_t steals = 0, steal_skipped = 0, own_skipped = 0, pair_contended = 0,
           overlaps = 0, total_yields = 0, total_tasks = 0, early_exit = 0,
           empty_gets = 0;
  std::vector<uint64_t> executed_total;
  double max_tail_cost = 0.;

  ~Sim() {
    for (auto *q : queues)
      delete q;
  }

  void note(const std::string &m) {
    if (!failed) {
      failed = true;
      msg = m;
    }
  }
  // record a violation from inside a fiber and tear the run down
  [[noreturn]] void abort_run(const std::string &m) {
    note(m);
    S->aborted = true;
    throw fbaton::Abort();
  }

  std::string describe(size_t itask) const {
    if (itask >= model_of.size() || model_of[itask] < 0)
      return fmt("task %zu (not in the task table)", itask);
    const MTask &m = M.t[model_of[itask]];
    if (m.kind == K_PAIR)
      return fmt("task %zu (%s %s between subgrids %d and %d)", itask,
                 phase_name(m.phase), dir_name(m.dir), m.s, m.partner);
    if (m.kind == K_BOUNDARY)
      return fmt("task %zu (%s, box wall %s of subgrid %d)", itask,
                 phase_name(m.phase), dir_name(m.dir), m.s);
    return fmt("task %zu (%s%s of subgrid %d)", itask,
               m.kind == K_INTERNAL ? "internal " : "", phase_name(m.phase), m.s);
  }

  // ------------------------------------------------------------------ set-up
  bool setup(const VCase &c) {
    for (int a = 0; a < 3; ++a) {
      N[a] = (int)c.i("layout", a);
      per[a] = c.i("periodic", a) != 0;
    }
    nsub = N[0] * N[1] * N[2];
    nth = (int)c.i("threads");
    num_thread = nth;
    nsteps = (int)c.i("steps");
    for (auto o : c.iv("owner"))
      owner0.push_back((int)o);
    for (auto p : c.iv("pauses"))
      pauses.push_back((int)p);
    if (pauses.empty())
      pauses.push_back(1);
    for (int k = 0; k < nsteps; ++k)
      sched.push_back(expand(c.iv(fmt("sched%d", k)), nth));

    const Box<> box(CoordinateVector<>(0.), CoordinateVector<>(1.));
    grid_creator.reset(new DensitySubGridCreator<HydroDensitySubGrid>(
        box, CoordinateVector<int_fast32_t>(N[0], N[1], N[2]),
        CoordinateVector<int_fast32_t>(N[0], N[1], N[2]),
        CoordinateVector<bool>(per[0], per[1], per[2])));
    ZeroDensityFunction zero;
    grid_creator->initialize(zero);
    // any thread may own any subgrid (the creating thread initially, thieves
    // later)
    for (int s = 0; s < nsub; ++s)
      (*grid_creator->get_subgrid(s))
          .set_owning_thread(owner0[s % owner0.size()] % nth);

    tasks.reset(new ThreadSafeVector<Task>(18 * nsub + 4, "Tasks"));
    // [as in the simulation, TaskBasedRadiationHydrodynamicsSimulation.cpp
    //  "hydro task creation"]
    for (auto cellit = grid_creator->begin();
         cellit != grid_creator->original_end(); ++cellit) {
      make_hydro_tasks(*tasks, cellit.get_index(), *grid_creator);
    }
    for (auto cellit = grid_creator->begin();
         cellit != grid_creator->original_end(); ++cellit) {
      set_dependencies(cellit.get_index(), *grid_creator, *tasks);
    }

    // the task table, as the step loop enumerates it
    for (auto cellit = grid_creator->begin();
         cellit != grid_creator->original_end(); ++cellit)
      for (int_fast8_t i = 0; i < 18; ++i) {
        const size_t itask = (*cellit).get_hydro_task(i);
        if (itask != NO_TASK)
          table.push_back(itask);
      }
    // every task could sit in one queue; a queue that would overflow is
    // reported by the guard in the replica (assertions are off)
    queue_capacity = table.size() + 8;
    for (int t = 0; t < nth; ++t)
      queues.push_back(new TaskQueue(queue_capacity, fmt("Queue for Thread %d", t)));
    mirror.assign(nth, {});
    executed_total.assign(nth, 0);

    M.build(N, per);
    return match_table();
  }

  // the real task table against the model: same tasks, same partners
  bool match_table() {
    const size_t nslots = 18 * (size_t)nsub + 4;
    model_of.assign(nslots, -1);
    if (tasks->get_number_of_active_elements() != table.size()) {
      note(fmt("task table: %zu task slots are in use but the subgrids list %zu "
               "hydro tasks", tasks->get_number_of_active_elements(),
               table.size()));
      return false;
    }
    std::map<std::array<int, 4>, int> want; // (phase, kind, s, dir) -> model id
    for (size_t i = 0; i < M.t.size(); ++i)
      want[{M.t[i].phase, M.t[i].kind, M.t[i].s, M.t[i].dir}] = (int)i;
    for (size_t itask : table) {
      if (itask >= nslots) {
        note(fmt("task table: task index %zu outside the task vector", itask));
        return false;
      }
      const Task &task = (*tasks)[itask];
      int phase, kind;
      switch (task.get_type()) {
      case TASKTYPE_GRADIENTSWEEP_INTERNAL: phase = PH_GRAD; kind = K_INTERNAL; break;
      case TASKTYPE_GRADIENTSWEEP_EXTERNAL_NEIGHBOUR: phase = PH_GRAD; kind = K_PAIR; break;
      case TASKTYPE_GRADIENTSWEEP_EXTERNAL_BOUNDARY: phase = PH_GRAD; kind = K_BOUNDARY; break;
      case TASKTYPE_SLOPE_LIMITER: phase = PH_LIMIT; kind = K_SINGLE; break;
      case TASKTYPE_PREDICT_PRIMITIVES: phase = PH_PREDICT; kind = K_SINGLE; break;
      case TASKTYPE_FLUXSWEEP_INTERNAL: phase = PH_FLUX; kind = K_INTERNAL; break;
      case TASKTYPE_FLUXSWEEP_EXTERNAL_NEIGHBOUR: phase = PH_FLUX; kind = K_PAIR; break;
      case TASKTYPE_FLUXSWEEP_EXTERNAL_BOUNDARY: phase = PH_FLUX; kind = K_BOUNDARY; break;
      case TASKTYPE_UPDATE_CONSERVED: phase = PH_CONS; kind = K_SINGLE; break;
      case TASKTYPE_UPDATE_PRIMITIVES: phase = PH_PRIM; kind = K_SINGLE; break;
      default:
        note(fmt("task table: task %zu has type %d, not a hydro task", itask,
                 (int)task.get_type()));
        return false;
      }
      int dir = -1;
      if (kind == K_PAIR || kind == K_BOUNDARY) {
        switch (task.get_interaction_direction()) {
        case TRAVELDIRECTION_FACE_X_P: dir = 0; break;
        case TRAVELDIRECTION_FACE_X_N: dir = 1; break;
        case TRAVELDIRECTION_FACE_Y_P: dir = 2; break;
        case TRAVELDIRECTION_FACE_Y_N: dir = 3; break;
        case TRAVELDIRECTION_FACE_Z_P: dir = 4; break;
        case TRAVELDIRECTION_FACE_Z_N: dir = 5; break;
        default:
          note(fmt("task table: task %zu has interaction direction %d, not a "
                   "face", itask, (int)task.get_interaction_direction()));
          return false;
        }
      }
      const auto it = want.find({phase, kind, (int)task.get_subgrid(), dir});
      if (it == want.end() || M.t[it->second].real >= 0) {
        note(fmt("task table: task %zu (%s%s %s, subgrid %zu) %s", itask,
                 kind == K_PAIR ? "pair " : kind == K_BOUNDARY ? "box wall " : "",
                 phase_name(phase), dir_name(dir), (size_t)task.get_subgrid(),
                 it == want.end() ? "is not a task of the scheme for this "
                                    "layout and periodicity"
                                  : "exists twice"));
        return false;
      }
      MTask &m = M.t[it->second];
      if (kind == K_PAIR && (int)task.get_buffer() != m.partner) {
        note(fmt("task table: pair task %zu (%s %s of subgrid %d) has partner "
                 "%zu, the layout says %d", itask, phase_name(phase),
                 dir_name(dir), m.s, (size_t)task.get_buffer(), m.partner));
        return false;
      }
      m.real = (int)itask;
      model_of[itask] = it->second;
    }
    for (auto &m : M.t)
      if (m.real < 0) {
        note(fmt("task table: the scheme needs a %s task (%s) for subgrid %d, "
                 "none was made", phase_name(m.phase), dir_name(m.dir), m.s));
        return false;
      }
    for (size_t itask : table) {
      const Task &task = (*tasks)[itask];
      for (uint_fast8_t i = 0; i < task.get_number_of_children(); ++i)
        child_edges.emplace_back(itask, task.get_child(i));
    }
    return true;
  }

  // ------------------------------------------------------- schedule expansion
  // quadruples (kind, a, b, len): 0 = thread a runs len scheduling points,
  // 1 = a and b alternate, 2 = all threads in turn, 3 = three single choices
  // a, b, len.  After the vector is used up the scheduler continues round-robin
  // at every scheduling point.
  static std::vector<int> expand(const std::vector<int64_t> &q, int nth) {
    std::vector<int> v;
    for (size_t k = 0; k + 3 < q.size() && v.size() < 400000; k += 4) {
      const int kind = (int)q[k], a = (int)q[k + 1], b = (int)q[k + 2];
      const int64_t len = q[k + 3];
      if (kind == 0)
        v.insert(v.end(), (size_t)len, a);
      else if (kind == 1)
        for (int64_t i = 0; i < len; ++i)
          v.push_back(i % 2 ? b : a);
      else if (kind == 2)
        for (int64_t i = 0; i < len; ++i)
          v.push_back((int)((a + i) % nth));
      else {
        v.push_back(a);
        v.push_back(b);
        v.push_back((int)len);
      }
    }
    return v;
  }

  // ------------------------------------------- observation hooks (harness side)
  int queued_in(size_t itask) const {
    for (int q = 0; q < nth; ++q)
      for (size_t x : mirror[q])
        if (x == itask)
          return q;
    return -1;
  }
  bool is_pair(size_t itask) const {
    return itask < model_of.size() && model_of[itask] >= 0 &&
           M.t[model_of[itask]].touches.size() == 2;
  }
  // a get on queue q (own queue), or a steal (q = -1), returned itask
  void got(int thread, size_t itask, int q) {
    if (itask == NO_TASK) {
      queue_count_check(thread, q);
      if (q >= 0 && !mirror[q].empty()) {
        // every queued task was skipped: one of its locks was busy
        ++empty_gets;
        for (size_t x : mirror[q])
          if (is_pair(x))
            ++pair_contended;
      }
      return;
    }
    const int from = queued_in(itask);
    if (q < 0)
      ++steals;
    if (from >= 0) {
      auto &mq = mirror[from];
      const size_t pos = std::find(mq.begin(), mq.end(), itask) - mq.begin();
      if (pos + 1 < mq.size()) {
        // tasks that were added later are still there: they were skipped
        if (q < 0)
          ++steal_skipped;
        else
          ++own_skipped;
        for (size_t k = pos + 1; k < mq.size(); ++k)
          if (is_pair(mq[k]))
            ++pair_contended;
      }
      mq.erase(mq.begin() + pos);
    }
    queue_count_check(thread, q >= 0 ? q : from);
  }
  // At the instant a get returns, the caller has just released the queue lock
  // and no other thread has run since (the yield of an atomic operation comes
  // before the operation); whoever inserted or removed an entry before that
  // has returned to the loop as well.  The queue must therefore hold exactly
  // the tasks that were added and not yet handed out - otherwise a task is
  // lost or duplicated, and the next get may run off the end of the array.
  void queue_count_check(int thread, int q) {
    if (q >= 0 && queues[q]->size() != mirror[q].size())
      abort_run(fmt("step %d: queue %d reports %zu entries right after a get of "
                    "thread %d, but %zu tasks were added to it and not yet handed "
                    "out: a task was lost or duplicated inside the queue",
                    cur_step, q, queues[q]->size(),
                    thread, mirror[q].size()));
  }
  // guard: assertions are off, a queue that is already full would be written
  // out of bounds
  void before_add(int q, size_t itask) {
    if (queues[q]->size() >= queue_capacity)
      abort_run(fmt("step %d: queue %d already holds %zu tasks, more than the "
                    "%zu tasks that exist, when %s is released once more", cur_step,
                    q, queues[q]->size(), table.size(), describe(itask).c_str()));
  }
  void added(int q, size_t itask) { mirror[q].push_back(itask); }

  // "execute": begin event, scheduling points, end event (logical clock = index
  // into the event list)
  void execute(int thread, size_t itask) {
    if (itask >= nbegin.size() || model_of[itask] < 0)
      abort_run(fmt("step %d: thread %d was handed task %zu, which is not a hydro "
                    "task", cur_step, thread, itask));
    if (++nbegin[itask] > 1) {
      int first = -1;
      for (auto &e : events)
        if (e.kind == EV_BEGIN && e.task == itask)
          first = e.thread;
      abort_run(fmt("step %d: %s is executed a second time (first by thread %d, "
                    "now by thread %d): every task must run exactly once",
                    cur_step, describe(itask).c_str(), first, thread));
    }
    events.push_back({EV_BEGIN, thread, itask});
    const int np = pauses[(itask + (size_t)cur_step) % pauses.size()];
    for (int k = 0; k < np; ++k)
      fbaton::pause();
    events.push_back({EV_END, thread, itask});
    ++executed_by_thread[thread];
  }

  // ================================================================== REPLICA
  // of TaskBasedRadiationHydrodynamicsSimulation.cpp, "reset the hydro tasks
  // and add them to the queue" up to the end of the parallel region.  Lines
  // marked [harness] are observation only and contain no atomic operation, so
  // they do not add scheduling points; [replaced] marks the recorder that
  // stands for execute_task and the timing code.
  bool run_step(const int step) {
    cur_step = step;
    events.clear();
    nbegin.assign(18 * (size_t)nsub + 4, 0);
    executed_by_thread.assign(nth, 0);
    for (auto &mq : mirror)
      mq.clear();
    static fbaton::Scheduler scheduler;
    S = &scheduler;

    // reset the hydro tasks and add them to the queue
    AtomicValue< uint_fast32_t > number_of_tasks;
    for (auto cellit = grid_creator->begin();
         cellit != grid_creator->original_end(); ++cellit) {
      reset_hydro_tasks(*tasks, *cellit);
      for (int_fast8_t i = 0; i < 18; ++i) {
        const size_t itask = (*cellit).get_hydro_task(i);
        if (itask != NO_TASK &&
            (*tasks)[itask].get_number_of_unfinished_parents() == 0) {
          queues[(*cellit).get_owning_thread()]->add_task(itask);
          added((*cellit).get_owning_thread(), itask); // [harness]
          number_of_tasks.pre_increment();
        }
      }
    }

    // #pragma omp parallel default(shared)   -> one fiber per logical thread
    auto worker = [&](const int_fast32_t thread_id) {
      while (number_of_tasks.value() > 0) {
        size_t current_task = queues[thread_id]->get_task(*tasks);
        got(thread_id, current_task, thread_id); // [harness]
        if (current_task == NO_TASK) {
          current_task =
              steal_task(thread_id, num_thread, queues, *tasks, *grid_creator);
          got(thread_id, current_task, -1); // [harness]
        }
        if (current_task != NO_TASK) {
          (*tasks)[current_task].start(thread_id);

          // [replaced] CmiVerifTrace::record('B'), cpucycle_tick,
          // execute_task(...), (stop() follows), CmiVerifTrace::record('E')
          execute(thread_id, current_task);
          (*tasks)[current_task].stop();

          (*tasks)[current_task].unlock_dependency();
          const unsigned char numchild =
              (*tasks)[current_task].get_number_of_children();
          for (uint_fast8_t i = 0; i < numchild; ++i) {
            const size_t ichild = (*tasks)[current_task].get_child(i);
            if ((*tasks)[ichild].decrement_number_of_unfinished_parents() ==
                0) {
              const int q = (*grid_creator->get_subgrid( // [harness]
                                 (*tasks)[ichild].get_subgrid()))
                                .get_owning_thread();
              before_add(q, ichild); // [harness]
              queues[(*grid_creator->get_subgrid(
                          (*tasks)[ichild].get_subgrid()))
                         .get_owning_thread()]
                  ->add_task(ichild);
              added(q, ichild); // [harness]
              number_of_tasks.pre_increment();
            }
          }
          number_of_tasks.pre_decrement();
        }
      }
      events.push_back({EV_EXIT, (int)thread_id, 0}); // [harness]
    };
    // ============================================================ END REPLICA

    std::vector<std::function<void()>> programs;
    for (int t = 0; t < nth; ++t)
      programs.push_back([&, t]() {
        try {
          worker(t);
        } catch (const VerifAbort &e) {
          note(fmt("step %d: unexpected abort inside the task loop at %s:%d: %s",
                   step, e.file.c_str(), (int)e.line, e.msg.c_str()));
          S->aborted = true;
          throw fbaton::Abort();
        }
      });
    // normal cost (measured over 180 000 cases, VERIF_C07_DEBUG=1): at most 14
    // scheduling points per task and thread beyond the generated prefix,
    // including the idle spinning of the other threads; the budget is more
    // than 50 times that
    const uint64_t per_task =
        16 + 2 * (uint64_t)*std::max_element(pauses.begin(), pauses.end());
    const uint64_t budget = sched[step].size() +
                            50 * per_task * (uint64_t)nth * (table.size() + 4);
    const bool ok = scheduler.run(programs, sched[step], budget);
    total_yields += scheduler.yields;
    if (ok) {
      // (statistic for the budget: cost beyond the generated prefix)
      const double tail = scheduler.yields > sched[step].size()
                              ? (double)(scheduler.yields - sched[step].size())
                              : 0.;
      max_tail_cost = std::max(max_tail_cost,
                               tail / ((double)nth * (double)(table.size() + 4)));
    }
    total_tasks += table.size();
    if (scheduler.foreign_exception)
      note(fmt("step %d: harness error: foreign exception in a fiber", step));
    if (!ok && !failed) {
      budget_hit = true;
      note(diagnose_no_termination(step, budget));
    }
    for (int t = 0; t < nth; ++t)
      executed_total[t] += executed_by_thread[t];
    if (failed)
      return false;
    check_events(step);
    if (!failed)
      check_quiescent(step, number_of_tasks);
    return !failed;
  }

  // ---------------------------------------------------------------- invariants
  std::string diagnose_no_termination(int step, uint64_t budget) {
    size_t done = 0;
    for (size_t itask : table)
      done += nbegin[itask] > 0;
    std::string why;
    int listed = 0;
    // the tasks that are ready (or can never be locked) but never ran come first
    for (int pass = 0; pass < 2 && listed < 2; ++pass)
      for (size_t itask : table) {
        if (nbegin[itask] > 0 || listed >= 2)
          continue;
        const Task &task = (*tasks)[itask];
        // (the run is over: reading the counter no longer yields)
        const unsigned parents = task.get_number_of_unfinished_parents();
        const bool twice =
            task.verif_get_dependency(0) != nullptr &&
            task.verif_get_dependency(0) == task.verif_get_dependency(1);
        if ((pass == 0) != (parents == 0 || twice))
          continue;
        ++listed;
        why += fmt("; %s never ran: unfinished parents %u, %s%s",
                   describe(itask).c_str(), parents,
                   queued_in(itask) >= 0 ? "waiting in a queue" : "in no queue",
                   twice ? ", ITS TWO LOCKS ARE THE SAME OBJECT (it can never "
                           "be locked)" : "");
      }
    return fmt("step %d does not terminate: more than %llu scheduling points "
               "(> 50x the normal cost) for %zu tasks on %d threads, %zu tasks "
               "executed%s", step, (unsigned long long)budget, table.size(), nth,
               done, why.c_str());
  }

  void check_events(int step) {
    const size_t nslots = nbegin.size();
    std::vector<long> tb(nslots, -1), te(nslots, -1);
    for (size_t k = 0; k < events.size(); ++k) {
      const Ev &e = events[k];
      if (e.kind == EV_BEGIN)
        tb[e.task] = (long)k;
      else if (e.kind == EV_END)
        te[e.task] = (long)k;
    }
    // exactly once (a second execution stops the run at once, see execute())
    for (size_t itask : table)
      if (nbegin[itask] != 1 || tb[itask] < 0 || te[itask] < 0)
        return note(fmt("step %d: %s was executed %d times, every task must run "
                        "exactly once (the step ended with number_of_tasks == 0)",
                        step, describe(itask).c_str(), nbegin[itask]));
    // order: model edges
    for (auto &m : M.t)
      for (int p : m.parents) {
        const size_t c = (size_t)m.real, pp = (size_t)M.t[p].real;
        if (!(te[pp] < tb[c]))
          return note(fmt("step %d: %s started (by thread %d) before %s, which "
                          "it depends on, had finished (clock %ld vs %ld)", step,
                          describe(c).c_str(), events[tb[c]].thread,
                          describe(pp).c_str(), tb[c], te[pp]));
      }
    // order: edges of the children lists
    for (auto &e : child_edges)
      if (e.second >= nslots || tb[e.second] < 0 || !(te[e.first] < tb[e.second]))
        return note(fmt("step %d: %s started before its parent %s had finished",
                        step, describe(e.second).c_str(),
                        describe(e.first).c_str()));
    // exclusion: sweep over the events
    std::vector<long> busy(nsub, -1);
    int running = 0;
    for (size_t k = 0; k < events.size(); ++k) {
      const Ev &e = events[k];
      if (e.kind == EV_EXIT) {
        // (information only) a thread left the loop while tasks were pending
        size_t done = 0;
        for (size_t itask : table)
          done += te[itask] < (long)k;
        if (done != table.size())
          ++early_exit;
        continue;
      }
      const MTask &m = M.t[model_of[e.task]];
      if (e.kind == EV_BEGIN) {
        for (int s : m.touches) {
          if (busy[s] >= 0)
            return note(fmt("step %d: %s (thread %d) runs while %s (thread %d) "
                            "is still running: both touch subgrid %d", step,
                            describe(e.task).c_str(), e.thread,
                            describe((size_t)busy[s]).c_str(),
                            events[tb[busy[s]]].thread, s));
          busy[s] = (long)e.task;
        }
        if (running > 0)
          ++overlaps;
        ++running;
      } else {
        for (int s : m.touches)
          busy[s] = -1;
        --running;
      }
    }
  }

  uint64_t epi_count = 0;
  static Sim *&epi_sim() {
    static Sim *s = nullptr;
    return s;
  }
  static void epi_hook() {
    if (++epi_sim()->epi_count > 200000)
      throw Stop();
  }

  void check_quiescent(int step, AtomicValue<uint_fast32_t> &number_of_tasks) {
    // (main thread; a lock that was left behind would make a queue operation
    // spin for ever: bounded)
    epi_sim() = this;
    epi_count = 0;
    cmi_verif_yield_hook() = &epi_hook;
    try {
      if (number_of_tasks.value() != 0)
        note(fmt("step %d: all threads left the loop but number_of_tasks is %lu",
                 step, (unsigned long)number_of_tasks.value()));
      for (int q = 0; q < nth && !failed; ++q) {
        if (queues[q]->size() != 0)
          note(fmt("step %d: queue %d still holds %zu task(s) after the step",
                   step, q, queues[q]->size()));
        else if (queues[q]->get_task(*tasks) != NO_TASK)
          note(fmt("step %d: queue %d hands out a task after the step", step, q));
      }
      for (int s = 0; s < nsub && !failed; ++s) {
        ThreadLock *lock = (*grid_creator->get_subgrid(s)).get_dependency();
        if (!lock->try_lock())
          note(fmt("step %d: the lock of subgrid %d is still held after the step",
                   step, s));
        else
          lock->unlock();
      }
    } catch (const Stop &) {
      note(fmt("step %d: a queue lock is still held after the step (a queue "
               "operation on the quiescent system does not return)", step));
    }
    cmi_verif_yield_hook() = nullptr;
  }
};

// ================================================================== generator
struct GenOpt {
  int max_subgrids = 27;
  bool small_bias = true;
};

std::vector<int64_t> gen_layout(const GenOpt &o) {
  std::vector<int64_t> n(3);
  for (int a = 0; a < 3; ++a)
    n[a] = 1 + vr::weighted(o.small_bias ? std::vector<int>{5, 4, 2}
                                         : std::vector<int>{3, 4, 4});
  // shrink the largest axis until the layout fits
  while (n[0] * n[1] * n[2] > o.max_subgrids) {
    int a = 0;
    for (int b = 1; b < 3; ++b)
      if (n[b] > n[a])
        a = b;
    --n[a];
  }
  return n;
}

std::vector<int64_t> gen_schedule(int nth, int nsub) {
  std::vector<int64_t> q;
  auto seg = [&](int kind, int64_t a, int64_t b, int64_t len) {
    q.push_back(kind);
    q.push_back(a);
    q.push_back(b);
    q.push_back(len);
  };
  auto th = [&]() { return vr::irange(0, nth - 1); };
  auto other = [&](int64_t a) { return (a + vr::irange(1, nth - 1)) % nth; };
  static const std::vector<int64_t> coarse = {1,  2,  3,  5,   8,   13,  21,
                                              34, 55, 89, 144, 233, 377, 610};
  static const std::vector<int64_t> shortl = {1, 1, 1, 2, 2, 3, 4, 5, 6, 8};
  static const std::vector<int64_t> pairl = {2, 4, 4, 6, 8, 12, 20, 40, 100, 300};
  const int64_t big = 1 + nsub / 3; // larger layouts: longer stretches
  const int style = vr::weighted({4, 4, 3, 1, 2});
  switch (style) {
  case 0: { // coarse: threads run for a while, like real threads
    const int n = (int)vr::irange(1, 40);
    for (int k = 0; k < n; ++k) {
      const int w = vr::weighted({14, 3, 2, 1});
      const int64_t a = th();
      if (w == 0)
        seg(0, a, 0, vr::pick(coarse) * big);
      else if (w == 1)
        seg(1, a, other(a), vr::pick(pairl));
      else if (w == 2)
        seg(2, a, 0, vr::pick(pairl) * big);
      else
        seg(3, a, th(), th());
    }
    break;
  }
  case 1: { // fine grained: single choices and short runs
    const int n = (int)vr::irange(5, 160);
    for (int k = 0; k < n; ++k) {
      const int w = vr::weighted({10, 5, 5});
      const int64_t a = th();
      if (w == 0)
        seg(3, a, th(), th());
      else if (w == 1)
        seg(1, a, other(a), vr::pick(shortl) * 2);
      else
        seg(0, a, 0, vr::pick(shortl));
    }
    break;
  }
  case 2: { // lock step of two threads, shifted against each other by short runs
    const int n = (int)vr::irange(1, 30);
    for (int k = 0; k < n; ++k) {
      const int64_t a = th();
      if (vr::coin(0.6))
        seg(1, a, other(a), vr::pick(pairl) * big);
      else
        seg(0, a, 0, vr::pick(shortl));
    }
    break;
  }
  case 3: // round-robin at every scheduling point from the start
    break;
  default: { // one thread far ahead, the others parked, then coarse
    seg(0, th(), 0, vr::irange(100, 1500) * big);
    const int n = (int)vr::irange(0, 20);
    for (int k = 0; k < n; ++k)
      seg(0, th(), 0, vr::pick(coarse) * big);
    break;
  }
  }
  return q;
}

VCase gen_case(const GenOpt &o) {
  VCase c;
  const std::vector<int64_t> n = gen_layout(o);
  const int nsub = (int)(n[0] * n[1] * n[2]);
  c.I("layout", n);
  c.I("periodic", std::vector<int64_t>{vr::coin(0.5), vr::coin(0.5), vr::coin(0.5)});
  const int nth = (int)vr::irange(2, 4);
  c.I("threads", nth);
  // owning thread of each subgrid: all with one thread (the others must
  // steal), in turn, in blocks, arbitrary
  std::vector<int64_t> owner(nsub);
  const int omode = vr::weighted({3, 3, 2, 4});
  const int64_t o0 = vr::irange(0, nth - 1);
  for (int s = 0; s < nsub; ++s) {
    if (omode == 0)
      owner[s] = o0;
    else if (omode == 1)
      owner[s] = (o0 + s) % nth;
    else if (omode == 2)
      owner[s] = (o0 + (int64_t)s * nth / nsub) % nth;
    else
      owner[s] = vr::irange(0, nth - 1);
  }
  c.I("owner", owner);
  const int steps = 1 + vr::weighted({5, 3, 2});
  c.I("steps", steps);
  // scheduling points inside the execution of a task (cyclic by task index)
  std::vector<int64_t> pauses((size_t)vr::irange(1, 5));
  const int pmode = vr::weighted({3, 2, 1});
  for (auto &p : pauses)
    p = pmode == 0 ? vr::irange(0, 3) : pmode == 1 ? vr::irange(1, 2) : vr::irange(0, 12);
  c.I("pauses", pauses);
  for (int k = 0; k < steps; ++k)
    c.I(fmt("sched%d", k), gen_schedule(nth, nsub));
  return c;
}

// ===================================================================== oracle
double g_max_tail_cost = 0.; // printed with VERIF_C07_DEBUG=1
VResult o_taskloop(const VCase &c) {
  remember_case(c);
  VResult r;
  Sim sim;
  bool ok = sim.setup(c);
  for (int k = 0; ok && k < sim.nsteps; ++k)
    ok = sim.run_step(k);

  r.label(fmt("threads=%d", sim.nth));
  r.label(sim.nsub == 1 ? "subgrids=1" : sim.nsub == 2 ? "subgrids=2"
          : sim.nsub <= 8 ? "subgrids=3..8" : "subgrids=9..27");
  bool single = false, two = false;
  for (int a = 0; a < 3; ++a) {
    single |= sim.per[a] && sim.N[a] == 1;
    two |= sim.per[a] && sim.N[a] == 2;
  }
  if (single)
    r.label("periodic-single-subgrid-axis");
  if (two)
    r.label("periodic-two-subgrid-axis");
  if (!sim.per[0] && !sim.per[1] && !sim.per[2])
    r.label("non-periodic");
  if (sim.steals)
    r.label("steal-happened");
  if (sim.steal_skipped)
    r.label("steal-skipped-locked-task");
  if (sim.own_skipped)
    r.label("own-queue-skipped-locked-task");
  if (sim.empty_gets)
    r.label("queue-non-empty-but-every-task-locked");
  if (sim.pair_contended)
    r.label("pair-task-contended");
  if (sim.overlaps)
    r.label("tasks-of-different-subgrids-ran-concurrently");
  if (sim.nsteps >= 2)
    r.label("multi-step");
  if (sim.early_exit)
    r.label("a-thread-left-before-the-last-task-ended");
  if (sim.budget_hit)
    r.label("budget-hit");
  int executing = 0;
  for (auto x : sim.executed_total)
    executing += x > 0;
  r.label(fmt("threads-that-executed-tasks=%d", executing));
  if (sim.total_tasks) {
    const double ypt = (double)sim.total_yields / ((double)sim.total_tasks * sim.nth);
    r.label(ypt < 15 ? "cost<15/task/thread" : ypt < 30 ? "cost<30/task/thread"
            : ypt < 60 ? "cost<60/task/thread" : "cost>=60/task/thread");
  }
  g_max_tail_cost = std::max(g_max_tail_cost, sim.max_tail_cost);
  r.nontrivial = executing >= 2 && sim.nsub >= 2 && sim.steals > 0;
  if (sim.failed)
    r.fail(sim.msg);
  return r;
}

} // namespace

int main(int argc, char **argv) {
#ifdef _OPENMP
  omp_set_num_threads(1);
#endif
  install_crash_net();
  if (argc >= 3 && std::string(argv[1]) == "--replay") {
    g_replay = true;
    g_replay_file = argv[2];
  }
  std::vector<VProp> props;
  const std::string common =
      "case = layout (1..3 subgrids per axis) x 3 periodicity flags x 2..4 "
      "logical threads x owning thread per subgrid x 1..3 consecutive steps x "
      "scheduling points inside a task x one schedule per step (runs, lock "
      "step, single choices; round-robin afterwards); real grid, tasks, queues, "
      "locks, make_hydro_tasks/set_dependencies/reset_hydro_tasks/steal_task; "
      "replica of the worker loop on fibers. Non-trivial: >= 2 subgrids, >= 2 "
      "threads executed tasks, at least one steal. ";
  {
    GenOpt o;
    o.max_subgrids = 4;
    props.push_back({"interleavings_small", 300000, [o] { return gen_case(o); },
                     o_taskloop,
                     common + "This sub-check: at most 4 subgrids (many "
                              "schedules per task graph).",
                     {{"steal-happened", 0.5},
                      {"steal-skipped-locked-task", 0.1},
                      {"pair-task-contended", 0.1},
                      {"periodic-single-subgrid-axis", 0.2},
                      {"multi-step", 0.2}}});
  }
  {
    GenOpt o;
    o.max_subgrids = 27;
    o.small_bias = false;
    props.push_back({"interleavings_layouts", 60000, [o] { return gen_case(o); },
                     o_taskloop,
                     common + "This sub-check: all layouts up to 3x3x3.",
                     {{"steal-happened", 0.5},
                      {"periodic-single-subgrid-axis", 0.1},
                      {"periodic-two-subgrid-axis", 0.1}}});
  }
  const int rc = vr::vmain(argc, argv, "C07", props);
  if (getenv("VERIF_C07_DEBUG"))
    fprintf(stderr, "max scheduling points per task and thread beyond the "
                    "generated prefix: %.1f\n", g_max_tail_cost);
  return rc;
}
