// C20 - parameter files, units and snapshots round-trip without changing
// values.  rapidcheck harness.  Sub-checks:
//   yaml_roundtrip      generated key trees -> file text -> YAMLDictionary ->
//                       print -> parse -> print (expected flat map known by
//                       construction; printed text read by an independent
//                       strict reader)
//   used_values         typed getters (with and without defaults) -> used
//                       values dump -> ParameterFile again -> same typed values
//   unit_algebra        get_unit("a^i b^j ..") == product of its parts
//   unit_si_roundtrip   to_unit(to_SI(v)) == v, convert(a->b) o convert(b->a)
//   unit_cross          energy <-> frequency <-> wavelength mutual inverses
//   unit_table          the built-in table agrees with itself
//   writer_fields       DensityGridWriterFields: ions reported present ==
//                       bits of the flag == buffers the writer allocates
//   snapshot_roundtrip  task-based grid -> GadgetDensityGridWriter ->
//                       (Buffered)CMacIonizeSnapshotDensityFunction -> new grid
#include "c20_oracle.hpp"

#include "BufferedCMacIonizeSnapshotDensityFunction.hpp"
#include "CMacIonizeSnapshotDensityFunction.hpp"
#include "DensitySubGrid.hpp"
#include "DensitySubGridCreator.hpp"
#include "GadgetDensityGridWriter.hpp"
#include "ParameterFile.hpp"
#include "SimulationBox.hpp"
#include "verif_rc.hpp"

#include <unistd.h>

#include "c20_units_checks.hpp"
#include "c20_used_values.hpp"
#include "c20_snapshot.hpp"

using vr::VCase;
using vr::VProp;
using vr::VResult;
using vr::fmt;

namespace {

// =========================================================== (a1) YAML trees
// name alphabet: everything except ':' '#' and line ends; characters that sort
// below ':' (blank ! - . / digits) and above it (; letters ~ bytes >= 0x80)
// matter for the order of the flat keys
const std::string kNameChars =
    "abcxyzABZ019 _-.!/;~$%&'()*+,<=>?@[]^`{|}\"\\\x80\xc3\xa9\xff";

std::string gen_name(const std::vector<std::string> &pool) {
  auto rnd = [&](int lo, int hi) {
    std::string s;
    const int n = (int)vr::irange(lo, hi);
    for (int i = 0; i < n; ++i)
      s += kNameChars[vr::irange(0, (int64_t)kNameChars.size() - 1)];
    return s;
  };
  std::string s;
  switch (vr::weighted({4, 3, 3, 2, 2})) {
  case 0: { // one or two plain letters
    static const std::vector<std::string> simple = {
        "a", "b", "c", "ab", "abc", "k", "x", "A", "z", "a b", "grid", "Grid"};
    s = vr::pick(simple);
    break;
  }
  case 1: { // realistic
    static const std::vector<std::string> real = {
        "number of cells",  "SimulationBox",   "anchor", "sides",
        "DensityGrid",      "type",            "DensityFunction",
        "number of photons", "output folder",  "T_eff",  "random seed",
        "PhotonSourceDistribution", "position", "luminosity"};
    s = vr::pick(real);
    break;
  }
  case 2: // an existing name plus one character: shared prefixes
    if (!pool.empty()) {
      static const std::string ext = " -.0;Z~a!/";
      s = vr::pick(pool);
      s += ext[vr::irange(0, (int64_t)ext.size() - 1)];
      if (vr::coin(0.3))
        s += (char)('a' + vr::irange(0, 3));
      break;
    }
    // fall through
  case 3:
    s = rnd(1, 6);
    break;
  default:
    s = rnd(1, 3) + "\t" + rnd(1, 2); // interior tab
  }
  s = c20::trim(s);
  if (s.empty())
    s = "k";
  return s;
}

std::string gen_value() {
  auto num = [] {
    switch (vr::weighted({2, 2, 1, 1})) {
    case 0:
      return std::to_string(vr::irange(-1000, 100000));
    case 1:
      return fmt("%g", vr::logu(1e-12, 1e12) * (vr::coin(0.2) ? -1. : 1.));
    case 2:
      return fmt("%.17g", vr::uni(-10., 10.));
    default:
      return fmt("%d.", (int)vr::irange(0, 99));
    }
  };
  static const std::vector<std::string> units = {
      "m", "pc", "kpc", "cm", "s", "Myr", "K", "kg m^-3", "cm^-3", "km s^-1",
      "g cm^-3", "erg s^-1", "Hz", "eV", "Msol yr^-1"};
  switch (vr::weighted({3, 2, 2, 2, 2, 2, 2, 1})) {
  case 0:
    return num();
  case 1: {
    static const std::vector<std::string> b = {"true", "false", "yes", "no",
                                               "True", "OFF",   "y",   "n"};
    return vr::pick(b);
  }
  case 2:
    return num() + " " + vr::pick(units);
  case 3:
    return "[" + num() + ", " + num() + "," + num() + "]";
  case 4: {
    const std::string u = vr::pick(units);
    return "[" + num() + " " + u + ", " + num() + " " + u + ", " + num() + " " +
           u + "]";
  }
  case 5: {
    static const std::vector<std::string> s = {
        "/path/to/file.hdf5", "snapshot_", "Cartesian", "12:30:00",
        "a: b",               ": x",       "default value",
        "value not used",     "\"quoted: text\"", "C:\\dir\\file", "x:"};
    return vr::pick(s);
  }
  case 6: { // arbitrary printable text without '#'
    static const std::string ch =
        "abcXYZ019 :;,.-_+*/=()[]{}<>!?'\"\\|@$%^&~`\t\xe2\x82\xac";
    std::string s;
    const int n = (int)vr::irange(1, 12);
    for (int i = 0; i < n; ++i)
      s += ch[vr::irange(0, (int64_t)ch.size() - 1)];
    s = c20::trim(s);
    return s.empty() ? std::string("v") : s;
  }
  default:
    return "[true, false, yes]";
  }
}

struct TreeGen {
  std::vector<std::string> pool;
  std::string text;
  c20::Flat expected;
  int leaves = 0, budget = 30, maxdepth = 4;
  bool dup = false, tabs = false, comments = false;

  std::string blank(int lo, int hi) {
    std::string s;
    const int n = (int)vr::irange(lo, hi);
    for (int i = 0; i < n; ++i)
      s += vr::coin(0.15) ? '\t' : ' ';
    return s;
  }
  void noise() {
    if (!vr::coin(0.12))
      return;
    comments = true;
    switch (vr::weighted({1, 1, 1})) {
    case 0:
      text += "\n";
      break;
    case 1:
      text += blank(1, 6) + "\n";
      break;
    default:
      text += blank(0, 7) + "# comment: with a colon\n";
    }
  }
  std::string pick_name() {
    if (pool.size() < 5 || vr::coin(0.35)) {
      pool.push_back(gen_name(pool));
      return pool.back();
    }
    return vr::pick(pool);
  }
  void leaf(const std::string &indent, const std::string &path) {
    const std::string name = pick_name();
    const std::string value = gen_value();
    noise();
    text += indent + name + (vr::coin(0.1) ? blank(1, 2) : "") + ":" +
            (vr::coin(0.85) ? std::string(" ") : blank(0, 3)) + value;
    if (vr::coin(0.1))
      text += blank(1, 3);
    if (vr::coin(0.1)) {
      text += " # trailing: comment";
      comments = true;
    }
    text += "\n";
    const std::string key = path + name;
    if (expected.count(key))
      dup = true;
    expected[key] = value;
    ++leaves;
  }
  // emit a group with at least one leaf somewhere below it
  void group(const std::string &indent, const std::string &path, int depth,
             int forced_chain) {
    const std::string name = pick_name();
    noise();
    text += indent + name + ":";
    if (vr::coin(0.1))
      text += blank(1, 2);
    if (vr::coin(0.08)) {
      text += " # group comment";
      comments = true;
    }
    text += "\n";
    std::string cind = indent;
    switch (vr::weighted({6, 2, 1, 1})) {
    case 0:
      cind += "  ";
      break;
    case 1:
      cind += std::string((size_t)vr::irange(1, 5), ' ');
      break;
    case 2:
      cind += "\t";
      tabs = true;
      break;
    default:
      cind += " \t";
      tabs = true;
    }
    const std::string cpath = path + name + ":";
    if (forced_chain > 0 && depth < maxdepth) {
      // a chain of single groups: deep keys next to shallow ones
      group(cind, cpath, depth + 1, forced_chain - 1);
      if (vr::coin(0.3))
        leaf(cind, cpath);
      return;
    }
    const int n = (int)vr::irange(1, 4);
    bool any = false;
    for (int i = 0; i < n; ++i) {
      const bool can_group = depth < maxdepth && leaves < budget;
      if (can_group && vr::coin(0.35)) {
        group(cind, cpath, depth + 1,
              vr::coin(0.4) ? (int)vr::irange(1, 3) : 0);
        any = true;
      } else if (leaves < budget || !any) {
        leaf(cind, cpath);
        any = true;
      }
    }
  }
  // "top: g2: g3: ... leaf" with ngroups nested groups
  void chain(const std::string &top, int ngroups) {
    std::string indent, path;
    for (int i = 0; i < ngroups; ++i) {
      const std::string name = i == 0 ? top : pick_name();
      noise();
      text += indent + name + ":\n";
      path += name + ":";
      indent += vr::coin(0.8) ? "  " : "   ";
    }
    leaf(indent, path);
    if (vr::coin(0.3))
      leaf(indent, path);
  }
  void build() {
    maxdepth = (int)vr::irange(1, 4);
    budget = (int)vr::irange(1, 30);
    if (vr::coin(0.3)) {
      // two neighbouring top-level groups, the second one nested deeper and
      // the first one at least two levels deep: the shape on which the
      // printer has to drop several group names at once
      const std::string A = pick_name();
      const int d1 = (int)vr::irange(2, 3);
      chain(A, d1);
      chain(A + (vr::coin(0.5) ? "~" : ";"), (int)vr::irange(d1 + 1, 4));
    }
    const int ntop = (int)vr::irange(1, 6);
    for (int i = 0; i < ntop || leaves == 0; ++i) {
      if (vr::coin(0.3) || leaves >= budget)
        leaf("", "");
      else
        group("", "", 1, vr::coin(0.5) ? (int)vr::irange(1, 3) : 0);
    }
    if (vr::coin(0.1) && !text.empty() && text.back() == '\n')
      text.pop_back(); // no newline at the end of the file
  }
};

std::string pack_flat(const c20::Flat &m) {
  std::string s;
  for (auto &kv : m)
    s += kv.first + "\x1f" + kv.second + "\x1e";
  return s;
}
c20::Flat unpack_flat(const std::string &s) {
  c20::Flat m;
  size_t pos = 0;
  while (pos < s.size()) {
    const size_t e = s.find('\x1e', pos);
    const std::string rec = s.substr(pos, e - pos);
    const size_t u = rec.find('\x1f');
    m[rec.substr(0, u)] = rec.substr(u + 1);
    pos = e + 1;
  }
  return m;
}

VCase gen_yaml() {
  TreeGen g;
  g.build();
  VCase c;
  c.S("file", g.text);
  c.S("expected", pack_flat(g.expected));
  c.I("flags", std::vector<int64_t>{g.dup, g.tabs, g.comments});
  return c;
}

VResult o_yaml(const VCase &c) {
  VResult r;
  const c20::Flat expected = unpack_flat(c.s("expected"));
  c20::YamlInfo info;
  const std::string msg = c20::yaml_roundtrip(c.s("file"), &expected, info);
  const c20::KeyShape sh = c20::shape_of(expected);
  r.label(fmt("depth-%d", sh.maxdepth));
  r.label(fmt("nesting-change-%d", std::min(sh.maxjump, 3)));
  if (sh.stale_pop)
    r.label("printer-pop-shape");
  if (info.headers > info.min_headers)
    r.label("redundant-headers-printed");
  if (c.i("flags", 0))
    r.label("duplicate-key-in-file");
  if (c.i("flags", 1))
    r.label("tab-indentation");
  if (c.i("flags", 2))
    r.label("comments-or-blank-lines");
  bool leaf_and_group = false, below_colon = false;
  for (auto &kv : expected) {
    if (expected.lower_bound(kv.first + ":") != expected.end() &&
        expected.lower_bound(kv.first + ":")->first.compare(
            0, kv.first.size() + 1, kv.first + ":") == 0)
      leaf_and_group = true;
    for (unsigned char ch : kv.first)
      if (ch < ':' && ch != ' ')
        below_colon = true;
  }
  if (leaf_and_group)
    r.label("name-is-leaf-and-group");
  if (below_colon)
    r.label("name-char-sorts-below-colon");
  r.label(expected.size() >= 10 ? "keys-10+" : "keys-1..9");
  r.nontrivial = sh.maxjump >= 2;
  if (!msg.empty())
    r.fail(msg);
  return r;
}

} // namespace

int main(int argc, char **argv) {
  std::vector<VProp> props;
  props.push_back(
      {"yaml_roundtrip", 20000, gen_yaml, o_yaml,
       "key trees of depth 1..4 with 1..30 leaves rendered as file text "
       "(names from a 50-character alphabet without ':' '#', shared prefixes, "
       "re-opened groups, duplicate keys, chains of single groups, arbitrary "
       "indentation widths incl. tabs, comments, blank lines); expected flat "
       "map known by construction; non-trivial = two neighbouring sorted keys "
       "whose nesting differs by >= 2 levels",
       {{"printer-pop-shape", 0.05}, {"nesting-change-3", 0.03}}});
  c20h::add_used_values_props(props);
  c20h::add_unit_props(props);
  c20h::add_snapshot_props(props);
  return vr::vmain(argc, argv, "C20", props);
}
