// C16 (Voronoi part) - every position maps to exactly one Voronoi cell; the
// legacy traversal VoronoiDensityGrid::interact conserves path.
//
// Sub-checks (generated input -> real VoronoiDensityGrid, "Old" and "New"
// construction -> independent oracle):
//   voronoi_locate  enumeration begin()->end(), volumes, get_cell_index ==
//                   brute-force nearest generator, unique containment in the
//                   cell geometry the grid reports (face planes), neighbour
//                   lists: form, mutuality, completeness along generated
//                   segments (cells that are consecutive on the segment by the
//                   closed-form oracle must list each other)
//   voronoi_ray     VoronoiDensityGrid::interact: the path deposited in cell i
//                   against the closed-form oracle (the set of ray parameters t
//                   where |p + t d - g_i|^2 is minimal is an interval: all
//                   conditions are linear in t after subtracting t^2), optical
//                   depth bookkeeping, absorbed/escaped decision, final
//                   position, returned cell
//
// VoronoiDensityGrid::integrate_optical_depth is not implemented in /repo
// (VoronoiDensityGrid.cpp:470-473 aborts with "not implemented"), so there is
// nothing to check for it.
//
// What the traversal really does (VoronoiDensityGrid.cpp:485-578), as far as the
// tolerances are concerned: the photon is moved _epsilon = 1e-12 |sides| along
// its direction ONCE at the start (and again, with a new get_index, only when
// the distance to the first candidate face is exactly 0); it is not moved past
// every face.  The distance to a face is computed from the face midpoint the
// grid construction reports, so the traversal is exact up to the accuracy of
// those midpoints (a property of the tessellation, C15) and rounding.
//
// Tolerances (all stated relative to the box diagonal D):
//   EPSW  = 1e-12 D   the documented epsilon push (value taken from the
//                     documentation of _epsilon, not from the object)
//   MU                a face plane reported by the grid may be displaced by up
//                     to MU from the exact bisector / wall.  New: 1e-10 D
//                     (measured < 4e-14 D).  Old: 1e-10 D + 10 x the documented
//                     snapping accuracy 2e-10 D^2 / |half the smallest generator
//                     separation| (measured up to 0.4 x the documented value)
//   tier A (self consistency, tight): final position == start + sum(deposits)
//           * direction up to (8 + 2 visited cells) EPSW + rounding; absorbed =>
//           sum(kappa_i deposit_i) == tau up to rounding; escaped => <= tau
//   tier B (oracle): len(inner_i) - slack <= deposit_i <= len(outer_i) + slack,
//           inner_i / outer_i = the parameter interval where cell i wins against
//           every other generator by more / less than MU (distance to the
//           bisector plane), clipped to the travelled interval.  Decisions that
//           flip within these margins are labelled ambiguous-* and not compared.
//
// Ill-conditioned generator sets (the four OPEN C15 findings: slivers, hangs
// near walls / on degenerate lattices, old-grid snapping tolerance) are kept
// out by construction: >= 1.5e-3 sides from every wall, pairwise distance >=
// 2e-3 D, lattices perturbed by >= 1e-3 spacings, no four generators within
// 1e-9 of an axis-aligned plane.
//
// Finding of this check (OPEN; matcher voronoi_interact_skips_zero_distance_face,
// witnesses build/prompts/C16V-replays/, proposed patch
// build/prompts/C16V-proposed-fix-zero-distance-face.diff): interact() accepts a
// face at distance exactly 0 as exit face only if it is the first candidate of
// the face list (VoronoiDensityGrid.cpp:527).  A photon that starts exactly on a
// face, or that has just passed through a Voronoi edge (tie between two exit
// faces), ignores the face it sits on, crosses the whole neighbouring cell while
// it is booked in the wrong cell (wrong opacity, wrong deposits) and can even
// leave the box through a wall the cell does not have; if the face is the first
// candidate and the photon moves (almost) parallel to it, the epsilon push does
// not move it off the face and the loop at :501-540 does not end.  The class
// (see zero_distance_prone) is generated on purpose: rays aimed at Voronoi
// edges, starts on faces, and generator pairs with an exactly representable
// bisector plane on which the photon is placed up to the last bit.
#include "DensityFunction.hpp"
#include "DensityValues.hpp"
#include "HomogeneousDensityFunction.hpp"
#include "Photon.hpp"
#include "VoronoiDensityGrid.hpp"
#include "VoronoiGeneratorDistribution.hpp"

#include "verif_rc.hpp"

#include <cfloat>
#include <memory>
#include <omp.h>
#include <poll.h>
#include <signal.h>
#include <sys/resource.h>
#include <sys/time.h>
#include <sys/wait.h>
#include <unistd.h>

using vr::VCase;
using vr::VProp;
using vr::VResult;
using vr::fmt;
typedef CoordinateVector<> Vec;
typedef long double LD;

namespace {

const double EPS = 0x1p-52;
// MU / D, see the header: accuracy of the face planes a construction reports
const double GEO_TOL_NEW = 1e-10; // measured: < 4e-14 (C15 models 1e-10)
// OldVoronoiCell documents that it treats a vertex as lying on a cutting plane
// when (distance to the plane) * |half separation| <= 2e-10 D^2, i.e. a
// positional accuracy of 2e-10 D^2 / |half separation|; like C15 the model
// allows 10x that (measured: up to 7.5e-9 D = 0.4 x the documented bound)
const double OLD_SNAP = 2e-10;
const double EPS_PUSH = 1e-12; // documented _epsilon / |sides|
const double AREA_MIN = 1e-6;  // "non-negligible" face: area > AREA_MIN V^(2/3)
const double SIGMA_H = 1.;
const double WALL_MARGIN = 1.5e-3; // generators: distance to the walls / side
const double SEP_MIN = 2e-3;       // generators: pairwise distance / D

// ------------------------------------------------------------- small algebra
struct V3 {
  LD x, y, z;
  LD operator[](int k) const { return k == 0 ? x : (k == 1 ? y : z); }
};
V3 operator+(V3 a, V3 b) { return {a.x + b.x, a.y + b.y, a.z + b.z}; }
V3 operator-(V3 a, V3 b) { return {a.x - b.x, a.y - b.y, a.z - b.z}; }
V3 operator*(LD s, V3 a) { return {s * a.x, s * a.y, s * a.z}; }
LD dot(V3 a, V3 b) { return a.x * b.x + a.y * b.y + a.z * b.z; }
V3 cross(V3 a, V3 b) {
  return {a.y * b.z - a.z * b.y, a.z * b.x - a.x * b.z, a.x * b.y - a.y * b.x};
}
LD norm(V3 a) { return sqrtl(dot(a, a)); }
V3 tov(const Vec &v) { return {v.x(), v.y(), v.z()}; }

uint64_t mix64(uint64_t x) {
  x += 0x9e3779b97f4a7c15ull;
  x = (x ^ (x >> 30)) * 0xbf58476d1ce4e5b9ull;
  x = (x ^ (x >> 27)) * 0x94d049bb133111ebull;
  return x ^ (x >> 31);
}
double h01(uint64_t seed, uint64_t id, uint64_t k) {
  return (double)(mix64(mix64(seed * 0x100000001b3ull + id) + k) >> 11) * 0x1p-53;
}

// --------------------------------------------------------------------- guard
// The oracle runs in a forked child with a CPU-time limit: an endless loop or a
// crash of the code under test becomes an ordinary failing case.  A wall-clock
// limit without CPU exhaustion (overloaded machine) is inconclusive, never a
// failure.
const int CPU_BUDGET_S = 10;      // normal cost of a case: < 0.3 s
const int WALL_LIMIT_MS = 300000; // backstop only

std::string ser(const VResult &r) {
  std::ostringstream o;
  o << (r.ok ? 1 : 0) << "\n" << (r.nontrivial ? 1 : 0) << "\n";
  o << VCase::esc(r.known) << "\n" << VCase::esc(r.msg) << "\n";
  o << r.labels.size() << "\n";
  for (auto &l : r.labels)
    o << VCase::esc(l) << "\n";
  o << "END\n";
  return o.str();
}
bool deser(const std::string &s, VResult &r) {
  std::istringstream in(s);
  std::string line, a, b, k, m, n;
  if (!std::getline(in, a) || !std::getline(in, b) || !std::getline(in, k) ||
      !std::getline(in, m) || !std::getline(in, n))
    return false;
  r.ok = a == "1";
  r.nontrivial = b == "1";
  r.known = VCase::unesc(k);
  r.msg = VCase::unesc(m);
  const size_t nl = strtoul(n.c_str(), nullptr, 10);
  r.labels.clear();
  for (size_t i = 0; i < nl; ++i) {
    if (!std::getline(in, line))
      return false;
    r.labels.push_back(VCase::unesc(line));
  }
  return std::getline(in, line) && line == "END";
}
int g_phase_fd = -1;
// the child says what it is about to call (goes into the message of a hang)
void phase(const std::string &what) {
  if (g_phase_fd < 0)
    return;
  const std::string s = "PHASE " + what + "\n";
  ssize_t w = write(g_phase_fd, s.data(), s.size());
  (void)w;
}

// 'classify' (optional) names the known-finding class of a call that did not
// return, from the case and the last announced phase (the child cannot do it)
std::function<VResult(const VCase &)>
guarded(std::function<VResult(const VCase &)> f,
        std::function<std::string(const VCase &, const std::string &)> classify = nullptr) {
  struct State {
    int fails = 0, hangs = 0;
  };
  std::shared_ptr<State> st(new State());
  auto run = [f, st, classify](const VCase &c) -> VResult {
    if (getenv("C16V_NOFORK"))
      return f(c);
    int fd[2];
    VResult r;
    if (pipe(fd) != 0) {
      r.fail("harness: pipe() failed");
      return r;
    }
    fflush(stdout);
    fflush(stderr);
    const int cpu_budget = st->hangs == 0 ? CPU_BUDGET_S : 2;
    const pid_t pid = fork();
    if (pid < 0) {
      close(fd[0]);
      close(fd[1]);
      r.fail("harness: fork() failed");
      return r;
    }
    if (pid == 0) {
      close(fd[0]);
      struct rlimit rl;
      rl.rlim_cur = cpu_budget;
      rl.rlim_max = cpu_budget + 2;
      setrlimit(RLIMIT_CPU, &rl);
      rl.rlim_cur = rl.rlim_max = 0;
      setrlimit(RLIMIT_CORE, &rl);
      signal(SIGXCPU, SIG_DFL);
      g_phase_fd = fd[1];
      VResult cr;
      try {
        cr = f(c);
      } catch (const VerifAbort &e) {
        cr.fail("unexpected abort at " + e.file + ":" + std::to_string(e.line) + ": " + e.msg);
      } catch (const std::exception &e) {
        cr.fail(std::string("unexpected exception: ") + e.what());
      }
      const std::string s = "RES\n" + ser(cr);
      size_t off = 0;
      while (off < s.size()) {
        const ssize_t w = write(fd[1], s.data() + off, s.size() - off);
        if (w <= 0)
          break;
        off += (size_t)w;
      }
      close(fd[1]);
      _exit(0);
    }
    close(fd[1]);
    std::string buf;
    char tmp[4096];
    bool wall = false;
    const auto t0 = std::chrono::steady_clock::now();
    for (;;) {
      const double el = std::chrono::duration<double>(std::chrono::steady_clock::now() - t0).count();
      if (el * 1000. > WALL_LIMIT_MS) {
        wall = true;
        break;
      }
      struct pollfd p;
      p.fd = fd[0];
      p.events = POLLIN;
      const int pr = poll(&p, 1, 1000);
      if (pr == 0)
        continue;
      if (pr < 0) {
        if (errno == EINTR)
          continue;
        break;
      }
      const ssize_t n = read(fd[0], tmp, sizeof tmp);
      if (n <= 0)
        break;
      buf.append(tmp, (size_t)n);
    }
    close(fd[0]);
    if (wall)
      kill(pid, SIGKILL);
    int status = 0;
    waitpid(pid, &status, 0);
    std::string ph, rest;
    {
      std::istringstream in(buf);
      std::string line;
      bool inres = false;
      while (std::getline(in, line)) {
        if (inres)
          rest += line + "\n";
        else if (line == "RES")
          inres = true;
        else if (line.compare(0, 6, "PHASE ") == 0)
          ph = line.substr(6);
      }
    }
    if (wall) { // overloaded machine: says nothing about the code
      r.label("inconclusive-wall-limit");
      r.nontrivial = false;
      return r;
    }
    if (WIFSIGNALED(status)) {
      const int sig = WTERMSIG(status);
      if (sig == SIGXCPU || sig == SIGKILL) {
        r.label("guard-cpu-limit");
        r.fail(fmt("no termination: %s used more than %d s of CPU time (normal cost of a "
                   "whole case: < 0.3 s) - endless loop",
                   ph.c_str(), cpu_budget));
        if (classify)
          r.known = classify(c, ph);
      } else {
        r.label("guard-crash");
        r.fail(fmt("%s: the code under test crashed with signal %d (%s)", ph.c_str(), sig,
                   strsignal(sig)));
      }
      return r;
    }
    if (!deser(rest, r)) {
      VResult e;
      e.fail("harness: child returned no result (exit status " +
             std::to_string(WEXITSTATUS(status)) + ")");
      return e;
    }
    return r;
  };
  return [run, st](const VCase &c) -> VResult {
    // shrink budget: after the first failure at most 300 further candidates, at
    // most 6 of them non-terminating
    if (st->fails > 300 || st->hangs > 6 || (st->fails > 0 && getenv("C16V_NOSHRINK"))) {
      VResult r;
      r.label("shrink-budget-exhausted");
      return r;
    }
    VResult r = run(c);
    if (st->fails > 0)
      ++st->fails;
    if (!r.ok && !r.known.empty() && vr::split_env("VERIF_KNOWN").count(r.known))
      return r;
    if (!r.ok) {
      if (st->fails == 0)
        st->fails = 1;
      for (auto &l : r.labels)
        if (l == "guard-cpu-limit")
          ++st->hangs;
    }
    return r;
  };
}

// -------------------------------------------------------------------- set-up
struct Setup {
  int type; // 0 "Old", 1 "New"
  double a[3], L[3];
  std::vector<Vec> pos;
  std::vector<V3> g;
  V3 lo, hi;
  double D, Vbox, scale;
  int cls;
  size_t n() const { return pos.size(); }
  Box<> box() const { return Box<>(Vec(a[0], a[1], a[2]), Vec(L[0], L[1], L[2])); }
};

Setup setup_of(const VCase &c) {
  Setup S;
  S.type = (int)c.i("type");
  S.cls = (int)c.i("cls");
  for (int k = 0; k < 3; ++k) {
    S.a[k] = c.d("anchor", k);
    S.L[k] = c.d("sides", k);
  }
  const auto &x = c.dv("pos");
  for (size_t i = 0; i + 2 < x.size(); i += 3) {
    S.pos.push_back(Vec(x[i], x[i + 1], x[i + 2]));
    S.g.push_back({x[i], x[i + 1], x[i + 2]});
  }
  S.lo = {S.a[0], S.a[1], S.a[2]};
  S.hi = {(LD)S.a[0] + S.L[0], (LD)S.a[1] + S.L[1], (LD)S.a[2] + S.L[2]};
  S.D = std::sqrt(S.L[0] * S.L[0] + S.L[1] * S.L[1] + S.L[2] * S.L[2]);
  S.Vbox = S.L[0] * S.L[1] * S.L[2];
  S.scale = 0.;
  for (int k = 0; k < 3; ++k)
    S.scale = std::max(S.scale, std::max(std::abs(S.a[k]), std::abs(S.a[k] + S.L[k])));
  return S;
}

// the preconditions of this harness (what "well conditioned" means); a case
// that violates them (only possible for a hand-edited replay file) is rejected
std::string malformed(const Setup &S) {
  if (S.n() < 2)
    return "fewer than 2 generators";
  if (S.type != 0 && S.type != 1)
    return "unknown grid type";
  for (int k = 0; k < 3; ++k)
    if (!(S.L[k] > 0.) || !std::isfinite(S.L[k]) || !std::isfinite(S.a[k]))
      return "box";
  for (size_t i = 0; i < S.n(); ++i)
    for (int k = 0; k < 3; ++k) {
      const double u = (S.pos[i][k] - S.a[k]) / S.L[k];
      if (!(u >= 1e-3 && u <= 1. - 1e-3))
        return "generator closer than 1e-3 sides to a wall";
    }
  for (size_t i = 0; i < S.n(); ++i)
    for (size_t j = i + 1; j < S.n(); ++j)
      if (!(norm(S.g[i] - S.g[j]) >= 1e-3 * S.D))
        return "generators closer than 1e-3 box diagonals";
  return "";
}

double mu_of(const Setup &S) {
  if (S.type == 1)
    return GEO_TOL_NEW * S.D;
  LD m = 1e4000L;
  for (size_t i = 0; i < S.n(); ++i)
    for (size_t j = i + 1; j < S.n(); ++j)
      m = std::min(m, norm(S.g[i] - S.g[j]));
  return GEO_TOL_NEW * S.D + 10. * OLD_SNAP * S.D * S.D / (0.5 * (double)m);
}

// matchers of the OPEN C15 findings (same predicates as harness/c15_voronoi.cpp,
// re-stated; used as precondition of the generator and as labels)
bool four_in_axis_plane(const Setup &S, double width) {
  for (int k = 0; k < 3; ++k) {
    std::vector<double> v;
    for (auto &x : S.pos)
      v.push_back((x[k] - S.a[k]) / S.L[k]);
    std::sort(v.begin(), v.end());
    for (size_t i = 0; i + 3 < v.size(); ++i)
      if (v[i + 3] - v[i] < width)
        return true;
  }
  return false;
}
bool flat_quadruple(const Setup &S, LD rel) {
  const size_t n = S.n();
  for (size_t a = 0; a < n; ++a) {
    std::vector<std::pair<LD, size_t>> nb;
    for (size_t j = 0; j < n; ++j)
      if (j != a)
        nb.push_back({dot(S.g[j] - S.g[a], S.g[j] - S.g[a]), j});
    const size_t kk = std::min<size_t>(16, nb.size());
    std::partial_sort(nb.begin(), nb.begin() + kk, nb.end());
    for (size_t x = 0; x < kk; ++x)
      for (size_t y = x + 1; y < kk; ++y) {
        const V3 u = S.g[nb[x].second] - S.g[a], v = S.g[nb[y].second] - S.g[a];
        const V3 w = cross(u, v);
        for (size_t z = y + 1; z < kk; ++z) {
          const V3 t = S.g[nb[z].second] - S.g[a];
          const LD e = std::max({norm(u), norm(v), norm(t)});
          if (fabsl(dot(w, t)) < rel * e * e * e)
            return true;
        }
      }
  }
  return false;
}

class ListDistribution : public VoronoiGeneratorDistribution {
  std::vector<Vec> _p;
  size_t _k;

public:
  ListDistribution(const std::vector<Vec> &p) : _p(p), _k(0) {}
  virtual generatornumber_t get_number_of_positions() const { return _p.size(); }
  virtual Vec get_position() { return _p[_k++]; }
};

// the construction recipe of test/testVoronoiDensityGrid.cpp
std::unique_ptr<VoronoiDensityGrid> build(const Setup &S, HomogeneousDensityFunction &df) {
  omp_set_num_threads(1);
  phase(std::string("construction of the ") + (S.type ? "New" : "Old") + " Voronoi grid");
  std::unique_ptr<VoronoiDensityGrid> grid(new VoronoiDensityGrid(
      new ListDistribution(S.pos), S.box(), S.type ? "New" : "Old", 0,
      CoordinateVector<bool>(false), false, false, nullptr));
  std::pair<cellsize_t, cellsize_t> block = std::make_pair(0, grid->get_number_of_cells());
  grid->initialize(block, df);
  return grid;
}

// ------------------------------------------------------------ closed forms
// f_i(t) - t^2 = A_i + B_i t with A_i = |p - g_i|^2, B_i = 2 d.(p - g_i)
struct Seg {
  LD t0, t1;
  int cell;
};

LD box_exit(const Setup &S, const V3 &p, const V3 &d, int *axis = nullptr) {
  LD t = 1e4000L;
  for (int k = 0; k < 3; ++k) {
    if (d[k] == 0.L)
      continue;
    const LD tk = ((d[k] > 0.L ? S.hi[k] : S.lo[k]) - p[k]) / d[k];
    if (tk < t) {
      t = tk;
      if (axis)
        *axis = k;
    }
  }
  return t;
}

int nearest(const Setup &S, const V3 &x, LD *gap = nullptr) {
  LD best = 1e4000L, second = 1e4000L;
  int bi = 0;
  for (size_t i = 0; i < S.n(); ++i) {
    const LD dd = dot(S.g[i] - x, S.g[i] - x);
    if (dd < best) {
      second = best;
      best = dd;
      bi = (int)i;
    } else if (dd < second)
      second = dd;
  }
  if (gap)
    *gap = second - best;
  return bi;
}

// lower envelope of the lines on [0, tmax]: which generator is nearest where
std::vector<Seg> envelope(const Setup &S, const V3 &p, const V3 &d, LD tmax) {
  const size_t n = S.n();
  std::vector<LD> A(n), B(n);
  for (size_t i = 0; i < n; ++i) {
    const V3 q = p - S.g[i];
    A[i] = dot(q, q);
    B[i] = 2.L * dot(d, q);
  }
  size_t cur = 0;
  for (size_t i = 1; i < n; ++i)
    if (A[i] < A[cur] || (A[i] == A[cur] && B[i] < B[cur]))
      cur = i;
  std::vector<Seg> segs;
  LD t = 0.L;
  for (size_t guard = 0; guard < 4 * n + 16; ++guard) {
    LD tn = tmax;
    size_t nx = cur;
    bool found = false;
    for (size_t j = 0; j < n; ++j) {
      if (j == cur || !(B[j] < B[cur]))
        continue;
      LD tc = (A[j] - A[cur]) / (B[cur] - B[j]);
      if (tc < t)
        tc = t;
      if (tc < tn || (found && tc == tn && B[j] < B[nx])) {
        tn = tc;
        nx = j;
        found = true;
      }
    }
    if (!found || tn >= tmax) {
      segs.push_back({t, tmax, (int)cur});
      break;
    }
    if (tn > t)
      segs.push_back({t, tn, (int)cur});
    t = tn;
    cur = nx;
  }
  return segs;
}

// parameter interval where cell i beats every other generator by 'margin'
// (signed distance to the bisector planes; margin > 0: thick cell, < 0: thin)
void cell_interval(const Setup &S, const V3 &p, const V3 &d, size_t i, LD margin, LD &lo,
                   LD &hi) {
  lo = -1e4000L;
  hi = 1e4000L;
  for (size_t j = 0; j < S.n(); ++j) {
    if (j == i)
      continue;
    const V3 gij = S.g[i] - S.g[j];
    // |x-g_j|^2 - |x-g_i|^2 = gij.(2x - g_i - g_j) >= -2 |gij| margin
    const LD A = dot(gij, 2.L * p - S.g[i] - S.g[j]) + 2.L * norm(gij) * margin;
    const LD B = 2.L * dot(gij, d); // A + B t >= 0
    if (B > 0.L)
      lo = std::max(lo, -A / B);
    else if (B < 0.L)
      hi = std::min(hi, -A / B);
    else if (A < 0.L) {
      lo = 1.L;
      hi = 0.L;
      return;
    }
    if (lo > hi)
      return;
  }
}
LD overlap(LD lo, LD hi, LD T0, LD T1) {
  const LD a = std::max(lo, T0), b = std::min(hi, T1);
  return b > a ? b - a : 0.L;
}

// --------------------------------------------------------------- opacities
struct Opac {
  double n, xH, xHe;
};
Opac opac_of(uint64_t seed, uint64_t id, bool transparent_ok, double lscale) {
  Opac o;
  o.n = std::pow(10., 2. * h01(seed, id, 0) - 0.5) / lscale;
  const double u = h01(seed, id, 1);
  bool transparent = false;
  if (transparent_ok && u < 0.2) {
    o.xH = 0.;
    transparent = true;
  } else if (u < 0.4)
    o.xH = 1.;
  else
    o.xH = 1e-3 + 0.999 * h01(seed, id, 2);
  o.xHe = (transparent || h01(seed, id, 3) < 0.5) ? 0. : h01(seed, id, 4);
  return o;
}
double kappa_of(const Opac &o, double sHe) { return o.n * (SIGMA_H * o.xH + sHe * o.xHe); }

// ------------------------------------------------------------------ generator
const char *CLS[] = {"gen-uniform", "gen-perturbed-lattice", "gen-clustered", "gen-near-walls",
                     "gen-few"};

double gauss() {
  const double u1 = vr::uni(1e-12, 1.), u2 = vr::uni();
  return std::sqrt(-2. * std::log(u1)) * std::cos(6.283185307179586 * u2);
}
double ulps(double x, int64_t k) {
  for (int64_t q = 0; q < std::llabs(k); ++q)
    x = std::nextafter(x, k > 0 ? 1e300 : -1e300);
  return x;
}

// box + generators; returns false if fewer than two generators survive
bool gen_setup(VCase &c) {
  double a[3], s[3];
  const int bm = vr::weighted({3, 2, 3, 3});
  double L = 1.;
  if (bm == 1)
    L = vr::dyadic(0.5, 4., 3);
  else if (bm == 2)
    L = vr::logu(1e-2, 1e2);
  else if (bm == 3)
    L = vr::coin(0.7) ? vr::logu(1e15, 1e19) : vr::logu(1e-6, 1e20);
  for (int k = 0; k < 3; ++k) {
    a[k] = bm == 0 ? 0. : (bm == 1 ? vr::dyadic(-2., 2., 3) : (vr::coin(0.3) ? -0.5 * L : L * vr::uni(-2., 2.)));
    s[k] = L;
  }
  const bool elong = vr::coin(0.45);
  if (elong)
    for (int k = 0; k < 3; ++k)
      s[k] = L * (bm <= 1 ? vr::dyadic(1. / 16, 1.0625, 4) : vr::logu(0.06, 1.));
  if (bm == 3 && vr::coin(0.3))
    for (int k = 0; k < 3; ++k)
      a[k] = -0.5 * s[k];
  const double D = std::sqrt(s[0] * s[0] + s[1] * s[1] + s[2] * s[2]);
  const int type = (int)vr::irange(0, 1);
  int cls = vr::weighted({5, 4, 2, 2, 2});
  int n = (int)vr::irange(2, 200);
  if (vr::coin(0.35))
    n = (int)vr::irange(2, 24);
  if (cls == 4)
    n = (int)vr::irange(2, 6);
  const double w = WALL_MARGIN;
  auto clampu = [w](double x) {
    x = std::abs(x);
    if (x > 1.)
      x = 2. - x;
    x = std::abs(x);
    return std::min(1. - w, std::max(w, x));
  };
  std::vector<std::vector<double>> p;
  switch (cls) {
  case 0:
  case 4:
    for (int i = 0; i < n; ++i)
      p.push_back({vr::uni(w, 1. - w), vr::uni(w, 1. - w), vr::uni(w, 1. - w)});
    break;
  case 1: {
    int m[3];
    for (int it = 0;; ++it) {
      for (int k = 0; k < 3; ++k)
        m[k] = (int)vr::irange(1, 6);
      if (m[0] * m[1] * m[2] >= 2 && m[0] * m[1] * m[2] <= 200)
        break;
      if (it > 20) {
        m[0] = 2;
        m[1] = 2;
        m[2] = 2;
        break;
      }
    }
    const double amp = vr::logu(1e-3, 0.45);
    const bool drop = vr::coin(0.3);
    const int stagger = vr::weighted({5, 1, 1});
    for (int ix = 0; ix < m[0]; ++ix)
      for (int iy = 0; iy < m[1]; ++iy)
        for (int iz = 0; iz < m[2]; ++iz) {
          if (drop && vr::coin(0.2) && !(ix + iy + iz == 0))
            continue;
          double q[3] = {(ix + 0.5) / m[0], (iy + 0.5) / m[1], (iz + 0.5) / m[2]};
          if (stagger == 2 && (iz & 1))
            q[0] += 0.25 / m[0];
          p.push_back({q[0], q[1], q[2]});
          if (stagger == 1)
            p.push_back({q[0] + 0.25 / m[0], q[1] + 0.25 / m[1], q[2] + 0.25 / m[2]});
        }
    // every coordinate of every generator is moved: at least amp/4, at most amp
    // spacings, so that no lattice plane survives
    for (auto &q : p)
      for (int k = 0; k < 3; ++k)
        q[k] = clampu(q[k] + amp / m[k] * vr::uni(0.25, 1.) * (vr::coin() ? 1. : -1.));
    break;
  }
  case 2: {
    const int nb = (int)vr::irange(1, 3);
    std::vector<std::vector<double>> ctr;
    std::vector<double> sig;
    for (int b = 0; b < nb; ++b) {
      ctr.push_back({vr::uni(0.1, 0.9), vr::uni(0.1, 0.9), vr::uni(0.1, 0.9)});
      sig.push_back(vr::logu(0.02, 0.2));
    }
    const int nbg = vr::coin(0.5) ? (int)vr::irange(0, n / 2) : 0;
    for (int i = 0; i < n; ++i) {
      if (i < nbg) {
        p.push_back({vr::uni(w, 1. - w), vr::uni(w, 1. - w), vr::uni(w, 1. - w)});
        continue;
      }
      const int b = (int)vr::irange(0, nb - 1);
      p.push_back({clampu(ctr[b][0] + sig[b] * gauss()), clampu(ctr[b][1] + sig[b] * gauss()),
                   clampu(ctr[b][2] + sig[b] * gauss())});
    }
    break;
  }
  default: {
    for (int i = 0; i < n; ++i) {
      std::vector<double> q = {vr::uni(w, 1. - w), vr::uni(w, 1. - w), vr::uni(w, 1. - w)};
      const int nw = (int)vr::irange(0, 3);
      for (int t = 0; t < nw; ++t) {
        const int k = (int)vr::irange(0, 2);
        const double dw = vr::logu(w, 2e-2);
        q[k] = vr::coin() ? dw : 1. - dw;
      }
      p.push_back(q);
    }
  }
  }
  // real coordinates; the separation and wall preconditions hold by construction
  // (a generator that comes too close to an earlier one is left out)
  std::vector<double> flat;
  for (auto &q : p) {
    double x[3];
    bool ok = true;
    for (int k = 0; k < 3; ++k) {
      x[k] = a[k] + s[k] * q[k];
      const double u = (x[k] - a[k]) / s[k];
      ok &= u >= 1.2e-3 && u <= 1. - 1.2e-3;
    }
    for (size_t i = 0; ok && i + 2 < flat.size(); i += 3) {
      const double dx = x[0] - flat[i], dy = x[1] - flat[i + 1], dz = x[2] - flat[i + 2];
      if (std::sqrt(dx * dx + dy * dy + dz * dz) < SEP_MIN * D)
        ok = false;
    }
    if (ok)
      flat.insert(flat.end(), x, x + 3);
  }
  // 30%: two generators that differ in one coordinate only, so that their
  // bisector plane is an axis-aligned plane x_k = x0 with an (almost) exactly
  // representable position: a ray can then be placed on that face up to the
  // last bit (class start-exactly-on-pair-face).  Other generators closer than
  // 2.5 half-separations to the midpoint are left out, so the midpoint lies
  // well inside the common face.
  std::vector<int64_t> pair = {-1, -1, -1};
  if (flat.size() >= 6 && vr::coin(0.3)) {
    const int k = (int)vr::irange(0, 2);
    const double hh = vr::uni(0.02, 0.08) * std::min(D, 2. * s[k]);
    double M[3];
    for (int q = 0; q < 3; ++q)
      M[q] = a[q] + s[q] * vr::uni(0.2, 0.8);
    if (vr::coin(0.5))
      M[k] = a[k] + s[k] * vr::dyadic(0.25, 0.75, 4);
    double gi[3] = {M[0], M[1], M[2]}, gj[3] = {M[0], M[1], M[2]};
    gi[k] = M[k] - hh;
    gj[k] = M[k] + hh;
    const double ui = (gi[k] - a[k]) / s[k], uj = (gj[k] - a[k]) / s[k];
    if (ui >= 2e-3 && uj <= 1. - 2e-3) {
      std::vector<double> kept;
      for (size_t i = 0; i + 2 < flat.size(); i += 3) {
        const double dx = flat[i] - M[0], dy = flat[i + 1] - M[1], dz = flat[i + 2] - M[2];
        if (std::sqrt(dx * dx + dy * dy + dz * dz) >= std::max(2.5 * hh, hh + SEP_MIN * D))
          kept.insert(kept.end(), flat.begin() + i, flat.begin() + i + 3);
      }
      pair = {(int64_t)(kept.size() / 3), (int64_t)(kept.size() / 3) + 1, k};
      kept.insert(kept.end(), gi, gi + 3);
      kept.insert(kept.end(), gj, gj + 3);
      flat = kept;
    }
  }
  c.I("type", type);
  c.I("cls", cls);
  c.I("pair", pair);
  c.D("anchor", {a[0], a[1], a[2]});
  c.D("sides", {s[0], s[1], s[2]});
  c.D("pos", flat);
  return flat.size() >= 6;
}

V3 unit_random() {
  for (;;) {
    const V3 v = {vr::uni(-1., 1.), vr::uni(-1., 1.), vr::uni(-1., 1.)};
    const LD n = norm(v);
    if (n > 0.05L && n <= 1.L)
      return (1.L / n) * v;
  }
}
V3 perpendicular(const V3 &nrm) { // a random unit vector perpendicular to nrm
  for (;;) {
    const V3 r = unit_random();
    const V3 u = cross(nrm, r);
    const LD n = norm(u);
    if (n > 0.1L * norm(nrm))
      return (1.L / n) * u;
  }
}
int nearest_other(const Setup &S, const V3 &x, int e1, int e2 = -1) {
  LD best = 1e4000L;
  int bi = -1;
  for (size_t i = 0; i < S.n(); ++i) {
    if ((int)i == e1 || (int)i == e2)
      continue;
    const LD dd = dot(S.g[i] - x, S.g[i] - x);
    if (dd < best) {
      best = dd;
      bi = (int)i;
    }
  }
  return bi;
}
// into the box, at least 'm' sides from every wall
void clamp_in(const Setup &S, double x[3], double m) {
  for (int k = 0; k < 3; ++k) {
    const double lo = S.a[k] + m * S.L[k], hi = S.a[k] + (1. - m) * S.L[k];
    if (!(x[k] >= lo))
      x[k] = lo;
    if (!(x[k] <= hi))
      x[k] = hi;
  }
}
// circumcentre of the triangle (point of the line equidistant to 3 generators)
bool circumcentre(const V3 &a, const V3 &b, const V3 &cc, V3 &out, V3 &nrm) {
  const V3 u = b - a, v = cc - a;
  nrm = cross(u, v);
  const LD n2 = dot(nrm, nrm);
  if (!(n2 > 1e-12L * dot(u, u) * dot(v, v)))
    return false;
  // a + ((|u|^2 v - |v|^2 u) x (u x v)) / (2 |u x v|^2)
  const V3 t = cross(dot(u, u) * v - dot(v, v) * u, nrm);
  out = a + (1.L / (2.L * n2)) * t;
  return true;
}

void gen_queries(VCase &c, const Setup &S, int nq) {
  std::vector<double> qs;
  std::string cls;
  const size_t np = S.n();
  for (int t = 0; t < nq; ++t) {
    double x[3];
    const int qc = vr::weighted({3, 2, 4, 2, 1, 2});
    switch (qc) {
    case 0:
      for (int k = 0; k < 3; ++k)
        x[k] = S.a[k] + S.L[k] * vr::uni();
      cls += "q-uniform;";
      break;
    case 1: {
      const size_t i = vr::irange(0, np - 1);
      const double r = vr::logu(1e-9, 1e-1);
      for (int k = 0; k < 3; ++k)
        x[k] = S.pos[i][k] + S.L[k] * r * vr::uni(-1., 1.);
      cls += "q-near-generator;";
      break;
    }
    case 2: { // on / next to the bisector plane of a generator and a near one
      const int i = (int)vr::irange(0, np - 1);
      const int j = vr::coin(0.7) ? nearest_other(S, S.g[i], i) : (int)vr::irange(0, np - 1);
      const double ww =
          0.5 + (vr::coin(0.3) ? 0. : vr::logu(1e-12, 1e-2) * (vr::coin() ? 1 : -1));
      const double r = vr::coin() ? 0. : vr::logu(1e-6, 1e-1);
      for (int k = 0; k < 3; ++k)
        x[k] = S.pos[i][k] * (1. - ww) + S.pos[j][k] * ww + S.L[k] * r * vr::uni(-1., 1.);
      cls += "q-near-bisector;";
      break;
    }
    case 3: { // a few ulp inside a wall
      for (int k = 0; k < 3; ++k)
        x[k] = S.a[k] + S.L[k] * vr::uni();
      const int k = (int)vr::irange(0, 2);
      if (vr::coin(0.7))
        x[k] = ulps(S.a[k] + S.L[k], -vr::irange(1, 4));
      else
        x[k] = ulps(S.a[k], vr::irange(0, 4));
      cls += "q-at-wall;";
      break;
    }
    case 4: {
      const size_t i = vr::irange(0, np - 1);
      for (int k = 0; k < 3; ++k)
        x[k] = S.pos[i][k];
      cls += "q-generator;";
      break;
    }
    default: { // next to a Voronoi edge (equidistant to three generators)
      const int i = (int)vr::irange(0, np - 1);
      const int j = nearest_other(S, S.g[i], i);
      const int k3 = np >= 3 ? nearest_other(S, 0.5L * (S.g[i] + S.g[j]), i, j) : -1;
      V3 cc, nrm;
      if (k3 >= 0 && circumcentre(S.g[i], S.g[j], S.g[k3], cc, nrm)) {
        const double r = vr::coin(0.3) ? 0. : vr::logu(1e-12, 1e-3);
        for (int k = 0; k < 3; ++k)
          x[k] = (double)cc[k] + S.L[k] * r * vr::uni(-1., 1.);
        cls += "q-near-edge;";
      } else {
        for (int k = 0; k < 3; ++k)
          x[k] = S.a[k] + S.L[k] * vr::uni();
        cls += "q-uniform;";
      }
    }
    }
    for (int k = 0; k < 3; ++k) { // into the half-open box
      if (!(x[k] >= S.a[k]))
        x[k] = S.a[k];
      if (!(x[k] < S.a[k] + S.L[k]))
        x[k] = std::nextafter(S.a[k] + S.L[k], -1e300);
    }
    qs.insert(qs.end(), x, x + 3);
  }
  c.D("queries", qs);
  c.S("query_cls", cls);
}

VCase gen_locate() {
  VCase c;
  RC_PRE(gen_setup(c));
  const Setup S = setup_of(c);
  RC_PRE(!four_in_axis_plane(S, 1e-9));
  gen_queries(c, S, 16);
  // segments for the completeness of the neighbour lists
  std::vector<double> sg;
  for (int t = 0; t < 4; ++t) {
    double x[6];
    if (vr::coin(0.5)) {
      const size_t i = vr::irange(0, S.n() - 1), j = vr::irange(0, S.n() - 1);
      for (int k = 0; k < 3; ++k) {
        x[k] = S.pos[i][k];
        x[3 + k] = S.pos[j][k];
      }
    } else
      for (int k = 0; k < 3; ++k) {
        x[k] = S.a[k] + S.L[k] * vr::uni(0.01, 0.99);
        x[3 + k] = S.a[k] + S.L[k] * vr::uni(0.01, 0.99);
      }
    sg.insert(sg.end(), x, x + 6);
  }
  c.D("segments", sg);
  return c;
}

// ---- rays
struct Ray {
  double p[3], d[3], tau;
};

void gen_rays(VCase &c, const Setup &S, int nray) {
  const uint64_t kseed = (uint64_t)c.i("kseed");
  const bool transparent = c.i("transparent") != 0;
  const double sHe = c.d("sHe");
  std::vector<double> kappa(S.n());
  for (size_t i = 0; i < S.n(); ++i)
    kappa[i] = kappa_of(opac_of(kseed, i, transparent, S.D), sHe);
  std::vector<double> P, Dv, T;
  std::string labels;
  const size_t np = S.n();
  for (int r = 0; r < nray; ++r) {
    // a pair of near generators shared by the "face" start and direction classes
    const int gi = (c.i("pair", 0) >= 0 && vr::coin(0.3)) ? (int)c.i("pair", 0)
                                                          : (int)vr::irange(0, np - 1);
    const int gj = nearest_other(S, S.g[gi], gi);
    const V3 gij = S.g[gj] - S.g[gi];
    const LD lij = norm(gij);
    const V3 nrm = (1.L / lij) * gij;
    const V3 mid = 0.5L * (S.g[gi] + S.g[gj]);
    double x[3];
    const int sc = vr::weighted({4, 2, 4, 2, 2});
    switch (sc) {
    case 0:
      for (int k = 0; k < 3; ++k)
        x[k] = S.a[k] + S.L[k] * vr::uni(1e-6, 1. - 1e-6);
      labels += "start-interior;";
      break;
    case 1: {
      const size_t i = vr::irange(0, np - 1);
      for (int k = 0; k < 3; ++k)
        x[k] = S.pos[i][k];
      labels += "start-generator;";
      break;
    }
    case 2: { // on / next to the face between gi and gj
      const V3 u = perpendicular(nrm);
      const LD rr = vr::coin(0.3) ? 0.L : (LD)vr::logu(1e-6, 0.3) * lij;
      LD off = 0.L;
      const int oc = vr::weighted({3, 2, 3});
      if (oc == 1)
        off = (LD)vr::logu(1e-16, 1e-11) * S.D * (vr::coin() ? 1 : -1); // inside the epsilon push
      else if (oc == 2)
        off = (LD)vr::logu(1e-11, 1e-5) * S.D * (vr::coin() ? 1 : -1);
      const V3 q = mid + rr * u + off * nrm;
      for (int k = 0; k < 3; ++k)
        x[k] = (double)q[k];
      labels += oc == 0 ? "start-on-face;" : (oc == 1 ? "start-within-eps-of-face;" : "start-near-face;");
      break;
    }
    case 3: {
      for (int k = 0; k < 3; ++k)
        x[k] = S.a[k] + S.L[k] * vr::uni(1e-6, 1. - 1e-6);
      const int k = (int)vr::irange(0, 2);
      const double dw = vr::logu(1e-9, 1e-3);
      x[k] = vr::coin() ? S.a[k] + dw * S.L[k] : S.a[k] + (1. - dw) * S.L[k];
      labels += "start-near-wall;";
      break;
    }
    default: { // on / next to a Voronoi edge
      const int k3 = np >= 3 ? nearest_other(S, mid, gi, gj) : -1;
      V3 cc, en;
      if (k3 >= 0 && circumcentre(S.g[gi], S.g[gj], S.g[k3], cc, en)) {
        const double rr = vr::coin(0.4) ? 0. : vr::logu(1e-12, 1e-4);
        for (int k = 0; k < 3; ++k)
          x[k] = (double)cc[k] + S.L[k] * rr * vr::uni(-1., 1.);
        labels += "start-near-edge;";
      } else {
        for (int k = 0; k < 3; ++k)
          x[k] = S.a[k] + S.L[k] * vr::uni(1e-6, 1. - 1e-6);
        labels += "start-interior;";
      }
    }
    }
    clamp_in(S, x, 1e-9);
    // direction
    V3 d = unit_random();
    std::string dl = "dir-generic;";
    int dc = vr::weighted({5, 2, 2, 2, 3, 3, 1});
    // the photon is put (after the epsilon push of the traversal) on the face of
    // the axis-aligned generator pair up to 0..2 ulp
    const bool exact = c.i("pair", 0) >= 0 && vr::coin(0.4);
    if (exact) {
      const int pi = (int)c.i("pair", 0), pj = (int)c.i("pair", 1), k = (int)c.i("pair", 2);
      const double hh = 0.5 * std::abs(S.pos[pj][k] - S.pos[pi][k]);
      double T[3];
      for (int q = 0; q < 3; ++q)
        T[q] = S.pos[pi][q] + (q == k ? 0. : std::min(0.3 * hh, 0.05 * S.L[q]) * vr::uni(-1., 1.));
      T[k] = ulps(0.5 * (S.pos[pi][k] + S.pos[pj][k]), vr::irange(-2, 2));
      // a direction with a clear component across the face
      for (;;) {
        d = unit_random();
        if (fabsl(d[k]) > 0.1L)
          break;
      }
      dl = "dir-generic;";
      dc = 0;
      const double dd0[3] = {(double)d.x, (double)d.y, (double)d.z};
      const double nn = std::sqrt(dd0[0] * dd0[0] + dd0[1] * dd0[1] + dd0[2] * dd0[2]);
      const double epsc = 1.e-12 * std::sqrt(S.L[0] * S.L[0] + S.L[1] * S.L[1] + S.L[2] * S.L[2]);
      for (int q = 0; q < 3; ++q)
        x[q] = T[q] - epsc * (dd0[q] / nn);
      // x_k + (epsilon * d_k) == T_k in double arithmetic
      {
        const double e = epsc * (dd0[k] / nn);
        for (int it = 0; it < 16 && x[k] + e != T[k]; ++it)
          x[k] = std::nextafter(x[k], x[k] + e < T[k] ? 1e300 : -1e300);
      }
      // replaces the start class chosen above
      labels = labels.substr(0, labels.rfind("start-"));
      labels += "start-exactly-on-pair-face;";
    }
    const V3 p = {x[0], x[1], x[2]};
    switch (dc) {
    case 1: {
      const int k = (int)vr::irange(0, 2);
      const LD sg = vr::coin() ? 1.L : -1.L;
      d = {k == 0 ? sg : 0.L, k == 1 ? sg : 0.L, k == 2 ? sg : 0.L};
      dl = "dir-axis;";
      break;
    }
    case 2: { // through a generator position
      const int j = (int)vr::irange(0, np - 1);
      const V3 w = S.g[j] - p;
      if (norm(w) > 1e-6L * S.D) {
        d = (1.L / norm(w)) * w;
        dl = "dir-through-generator;";
      }
      break;
    }
    case 3: // perpendicular to the face gi|gj
      d = (vr::coin() ? 1.L : -1.L) * nrm;
      dl = "dir-face-normal;";
      break;
    case 4: { // grazing: (almost) parallel to the face gi|gj
      const V3 u = perpendicular(nrm);
      const LD gam = vr::coin(0.25) ? 0.L : (LD)vr::logu(1e-9, 1e-2) * (vr::coin() ? 1 : -1);
      const V3 w = u + gam * nrm;
      d = (1.L / norm(w)) * w;
      dl = "dir-grazing;";
      break;
    }
    case 5: { // through a point of a Voronoi edge (two exit candidates tie)
      const int i = (int)vr::irange(0, np - 1);
      const int j = nearest_other(S, S.g[i], i);
      const int k3 = np >= 3 ? nearest_other(S, 0.5L * (S.g[i] + S.g[j]), i, j) : -1;
      V3 cc, en;
      if (k3 >= 0 && circumcentre(S.g[i], S.g[j], S.g[k3], cc, en)) {
        const LD along = vr::coin(0.4) ? 0.L : (LD)vr::uni(-0.3, 0.3) * norm(S.g[i] - S.g[j]) / norm(en);
        V3 target = cc + along * en;
        if (!vr::coin(0.4)) {
          const LD rr = (LD)vr::logu(1e-13, 1e-4) * S.D;
          target = target + rr * unit_random();
        }
        const V3 w = target - p;
        if (norm(w) > 1e-6L * S.D) {
          d = (1.L / norm(w)) * w;
          dl = "dir-through-edge;";
        }
      }
      break;
    }
    case 6: {
      const int k = (int)vr::irange(0, 2);
      V3 w = d;
      (k == 0 ? w.x : (k == 1 ? w.y : w.z)) = 0.L;
      if (norm(w) > 0.05L) {
        d = (1.L / norm(w)) * w;
        dl = "dir-planar;";
      }
      break;
    }
    default:
      break;
    }
    labels += dl;
    // to double, renormalised the way a caller would
    double dd[3] = {(double)d.x, (double)d.y, (double)d.z};
    {
      const double nn = std::sqrt(dd[0] * dd[0] + dd[1] * dd[1] + dd[2] * dd[2]);
      for (int k = 0; k < 3; ++k)
        dd[k] /= nn;
    }
    const V3 dq = {dd[0], dd[1], dd[2]};
    // target optical depth from the oracle's own tau(t)
    const LD texit = box_exit(S, p, dq);
    const std::vector<Seg> segs = envelope(S, p, dq, texit);
    LD tot = 0.L;
    std::vector<LD> cum;
    for (auto &sgm : segs) {
      tot += (LD)kappa[sgm.cell] * (sgm.t1 - sgm.t0);
      cum.push_back(tot);
    }
    LD tau = 0.L;
    const int tm = vr::weighted({5, 3, 4, 1, 2});
    std::string tl = "tau-inside;";
    if (tm == 0)
      tau = tot * (LD)vr::uni(0.02, 0.98);
    else if (tm == 1) {
      tau = (tot > 0.L ? tot : 1.L) * (LD)(1.02 + 2. * vr::uni());
      tl = "tau-beyond-exit;";
    } else if (tm == 2) {
      // (a crossing between two cells; the exit has its own class)
      const LD tc = cum.size() >= 2 ? cum[vr::irange(0, (int64_t)cum.size() - 2)] : 0.5L * tot;
      const int oc = vr::weighted({2, 3, 3});
      const LD rel = oc == 0 ? 0.L : (oc == 1 ? (LD)vr::logu(1e-16, 1e-11) : (LD)vr::logu(1e-11, 1e-5));
      tau = tc * (1.L + (vr::coin() ? rel : -rel));
      tl = "tau-at-crossing;";
    } else if (tm == 3) {
      tau = tot * (LD)vr::logu(1e-15, 1e-6);
      tl = "tau-tiny;";
    } else {
      tau = tot * (1.L + (LD)vr::logu(1e-14, 1e-3) * (vr::coin() ? 1 : -1));
      tl = "tau-near-exit;";
    }
    if (!(tau > 0.L)) {
      tau = tot > 0.L ? tot * 0.5L : 1e-3L;
      tl = "tau-inside;";
    }
    labels += tl;
    for (int k = 0; k < 3; ++k) {
      P.push_back(x[k]);
      Dv.push_back(dd[k]);
    }
    T.push_back((double)tau);
  }
  c.D("ray_p", P).D("ray_d", Dv).D("ray_tau", T).S("ray_cls", labels);
}

VCase gen_ray() {
  VCase c;
  RC_PRE(gen_setup(c));
  const Setup S = setup_of(c);
  RC_PRE(!four_in_axis_plane(S, 1e-9));
  c.I("kseed", vr::irange(1, 1000000));
  c.I("transparent", vr::coin(0.6));
  c.D("sHe", vr::coin(0.5) ? 0. : 0.37);
  gen_rays(c, S, 3);
  return c;
}

void label_classes(const std::string &s, VResult &r) {
  size_t p = 0;
  std::set<std::string> seen;
  while (p < s.size()) {
    const size_t q = s.find(';', p);
    if (q == std::string::npos)
      break;
    seen.insert(s.substr(p, q - p));
    p = q + 1;
  }
  for (auto &l : seen)
    r.label(l);
}

void common_labels(const Setup &S, VResult &r) {
  r.label(S.type ? "grid-New" : "grid-Old");
  r.label(CLS[std::min(std::max(S.cls, 0), 4)]);
  const size_t n = S.n();
  r.label(n < 8 ? "n<8" : (n <= 64 ? "n<=64" : "n>64"));
  const double smax = std::max({S.L[0], S.L[1], S.L[2]}), smin = std::min({S.L[0], S.L[1], S.L[2]});
  if (smax / smin > 4.)
    r.label("elongated-box");
  r.label(smax < 0.05 ? "box-sides<0.05" : (smax > 1e3 ? "box-sides>1e3" : "box-sides~1"));
  if (four_in_axis_plane(S, 1e-4))
    r.label("c15-oldtol-matcher-would-match");
  if (getenv("C16V_STATS") && S.type == 0 && four_in_axis_plane(S, 1e-4))
    fprintf(stderr, "C16VSTAT oldtol-matcher case\n");
}

// ------------------------------------------------------------------ oracles
struct Ngb {
  int64_t id; // neighbour index or -1 (wall)
  V3 mid, nrm, rel;
  double area;
};

std::vector<std::vector<Ngb>> neighbour_lists(VoronoiDensityGrid &grid, size_t n) {
  std::vector<std::vector<Ngb>> N(n);
  for (size_t i = 0; i < n; ++i) {
    auto ngbs = grid.get_neighbours(i);
    for (auto &t : ngbs) {
      Ngb g;
      DensityGrid::iterator it = std::get<0>(t);
      g.id = it == grid.end() ? -1 : (int64_t)it.get_index();
      g.mid = tov(std::get<1>(t));
      g.nrm = tov(std::get<2>(t));
      g.area = std::get<3>(t);
      g.rel = tov(std::get<4>(t));
      N[i].push_back(g);
    }
  }
  return N;
}

VResult o_locate_impl(const VCase &c) {
  VResult r;
  const Setup S = setup_of(c);
  {
    const std::string m = malformed(S);
    if (!m.empty()) {
      r.fail("malformed case: " + m);
      return r;
    }
  }
  common_labels(S, r);
  label_classes(c.s("query_cls"), r);
  const size_t n = S.n();
  r.nontrivial = n >= 8;
  const char *name = S.type ? "New" : "Old";
  const double MU = mu_of(S);
  HomogeneousDensityFunction df(1., 2000.);
  df.initialize();
  std::unique_ptr<VoronoiDensityGrid> gp = build(S, df);
  VoronoiDensityGrid &grid = *gp;
  phase("enumeration / volumes / neighbours / get_cell_index");
  // ---- enumeration
  if (grid.get_number_of_cells() != n) {
    r.fail(fmt("%s: get_number_of_cells() = %zu for %zu generators", name,
               (size_t)grid.get_number_of_cells(), n));
    return r;
  }
  {
    std::vector<int> seen(n, 0);
    size_t cnt = 0;
    for (auto it = grid.begin(); it != grid.end(); ++it) {
      const size_t idx = it.get_index();
      if (idx >= n || seen[idx]) {
        r.fail(fmt("%s: the enumeration begin()..end() visits cell %zu %s", name, idx,
                   idx >= n ? "(not a cell)" : "twice"));
        return r;
      }
      seen[idx] = 1;
      if (++cnt > n)
        break;
    }
    if (cnt != n) {
      r.fail(fmt("%s: the enumeration visits %zu cells, the grid has %zu", name, cnt, n));
      return r;
    }
  }
  // ---- generators and volumes
  LD sum = 0.L;
  std::vector<double> vol(n);
  for (size_t i = 0; i < n; ++i) {
    const Vec m = grid.get_cell_midpoint(i);
    if (m.x() != S.pos[i].x() || m.y() != S.pos[i].y() || m.z() != S.pos[i].z()) {
      r.fail(fmt("%s: get_cell_midpoint(%zu) is not generator %zu", name, i, i));
      return r;
    }
    vol[i] = grid.get_cell_volume(i);
    if (!(vol[i] > 0.) || !std::isfinite(vol[i])) {
      r.fail(fmt("%s: cell %zu has volume %g", name, i, vol[i]));
      return r;
    }
    if (DensityGrid::iterator(i, grid).get_volume() != vol[i]) {
      r.fail(fmt("%s: iterator(%zu).get_volume() != get_cell_volume(%zu)", name, i, i));
      return r;
    }
    sum += vol[i];
  }
  const std::vector<std::vector<Ngb>> N = neighbour_lists(grid, n);
  {
    // tolerance: every face plane may be off by MU: sum_i A_i MU
    LD A = 0.L;
    for (size_t i = 0; i < n; ++i)
      for (auto &f : N[i])
        if (f.area > 0. && std::isfinite(f.area))
          A += f.area;
    const LD tol = 1e-9L * S.Vbox + (LD)MU * A;
    if (getenv("C16V_STATS"))
      fprintf(stderr, "C16VSTAT %s vol n=%zu rel=%.3Lg allowed=%.3Lg\n", name, n,
              fabsl(sum - S.Vbox) / S.Vbox, tol / S.Vbox);
    if (fabsl(sum - (LD)S.Vbox) > tol) {
      r.fail(fmt("%s: sum of cell volumes %.17Lg != box volume %.17g (rel %Lg, allowed %Lg)",
                 name, sum, S.Vbox, fabsl(sum - S.Vbox) / S.Vbox, tol / S.Vbox));
      return r;
    }
  }
  // ---- neighbour lists: form and mutuality
  double maxplane = 0.;
  bool any_wrapped = false;
  for (size_t i = 0; i < n; ++i) {
    const double li = std::cbrt(vol[i]);
    std::set<int64_t> ids;
    for (auto &f : N[i]) {
      const bool big = f.area > AREA_MIN * li * li;
      if (f.id >= 0) {
        if ((size_t)f.id >= n || (size_t)f.id == i) {
          r.fail(fmt("%s: cell %zu lists the neighbour %lld", name, i, (long long)f.id));
          return r;
        }
        if (big && !ids.insert(f.id).second) {
          r.fail(fmt("%s: cell %zu lists the neighbour %lld twice with non-negligible faces",
                     name, i, (long long)f.id));
          return r;
        }
        const V3 d = S.g[f.id] - S.g[i];
        const LD dn = norm(d);
        // get_neighbours wraps the separation into [-L/2, L/2] although the box
        // is not periodic (VoronoiDensityGrid.cpp:410-418, "should never be
        // called"): for neighbours more than half a box apart the reported normal
        // is not the normal of the face.  The relation stays mutual, so this is
        // outside the wording of the property: recorded as a label only.
        bool wrapped = false;
        for (int k = 0; k < 3; ++k)
          wrapped |= fabsl(d[k]) >= 0.499L * S.L[k];
        if (wrapped)
          any_wrapped = true;
        else if (norm(f.rel - d) > 8 * EPS * S.scale || norm(f.nrm - (1.L / dn) * d) > 1e-12L) {
          r.fail(fmt("%s: neighbour %lld of cell %zu: relative position / normal is not the "
                     "(normalised) generator separation",
                     name, (long long)f.id, i));
          return r;
        }
        if (!big)
          continue;
        const LD pe = fabsl(dot((1.L / dn) * d, f.mid - 0.5L * (S.g[i] + S.g[f.id])));
        maxplane = std::max(maxplane, (double)pe / S.D);
        if (pe > MU) {
          r.fail(fmt("%s: face %zu->%lld (area %g): midpoint is %Lg (%Lg box diagonals) away "
                     "from the bisector plane",
                     name, i, (long long)f.id, f.area, pe, pe / S.D));
          return r;
        }
        // mutual
        const size_t j = (size_t)f.id;
        const double lmax = std::max(li, std::cbrt(vol[j]));
        bool back = false;
        for (auto &g : N[j])
          back |= g.id == (int64_t)i;
        if (!back && f.area > AREA_MIN * lmax * lmax + 40. * MU * std::sqrt(f.area)) {
          r.fail(fmt("%s: cell %zu lists %zu as neighbour (face area %g = %g V^(2/3)), but "
                     "cell %zu does not list %zu",
                     name, i, j, f.area, f.area / (lmax * lmax), j, i));
          return r;
        }
      } else {
        // wall: axis-aligned unit normal, midpoint on that wall
        int ax = -1, cntnz = 0;
        for (int k = 0; k < 3; ++k)
          if (f.nrm[k] != 0.L) {
            ax = k;
            ++cntnz;
          }
        if (cntnz != 1 || fabsl(f.nrm[ax]) != 1.L) {
          r.fail(fmt("%s: cell %zu: wall neighbour with normal (%Lg,%Lg,%Lg)", name, i, f.nrm.x,
                     f.nrm.y, f.nrm.z));
          return r;
        }
        if (!big)
          continue;
        const LD wallpos = f.nrm[ax] > 0 ? S.hi[ax] : S.lo[ax];
        const LD pe = fabsl(f.mid[ax] - wallpos);
        maxplane = std::max(maxplane, (double)pe / S.D);
        if (pe > MU) {
          r.fail(fmt("%s: cell %zu: wall face (area %g) midpoint is %Lg away from the wall",
                     name, i, f.area, pe));
          return r;
        }
      }
    }
  }
  if (any_wrapped)
    r.label("obs-neighbour-separation-wrapped-in-open-box");
  if (getenv("C16V_STATS"))
    fprintf(stderr, "C16VSTAT %s plane n=%zu cls=%d max=%.3g\n", name, n, S.cls, maxplane);
  // ---- positions
  const auto &q = c.dv("queries");
  bool any_unique = false;
  for (size_t t = 0; t + 2 < q.size(); t += 3) {
    const Vec qq(q[t], q[t + 1], q[t + 2]);
    const V3 x = tov(qq);
    const size_t idx = grid.get_cell_index(qq);
    if (idx >= n) {
      r.fail(fmt("%s: get_cell_index(%.17g, %.17g, %.17g) = %zu is not a cell", name, q[t],
                 q[t + 1], q[t + 2], idx));
      return r;
    }
    // (1) nearest generator by brute force
    LD best = 1e4000L, second = 1e4000L;
    size_t bi = 0;
    for (size_t i = 0; i < n; ++i) {
      const LD dd = dot(S.g[i] - x, S.g[i] - x);
      if (dd < best) {
        second = best;
        best = dd;
        bi = i;
      } else if (dd < second)
        second = dd;
    }
    const bool tie = second - best <= 1e-12L * second;
    if (tie)
      r.label("ambiguous-nearest");
    else if (idx != bi) {
      r.fail(fmt("%s: get_cell_index(%.17g, %.17g, %.17g) = %zu (distance^2 %.20Lg), the "
                 "nearest generator is %zu (distance^2 %.20Lg)",
                 name, q[t], q[t + 1], q[t + 2], idx, dot(S.g[idx] - x, S.g[idx] - x), bi, best));
      return r;
    }
    // (2) exactly one cell whose reported geometry (face planes) contains it:
    // the located cell contains it up to MU; no other cell contains it by more
    // than MU
    for (size_t i = 0; i < n; ++i) {
      LD worst = -1e4000L; // largest signed distance outside a face plane
      bool usable = false;
      const double li = std::cbrt(vol[i]);
      LD skipped = 0.L; // largest negligible face left out of the test
      for (auto &f : N[i]) {
        if (!(f.area > AREA_MIN * li * li)) {
          if (f.area > 0.)
            skipped = std::max(skipped, (LD)f.area);
          continue;
        }
        usable = true;
        // plane through the reported midpoint, perpendicular to the generator
        // separation (what interact() uses; not the 'normal' of get_neighbours,
        // see obs-neighbour-separation-wrapped-in-open-box)
        V3 nr = f.nrm;
        if (f.id >= 0) {
          const V3 dd = S.g[f.id] - S.g[i];
          nr = (1.L / norm(dd)) * dd;
        }
        worst = std::max(worst, dot(nr, x - f.mid));
      }
      if (!usable)
        continue;
      if (i == idx && worst > 2. * MU && !tie) {
        r.fail(fmt("%s: position (%.17g, %.17g, %.17g) is located in cell %zu, but lies %Lg "
                   "outside one of the faces that cell reports",
                   name, q[t], q[t + 1], q[t + 2], idx, worst));
        return r;
      }
      // (a negligible face that was left out removes a sliver of about its
      // own diameter from the cell: a position closer than that to the
      // remaining planes may belong to the neighbour behind the sliver)
      if (i != idx && worst < -2. * MU - 4.L * sqrtl(skipped)) {
        r.fail(fmt("%s: position (%.17g, %.17g, %.17g) is located in cell %zu, but also lies "
                   "inside every face plane of cell %zu (by %Lg)",
                   name, q[t], q[t + 1], q[t + 2], idx, i, -worst));
        return r;
      }
      if (i == idx && worst < -2. * MU)
        any_unique = true;
    }
  }
  if (any_unique)
    r.label("position-strictly-inside-one-cell");
  // ---- completeness of the neighbour lists along segments
  const auto &sg = c.dv("segments");
  for (size_t t = 0; t + 5 < sg.size(); t += 6) {
    const V3 p = {sg[t], sg[t + 1], sg[t + 2]}, e = {sg[t + 3], sg[t + 4], sg[t + 5]};
    const V3 d = e - p;
    if (!(norm(d) > 1e-6L * S.D))
      continue;
    const std::vector<Seg> segs = envelope(S, p, d, 1.L);
    for (size_t k = 0; k + 1 < segs.size(); ++k) {
      const size_t ca = segs[k].cell, cb = segs[k + 1].cell;
      const V3 x = p + segs[k].t1 * d;
      // the crossing point is in the relative interior of the face ca|cb if no
      // third generator comes close: then the face has a non-negligible area
      LD da = dot(S.g[ca] - x, S.g[ca] - x), third = 1e4000L;
      for (size_t i = 0; i < n; ++i)
        if (i != ca && i != cb)
          third = std::min(third, dot(S.g[i] - x, S.g[i] - x));
      bool interior = sqrtl(third) - sqrtl(da) > 0.02L * std::cbrt(std::max(vol[ca], vol[cb]));
      for (int kk = 0; kk < 3; ++kk)
        interior &= x[kk] - S.lo[kk] > 0.02L * S.L[kk] && S.hi[kk] - x[kk] > 0.02L * S.L[kk];
      if (!interior) {
        r.label("segment-crossing-near-edge(skipped)");
        continue;
      }
      r.label("segment-crossing-checked");
      bool ab = false, ba = false;
      for (auto &f : N[ca])
        ab |= f.id == (int64_t)cb;
      for (auto &f : N[cb])
        ba |= f.id == (int64_t)ca;
      if (!ab || !ba) {
        r.fail(fmt("%s: the segment (%.17g,%.17g,%.17g)->(%.17g,%.17g,%.17g) passes from cell "
                   "%zu into cell %zu through the interior of their common face (third "
                   "generator %Lg further away), but %zu does not list %zu as neighbour",
                   name, sg[t], sg[t + 1], sg[t + 2], sg[t + 3], sg[t + 4], sg[t + 5], ca, cb,
                   sqrtl(third) - sqrtl(da), ab ? cb : ca, ab ? ca : cb));
        return r;
      }
    }
  }
  return r;
}

// Matcher of the finding "voronoi_interact_skips_zero_distance_face":
// VoronoiDensityGrid::interact only accepts a face at distance exactly 0 as the
// exit face if it is the first candidate in the face list
// (VoronoiDensityGrid.cpp:527 'mins < 0. || (sngb > 0. && sngb < mins)').  A
// photon that sits exactly on a face of the cell it was assigned to - it starts
// on a face, or it has just passed through a Voronoi edge, where the choice
// between the two exit faces is a tie - therefore ignores that face and
// deposits its whole chord in the wrong cell.  Class: at the start point or at
// a crossing point of the travelled ray a second / third generator is at equal
// distance up to the rounding of the coordinates (distance to the bisector
// plane <= ETA = 256 ulp of the largest coordinate) - only then can the code
// compute a distance of exactly 0.
bool zero_distance_prone(const Setup &S, const V3 &p, const V3 &d, LD tend) {
  const LD ETA = 256.L * EPS * std::max(S.scale, S.D);
  const LD texit = box_exit(S, p, d);
  const std::vector<Seg> segs = envelope(S, p, d, std::min(texit, tend + ETA));
  auto near_tie = [&](const V3 &x, int a, int b) {
    const LD fa = dot(S.g[a] - x, S.g[a] - x);
    for (size_t i = 0; i < S.n(); ++i) {
      if ((int)i == a || (int)i == b)
        continue;
      const LD gap = dot(S.g[i] - x, S.g[i] - x) - fa;
      if (gap <= 2.L * norm(S.g[i] - S.g[a]) * ETA)
        return true;
    }
    return false;
  };
  // the start point as given and after the epsilon push of the traversal
  const V3 p1 = p + ((LD)EPS_PUSH * S.D) * d;
  if (near_tie(p, nearest(S, p), -1) || near_tie(p1, nearest(S, p1), -1))
    return true;
  for (size_t k = 0; k + 1 < segs.size(); ++k)
    if (near_tie(p + segs[k].t1 * d, segs[k].cell, segs[k + 1].cell))
      return true;
  return false;
}

Ray ray_of(const VCase &c, int k) {
  Ray r;
  for (int i = 0; i < 3; ++i) {
    r.p[i] = c.d("ray_p", 3 * k + i);
    r.d[i] = c.d("ray_d", 3 * k + i);
  }
  r.tau = c.d("ray_tau", k);
  return r;
}

// a call of interact() that does not return: same class if the matcher holds
// for that ray (the epsilon push that is meant to resolve a distance of exactly
// 0 moves a grazing photon along the face, not off it:
// VoronoiDensityGrid.cpp:535-539)
std::string classify_ray_hang(const VCase &c, const std::string &ph) {
  const size_t q = ph.find("of ray ");
  if (q == std::string::npos)
    return "";
  const int k = atoi(ph.c_str() + q + 7);
  if (k < 0 || (size_t)k >= c.dv("ray_tau").size())
    return "";
  const Setup S = setup_of(c);
  if (!malformed(S).empty())
    return "";
  const Ray ray = ray_of(c, k);
  const V3 p = {ray.p[0], ray.p[1], ray.p[2]}, d = {ray.d[0], ray.d[1], ray.d[2]};
  return zero_distance_prone(S, p, d, box_exit(S, p, d))
             ? "voronoi_interact_skips_zero_distance_face"
             : "";
}

VResult o_ray_impl(const VCase &c) {
  VResult r;
  const Setup S = setup_of(c);
  {
    const std::string m = malformed(S);
    if (!m.empty()) {
      r.fail("malformed case: " + m);
      return r;
    }
  }
  common_labels(S, r);
  label_classes(c.s("ray_cls"), r);
  const size_t n = S.n();
  const char *name = S.type ? "New" : "Old";
  const LD MU = (LD)mu_of(S);
  const LD EPSW = (LD)EPS_PUSH * S.D;
  const double sHe = c.d("sHe");
  const uint64_t kseed = (uint64_t)c.i("kseed");
  const bool transparent = c.i("transparent") != 0;
  std::vector<Opac> op(n);
  std::vector<double> kappa(n);
  double kmax = 0.;
  for (size_t i = 0; i < n; ++i) {
    op[i] = opac_of(kseed, i, transparent, S.D);
    kappa[i] = kappa_of(op[i], sHe);
    kmax = std::max(kmax, kappa[i]);
  }
  HomogeneousDensityFunction df(1., 2000.);
  df.initialize();
  std::unique_ptr<VoronoiDensityGrid> gp = build(S, df);
  VoronoiDensityGrid &grid = *gp;
  const int nray = (int)c.dv("ray_tau").size();
  for (int k = 0; k < nray; ++k) {
    const Ray ray = ray_of(c, k);
    const V3 p = {ray.p[0], ray.p[1], ray.p[2]}, d = {ray.d[0], ray.d[1], ray.d[2]};
    {
      const LD dn = norm(d);
      bool inside = true;
      for (int i = 0; i < 3; ++i)
        inside &= p[i] > S.lo[i] && p[i] < S.hi[i];
      if (!(fabsl(dn - 1.L) < 1e-12L) || !inside || !(ray.tau > 0.)) {
        r.fail("malformed case: ray");
        return r;
      }
    }
    for (size_t i = 0; i < n; ++i) {
      DensityGrid::iterator it(i, grid);
      IonizationVariables &iv = it.get_ionization_variables();
      iv.set_number_density(op[i].n);
      iv.set_ionic_fraction(ION_H_n, op[i].xH);
      iv.set_ionic_fraction(ION_He_n, op[i].xHe);
      iv.set_temperature(8000.);
      it.reset_mean_intensities();
    }
    Photon ph(Vec(ray.p[0], ray.p[1], ray.p[2]), Vec(ray.d[0], ray.d[1], ray.d[2]), 3.5e15);
    ph.set_cross_section(ION_H_n, SIGMA_H);
    ph.set_cross_section(ION_He_n, 0.25);
    ph.set_cross_section_He_corr(sHe);
    phase(fmt("interact() of ray %d on the %s grid", k, name));
    DensityGrid::iterator it = grid.end();
    try {
      it = grid.interact(ph, ray.tau);
    } catch (const VerifAbort &e) {
      r.fail(fmt("%s, ray %d: interact aborts for a start position inside the box: %s (%s:%d)",
                 name, k, e.msg.c_str(), e.file.c_str(), e.line));
      return r;
    }
    const bool absorbed = it != grid.end();
    const int64_t ret = absorbed ? (int64_t)it.get_index() : -1;
    const Vec xe = ph.get_position();
    const V3 xend = tov(xe);
    std::vector<double> dep(n);
    LD sdep = 0.L, stau = 0.L;
    size_t nvisit = 0;
    for (size_t i = 0; i < n; ++i) {
      dep[i] = DensityGrid::iterator(i, grid).get_mean_intensity(ION_H_n) / SIGMA_H;
      // (the last deposit mins + mins * (tau_left / tau_cell) can round to -ulp)
      if (!(dep[i] >= -16. * EPS * S.D) || !std::isfinite(dep[i])) {
        r.fail(fmt("%s, ray %d: cell %zu received the path length %.17g", name, k, i, dep[i]));
        return r;
      }
      if (dep[i] > 0.)
        ++nvisit;
      sdep += dep[i];
      stau += (LD)kappa[i] * (LD)dep[i];
    }
    for (int i = 0; i < 3; ++i)
      if (!std::isfinite((double)xend[i])) {
        r.fail(fmt("%s, ray %d: final position[%d] = %Lg", name, k, i, xend[i]));
        return r;
      }
    if (absorbed && (ret < 0 || (size_t)ret >= n)) {
      r.fail(fmt("%s, ray %d: the returned cell %lld is not a cell of the grid", name, k,
                 (long long)ret));
      return r;
    }
    if (getenv("C16V_DEBUG")) {
      // debugging aid only: the envelope, the deposits, and a shadow of the
      // face selection of interact() on the data get_neighbours() reports
      const LD te = box_exit(S, p, d);
      fprintf(stderr, "ray %d: p=(%.17g %.17g %.17g) d=(%.17g %.17g %.17g) tau=%.17g texit=%.17Lg\n",
              k, ray.p[0], ray.p[1], ray.p[2], ray.d[0], ray.d[1], ray.d[2], ray.tau, te);
      for (auto &sgm : envelope(S, p, d, te))
        fprintf(stderr, "  oracle: cell %d  t=%.17Lg..%.17Lg kappa %.6g\n", sgm.cell, sgm.t0, sgm.t1,
                kappa[sgm.cell]);
      for (size_t i = 0; i < n; ++i)
        if (dep[i] != 0.)
          fprintf(stderr, "  code: cell %zu deposited %.17g\n", i, dep[i]);
      fprintf(stderr, "  code: %s ret=%lld xend=(%.17g %.17g %.17g)\n", absorbed ? "absorbed" : "escaped",
              (long long)ret, xe.x(), xe.y(), xe.z());
      const std::vector<std::vector<Ngb>> N = neighbour_lists(grid, n);
      Vec o = Vec(ray.p[0], ray.p[1], ray.p[2]);
      const Vec dir(ray.d[0], ray.d[1], ray.d[2]);
      o += (EPS_PUSH * std::sqrt(S.L[0] * S.L[0] + S.L[1] * S.L[1] + S.L[2] * S.L[2])) * dir;
      int64_t idx = (int64_t)grid.get_cell_index(o);
      for (int step = 0; step < 40 && idx >= 0; ++step) {
        double mins = -1.;
        int64_t nx = -2;
        fprintf(stderr, "  shadow: in cell %lld at (%.17g %.17g %.17g)\n", (long long)idx, o.x(), o.y(), o.z());
        for (auto &f : N[idx]) {
          Vec nr = f.id >= 0 ? S.pos[f.id] - S.pos[idx] : Vec((double)f.nrm.x, (double)f.nrm.y, (double)f.nrm.z);
          const double nk = Vec::dot_product(nr, dir);
          const Vec md((double)f.mid.x, (double)f.mid.y, (double)f.mid.z);
          const double raw = Vec::dot_product(nr, md - o);
          const double sngb = std::abs(raw) / nk;
          const bool take = nk > 0 && (mins < 0. || (sngb > 0. && sngb < mins));
          fprintf(stderr, "     face ->%lld area %.3g nk %.6g n.(mid-o) %.6g sngb %.17g%s\n", (long long)f.id,
                  f.area, nk, raw, sngb, nk > 0 ? (take ? "  <- taken" : "") : "  (nk<=0)");
          if (take) {
            mins = sngb;
            nx = f.id;
          }
        }
        if (mins <= 0.)
          break;
        o += mins * dir;
        idx = nx;
      }
    }
    // ------------------------------------------------ tier A: self consistency
    const LD round = 64.L * EPS * ((LD)S.scale + sdep) * (LD)(nvisit + 8);
    const LD slack = (LD)(8 + 2 * nvisit) * EPSW + round;
    for (int i = 0; i < 3; ++i) {
      const LD diff = xend[i] - (p[i] + sdep * d[i]);
      if (fabsl(diff) > slack) {
        r.fail(fmt("%s, ray %d: final position[%d] = %.17Lg is not start + (sum of deposited "
                   "path lengths = %.17Lg) * direction (difference %.3Lg, allowed %.3Lg = "
                   "(8 + 2*%zu visited cells) epsilon pushes + rounding)",
                   name, k, i, xend[i], sdep, diff, slack, nvisit));
        return r;
      }
    }
    // (the last deposit is computed as mins + mins * (tau_left / tau_cell) with
    // mins the distance to the cell exit: absolute rounding error ~ ulp(mins))
    const LD toltau = 64.L * EPS * (LD)ray.tau * (LD)(nvisit + 8) + 16.L * EPS * kmax * S.D;
    if (absorbed) {
      if (fabsl(stau - (LD)ray.tau) > toltau) {
        r.fail(fmt("%s, ray %d: absorbed, but sum(kappa * deposited path) = %.17Lg != target "
                   "optical depth %.17g (allowed %.3Lg)",
                   name, k, stau, ray.tau, toltau));
        return r;
      }
    } else if (stau > (LD)ray.tau + toltau) {
      r.fail(fmt("%s, ray %d: escaped, but sum(kappa * deposited path) = %.17Lg exceeds the "
                 "target optical depth %.17g",
                 name, k, stau, ray.tau));
      return r;
    }
    // ------------------------------------------------ tier B: closed-form oracle
    // (a failure below belongs to the known class if the matcher holds)
    struct KnownMarker {
      VResult &r;
      bool prone;
      ~KnownMarker() {
        if (!r.ok && prone && r.known.empty())
          r.known = "voronoi_interact_skips_zero_distance_face";
      }
    } marker{r, zero_distance_prone(S, p, d, sdep)};
    if (marker.prone)
      r.label("zero-distance-face-on-ray");
    int exit_axis = 0;
    const LD texit = box_exit(S, p, d, &exit_axis);
    const LD wexit = MU / fabsl(d[exit_axis]); // wall plane displaced by MU
    const LD tend = sdep; // parameter of the code's end point (up to the pushes)
    if (tend > texit + wexit + slack) {
      r.fail(fmt("%s, ray %d: the photon travelled %.17Lg, the box ends after %.17Lg (allowed "
                 "excess %.3Lg)",
                 name, k, tend, texit, wexit + slack));
      return r;
    }
    // optical depth range of the whole ray and decision
    const std::vector<Seg> segs = envelope(S, p, d, texit);
    if (segs.size() >= 2)
      r.nontrivial = true;
    r.label(segs.size() >= 8 ? "crossings>=7" : (segs.size() >= 2 ? "crossings-1..6" : "crossings-0"));
    LD tau_lo = 0.L, tau_hi = 0.L, tau_ex = 0.L;
    std::vector<LD> in_lo(n), in_hi(n), out_lo(n), out_hi(n);
    bool transparent_on_ray = false;
    for (auto &sgm : segs) {
      tau_ex += (LD)kappa[sgm.cell] * (sgm.t1 - sgm.t0);
      transparent_on_ray |= kappa[sgm.cell] == 0. && sgm.t1 > sgm.t0;
    }
    if (transparent_on_ray)
      r.label("transparent-cell-on-ray");
    for (size_t i = 0; i < n; ++i) {
      cell_interval(S, p, d, i, -MU, in_lo[i], in_hi[i]);
      cell_interval(S, p, d, i, MU, out_lo[i], out_hi[i]);
      tau_lo += (LD)kappa[i] * overlap(in_lo[i], in_hi[i], slack, texit - wexit - slack);
      tau_hi += (LD)kappa[i] * overlap(out_lo[i], out_hi[i], 0.L, texit + wexit + slack);
    }
    tau_lo *= (1.L - 1e-12L);
    tau_hi *= (1.L + 1e-12L);
    const bool must_absorb = (LD)ray.tau < tau_lo, must_escape = (LD)ray.tau > tau_hi;
    if (!must_absorb && !must_escape)
      r.label("ambiguous-absorbed-at-exit");
    else {
      r.label(must_absorb ? "absorbed" : "escaped");
      if (must_absorb != absorbed) {
        r.fail(fmt("%s, ray %d: oracle: the optical depth along the ray up to the box wall is "
                   "%.17Lg (between %.17Lg and %.17Lg with every face displaced by %Lg), the "
                   "target is %.17g => %s; the grid reports %s after %.17Lg (box exit at %.17Lg)",
                   name, k, tau_ex, tau_lo, tau_hi, MU, ray.tau,
                   must_absorb ? "absorbed" : "escaped", absorbed ? "absorbed" : "escaped", tend,
                   texit));
        return r;
      }
    }
    if (!absorbed) {
      // the end point is on the wall the ray leaves through
      if (fabsl(tend - texit) > wexit + slack) {
        r.fail(fmt("%s, ray %d: reported as escaped after %.17Lg, but the ray reaches the box "
                   "wall after %.17Lg (allowed difference %.3Lg)",
                   name, k, tend, texit, wexit + slack));
        return r;
      }
    }
    // deposits per cell
    bool grazing = false;
    for (size_t i = 0; i < n; ++i) {
      const LD lmin = overlap(in_lo[i], in_hi[i], slack, tend - slack);
      const LD lmax = overlap(out_lo[i], out_hi[i], 0.L, tend + slack);
      if (lmax - lmin > 1e-3L * S.D)
        grazing = true;
      if ((LD)dep[i] < lmin - slack || (LD)dep[i] > lmax + slack) {
        std::string dump;
        int nd = 0;
        for (size_t j = 0; j < n && nd < 10; ++j) {
          const LD a = overlap(in_lo[j], in_hi[j], slack, tend - slack);
          const LD b = overlap(out_lo[j], out_hi[j], 0.L, tend + slack);
          if (dep[j] != 0. || b > 0.L) {
            dump += fmt(" [cell %zu kappa %.4g: deposited %.12g, oracle %.12Lg..%.12Lg]", j,
                        kappa[j], dep[j], a, b);
            ++nd;
          }
        }
        r.fail(fmt("%s, ray %d: cell %zu received the path length %.17g; the ray (travelled "
                   "length %.17Lg) is inside that cell for %.17Lg (faces moved inwards by %Lg) "
                   "to %.17Lg (outwards);%s",
                   name, k, i, dep[i], tend, lmin, MU, lmax, dump.c_str()));
        return r;
      }
    }
    if (grazing)
      r.label("ray-grazes-a-face(wide-bounds)");
    // returned cell contains the end point
    if (absorbed) {
      const LD te = tend;
      if (te < out_lo[ret] - slack || te > out_hi[ret] + slack) {
        LD gap;
        const int nn = nearest(S, p + te * d, &gap);
        r.fail(fmt("%s, ray %d: absorbed after %.17Lg in cell %lld, but the end point is in "
                   "cell %d (cell %lld is left at %.17Lg / entered at %.17Lg)",
                   name, k, te, (long long)ret, nn, (long long)ret, out_hi[ret], out_lo[ret]));
        return r;
      }
      if (!(te > in_lo[ret] + slack && te < in_hi[ret] - slack))
        r.label("ambiguous-end-cell(tau-reached-at-a-face)");
      else
        r.label("end-cell-checked");
      for (int i = 0; i < 3; ++i)
        if (xend[i] < S.lo[i] - MU - slack || xend[i] > S.hi[i] + MU + slack) {
          r.fail(fmt("%s, ray %d: absorbed at position[%d] = %.17Lg outside the box", name, k, i,
                     xend[i]));
          return r;
        }
    }
    if (getenv("C16V_STATS")) {
      // how sharp are the bounds really?  largest |deposit - exact| / D
      std::vector<LD> ex(n, 0.L);
      for (auto &sgm : segs)
        ex[sgm.cell] += overlap(sgm.t0, sgm.t1, 0.L, tend);
      LD w = 0.L;
      for (size_t i = 0; i < n; ++i)
        w = std::max(w, fabsl((LD)dep[i] - ex[i]));
      fprintf(stderr, "C16VSTAT %s ray%s n=%zu nseg=%zu maxdev=%.3Lg\n", name,
              grazing ? "-grazing" : "", n, segs.size(), w / S.D);
    }
  }
  return r;
}

} // namespace

int main(int argc, char **argv) {
  std::vector<VProp> props;
  const std::string dom =
      "VoronoiDensityGrid with the Old and the New construction (1 thread, no Lloyd iterations, "
      "not periodic - periodic Voronoi grids are rejected by both constructions); boxes: unit / "
      "dyadic / generic / physical scale (1e15..1e19, 1e-6..1e20), cubic and elongated up to "
      "1:16; 2..200 well-conditioned generators (>= 1.5e-3 sides from the walls, pairwise "
      "distance >= 2e-3 box diagonals): uniform, lattices perturbed by 1e-3..0.45 spacings (every "
      "coordinate of every generator moved), 1-3 Gaussian blobs (sigma 0.02..0.2), generators "
      "1.5e-3..2e-2 sides from walls/edges/corners, 2..6 generators. ";
  props.push_back(
      {"voronoi_locate", 5000, gen_locate, guarded(o_locate_impl),
       dom + "16 positions per grid (uniform, next to generators, on/next to bisector planes "
             "down to 1e-12, 0-4 ulp inside the walls, exactly generators, next to Voronoi "
             "edges) + 4 segments (generator to generator, random). Non-trivial = >= 8 "
             "generators.",
       {{"grid-Old", 0.3}, {"grid-New", 0.3}, {"q-near-bisector", 0.5}, {"segment-crossing-checked", 0.5}}});
  props.push_back(
      {"voronoi_ray", 11000, gen_ray, guarded(o_ray_impl, classify_ray_hang),
       dom + "3 rays per grid; start: interior, exactly a generator, on / within the epsilon "
             "push of / next to a face, 1e-9..1e-3 sides from a wall, on / next to a Voronoi "
             "edge, exactly (0..2 ulp, after the epsilon push) on the axis-aligned face of a generator "
             "pair that 30% of the grids contain; direction: generic, axis-aligned, through a generator, along a face normal, "
             "grazing a face (angle 0, 1e-9..1e-2), through a point of a Voronoi edge (+- "
             "1e-13..1e-4), planar; target optical depth: inside, beyond the exit, at a face "
             "crossing (exact, +-1e-16..1e-5), tiny, next to the exit; 60% of the opacity fields "
             "have transparent cells. Non-trivial = the ray crosses at least one face.",
       {{"grid-Old", 0.3},
        {"grid-New", 0.3},
        {"absorbed", 0.3},
        {"escaped", 0.3},
        {"transparent-cell-on-ray", 0.1},
        {"dir-grazing", 0.1},
        {"dir-through-edge", 0.1},
        {"start-on-face", 0.05},
        {"start-exactly-on-pair-face", 0.08},
        {"end-cell-checked", 0.3},
        {"tau-at-crossing", 0.2}}});
  return vr::vmain(argc, argv, "C16", props);
}
