// C09 (component level) - "For every restartable component, writing its state,
// reading it back and writing it again yields identical bytes, and the state of
// a restarted simulation equals the dumped state."
//
// The executable-driven check (py/c09_restart.py) covers what a pure hydro run
// dumps.  This harness covers the restartable classes such a run does not
// exercise: the photon source distributions (incl. the "moving sources" that
// carry a random generator, life times, an update counter and an optional
// output file), the factory dispatch, DensitySubGrid / HydroDensitySubGrid /
// IonizationVariables / HydroVariables, DensitySubGridCreator (incl. copies),
// Box, CoordinateVector, YAMLDictionary / ParameterFile, the legacy
// CartesianDensityGrid (through DensityGridFactory), StatisticsLogger and the
// RescaledICHydroMask (through HydroMaskFactory).
//
// Scheme of every sub-check (oracle = round trip + differential between the
// uninterrupted object O and a chain of restored objects R1..Rn):
//   1. O is constructed from generated parameters through the public
//      constructor / factory and driven through the whole generated history;
//      every call's observable results are recorded; at each restore point k_j
//      O is dumped with the real RestartWriter.
//   2. R1 is restored from O's dump at k_1 with the real RestartReader (restart
//      constructor or factory dispatch) and written again at once: the two
//      files must be byte-identical (write -> read -> write).  A sentinel word
//      written behind the component must be the next thing the reader sees
//      (the component consumes exactly what it wrote).
//   3. R_j continues the SAME remaining history; after every call all
//      observables must equal O's record bitwise.  At k_{j+1} it is dumped (the
//      dump must equal O's dump at k_{j+1} byte for byte), possibly runs on for
//      some more calls (a dump followed by more work before the stop, so that
//      output files have to be truncated on restart) and R_{j+1} is restored.
//   4. Output files (source logs, statistics log) of the last restored object
//      must equal O's files at the end of the history.
//
// Every case runs in a forked child in which operator new pre-fills every
// object with 0x5a: a restart constructor that leaves a member uninitialised
// then deterministically sees a non-zero pattern instead of whatever the heap
// happened to contain, and a crash (or a run-away loop: 20 s CPU budget) of the
// code under test is reported as a failure of that case instead of killing the
// search.
//
// Open known classes (see the matchers below): the comparison continues behind
// them (rounding-only deviations of a re-derived sum are recorded and skipped,
// a crash class is re-run with zero-filled objects, a stale-index class is
// re-run with the history cut before the stale state), so other defects in the
// same component are still found.
#include "AsciiFilePhotonSourceDistribution.hpp"
#include "Box.hpp"
#include "CaproniPhotonSourceDistribution.hpp"
#include "CartesianDensityGrid.hpp"
#include "CoordinateVector.hpp"
#include "DensityFunction.hpp"
#include "DensityGridFactory.hpp"
#include "DensitySubGrid.hpp"
#include "DensitySubGridCreator.hpp"
#include "DiscPatchPhotonSourceDistribution.hpp"
#include "Hydro.hpp"
#include "HydroDensitySubGrid.hpp"
#include "HydroMaskFactory.hpp"
#include "HydroVariables.hpp"
#include "InternalHydroUnits.hpp"
#include "IonizationVariables.hpp"
#include "ParameterFile.hpp"
#include "PhotonPacket.hpp"
#include "PhotonSourceDistributionFactory.hpp"
#include "RescaledICHydroMask.hpp"
#include "RestartReader.hpp"
#include "RestartWriter.hpp"
#include "SingleStarPhotonSourceDistribution.hpp"
#include "SingleSupernovaPhotonSourceDistribution.hpp"
#include "StatisticsLogger.hpp"
#include "UniformRandomPhotonSourceDistribution.hpp"
#include "YAMLDictionary.hpp"
#include "verif_rc.hpp"

#include <ftw.h>
#include <new>
#include <memory>
#include <signal.h>
#include <sys/mman.h>
#include <sys/stat.h>
#include <sys/time.h>
#include <sys/wait.h>
#include <unistd.h>

using vr::VCase;
using vr::VProp;
using vr::VResult;
using vr::fmt;
typedef CoordinateVector<> Vec;

// ---------------------------------------------------------------------------
// Every object the code under test creates with new is pre-filled with a
// chosen byte (only inside the forked child that runs a case): with 0x5a an
// uninitialised member deterministically holds a non-zero pattern, with 0x00
// it holds what a lucky run would see.
// ---------------------------------------------------------------------------
static bool g_fill_on = false;
static unsigned char g_fill = 0x5a;
static void *filled_alloc(std::size_t n) {
  void *p = malloc(n ? n : 1);
  if (!p)
    throw std::bad_alloc();
  if (g_fill_on)
    memset(p, g_fill, n);
  return p;
}
void *operator new(std::size_t n) { return filled_alloc(n); }
void *operator new[](std::size_t n) { return filled_alloc(n); }
void operator delete(void *p) noexcept { free(p); }
void operator delete[](void *p) noexcept { free(p); }
void operator delete(void *p, std::size_t) noexcept { free(p); }
void operator delete[](void *p, std::size_t) noexcept { free(p); }

namespace {

// ===========================================================================
// isolation: every case runs in a forked child
// ===========================================================================
struct Shared {
  char phase[512];
};
Shared *g_shared = nullptr;

void phase(const std::string &p) {
  if (g_shared) {
    strncpy(g_shared->phase, p.c_str(), sizeof(g_shared->phase) - 1);
    g_shared->phase[sizeof(g_shared->phase) - 1] = 0;
  }
}

int rm_cb(const char *p, const struct stat *, int, struct FTW *) {
  remove(p);
  return 0;
}
void rmtree(const std::string &d) { nftw(d.c_str(), rm_cb, 16, FTW_DEPTH | FTW_PHYS); }

std::string g_base;
uint64_t g_counter = 0;

std::string ser(const VResult &r) {
  std::string o;
  o += std::string("ok ") + (r.ok ? "1" : "0") + "\n";
  o += std::string("nt ") + (r.nontrivial ? "1" : "0") + "\n";
  if (!r.known.empty())
    o += "known " + VCase::esc(r.known) + "\n";
  for (auto &l : r.labels)
    o += "label " + VCase::esc(l) + "\n";
  if (!r.msg.empty())
    o += "msg " + VCase::esc(r.msg) + "\n";
  return o;
}
bool deser(const std::string &t, VResult &r) {
  std::istringstream in(t);
  std::string line;
  bool seen = false;
  while (std::getline(in, line)) {
    const size_t sp = line.find(' ');
    const std::string k = line.substr(0, sp);
    const std::string v = sp == std::string::npos ? "" : VCase::unesc(line.substr(sp + 1));
    if (k == "ok") {
      r.ok = v == "1";
      seen = true;
    } else if (k == "nt")
      r.nontrivial = v == "1";
    else if (k == "known")
      r.known = v;
    else if (k == "label")
      r.labels.push_back(v);
    else if (k == "msg")
      r.msg = v;
  }
  return seen;
}

typedef std::function<VResult(const VCase &, const std::string &dir)> Body;
// what to do when the child died: gets the last phase, may set r.known
typedef std::function<void(const VCase &, const std::string &phase, VResult &)> CrashHook;

VResult isolated(const VCase &c, const Body &body, const CrashHook &hook,
                 unsigned char fill = 0x5a) {
  if (!g_shared) {
    g_shared = (Shared *)mmap(nullptr, sizeof(Shared), PROT_READ | PROT_WRITE,
                              MAP_SHARED | MAP_ANONYMOUS, -1, 0);
    const char *b = getenv("VERIF_TMP");
    g_base = b ? b : ".";
  }
  const std::string dir =
      g_base + fmt("/c09c-%ld-%llu", (long)getpid(), (unsigned long long)++g_counter);
  mkdir(dir.c_str(), 0777);
  g_shared->phase[0] = 0;
  VResult r;
  if (getenv("VERIF_NOFORK")) {
    g_fill = fill;
    g_fill_on = true;
    try {
      r = body(c, dir);
    } catch (const VerifAbort &e) {
      r.fail("unexpected abort at " + e.file + ":" + std::to_string(e.line) + ": " + e.msg +
             " [phase " + g_shared->phase + "]");
    }
    g_fill_on = false;
    if (chdir(g_base.c_str()) != 0) {
    }
    rmtree(dir);
    return r;
  }
  int fd[2];
  if (pipe(fd) != 0) {
    r.fail("harness: pipe failed");
    return r;
  }
  fflush(stdout);
  fflush(stderr);
  const pid_t pid = fork();
  if (pid == 0) {
    close(fd[0]);
    // budget in CPU time of the child (normal cases take milliseconds), so
    // machine load does not matter; a wall-clock guard far behind it
    struct itimerval tv;
    memset(&tv, 0, sizeof tv);
    tv.it_value.tv_sec = 20;
    setitimer(ITIMER_VIRTUAL, &tv, nullptr);
    alarm(600);
    g_fill = fill;
    g_fill_on = true;
    VResult cr;
    try {
      cr = body(c, dir);
    } catch (const VerifAbort &e) {
      cr.fail("unexpected abort at " + e.file + ":" + std::to_string(e.line) + ": " + e.msg +
              " [phase " + g_shared->phase + "]");
    } catch (const std::exception &e) {
      cr.fail(std::string("unexpected C++ exception: ") + e.what() + " [phase " +
              g_shared->phase + "]");
    }
    const std::string s = ser(cr);
    size_t off = 0;
    while (off < s.size()) {
      const ssize_t w = write(fd[1], s.data() + off, s.size() - off);
      if (w <= 0)
        break;
      off += (size_t)w;
    }
    close(fd[1]);
    _exit(0);
  }
  close(fd[1]);
  std::string text;
  char buf[4096];
  ssize_t n;
  while ((n = read(fd[0], buf, sizeof buf)) > 0)
    text.append(buf, (size_t)n);
  close(fd[0]);
  int status = 0;
  waitpid(pid, &status, 0);
  if (pid < 0) {
    r.fail("harness: fork failed");
  } else if (WIFSIGNALED(status) || !deser(text, r)) {
    const std::string ph = g_shared->phase;
    r = VResult();
    r.label("child-died");
    if (WIFSIGNALED(status) && (WTERMSIG(status) == SIGVTALRM || WTERMSIG(status) == SIGALRM))
      r.fail(fmt("the code under test did not come back within 20 s of CPU time in phase [%s]",
                 ph.c_str()));
    else
      r.fail(fmt("the code under test crashed (%s %d) in phase [%s]",
                 WIFSIGNALED(status) ? "signal" : "exit",
                 WIFSIGNALED(status) ? WTERMSIG(status) : WEXITSTATUS(status), ph.c_str()));
    if (hook)
      hook(c, ph, r);
  }
  rmtree(dir);
  return r;
}

// ===========================================================================
// small helpers
// ===========================================================================
std::string slurp(const std::string &f, bool *ok = nullptr) {
  std::ifstream in(f, std::ios::binary);
  if (ok)
    *ok = (bool)in;
  std::stringstream ss;
  ss << in.rdbuf();
  return ss.str();
}
void spit(const std::string &f, const std::string &s) {
  std::ofstream o(f, std::ios::binary);
  o << s;
}
bool copy_file(const std::string &a, const std::string &b) {
  bool ok;
  const std::string s = slurp(a, &ok);
  if (!ok)
    return false;
  spit(b, s);
  return true;
}
void cd(const std::string &d) {
  if (chdir(d.c_str()) != 0) {
    fprintf(stderr, "harness: chdir %s failed\n", d.c_str());
    abort();
  }
}
// difference of two dumps.  hdr = number of leading bytes that are not part
// of the 8-byte word grid (factory tag).  rounding_only is set if the files
// have the same size and every differing word of the grid is a pair of finite
// doubles that agree to 1e-12 relative.
// g_abs_scale: magnitude of the terms a re-derived sum is made of (a running
// sum that cancelled to a residue has no relative accuracy)
double g_abs_scale = 0.;
bool close_doubles(double a, double b, bool use_abs = true) {
  if (memcmp(&a, &b, sizeof a) == 0)
    return true;
  if (!std::isfinite(a) || !std::isfinite(b))
    return false;
  return std::abs(a - b) <=
         1e-12 * std::max(use_abs ? g_abs_scale : 0., std::max(std::abs(a), std::abs(b)));
}
// an 8-byte word of a dump that can be a stored real number: zero or of
// ordinary magnitude (small integers reinterpret as denormals)
bool plausible_real(double x) { return x == 0. || (std::isfinite(x) && std::abs(x) >= 1e-200); }
std::string bytediff(const std::string &a, const std::string &b, size_t hdr = 0,
                     bool *rounding_only = nullptr) {
  if (rounding_only)
    *rounding_only = false;
  if (a == b)
    return "";
  if (a.size() != b.size()) {
    size_t k = 0;
    while (k < a.size() && k < b.size() && a[k] == b[k])
      ++k;
    return fmt("sizes %zu vs %zu, first difference at byte %zu", a.size(), b.size(), k);
  }
  std::string o;
  bool ronly = true;
  size_t ndiff = 0;
  hdr = std::min(hdr, a.size());
  if (memcmp(a.data(), b.data(), hdr) != 0) {
    ronly = false;
    o = "difference in the leading tag";
  }
  for (size_t w = hdr; w < a.size(); w += 8) {
    const size_t len = std::min<size_t>(8, a.size() - w);
    if (memcmp(a.data() + w, b.data() + w, len) == 0)
      continue;
    ++ndiff;
    double da = 0, db = 0;
    uint64_t ua = 0, ub = 0;
    memcpy(&da, a.data() + w, len);
    memcpy(&db, b.data() + w, len);
    memcpy(&ua, a.data() + w, len);
    memcpy(&ub, b.data() + w, len);
    if (len < 8 || !plausible_real(da) || !plausible_real(db) || !close_doubles(da, db))
      ronly = false;
    if (o.empty())
      o = fmt("same size %zu, first difference in the 8-byte word at offset %zu (word %zu behind a "
              "%zu byte tag): %016llx (as double %.17g) vs %016llx (%.17g)",
              a.size(), w, (w - hdr) / 8, hdr, (unsigned long long)ua, da, (unsigned long long)ub,
              db);
  }
  o += fmt("; %zu differing word(s)", ndiff);
  if (rounding_only)
    *rounding_only = ronly;
  return o;
}
bool biteq(double a, double b) { return memcmp(&a, &b, sizeof a) == 0; }

std::string num(double v, const char *unit = "") {
  std::string s = fmt("%.17g", v);
  // std::stod is used by the parameter file: keep a form it parses completely
  if (unit[0])
    s += std::string(" ") + unit;
  return s;
}
std::string vec3(const double *v, const char *unit) {
  return "[" + num(v[0], unit) + ", " + num(v[1], unit) + ", " + num(v[2], unit) + "]";
}

const uint64_t SENTINEL = 0xC09C5E471AE1D00Dull;

// observation record of one history call: named groups of scalar values that
// are compared bitwise.  A group whose name starts with '!' holds per-call
// return values (not part of the component's state).
struct Obs {
  std::vector<std::string> g;  // group names
  std::vector<uint32_t> gi;    // group of each value
  std::vector<double> x;       // values
  // tolerance class used ONLY to recognise the known "re-derived sum" class:
  // 0 exact, 1 relative 1e-12, 2 relative or absolute (g_abs_scale)
  std::vector<uint8_t> cls;
  void group(const std::string &n) { g.push_back(n); }
  void push(double v, int k = 0) {
    gi.push_back((uint32_t)g.size() - 1);
    x.push_back(v);
    cls.push_back((uint8_t)k);
  }
  void add(const std::string &n, double v, int k = 0) {
    group(n);
    push(v, k);
  }
  void addi(const std::string &n, int64_t v) { add(n, (double)v, 0); }
  void adds(const std::string &n, const std::string &text) {
    // a string observable: length and a 52 bit hash
    uint64_t h = 1469598103934665603ull;
    for (unsigned char ch : text) {
      h ^= ch;
      h *= 1099511628211ull;
    }
    group(n);
    push((double)text.size());
    push((double)(h >> 12));
  }
  std::string name(size_t k) const {
    size_t first = k;
    while (first > 0 && gi[first - 1] == gi[k])
      --first;
    const bool single = (k + 1 == x.size() || gi[k + 1] != gi[k]) && first == k;
    return single ? g[gi[k]] : g[gi[k]] + fmt(" #%zu", k - first);
  }
};
std::string obsdiff(const Obs &a, const Obs &b, bool *rounding_only = nullptr) {
  if (rounding_only)
    *rounding_only = false;
  const size_t n = std::min(a.x.size(), b.x.size());
  std::string first;
  bool ronly = a.x.size() == b.x.size();
  bool sum_deviates = false;
  for (size_t q = 0; q < n; ++q)
    if (a.cls[q] == 2 && !biteq(a.x[q], b.x[q]))
      sum_deviates = true;
  for (size_t k = 0; k < n; ++k) {
    if (a.g[a.gi[k]] != b.g[b.gi[k]])
      return fmt("observable #%zu is '%s' in the uninterrupted object and '%s' in the restored one",
                 k, a.name(k).c_str(), b.name(k).c_str());
    if (!biteq(a.x[k], b.x[k])) {
      // class 1 values are quotients by a class 2 value of the same record:
      // if that one deviates (within its tolerance) the quotients follow
      if (a.cls[k] == 0 || (a.cls[k] == 2 && !close_doubles(a.x[k], b.x[k], true)) ||
          (a.cls[k] == 1 && !sum_deviates && !close_doubles(a.x[k], b.x[k], false)))
        ronly = false;
      if (first.empty())
        first = fmt("%s = %.17g (uninterrupted) vs %.17g (restored)", a.name(k).c_str(), a.x[k],
                    b.x[k]);
    }
  }
  if (a.x.size() != b.x.size())
    return fmt("%zu observables (uninterrupted) vs %zu (restored)", a.x.size(), b.x.size());
  if (rounding_only)
    *rounding_only = ronly && !first.empty();
  return first;
}
// the "state" part of an observation: everything except per-call return values
bool state_equal(const Obs &a, const Obs &b) {
  std::vector<double> x, y;
  for (size_t k = 0; k < a.x.size(); ++k)
    if (a.g[a.gi[k]][0] != '!')
      x.push_back(a.x[k]);
  for (size_t k = 0; k < b.x.size(); ++k)
    if (b.g[b.gi[k]][0] != '!')
      y.push_back(b.x[k]);
  return x.size() == y.size() && (x.empty() || memcmp(x.data(), y.data(), x.size() * 8) == 0);
}

// ===========================================================================
// generic driver: a component with a history
// ===========================================================================
struct Component {
  virtual ~Component() {}
  // construct the object from the generated parameters (cwd = its directory)
  virtual void construct(const VCase &c) = 0;
  // perform history call i, record everything observable
  virtual void step(const VCase &c, size_t i, Obs &o) = 0;
  // record the observable state without changing it
  virtual void observe(Obs &o) = 0;
  // write with the real RestartWriter, followed by the sentinel
  virtual void dump(const VCase &c, RestartWriter &w) = 0;
  // destroy the current object (if any) and restore from the reader
  virtual void restore(const VCase &c, RestartReader &r) = 0;
  virtual void destroy() = 0;
  // files the component writes into its working directory
  virtual std::vector<std::string> outfiles(const VCase &c) { return {}; }
  // number of leading bytes of a dump that precede the 8-byte word grid
  virtual size_t header(const std::string &dump) { return 0; }
};

void dump_to(Component &x, const VCase &c, const std::string &file) {
  RestartWriter w(file);
  x.dump(c, w);
  w.write(SENTINEL);
}

// the restore chain.  k[j] = number of history calls done before dump j,
// over[j] = calls done after dump j before the stop.
struct ChainResult {
  // known class "a double is re-derived on restart and differs by rounding":
  // if allowed, such deviations are recorded and the comparison goes on, so
  // that the search continues behind the known defect
  bool tolerate_rounding = false;
  std::string rounding_msg; // first tolerated deviation
  bool changed_after_last = false;  // state changed after the last restore point
  bool changed_after_first = false; // ... after the first
  bool changed_ever = false;
};

std::string run_chain(const VCase &c, const std::string &dir, size_t N,
                      const std::vector<int64_t> &k, const std::vector<int64_t> &over,
                      const std::function<Component *()> &make, ChainResult &cr) {
  const size_t n = k.size();
  // ------------------------------------------------ uninterrupted object
  const std::string od = dir + "/o";
  mkdir(od.c_str(), 0777);
  for (size_t j = 0; j < n; ++j)
    mkdir((dir + fmt("/r%zu", j + 1)).c_str(), 0777);
  cd(od);
  std::unique_ptr<Component> O(make());
  phase("construct");
  O->construct(c);
  const std::vector<std::string> files = O->outfiles(c);
  std::vector<Obs> rec(N);
  Obs init;
  O->observe(init);
  const size_t copy_at = std::min<size_t>(N, (size_t)(k[0] + over[0]));
  auto copy_files = [&](const std::string &from, const std::string &to) {
    for (auto &f : files)
      copy_file(from + "/" + f, to + "/" + f);
  };
  for (size_t i = 0; i <= N; ++i) {
    for (size_t j = 0; j < n; ++j)
      if ((size_t)k[j] == i && (j == 0 || k[j] != k[j - 1])) {
        phase(fmt("uninterrupted: dump before call %zu", i));
        dump_to(*O, c, dir + fmt("/odump%zu", j + 1));
      }
    if (i == copy_at)
      copy_files(od, dir + "/r1");
    if (i == N)
      break;
    phase(fmt("uninterrupted: history call %zu", i));
    O->step(c, i, rec[i]);
  }
  for (size_t j = 1; j < n; ++j)
    if (k[j] == k[j - 1])
      copy_file(dir + fmt("/odump%zu", j), dir + fmt("/odump%zu", j + 1));
  // state before call i: the initial observation or the record of call i-1
  for (size_t i = 0; i < N; ++i) {
    const Obs &before = i == 0 ? init : rec[i - 1];
    if (!state_equal(before, rec[i])) {
      cr.changed_ever = true;
      if (i >= (size_t)k[0])
        cr.changed_after_first = true;
      if (i >= (size_t)k[n - 1])
        cr.changed_after_last = true;
    }
  }
  // ------------------------------------------------ chain of restored objects
  std::string source = dir + "/odump1";
  std::unique_ptr<Component> R;
  for (size_t j = 0; j < n; ++j) {
    const std::string rd = dir + fmt("/r%zu", j + 1);
    cd(rd);
    if (R) {
      phase(fmt("destroy restored object %zu", j));
      R->destroy();
    }
    R.reset(make());
    {
      phase(fmt("restore #%zu (from the dump taken before call %lld)", j + 1, (long long)k[j]));
      RestartReader r(source);
      R->restore(c, r);
      const uint64_t s = r.read<uint64_t>();
      if (s != SENTINEL)
        return fmt("restore #%zu: the restart constructor did not consume exactly the bytes "
                   "write_restart_file wrote (word after the component is %016llx instead of the "
                   "sentinel)",
                   j + 1, (unsigned long long)s);
    }
    {
      phase(fmt("second write of restored object #%zu", j + 1));
      const std::string again = rd + "/again.dump";
      dump_to(*R, c, again);
      const std::string a = slurp(source), b = slurp(again);
      if (a != b) {
        bool ronly;
        const std::string m =
            fmt("write -> read -> write is not the identity (restore #%zu, dump taken before "
                "call %lld): %s",
                j + 1, (long long)k[j], bytediff(a, b, R->header(a), &ronly).c_str());
        if (!(ronly && cr.tolerate_rounding))
          return m;
        if (cr.rounding_msg.empty())
          cr.rounding_msg = m;
      }
    }
    const bool last = j + 1 == n;
    const size_t stop = last ? N : std::min<size_t>(N, (size_t)(k[j + 1] + over[j + 1]));
    for (size_t i = (size_t)k[j]; i <= stop; ++i) {
      if (!last && i == (size_t)k[j + 1]) {
        phase(fmt("restored object #%zu: dump before call %zu", j + 1, i));
        source = dir + fmt("/rdump%zu", j + 2);
        dump_to(*R, c, source);
        const std::string a = slurp(dir + fmt("/odump%zu", j + 2)), b = slurp(source);
        if (a != b) {
          bool ronly;
          const std::string m =
              fmt("the dump written by restored object #%zu before call %zu differs from the "
                  "dump of the uninterrupted object at the same point: %s",
                  j + 1, i, bytediff(a, b, R->header(a), &ronly).c_str());
          if (!(ronly && cr.tolerate_rounding))
            return m;
          if (cr.rounding_msg.empty())
            cr.rounding_msg = m;
        }
      }
      if (i == stop)
        break;
      phase(fmt("restored object #%zu: history call %zu", j + 1, i));
      Obs o;
      R->step(c, i, o);
      bool ronly;
      const std::string d = obsdiff(rec[i], o, &ronly);
      if (!d.empty()) {
        if (getenv("VERIF_DEBUG")) {
          for (size_t q = 0; q < std::max(rec[i].x.size(), o.x.size()); ++q)
            fprintf(stderr, "  %-40s %.17g | %-40s %.17g\n",
                    q < rec[i].x.size() ? rec[i].name(q).c_str() : "-",
                    q < rec[i].x.size() ? rec[i].x[q] : 0.,
                    q < o.x.size() ? o.name(q).c_str() : "-", q < o.x.size() ? o.x[q] : 0.);
        }
        const std::string m =
            fmt("after history call %zu (restore #%zu from the dump before call %lld): %s", i,
                j + 1, (long long)k[j], d.c_str());
        if (!(ronly && cr.tolerate_rounding))
          return m;
        if (cr.rounding_msg.empty())
          cr.rounding_msg = m;
      }
    }
    if (!last)
      copy_files(rd, dir + fmt("/r%zu", j + 2));
    else {
      phase("compare output files");
      for (auto &f : files) {
        bool oka, okb;
        const std::string a = slurp(od + "/" + f, &oka), b = slurp(rd + "/" + f, &okb);
        if (oka != okb)
          return fmt("output file %s exists only for %s", f.c_str(),
                     oka ? "the uninterrupted object" : "the restored object");
        if (a != b)
          return fmt("output file %s of the restarted chain differs from the uninterrupted "
                     "one at the end of the history: %s",
                     f.c_str(), bytediff(a, b).c_str());
      }
    }
  }
  phase("destroy");
  R->destroy();
  O->destroy();
  return "";
}

// generated restore chain: k sorted in [0,N], overruns
void gen_chain(VCase &c, int N) {
  const int n = vr::weighted({5, 3, 2}) + 1;
  std::vector<int64_t> k(n), over(n);
  for (int j = 0; j < n; ++j)
    k[j] = vr::coin(0.12) ? (vr::coin() ? 0 : N) : vr::irange(0, std::max(0, N - 1));
  std::sort(k.begin(), k.end());
  // a restored object that is dumped again at once
  if (n > 1 && vr::coin(0.2))
    k[1] = k[0];
  std::sort(k.begin(), k.end());
  for (int j = 0; j < n; ++j)
    over[j] = vr::coin(0.6) ? 0 : vr::irange(1, 3);
  c.I("k", k);
  c.I("over", over);
}
void chain_labels(const VCase &c, size_t N, VResult &r) {
  const auto &k = c.iv("k");
  const auto &over = c.iv("over");
  r.label(fmt("chain-%zu", k.size()));
  bool ov = false, imm = false;
  for (size_t j = 0; j < k.size(); ++j) {
    ov = ov || (over[j] > 0 && (size_t)k[j] < N);
    if (j && k[j] == k[j - 1])
      imm = true;
  }
  if (ov)
    r.label("overrun-after-dump");
  if (imm)
    r.label("dump-right-after-restore");
  if (k[0] == 0)
    r.label("restore-at-start");
  if ((size_t)k.back() == N)
    r.label("restore-at-end");
}

// ===========================================================================
// 1. photon source distributions
// ===========================================================================
enum SrcType { CAPRONI = 0, DISCPATCH, UNIFORMRANDOM, SUPERNOVA, SINGLESTAR, ASCIIFILE };
const char *src_name[] = {"Caproni",         "DiscPatch",  "UniformRandom",
                          "SingleSupernova", "SingleStar", "AsciiFile"};

struct SrcComponent : public Component {
  PhotonSourceDistribution *_d = nullptr;
  double _t = 0.;

  virtual void construct(const VCase &c) {
    spit("params.yml", c.s("yaml"));
    if (c.i("type") == ASCIIFILE)
      spit("sources.yml", c.s("sources"));
    ParameterFile params("params.yml");
    _d = PhotonSourceDistributionFactory::generate(params, nullptr);
    _t = c.d("t0");
  }
  virtual void destroy() {
    delete _d;
    _d = nullptr;
  }
  virtual ~SrcComponent() {}

  // one simulation step, in the order of
  // TaskBasedRadiationHydrodynamicsSimulation.cpp: source update of the
  // radiation step, stellar feedback, time advance
  virtual void step(const VCase &c, size_t i, Obs &o) {
    _t = c.d("time", i);
    const int64_t upd = c.i("upd", i), fb = c.i("fb", i);
    if (upd) {
      const bool ch = _d->update(_t);
      o.addi("!update() returned", ch);
    }
    if (fb) {
      const bool df = _d->do_stellar_feedback(_t);
      o.addi("!do_stellar_feedback() returned", df);
      if (df) {
        const auto &bx = c.dv("fbbox");
        const double box[6] = {bx[0], bx[1], bx[2], bx[3], bx[4], bx[5]};
        HydroDensitySubGrid sub(box, CoordinateVector<int_fast32_t>(c.i("fbn", 0), c.i("fbn", 1),
                                                                    c.i("fbn", 2)));
        for (auto it = sub.hydro_begin(); it != sub.hydro_end(); ++it)
          it.get_hydro_variables().set_energy_term(0.);
        _d->add_stellar_feedback(sub);
        size_t q = 0;
        for (auto it = sub.hydro_begin(); it != sub.hydro_end(); ++it, ++q)
          o.add(fmt("!feedback energy term of cell %zu", q),
                it.get_hydro_variables().get_energy_term());
        _d->done_stellar_feedback();
      }
    }
    observe(o);
  }
  virtual void observe(Obs &o) {
    const photonsourcenumber_t n = _d->get_number_of_sources();
    o.addi("number of sources", (int64_t)n);
    o.add("total luminosity", _d->get_total_luminosity(), 2);
    for (photonsourcenumber_t s = 0; s < n; ++s) {
      const Vec p = _d->get_position(s);
      o.add(fmt("position[%u].x", (unsigned)s), p.x());
      o.add(fmt("position[%u].y", (unsigned)s), p.y());
      o.add(fmt("position[%u].z", (unsigned)s), p.z());
      o.add(fmt("weight[%u]", (unsigned)s), _d->get_weight(s), 1);
    }
  }
  virtual void dump(const VCase &c, RestartWriter &w) {
    if (c.i("viafactory"))
      PhotonSourceDistributionFactory::write_restart_file(w, *_d);
    else
      _d->write_restart_file(w);
  }
  virtual void restore(const VCase &c, RestartReader &r) {
    _tagged = c.i("viafactory");
    if (c.i("viafactory")) {
      _d = PhotonSourceDistributionFactory::restart(r, nullptr);
      return;
    }
    switch (c.i("type")) {
    case CAPRONI:
      _d = new CaproniPhotonSourceDistribution(r);
      break;
    case DISCPATCH:
      _d = new DiscPatchPhotonSourceDistribution(r);
      break;
    case UNIFORMRANDOM:
      _d = new UniformRandomPhotonSourceDistribution(r);
      break;
    case SUPERNOVA:
      _d = new SingleSupernovaPhotonSourceDistribution(r);
      break;
    case SINGLESTAR:
      _d = new SingleStarPhotonSourceDistribution(r);
      break;
    default:
      _d = new AsciiFilePhotonSourceDistribution(r);
    }
  }
  bool _tagged = false;
  virtual size_t header(const std::string &dump) {
    if (!_tagged || dump.size() < 8)
      return 0;
    uint64_t n;
    memcpy(&n, dump.data(), 8);
    return 8 + (size_t)n;
  }
  virtual std::vector<std::string> outfiles(const VCase &c) {
    if (!c.i("output"))
      return {};
    switch (c.i("type")) {
    case CAPRONI:
      return {"Caproni_source_positions.txt"};
    case DISCPATCH:
      return {"DiscPatch_source_positions.txt"};
    case UNIFORMRANDOM:
      return {"UniformRandom_source_positions.txt"};
    }
    return {};
  }
};

VCase gen_src() {
  VCase c;
  const int type = vr::weighted({30, 24, 22, 14, 5, 5});
  c.I("type", type);
  const int N = (int)vr::irange(2, 18);
  c.I("N", N);
  const bool output = type <= UNIFORMRANDOM && vr::coin(0.6);
  c.I("output", output);
  c.I("viafactory", vr::coin(0.65));
  // ------------------------------------------------ time scale and history
  // ui: the update interval of the moving distributions; for the supernova the
  // scale on which the life time is crossed
  double ui;
  if (type == CAPRONI)
    ui = vr::coin(0.15) ? vr::logu(1e14, 4e14) /* capped to 9.9e13 by the class */
                        : (vr::coin(0.3) ? 0x1p45 : vr::logu(8e12, 9.9e13));
  else
    ui = vr::coin(0.3) ? 0x1p43 : vr::logu(1e11, 1e14);
  const double uieff = type == CAPRONI ? std::min(ui, 9.9e13) : ui;
  double t0 = 0.;
  if (type <= UNIFORMRANDOM && vr::coin(0.5))
    t0 = vr::coin(0.5) ? uieff * (double)vr::irange(0, 12) : uieff * vr::uni(0., 12.);
  c.D("t0", t0);
  std::vector<double> time(N);
  std::vector<int64_t> upd(N), fb(N);
  double t = t0;
  for (int i = 0; i < N; ++i) {
    // time of the call (the simulation calls update(current_time) with a
    // non-decreasing time)
    double dt;
    switch (vr::weighted({2, 4, 4, 3, 4})) {
    case 0:
      dt = 0.;
      break;
    case 1:
      dt = uieff * vr::uni(0., 0.6);
      break;
    case 2:
      dt = uieff * vr::uni(0.6, 1.6);
      break;
    case 3:
      dt = uieff * (double)vr::irange(1, 3);
      break;
    default:
      dt = uieff * vr::uni(1.6, 7.);
    }
    t += dt;
    time[i] = t;
    upd[i] = vr::coin(0.85);
    fb[i] = vr::coin(type == SUPERNOVA ? 0.6 : 0.25);
  }
  c.D("time", time);
  c.I("upd", upd);
  c.I("fb", fb);
  gen_chain(c, N);
  // ------------------------------------------------ feedback subgrid
  const double L = vr::logu(1e15, 1e18);
  const double fbbox[6] = {-L * vr::uni(0.1, 1.),      -L * vr::uni(0.1, 1.),
                           -L * vr::uni(0.1, 1.),      L * vr::uni(1.1, 2.),
                           L * vr::uni(1.1, 2.),       L * vr::uni(1.1, 2.)};
  c.D("fbbox", std::vector<double>(fbbox, fbbox + 6));
  c.I("fbn", std::vector<int64_t>{vr::irange(1, 3), vr::irange(1, 3), vr::irange(1, 3)});
  // ------------------------------------------------ parameters
  std::string y = "PhotonSourceDistribution:\n";
  y += std::string("  type: ") + src_name[type] + "\n";
  const int64_t seed = vr::irange(0, 100000);
  switch (type) {
  case CAPRONI: {
    const double norm = vr::coin(0.08) ? 1. : vr::logu(0.004, 0.12);
    y += "  number function norm: " + num(norm) + "\n";
    const double uvnorm = vr::coin(0.3) ? 1. : vr::logu(0.1, 10.);
    c.D("uvnorm", uvnorm);
    y += "  UV luminosity norm: " + num(uvnorm) + "\n";
    const double snlim = vr::coin(0.5) ? 8. : vr::uni(5., 12.);
    y += "  SN mass limit: " + num(snlim, "Msol") + "\n";
    y += "  OB mass limit: " + num(vr::coin(0.3) ? 20. : vr::uni(6., 60.), "Msol") + "\n";
    y += "  stellar mass limit: " + num(vr::coin(0.3) ? 100. : vr::uni(60., 150.), "Msol") + "\n";
    y += "  IMF slope: " + num(vr::coin(0.3) ? -2.3 : vr::uni(-3., -1.5)) + "\n";
    y += fmt("  random seed: %lld\n", (long long)seed);
    y += "  update interval: " + num(ui, "s") + "\n";
    y += "  starting time: " + num(t0, "s") + "\n";
    y += "  boost factor: " + num(vr::logu(0.1, 10.)) + "\n";
    y += std::string("  output sources: ") + (output ? "true" : "false") + "\n";
    break;
  }
  case DISCPATCH: {
    y += "  source lifetime: " + num(ui * vr::logu(0.6, 25.), "s") + "\n";
    y += "  source luminosity: " + num(vr::logu(1e46, 1e50), "s^-1") + "\n";
    y += fmt("  average number of sources: %lld\n",
             (long long)(vr::coin(0.5) ? vr::irange(0, 3) : vr::irange(4, 14)));
    y += "  anchor x: " + num(-vr::logu(1e18, 1e20), "m") + "\n";
    y += "  sides x: " + num(vr::logu(1e18, 2e20), "m") + "\n";
    y += "  anchor y: " + num(-vr::logu(1e18, 1e20), "m") + "\n";
    y += "  sides y: " + num(vr::logu(1e18, 2e20), "m") + "\n";
    y += "  origin z: " + num(vr::uni(-1e18, 1e18), "m") + "\n";
    y += "  scaleheight z: " + num(vr::logu(1e17, 5e18), "m") + "\n";
    y += fmt("  random seed: %lld\n", (long long)seed);
    y += "  update interval: " + num(ui, "s") + "\n";
    y += "  starting time: " + num(t0, "s") + "\n";
    y += std::string("  output sources: ") + (output ? "true" : "false") + "\n";
    break;
  }
  case UNIFORMRANDOM: {
    y += "  source lifetime: " + num(ui * vr::logu(0.6, 20.), "s") + "\n";
    y += "  source luminosity: " + num(vr::logu(1e46, 1e50), "s^-1") + "\n";
    y += fmt("  number of sources: %lld\n",
             (long long)(vr::coin(0.5) ? vr::irange(0, 3) : vr::irange(4, 12)));
    const double a[3] = {-vr::logu(1e16, 1e18), -vr::logu(1e16, 1e18), -vr::logu(1e16, 1e18)};
    const double s[3] = {vr::logu(1e16, 3e18), vr::logu(1e16, 3e18), vr::logu(1e16, 3e18)};
    y += "  box anchor: " + vec3(a, "m") + "\n";
    y += "  box sides: " + vec3(s, "m") + "\n";
    y += fmt("  random seed: %lld\n", (long long)seed);
    y += "  update interval: " + num(ui, "s") + "\n";
    y += "  starting time: " + num(t0, "s") + "\n";
    y += std::string("  output sources: ") + (output ? "true" : "false") + "\n";
    break;
  }
  case SUPERNOVA: {
    // inside the feedback subgrid most of the time
    double p[3];
    for (int a = 0; a < 3; ++a)
      p[a] = vr::coin(0.85) ? fbbox[a] + fbbox[3 + a] * vr::uni(0., 1.)
                            : fbbox[a] + fbbox[3 + a] * vr::uni(1.01, 2.);
    y += "  position: " + vec3(p, "m") + "\n";
    // life time crossed somewhere in the history, sometimes exactly at a call
    double life;
    const int w = vr::weighted({5, 3, 1, 1});
    if (w == 0)
      life = time[0] + (time[N - 1] - time[0]) * vr::uni(0., 1.);
    else if (w == 1)
      life = time[vr::irange(0, N - 1)];
    else if (w == 2)
      life = 0.;
    else
      life = time[N - 1] * 2. + 1.;
    y += "  lifetime: " + num(life, "s") + "\n";
    y += "  luminosity: " + num(vr::coin(0.15) ? 0. : vr::logu(1e46, 1e50), "s^-1") + "\n";
    y += "  energy: " + num(vr::logu(1e42, 1e45), "J") + "\n";
    break;
  }
  case SINGLESTAR: {
    const double p[3] = {vr::uni(-1e18, 1e18), vr::uni(-1e18, 1e18), vr::uni(-1e18, 1e18)};
    y += "  position: " + vec3(p, "m") + "\n";
    y += "  luminosity: " + num(vr::logu(1e46, 1e50), "s^-1") + "\n";
    break;
  }
  default: {
    y += "  filename: sources.yml\n";
    const int ns = (int)vr::irange(1, 6);
    std::string s = fmt("number of sources: %d\n", ns);
    for (int q = 0; q < ns; ++q) {
      const double p[3] = {vr::uni(-1e18, 1e18), vr::uni(-1e18, 1e18), vr::uni(-1e18, 1e18)};
      s += fmt("source[%d]:\n", q);
      s += "  position: " + vec3(p, "m") + "\n";
      s += "  luminosity: " + num(vr::logu(1e46, 1e50), "s^-1") + "\n";
    }
    c.S("sources", s);
  }
  }
  c.S("yaml", y);
  return c;
}

// Known class caproni_stale_ob_indices, decided independently of the restart
// code from the source log of a twin object: evolve_stellar_population() only
// raises _Oflag when a LUMINOUS star dies or is born, so when a non-luminous
// star is erased from the vectors and update() returns false, _OB_indices
// still holds the old (now shifted) positions.  The restart constructor
// rebuilds the index list, so the restarted object and the uninterrupted one
// disagree from that call on.  Returns the index of the first such history
// call (N if there is none).
size_t caproni_stale_from(const VCase &c, const std::string &dir) {
  const size_t N = (size_t)c.i("N");
  const std::string td = dir + "/twin";
  mkdir(td.c_str(), 0777);
  cd(td);
  std::string y = c.s("yaml");
  const std::string off = "output sources: false";
  const size_t q = y.find(off);
  if (q != std::string::npos)
    y.replace(q, off.size(), "output sources: true");
  spit("params.yml", y);
  ParameterFile params("params.yml");
  std::unique_ptr<PhotonSourceDistribution> d(
      PhotonSourceDistributionFactory::generate(params, nullptr));
  std::map<long, double> lum;
  size_t offset = 0;
  // returns true if a non-luminous star died in the new part of the log
  auto parse_new = [&]() {
    const std::string all = slurp("Caproni_source_positions.txt");
    std::istringstream in(all.substr(std::min(offset, all.size())));
    offset = all.size();
    std::string line;
    bool nonlum_death = false;
    while (std::getline(in, line)) {
      if (line.empty() || line[0] == '#')
        continue;
      std::istringstream l(line);
      double t, x, yy, z, lu, life;
      long ev, idx;
      l >> t >> x >> yy >> z >> ev >> idx >> lu >> life;
      if (ev == 1)
        lum[idx] = lu;
      else if (ev == 2 && !(lum[idx] > 0.))
        nonlum_death = true;
    }
    return nonlum_death;
  };
  parse_new();
  size_t stale = N;
  for (size_t i = 0; i < N; ++i) {
    if (!c.i("upd", i))
      continue;
    const bool changed = d->update(c.d("time", i));
    const bool nld = parse_new();
    if (nld && !changed) {
      stale = i;
      break;
    }
  }
  return stale;
}

VResult body_src(const VCase &c, const std::string &dir) {
  VResult r;
  const int type = (int)c.i("type");
  const size_t N = (size_t)c.i("N");
  r.label(src_name[type]);
  r.label(c.i("viafactory") ? "via-factory-dispatch" : "via-restart-constructor");
  if (type <= UNIFORMRANDOM)
    r.label(c.i("output") ? "source-log-on" : "source-log-off");
  chain_labels(c, N, r);
  ChainResult cr;
  // known class (matcher caproni_total_luminosity_resummed): the Caproni
  // restart constructor re-sums the total luminosity
  cr.tolerate_rounding = type == CAPRONI;
  // a single star emits at most ~1.5e50 s^-1 times the UV luminosity norm
  g_abs_scale = type == CAPRONI ? 2e50 * c.d("uvnorm") : 0.;
  const std::string full = dir + "/full";
  mkdir(full.c_str(), 0777);
  std::string e =
      run_chain(c, full, N, c.iv("k"), c.iv("over"), [] { return new SrcComponent(); }, cr);
  if (cr.changed_after_last)
    r.label("state-changes-after-last-restore");
  else if (cr.changed_ever)
    r.label("state-changes-only-before-restore");
  else
    r.label("state-never-changes");
  if (type >= SINGLESTAR) {
    r.label("static-component");
    r.nontrivial = true;
  } else
    r.nontrivial = cr.changed_after_last;
  std::string known;
  if (!e.empty() && type == CAPRONI) {
    phase("twin classification");
    const size_t stale = caproni_stale_from(c, dir);
    if (stale < N) {
      known = "caproni_stale_ob_indices";
      r.label("caproni-stale-ob-indices");
      if (vr::split_env("VERIF_KNOWN").count(known)) {
        // look behind the known defect: the same case with the history cut
        // off before the call that leaves the stale indices
        std::vector<int64_t> k2 = c.iv("k");
        for (auto &x : k2)
          x = std::min<int64_t>(x, (int64_t)stale);
        const std::string tr = dir + "/trunc";
        mkdir(tr.c_str(), 0777);
        ChainResult cr2;
        cr2.tolerate_rounding = true;
        const std::string e2 =
            run_chain(c, tr, stale, k2, c.iv("over"), [] { return new SrcComponent(); }, cr2);
        if (!e2.empty()) {
          e = "(history cut before call " + std::to_string(stale) + ") " + e2;
          known.clear();
        } else if (cr.rounding_msg.empty())
          cr.rounding_msg = cr2.rounding_msg;
      }
    }
  }
  if (!e.empty()) {
    r.known = known;
    r.fail(std::string(src_name[type]) + "PhotonSourceDistribution: " + e);
  } else if (!cr.rounding_msg.empty()) {
    r.known = "caproni_total_luminosity_resummed";
    r.fail(std::string(src_name[type]) + "PhotonSourceDistribution: " + cr.rounding_msg);
  }
  return r;
}

// known class (matcher srcdist_restart_output_file_uninitialised): the restart
// constructors of the three moving distributions leave _output_file
// uninitialised when the source log is off; the restored object then
// dereferences whatever the heap contained
void crash_hook_src(const VCase &c, const std::string &ph, VResult &r) {
  r.label(src_name[c.i("type")]);
  if (c.i("type") <= UNIFORMRANDOM && !c.i("output") &&
      (ph.find("restor") != std::string::npos || ph == "destroy"))
    r.known = "srcdist_restart_output_file_uninitialised";
}

VResult o_src(const VCase &c) {
  VResult r = isolated(c, body_src, crash_hook_src, 0x5a);
  if (!r.ok && r.known == "srcdist_restart_output_file_uninitialised" &&
      vr::split_env("VERIF_KNOWN").count(r.known)) {
    // look behind the known defect: with zero-filled objects the
    // uninitialised pointer is null, which is what the class means
    VResult r2 = isolated(c, body_src, crash_hook_src, 0x00);
    if (!r2.ok)
      return r2;
  }
  return r;
}

// ===========================================================================
// 2. subgrids and the subgrid creator (incl. copies)
// ===========================================================================
enum GridKind { G_SUB = 0, G_HSUB, G_CRE, G_HCRE };
const char *grid_name[] = {"DensitySubGrid", "HydroDensitySubGrid",
                           "DensitySubGridCreator<DensitySubGrid>",
                           "DensitySubGridCreator<HydroDensitySubGrid>"};

double pickval(const VCase &c, size_t k) {
  const auto &v = c.dv("vals");
  return v[k % v.size()];
}

void set_iv(IonizationVariables &iv, const VCase &c, size_t key) {
  iv.set_number_density(1e6 * pickval(c, key));
  iv.set_temperature(1e4 * pickval(c, key + 1));
  for (int ion = 0; ion < NUMBER_OF_IONNAMES; ++ion) {
    iv.set_ionic_fraction(ion, 0.9 * pickval(c, key + 2 + ion) / 2.);
    iv.set_mean_intensity(ion, pickval(c, key + 3 + 2 * ion));
  }
  for (int q = 0; q < NUMBER_OF_REEMISSIONPROBABILITIES; ++q)
    iv.set_reemission_probability(q, pickval(c, key + 5 + q) / 2.);
  for (int q = 0; q < NUMBER_OF_HEATINGTERMS; ++q)
    iv.set_heating(q, pickval(c, key + 7 + q));
  iv.set_cosmic_ray_factor(pickval(c, key + 11));
}
void set_hv(HydroVariables &hv, const VCase &c, size_t key) {
  hv.set_primitives_density(1e-20 * pickval(c, key));
  hv.set_primitives_velocity(
      Vec(1e3 * pickval(c, key + 1), -1e3 * pickval(c, key + 2), 1e3 * pickval(c, key + 3)));
  hv.set_primitives_pressure(1e-12 * pickval(c, key + 4));
  hv.set_conserved_mass(1e30 * pickval(c, key + 5));
  hv.set_conserved_momentum(
      Vec(1e33 * pickval(c, key + 6), 1e33 * pickval(c, key + 7), -1e33 * pickval(c, key + 8)));
  hv.set_conserved_total_energy(1e38 * pickval(c, key + 9));
  for (int q = 0; q < 5; ++q) {
    hv.delta_conserved(q) = pickval(c, key + 10 + q);
    hv.primitive_gradients(q) =
        Vec(pickval(c, key + 11 + q), pickval(c, key + 13 + q), pickval(c, key + 17 + q));
  }
  hv.set_gravitational_acceleration(
      Vec(pickval(c, key + 19), pickval(c, key + 23), pickval(c, key + 29)));
  hv.set_energy_rate_term(pickval(c, key + 31));
  hv.set_energy_term(pickval(c, key + 37));
}
void obs_iv(Obs &o, const IonizationVariables &iv) {
  o.push(iv.get_number_density());
  o.push(iv.get_temperature());
  for (int ion = 0; ion < NUMBER_OF_IONNAMES; ++ion) {
    o.push(iv.get_ionic_fraction(ion));
    o.push(iv.get_mean_intensity(ion));
  }
  for (int q = 0; q < NUMBER_OF_REEMISSIONPROBABILITIES; ++q)
    o.push(iv.get_reemission_probability(q));
  for (int q = 0; q < NUMBER_OF_HEATINGTERMS; ++q)
    o.push(iv.get_heating(q));
  o.push(iv.get_cosmic_ray_factor());
}
void obs_hv(Obs &o, const HydroVariables &hv) {
  for (int q = 0; q < 5; ++q) {
    o.push(hv.primitives(q));
    o.push(hv.conserved(q));
    o.push(hv.delta_conserved(q));
    const Vec g = hv.primitive_gradients(q);
    o.push(g.x());
    o.push(g.y());
    o.push(g.z());
  }
  const Vec a = hv.get_gravitational_acceleration();
  o.push(a.x());
  o.push(a.y());
  o.push(a.z());
  o.push(hv.get_energy_rate_term());
  o.push(hv.get_energy_term());
}

// everything a caller can see of a subgrid
template <class SG> void obs_subgrid_hydro(Obs &, SG &, const std::string &) {}
template <> void obs_subgrid_hydro<HydroDensitySubGrid>(Obs &o, HydroDensitySubGrid &sg,
                                                        const std::string &tag) {
  size_t q = 0;
  for (auto it = sg.hydro_begin(); it != sg.hydro_end(); ++it, ++q) {
    o.group(tag + fmt(" cell %zu hydro variables", q));
    obs_hv(o, it.get_hydro_variables());
    o.push(it.get_volume());
    const Vec m = it.get_cell_midpoint();
    o.push(m.x());
    o.push(m.y());
    o.push(m.z());
  }
}
template <class SG> void obs_subgrid(Obs &o, SG &sg, const std::string &tag) {
  o.group(tag + " neighbours");
  for (int d = 0; d < TRAVELDIRECTION_NUMBER; ++d)
    o.push((double)sg.get_neighbour(d));
  o.group(tag + " owning thread");
  o.push((double)sg.get_owning_thread());
  o.group(tag + " box");
  double box[6];
  sg.get_grid_box(box);
  for (int q = 0; q < 6; ++q)
    o.push(box[q]);
  o.group(tag + " number of cells");
  o.push((double)sg.get_number_of_cells());
  size_t q = 0;
  for (auto it = sg.begin(); it != sg.end(); ++it, ++q) {
    o.group(tag + fmt(" cell %zu ionization variables", q));
    obs_iv(o, it.get_ionization_variables());
    o.group(tag + fmt(" cell %zu geometry", q));
    const Vec m = it.get_cell_midpoint();
    o.push(m.x());
    o.push(m.y());
    o.push(m.z());
    o.push(it.get_volume());
  }
  obs_subgrid_hydro(o, sg, tag);
}

// shoot one packet through a subgrid with the real interact()
template <class SG>
void shoot(SG &sg, const VCase &c, size_t i, Obs &o, const std::string &tag) {
  double box[6];
  sg.get_grid_box(box);
  const auto &d = c.dv("opd");
  const double *a = &d[i * 8];
  PhotonPacket ph;
  ph.set_position(Vec(box[0] + box[3] * a[0], box[1] + box[4] * a[1], box[2] + box[5] * a[2]));
  Vec dir(a[3], a[4], a[5]);
  const double nrm = dir.norm();
  dir = nrm > 0. ? dir / nrm : Vec(1., 0., 0.);
  ph.set_direction(dir);
  for (int ion = 0; ion < NUMBER_OF_IONNAMES; ++ion)
    ph.set_photoionization_cross_section(ion, 1e-22 * (1. + ion));
  ph.set_weight(a[6]);
  ph.set_energy(1.);
  ph.set_target_optical_depth(a[7]);
  ph.set_type(PHOTONTYPE_PRIMARY);
  ph.set_scatter_counter(0);
  const int out = (int)sg.interact(ph, TRAVELDIRECTION_INSIDE);
  o.group("!" + tag + " interact(): output direction, end position, remaining optical depth");
  o.push(out);
  o.push(ph.get_position().x());
  o.push(ph.get_position().y());
  o.push(ph.get_position().z());
  o.push(ph.get_target_optical_depth());
}

template <class SG> void modify_hydro(SG &, const VCase &, size_t, size_t) {}
template <>
void modify_hydro<HydroDensitySubGrid>(HydroDensitySubGrid &sg, const VCase &c, size_t cell,
                                       size_t key) {
  auto it = sg.hydro_begin() + (uint_fast32_t)(cell % sg.get_number_of_cells());
  set_hv(it.get_hydro_variables(), c, key);
}

// the gradient sweep of a hydro step: the place where the inverse cell size
// enters the hydro state directly (slope limiter bookkeeping is per step and
// not part of a dump, so apply_slope_limiter is not called)
template <class SG> void gradient_sweep(SG &) {}
template <> void gradient_sweep<HydroDensitySubGrid>(HydroDensitySubGrid &sg) {
  static const Hydro hydro(5. / 3., 100., 1.e4, 1.e99, false);
  sg.inner_gradient_sweep(hydro);
}

// generated density function for the creator
struct GenDensity : public DensityFunction {
  const VCase &_c;
  size_t _n = 0;
  GenDensity(const VCase &c) : _c(c) {}
  virtual DensityValues operator()(const Cell &) {
    DensityValues v;
    v.set_number_density(1e6 * pickval(_c, _n));
    v.set_temperature(1e4 * pickval(_c, _n + 1));
    for (int ion = 0; ion < NUMBER_OF_IONNAMES; ++ion)
      v.set_ionic_fraction(ion, pickval(_c, _n + 2 + ion) / 2.);
    v.set_velocity(Vec(pickval(_c, _n + 3), pickval(_c, _n + 5), pickval(_c, _n + 7)));
    _n += 3;
    return v;
  }
};

enum GridOp {
  OP_PHOTON = 0,
  OP_CELL,
  OP_LINK,
  OP_HYDRO,
  OP_COUNTERS,
  OP_COPYPROPS,
  OP_RECOPY,
  OP_GRADIENT
};

template <class SG> struct SubComponent : public Component {
  SG *_g = nullptr;
  virtual void construct(const VCase &c) {
    const auto &b = c.dv("box");
    const double box[6] = {b[0], b[1], b[2], b[3], b[4], b[5]};
    _g = new SG(box, CoordinateVector<int_fast32_t>(c.i("ncell", 0), c.i("ncell", 1),
                                                    c.i("ncell", 2)));
    for (int d = 0; d < TRAVELDIRECTION_NUMBER; ++d)
      _g->set_neighbour(d, (uint_fast32_t)(d == 0 ? 0 : (d % 3 == 0 ? NEIGHBOUR_OUTSIDE : d * 7)));
    _g->set_owning_thread((int)c.i("thread"));
    size_t q = 0;
    for (auto it = _g->begin(); it != _g->end(); ++it, ++q) {
      set_iv(it.get_ionization_variables(), c, 13 * q);
      modify_hydro(*_g, c, q, 41 * q + 5);
    }
  }
  virtual void destroy() {
    delete _g;
    _g = nullptr;
  }
  virtual void observe(Obs &o) { obs_subgrid(o, *_g, "subgrid"); }
  virtual void step(const VCase &c, size_t i, Obs &o) {
    const int64_t op = c.i("op", i), arg = c.i("oparg", i);
    switch (op) {
    case OP_PHOTON:
      shoot(*_g, c, i, o, "subgrid");
      break;
    case OP_CELL: {
      auto it = _g->begin() + (uint_fast32_t)(arg % (int64_t)_g->get_number_of_cells());
      set_iv(it.get_ionization_variables(), c, (size_t)(arg * 3 + i));
      break;
    }
    case OP_LINK:
      if (arg % 2)
        _g->set_owning_thread((int)(arg % 13));
      else
        _g->set_neighbour((int)(arg % TRAVELDIRECTION_NUMBER), (uint_fast32_t)(arg * 11));
      break;
    case OP_GRADIENT:
      gradient_sweep(*_g);
      break;
    default:
      modify_hydro(*_g, c, (size_t)arg, (size_t)(arg + 7 * i));
    }
    observe(o);
  }
  virtual void dump(const VCase &, RestartWriter &w) { _g->write_restart_file(w); }
  virtual void restore(const VCase &, RestartReader &r) { _g = new SG(r); }
};

template <class SG> struct CreatorComponent : public Component {
  DensitySubGridCreator<SG> *_g = nullptr;
  std::vector<uint_fast8_t> levels(const VCase &c, const char *name) {
    const auto &l = c.iv(name);
    const size_t n = _g->number_of_original_subgrids();
    std::vector<uint_fast8_t> lev(n);
    for (size_t q = 0; q < n; ++q)
      lev[q] = (uint_fast8_t)l[q % l.size()];
    // the copy restriction the simulation imposes: neighbouring levels differ
    // by at most one
    uint_fast8_t mx = 0;
    for (auto x : lev)
      mx = std::max(mx, x);
    size_t ngbs[6];
    while (mx > 0) {
      for (size_t q = 0; q < n; ++q)
        if (lev[q] == mx) {
          const uint_fast8_t nn = _g->get_neighbours(q, ngbs);
          for (uint_fast8_t w = 0; w < nn; ++w)
            if (lev[ngbs[w]] < lev[q] - 1)
              lev[ngbs[w]] = lev[q] - 1;
        }
      --mx;
    }
    return lev;
  }
  virtual void construct(const VCase &c) {
    const auto &b = c.dv("box");
    const Box<> box(Vec(b[0], b[1], b[2]), Vec(b[3], b[4], b[5]));
    const CoordinateVector<int_fast32_t> nsub(c.i("nsub", 0), c.i("nsub", 1), c.i("nsub", 2));
    const CoordinateVector<int_fast32_t> ncell(c.i("ncell", 0) * nsub[0], c.i("ncell", 1) * nsub[1],
                                               c.i("ncell", 2) * nsub[2]);
    _g = new DensitySubGridCreator<SG>(
        box, ncell, nsub,
        CoordinateVector<bool>(c.i("periodic", 0), c.i("periodic", 1), c.i("periodic", 2)));
    GenDensity f(c);
    _g->initialize(f);
    std::vector<uint_fast8_t> lev = levels(c, "levels");
    _g->create_copies(lev);
  }
  virtual void destroy() {
    delete _g;
    _g = nullptr;
  }
  virtual void observe(Obs &o) {
    o.group("number of original / actual subgrids / cells");
    o.push((double)_g->number_of_original_subgrids());
    o.push((double)_g->number_of_actual_subgrids());
    o.push((double)_g->number_of_cells());
    o.group("box and layout");
    const Box<> b = _g->get_box();
    for (int q = 0; q < 3; ++q) {
      o.push(b.get_anchor()[q]);
      o.push(b.get_sides()[q]);
      o.push((double)_g->get_subgrid_layout()[q]);
      o.push((double)_g->get_subgrid_cell_layout()[q]);
    }
    const size_t n = _g->number_of_actual_subgrids();
    for (size_t q = 0; q < n; ++q)
      obs_subgrid(o, *_g->get_subgrid(q), fmt("subgrid %zu", q));
    o.group("copies of each original (first, last)");
    for (size_t q = 0; q < _g->number_of_original_subgrids(); ++q) {
      auto pr = _g->get_subgrid(q).get_copies();
      o.push((double)pr.first.get_index());
      o.push((double)pr.second.get_index());
    }
    o.group("neighbour lists of the originals");
    size_t ngbs[6];
    for (size_t q = 0; q < _g->number_of_original_subgrids(); ++q) {
      const uint_fast8_t nn = _g->get_neighbours(q, ngbs);
      o.push(nn);
      for (uint_fast8_t w = 0; w < nn; ++w)
        o.push((double)ngbs[w]);
    }
  }
  virtual void step(const VCase &c, size_t i, Obs &o) {
    const int64_t op = c.i("op", i), arg = c.i("oparg", i);
    const size_t n = _g->number_of_actual_subgrids();
    SG &sg = *_g->get_subgrid((size_t)arg % n);
    switch (op) {
    case OP_PHOTON:
      shoot(sg, c, i, o, fmt("subgrid %zu", (size_t)arg % n));
      break;
    case OP_CELL: {
      auto it = sg.begin() + (uint_fast32_t)((arg / 7) % (int64_t)sg.get_number_of_cells());
      set_iv(it.get_ionization_variables(), c, (size_t)(arg * 3 + i));
      break;
    }
    case OP_LINK:
      sg.set_owning_thread((int)(arg % 13));
      break;
    case OP_HYDRO:
      modify_hydro(sg, c, (size_t)(arg / 7), (size_t)(arg + 7 * i));
      break;
    case OP_COUNTERS:
      _g->update_original_counters();
      break;
    case OP_COPYPROPS:
      _g->update_copy_properties();
      break;
    case OP_GRADIENT:
      gradient_sweep(sg);
      break;
    default: {
      std::vector<uint_fast8_t> lev = levels(c, arg % 2 ? "levels2" : "levels");
      _g->update_copies(lev);
    }
    }
    // position lookups
    const auto &d = c.dv("opd");
    const Box<> b = _g->get_box();
    const Vec p(b.get_anchor()[0] + b.get_sides()[0] * d[i * 8],
                b.get_anchor()[1] + b.get_sides()[1] * d[i * 8 + 1],
                b.get_anchor()[2] + b.get_sides()[2] * d[i * 8 + 2]);
    o.group("!get_subgrid(position)");
    o.push((double)_g->get_subgrid(p).get_index());
    observe(o);
  }
  virtual void dump(const VCase &, RestartWriter &w) { _g->write_restart_file(w); }
  virtual void restore(const VCase &, RestartReader &r) { _g = new DensitySubGridCreator<SG>(r); }
};

// a length that is usually not exactly representable / divisible
double odd_length() {
  switch (vr::weighted({3, 3, 2, 2})) {
  case 0:
    return vr::pick(std::vector<double>{1.1, 0.3, 3.0856775814913673e16, 1e17, 2.2, 0.7}) *
           (double)vr::irange(1, 9);
  case 1:
    return vr::logu(1e-3, 1e19);
  case 2:
    return vr::dyadic(1., 64., 6);
  default:
    return vr::uni(0.5, 50.);
  }
}

VCase gen_grid() {
  VCase c;
  const int kind = vr::weighted({3, 3, 4, 3});
  c.I("kind", kind);
  const bool creator = kind >= G_CRE;
  std::vector<double> box(6);
  for (int a = 0; a < 3; ++a) {
    box[3 + a] = odd_length();
    box[a] = vr::coin(0.3) ? 0. : -box[3 + a] * vr::uni(0., 2.);
  }
  c.D("box", box);
  std::vector<int64_t> ncell(3), nsub(3, 1), per(3, 0);
  const int big = (int)vr::irange(0, 2);
  for (int a = 0; a < 3; ++a) {
    ncell[a] = vr::irange(1, a == big ? 4 : 2);
    if (creator) {
      nsub[a] = vr::irange(1, a == (big + 1) % 3 ? 3 : 2);
      per[a] = vr::coin(0.4);
    }
  }
  c.I("ncell", ncell);
  c.I("nsub", nsub);
  c.I("periodic", per);
  c.I("thread", vr::irange(0, 63));
  std::vector<double> vals(24);
  for (auto &v : vals)
    v = vr::coin(0.1) ? 0. : vr::uni(0.01, 2.);
  c.D("vals", vals);
  const int nlev = (int)vr::irange(1, 8);
  std::vector<int64_t> lev(nlev), lev2(nlev);
  for (int q = 0; q < nlev; ++q) {
    lev[q] = vr::weighted({6, 3, 1});
    lev2[q] = vr::weighted({6, 3, 1});
  }
  c.I("levels", lev);
  c.I("levels2", lev2);
  const int N = (int)vr::irange(2, 8);
  c.I("N", N);
  std::vector<int64_t> op(N), arg(N);
  std::vector<double> opd((size_t)N * 8);
  const bool hydro = kind == G_HSUB || kind == G_HCRE;
  for (int i = 0; i < N; ++i) {
    if (creator)
      op[i] = vr::weighted({6, 3, 1, hydro ? 3 : 0, 2, 2, 3, hydro ? 4 : 0});
    else
      op[i] = vr::weighted({6, 3, 2, hydro ? 4 : 0, 0, 0, 0, hydro ? 5 : 0});
    arg[i] = vr::irange(0, 1000);
    for (int q = 0; q < 3; ++q)
      opd[i * 8 + q] = vr::uni(0.02, 0.98);
    for (int q = 3; q < 6; ++q)
      opd[i * 8 + q] = vr::coin(0.15) ? 0. : vr::uni(-1., 1.);
    opd[i * 8 + 6] = vr::uni(0.1, 2.);
    opd[i * 8 + 7] = vr::coin(0.7) ? 1e3 : vr::logu(1e-9, 1e-3);
  }
  c.I("op", op);
  c.I("oparg", arg);
  c.D("opd", opd);
  gen_chain(c, N);
  return c;
}

VResult body_grid(const VCase &c, const std::string &dir) {
  VResult r;
  const int kind = (int)c.i("kind");
  const size_t N = (size_t)c.i("N");
  r.label(grid_name[kind]);
  chain_labels(c, N, r);
  const auto &b = c.dv("box");
  bool nonrep = false;
  for (int a = 0; a < 3; ++a) {
    const double cs = b[3 + a] / (double)(c.i("ncell", a) * c.i("nsub", a));
    if (1. / cs != (double)(c.i("ncell", a) * c.i("nsub", a)) / b[3 + a] ||
        1. / (1. / cs) != cs)
      nonrep = true;
  }
  if (nonrep)
    r.label("inverse-cell-size-not-reproducible-from-cell-size");
  if (kind >= G_CRE) {
    bool copies = false;
    for (auto l : c.iv("levels"))
      copies = copies || l > 0;
    if (copies)
      r.label("creator-with-copies");
    for (size_t i = 0; i < N; ++i)
      if (c.i("op", i) == OP_RECOPY) {
        r.label("creator-copies-rebuilt-in-history");
        break;
      }
  }
  ChainResult cr;
  std::function<Component *()> make;
  switch (kind) {
  case G_SUB:
    make = [] { return (Component *)new SubComponent<DensitySubGrid>(); };
    break;
  case G_HSUB:
    make = [] { return (Component *)new SubComponent<HydroDensitySubGrid>(); };
    break;
  case G_CRE:
    make = [] { return (Component *)new CreatorComponent<DensitySubGrid>(); };
    break;
  default:
    make = [] { return (Component *)new CreatorComponent<HydroDensitySubGrid>(); };
  }
  const std::string e = run_chain(c, dir, N, c.iv("k"), c.iv("over"), make, cr);
  if (cr.changed_after_last)
    r.label("state-changes-after-last-restore");
  else if (cr.changed_ever)
    r.label("state-changes-only-before-restore");
  else
    r.label("state-never-changes");
  r.nontrivial = cr.changed_after_last;
  if (!e.empty())
    r.fail(std::string(grid_name[kind]) + ": " + e);
  return r;
}
VResult o_grid(const VCase &c) { return isolated(c, body_grid, nullptr); }

// ===========================================================================
// 3. value classes and the parameter file
// ===========================================================================
enum ValKind { V_VEC_D = 0, V_VEC_I, V_VEC_B, V_VEC_U, V_BOX, V_IONVAR, V_HYDROVAR, V_YAML, V_PARAMS };
const char *val_name[] = {"CoordinateVector<double>",
                          "CoordinateVector<int_fast32_t>",
                          "CoordinateVector<bool>",
                          "CoordinateVector<uint_fast32_t>",
                          "Box",
                          "IonizationVariables",
                          "HydroVariables",
                          "YAMLDictionary",
                          "ParameterFile"};

// a static value: the history only reads it
struct ValueComponent : public Component {
  int _kind = 0;
  CoordinateVector<double> *_vd = nullptr;
  CoordinateVector<int_fast32_t> *_vi = nullptr;
  CoordinateVector<bool> *_vb = nullptr;
  CoordinateVector<uint_fast32_t> *_vu = nullptr;
  Box<> *_box = nullptr;
  IonizationVariables *_iv = nullptr;
  HydroVariables *_hv = nullptr;
  virtual void construct(const VCase &c) {
    _kind = (int)c.i("kind");
    const auto &d = c.dv("vals");
    const auto &n = c.iv("ints");
    switch (_kind) {
    case V_VEC_D:
      _vd = new CoordinateVector<double>(d[0], d[1], d[2]);
      break;
    case V_VEC_I:
      _vi = new CoordinateVector<int_fast32_t>(n[0], n[1], n[2]);
      break;
    case V_VEC_B:
      _vb = new CoordinateVector<bool>(n[0] & 1, n[1] & 1, n[2] & 1);
      break;
    case V_VEC_U:
      _vu = new CoordinateVector<uint_fast32_t>((uint_fast32_t)std::abs(n[0]),
                                               (uint_fast32_t)std::abs(n[1]),
                                               (uint_fast32_t)std::abs(n[2]));
      break;
    case V_BOX:
      _box = new Box<>(Vec(d[0], d[1], d[2]), Vec(d[3], d[4], d[5]));
      break;
    case V_IONVAR:
      _iv = new IonizationVariables();
      set_iv(*_iv, c, (size_t)n[0]);
      break;
    default:
      _hv = new HydroVariables();
      set_hv(*_hv, c, (size_t)n[0]);
    }
  }
  virtual void destroy() {
    delete _vd;
    delete _vi;
    delete _vb;
    delete _vu;
    delete _box;
    delete _iv;
    delete _hv;
    _vd = nullptr;
    _vi = nullptr;
    _vb = nullptr;
    _vu = nullptr;
    _box = nullptr;
    _iv = nullptr;
    _hv = nullptr;
  }
  virtual void observe(Obs &o) {
    o.group(val_name[_kind]);
    switch (_kind) {
    case V_VEC_D:
      for (int q = 0; q < 3; ++q)
        o.push((*_vd)[q]);
      break;
    case V_VEC_I:
      for (int q = 0; q < 3; ++q)
        o.push((double)(*_vi)[q]);
      break;
    case V_VEC_B:
      for (int q = 0; q < 3; ++q)
        o.push((double)(*_vb)[q]);
      break;
    case V_VEC_U:
      for (int q = 0; q < 3; ++q)
        o.push((double)(*_vu)[q]);
      break;
    case V_BOX:
      for (int q = 0; q < 3; ++q) {
        o.push(_box->get_anchor()[q]);
        o.push(_box->get_sides()[q]);
      }
      break;
    case V_IONVAR:
      obs_iv(o, *_iv);
      break;
    default:
      obs_hv(o, *_hv);
    }
  }
  virtual void step(const VCase &, size_t, Obs &o) { observe(o); }
  virtual void dump(const VCase &, RestartWriter &w) {
    switch (_kind) {
    case V_VEC_D:
      _vd->write_restart_file(w);
      break;
    case V_VEC_I:
      _vi->write_restart_file(w);
      break;
    case V_VEC_B:
      _vb->write_restart_file(w);
      break;
    case V_VEC_U:
      _vu->write_restart_file(w);
      break;
    case V_BOX:
      _box->write_restart_file(w);
      break;
    case V_IONVAR:
      _iv->write_restart_file(w);
      break;
    default:
      _hv->write_restart_file(w);
    }
  }
  virtual void restore(const VCase &c, RestartReader &r) {
    _kind = (int)c.i("kind");
    switch (_kind) {
    case V_VEC_D:
      _vd = new CoordinateVector<double>(r);
      break;
    case V_VEC_I:
      _vi = new CoordinateVector<int_fast32_t>(r);
      break;
    case V_VEC_B:
      _vb = new CoordinateVector<bool>(r);
      break;
    case V_VEC_U:
      _vu = new CoordinateVector<uint_fast32_t>(r);
      break;
    case V_BOX:
      _box = new Box<>(r);
      break;
    case V_IONVAR:
      _iv = new IonizationVariables(r);
      break;
    default:
      _hv = new HydroVariables(r);
    }
  }
};

// the parameter file / YAML dictionary: reading a value (with a default)
// records it in the used-values map, which is part of the dumped state
struct ParamComponent : public Component {
  bool _yaml = false;
  ParameterFile *_p = nullptr;
  YAMLDictionary *_y = nullptr;
  virtual void construct(const VCase &c) {
    _yaml = c.i("kind") == V_YAML;
    spit("generated.param", c.s("text"));
    if (_yaml) {
      std::ifstream f("generated.param");
      _y = new YAMLDictionary(f);
    } else
      _p = new ParameterFile("generated.param");
  }
  virtual void destroy() {
    delete _p;
    delete _y;
    _p = nullptr;
    _y = nullptr;
  }
  virtual void observe(Obs &o) {
    std::ostringstream s;
    if (_yaml) {
      _y->print_contents(s, false);
      _y->print_contents(s, true);
    } else {
      // ParameterFile::print_contents starts with a wall-clock time stamp line
      // ("# file written on ..."), which is not state: drop it
      std::ostringstream raw;
      _p->print_contents(raw);
      std::istringstream in(raw.str());
      std::string line;
      while (std::getline(in, line))
        if (line.compare(0, 17, "# file written on") != 0)
          s << line << "\n";
      for (auto it = _p->begin(); it != _p->end(); ++it)
        s << it.get_key() << " => " << it.get_value() << "\n";
    }
    o.adds("printed contents and used values", s.str());
  }
  virtual void step(const VCase &c, size_t i, Obs &o) {
    const std::string key = c.s(fmt("key%zu", i));
    const int64_t how = c.i("how", i);
    const double dd = c.d("dflt", i);
    o.group("!value read");
    if (_yaml) {
      switch (how) {
      case 0:
        o.push((double)_y->get_value<int_fast32_t>(key, (int_fast32_t)dd));
        break;
      case 1:
        o.push(_y->get_value<double>(key, dd));
        break;
      case 2:
        o.push((double)_y->get_value<bool>(key, dd > 0.5));
        break;
      case 3:
        o.adds("!string read", _y->get_value<std::string>(key, fmt("default %g", dd)));
        break;
      case 4:
        o.push(_y->get_physical_value<QUANTITY_LENGTH>(key, num(dd, "pc")));
        break;
      default: {
        const Vec v = _y->get_physical_vector<QUANTITY_LENGTH>(
            key, "[" + num(dd, "m") + ", 2. kpc, " + num(-dd, "cm") + "]");
        o.push(v.x());
        o.push(v.y());
        o.push(v.z());
      }
      }
    } else {
      switch (how) {
      case 0:
        o.push((double)_p->get_value<int_fast32_t>(key, (int_fast32_t)dd));
        break;
      case 1:
        o.push(_p->get_value<double>(key, dd));
        break;
      case 2:
        o.push((double)_p->get_value<bool>(key, dd > 0.5));
        break;
      case 3:
        o.adds("!string read", _p->get_value<std::string>(key, fmt("default %g", dd)));
        break;
      case 4:
        o.push(_p->get_physical_value<QUANTITY_LENGTH>(key, num(dd, "pc")));
        break;
      case 5: {
        const Vec v = _p->get_physical_vector<QUANTITY_LENGTH>(
            key, "[" + num(dd, "m") + ", 2. kpc, " + num(-dd, "cm") + "]");
        o.push(v.x());
        o.push(v.y());
        o.push(v.z());
        break;
      }
      default:
        _p->add_value(key, num(dd, "s"));
      }
    }
    observe(o);
  }
  virtual void dump(const VCase &, RestartWriter &w) {
    if (_yaml)
      _y->write_restart_file(w);
    else
      _p->write_restart_file(w);
  }
  virtual void restore(const VCase &c, RestartReader &r) {
    _yaml = c.i("kind") == V_YAML;
    if (_yaml)
      _y = new YAMLDictionary(r);
    else
      _p = new ParameterFile(r);
  }
};

VCase gen_value() {
  VCase c;
  const int kind = vr::weighted({2, 1, 1, 1, 2, 3, 3, 4, 6});
  c.I("kind", kind);
  std::vector<double> vals(24);
  for (auto &v : vals) {
    switch (vr::weighted({6, 1, 1, 1, 1})) {
    case 0:
      v = vr::uni(-2., 2.);
      break;
    case 1:
      v = 0.;
      break;
    case 2:
      v = -0.;
      break;
    case 3:
      v = vr::logu(1e-300, 1e300);
      break;
    default:
      v = 0x1p-1060 * (double)vr::irange(1, 1000); // subnormal
    }
  }
  c.D("vals", vals);
  c.I("ints", std::vector<int64_t>{vr::irange(-2000000000, 2000000000), vr::irange(-1000, 1000),
                                   vr::irange(0, 1)});
  int N = (int)vr::irange(1, 3);
  if (kind >= V_YAML) {
    N = (int)vr::irange(2, 10);
    // a generated key tree with typed values
    const std::vector<std::string> groups = {"DensityGrid", "SimulationBox", "Photon Source",
                                             "a", "Long Group Name With Spaces"};
    const std::vector<std::string> names = {"number of cells", "anchor", "type", "x", "value",
                                            "luminosity", "flag"};
    std::string text;
    std::vector<std::pair<std::string, int>> keys; // full key, type
    auto value_of = [&](int type) -> std::string {
      switch (type) {
      case 0:
        return fmt("%lld", (long long)vr::irange(-100000, 100000));
      case 1:
        return num(vr::coin(0.3) ? vr::logu(1e-30, 1e30) : vr::uni(-10., 10.));
      case 2:
        return vr::pick(std::vector<std::string>{"true", "false", "yes", "no", "y", "n"});
      case 3:
        return vr::pick(std::vector<std::string>{"Cartesian", "some text", "file_name.txt", "a:b"});
      case 4:
        return num(vr::uni(0.1, 100.), vr::pick(std::vector<const char *>{"m", "pc", "kpc", "cm"}));
      default: {
        const double p[3] = {vr::uni(-5., 5.), vr::uni(-5., 5.), vr::uni(-5., 5.)};
        return vec3(p, vr::pick(std::vector<const char *>{"m", "pc", "cm"}));
      }
      }
    };
    const int ng = (int)vr::irange(1, 4);
    std::set<std::string> seen;
    for (int g = 0; g < ng; ++g) {
      const std::string gn = groups[(size_t)vr::irange(0, (int64_t)groups.size() - 1)];
      if (!seen.insert(gn).second)
        continue;
      const bool top = vr::coin(0.15);
      if (!top)
        text += gn + ":\n";
      const int nk = (int)vr::irange(1, 4);
      std::set<std::string> kseen;
      for (int q = 0; q < nk; ++q) {
        const std::string kn = names[(size_t)vr::irange(0, (int64_t)names.size() - 1)];
        if (!kseen.insert(kn).second)
          continue;
        const std::string full = top ? gn + " " + kn : gn + ":" + kn;
        if (!seen.insert(full).second)
          continue;
        const int type = (int)vr::irange(0, 5);
        text += std::string(top ? "" : "  ") + (top ? gn + " " + kn : kn) + ": " + value_of(type) +
                (vr::coin(0.2) ? " # comment" : "") + "\n";
        keys.emplace_back(full, type);
      }
    }
    if (keys.empty()) {
      text += "single: 1\n";
      keys.emplace_back("single", 0);
    }
    c.S("text", text);
    std::vector<int64_t> how(N);
    std::vector<double> dflt(N);
    for (int i = 0; i < N; ++i) {
      dflt[i] = vr::coin(0.3) ? (double)vr::irange(0, 9) : vr::uni(0.1, 9.);
      if (vr::coin(0.55)) {
        // an existing key, read with its own type
        const auto &kt = keys[(size_t)vr::irange(0, (int64_t)keys.size() - 1)];
        c.S(fmt("key%d", i), kt.first);
        how[i] = kt.second;
      } else {
        // a missing key: the default is recorded as used value
        // (one name per value type: a recorded default is only read back as
        // the type it was recorded with)
        how[i] = vr::irange(0, kind == V_PARAMS ? 6 : 5);
        c.S(fmt("key%d", i), fmt("Generated Group %d:missing key %d of type %d",
                                 (int)vr::irange(0, 2), (int)vr::irange(0, 3), (int)how[i]));
      }
    }
    c.I("how", how);
    c.D("dflt", dflt);
  }
  c.I("N", N);
  gen_chain(c, N);
  return c;
}

VResult body_value(const VCase &c, const std::string &dir) {
  VResult r;
  const int kind = (int)c.i("kind");
  const size_t N = (size_t)c.i("N");
  r.label(val_name[kind]);
  chain_labels(c, N, r);
  ChainResult cr;
  std::function<Component *()> make;
  if (kind >= V_YAML)
    make = [] { return (Component *)new ParamComponent(); };
  else
    make = [] { return (Component *)new ValueComponent(); };
  const std::string e = run_chain(c, dir, N, c.iv("k"), c.iv("over"), make, cr);
  if (kind >= V_YAML) {
    if (cr.changed_after_last)
      r.label("used-values-grow-after-last-restore");
    r.nontrivial = cr.changed_after_last;
  } else {
    r.label("static-component");
    r.nontrivial = true;
  }
  if (!e.empty())
    r.fail(std::string(val_name[kind]) + ": " + e);
  return r;
}
VResult o_value(const VCase &c) { return isolated(c, body_value, nullptr); }

// ===========================================================================
// 4. legacy grid + statistics log, hydro mask through its factory
// ===========================================================================
enum LegKind { L_GRIDSTAT = 0, L_MASK };
const char *leg_name[] = {"CartesianDensityGrid+StatisticsLogger", "RescaledICHydroMask"};

// legacy Cartesian grid restored through DensityGridFactory, together with the
// statistics logger that appends one line per step to StatisticsLogger.txt
struct LegacyComponent : public Component {
  DensityGrid *_g = nullptr;
  StatisticsLogger *_s = nullptr;
  InternalHydroUnits *_u = nullptr;
  virtual void construct(const VCase &c) {
    const auto &b = c.dv("box");
    const Box<> box(Vec(b[0], b[1], b[2]), Vec(b[3], b[4], b[5]));
    CartesianDensityGrid *g = new CartesianDensityGrid(
        box, CoordinateVector<int_fast32_t>(c.i("ncell", 0), c.i("ncell", 1), c.i("ncell", 2)),
        CoordinateVector<bool>(c.i("periodic", 0), c.i("periodic", 1), c.i("periodic", 2)), true,
        nullptr);
    GenDensity f(c);
    std::pair<cellsize_t, cellsize_t> block = std::make_pair(0, g->get_number_of_cells());
    g->initialize(block, f);
    _g = g;
    size_t q = 0;
    for (auto it = _g->begin(); it != _g->end(); ++it, ++q)
      set_hv(it.get_hydro_variables(), c, 41 * q + 5);
    _s = new StatisticsLogger();
    _u = new InternalHydroUnits(1., 1., 1.);
    // RadiationHydrodynamicsSimulation.cpp writes the initial statistics
    // before the first step (and thereby flushes the header), so no dump is
    // ever taken of a logger that has not written a line yet
    _s->write_statistics(0., *_g, *_u);
  }
  virtual void destroy() {
    delete _s;
    delete _g;
    delete _u;
    _s = nullptr;
    _g = nullptr;
    _u = nullptr;
  }
  virtual void observe(Obs &o) {
    o.group("grid: number of cells, box");
    o.push((double)_g->get_number_of_cells());
    const Box<> b = _g->get_box();
    for (int q = 0; q < 3; ++q) {
      o.push(b.get_anchor()[q]);
      o.push(b.get_sides()[q]);
    }
    size_t q = 0;
    for (auto it = _g->begin(); it != _g->end(); ++it, ++q) {
      o.group(fmt("grid cell %zu", q));
      obs_iv(o, it.get_ionization_variables());
      obs_hv(o, it.get_hydro_variables());
      const Vec m = it.get_cell_midpoint();
      o.push(m.x());
      o.push(m.y());
      o.push(m.z());
      o.push(it.get_volume());
    }
  }
  virtual void step(const VCase &c, size_t i, Obs &o) {
    const int64_t arg = c.i("oparg", i);
    auto it = _g->begin() + (cellsize_t)(arg % (int64_t)_g->get_number_of_cells());
    if (c.i("op", i) == 0)
      set_hv(it.get_hydro_variables(), c, (size_t)(arg + 7 * i));
    else
      set_iv(it.get_ionization_variables(), c, (size_t)(arg + 3 * i));
    // position lookup through the restored geometry
    const auto &d = c.dv("opd");
    const Box<> b = _g->get_box();
    const Vec p(b.get_anchor()[0] + b.get_sides()[0] * d[i * 8],
                b.get_anchor()[1] + b.get_sides()[1] * d[i * 8 + 1],
                b.get_anchor()[2] + b.get_sides()[2] * d[i * 8 + 2]);
    o.group("!get_cell(position)");
    o.push((double)_g->get_cell(p).get_index());
    _s->write_statistics(c.d("opd", i * 8 + 6) * (double)(i + 1), *_g, *_u);
    observe(o);
  }
  virtual void dump(const VCase &, RestartWriter &w) {
    DensityGridFactory::write_restart_file(w, *_g);
    _s->write_restart_file(w);
  }
  virtual void restore(const VCase &, RestartReader &r) {
    _g = DensityGridFactory::restart(r, nullptr);
    _s = new StatisticsLogger(r);
    _u = new InternalHydroUnits(1., 1., 1.);
  }
  virtual std::vector<std::string> outfiles(const VCase &) { return {"StatisticsLogger.txt"}; }
};

// RescaledICHydroMask through HydroMaskFactory, driven the way the task based
// simulation drives it: initialize_mask(index, subgrid) for every subgrid once,
// then apply_mask(index, subgrid, dt, t) every step
struct MaskComponent : public Component {
  HydroMask *_m = nullptr;
  std::vector<HydroDensitySubGrid *> _sub;
  void make_subgrids(const VCase &c) {
    const auto &b = c.dv("box");
    const int ns = (int)c.i("nsub", 0);
    for (int s = 0; s < ns; ++s) {
      const double box[6] = {b[0] + s * b[3], b[1], b[2], b[3], b[4], b[5]};
      HydroDensitySubGrid *g = new HydroDensitySubGrid(
          box, CoordinateVector<int_fast32_t>(c.i("ncell", 0), c.i("ncell", 1), c.i("ncell", 2)));
      size_t q = 0;
      for (auto it = g->hydro_begin(); it != g->hydro_end(); ++it, ++q) {
        set_iv(it.get_ionization_variables(), c, 13 * q + s);
        set_hv(it.get_hydro_variables(), c, 41 * q + 5 + s);
        // physical values
        HydroVariables &hv = it.get_hydro_variables();
        hv.set_primitives_density(1e-20 * (0.1 + std::abs(pickval(c, q + s))));
        hv.set_primitives_pressure(1e-12 * (0.1 + std::abs(pickval(c, q + s + 1))));
        hv.set_conserved_total_energy(1e38 * (0.1 + std::abs(pickval(c, q + s + 2))));
      }
      _sub.push_back(g);
    }
  }
  virtual void construct(const VCase &c) {
    spit("params.yml", c.s("yaml"));
    ParameterFile params("params.yml");
    _m = HydroMaskFactory::generate(params, nullptr);
    make_subgrids(c);
    for (size_t s = 0; s < _sub.size(); ++s)
      _m->initialize_mask((uint_fast32_t)s, *_sub[s]);
  }
  virtual void destroy() {
    delete _m;
    _m = nullptr;
    for (auto g : _sub)
      delete g;
    _sub.clear();
  }
  virtual void observe(Obs &o) {
    // the mask has no getters: its state is visible through what apply_mask
    // does to a fresh copy of the subgrids
    for (size_t s = 0; s < _sub.size(); ++s) {
      HydroDensitySubGrid copy(*_sub[s]);
      _m->apply_mask((uint_fast32_t)s, copy, 1., 0.);
      obs_subgrid_hydro(o, copy, fmt("mask applied to a copy of subgrid %zu:", s));
    }
  }
  virtual void step(const VCase &c, size_t i, Obs &o) {
    // the gas moves on, then the mask is applied
    const int64_t arg = c.i("oparg", i);
    HydroDensitySubGrid &g = *_sub[(size_t)arg % _sub.size()];
    auto it = g.hydro_begin() + (uint_fast32_t)((arg / 5) % (int64_t)g.get_number_of_cells());
    HydroVariables &hv = it.get_hydro_variables();
    hv.set_primitives_density(1e-20 * (0.1 + std::abs(pickval(c, arg + i))));
    hv.set_primitives_velocity(
        Vec(1e3 * pickval(c, arg + 1), -1e3 * pickval(c, arg + 2), 1e3 * pickval(c, arg + 3)));
    hv.set_conserved_total_energy(1e38 * (0.1 + std::abs(pickval(c, arg + 2 + i))));
    for (size_t s = 0; s < _sub.size(); ++s)
      _m->apply_mask((uint_fast32_t)s, *_sub[s], c.d("opd", i * 8 + 6), c.d("opd", i * 8 + 6) * i);
    for (size_t s = 0; s < _sub.size(); ++s)
      obs_subgrid_hydro(o, *_sub[s], fmt("subgrid %zu:", s));
    observe(o);
  }
  virtual void dump(const VCase &, RestartWriter &w) {
    HydroMaskFactory::write_restart_file(w, *_m);
    // the subgrids belong to the simulation, not to the mask: they are dumped
    // so that the restored mask meets the same gas
    w.write(_sub.size());
    for (auto g : _sub)
      g->write_restart_file(w);
  }
  virtual void restore(const VCase &, RestartReader &r) {
    _m = HydroMaskFactory::restart(r, nullptr);
    const size_t n = r.read<size_t>();
    for (size_t s = 0; s < n; ++s)
      _sub.push_back(new HydroDensitySubGrid(r));
  }
  virtual size_t header(const std::string &dump) {
    if (dump.size() < 8)
      return 0;
    uint64_t n;
    memcpy(&n, dump.data(), 8);
    return 8 + (size_t)n;
  }
};

VCase gen_legacy() {
  VCase c;
  const int kind = vr::weighted({1, 1});
  c.I("kind", kind);
  std::vector<double> box(6);
  for (int a = 0; a < 3; ++a) {
    box[3 + a] = odd_length();
    box[a] = vr::coin(0.3) ? 0. : -box[3 + a] * vr::uni(0., 2.);
  }
  c.D("box", box);
  std::vector<int64_t> ncell(3), per(3);
  for (int a = 0; a < 3; ++a) {
    ncell[a] = vr::irange(1, 3);
    per[a] = vr::coin(0.4);
  }
  c.I("ncell", ncell);
  c.I("periodic", per);
  c.I("nsub", std::vector<int64_t>{vr::irange(1, 3), 1, 1});
  std::vector<double> vals(24);
  for (auto &v : vals)
    v = vr::coin(0.08) ? 0. : vr::uni(0.01, 2.);
  c.D("vals", vals);
  const int N = (int)vr::irange(2, 8);
  c.I("N", N);
  std::vector<int64_t> op(N), arg(N);
  std::vector<double> opd((size_t)N * 8);
  for (int i = 0; i < N; ++i) {
    op[i] = vr::coin(0.7) ? 0 : 1;
    arg[i] = vr::irange(0, 1000);
    for (int q = 0; q < 8; ++q)
      opd[i * 8 + q] = vr::uni(0.02, 0.98);
    opd[i * 8 + 6] = vr::logu(1e8, 1e12);
  }
  c.I("op", op);
  c.I("oparg", arg);
  c.D("opd", opd);
  if (kind == L_MASK) {
    // a sphere that contains some but usually not all cell midpoints
    const double cx[3] = {box[0] + box[3] * c.i("nsub", 0) * vr::uni(0., 1.),
                          box[1] + box[4] * vr::uni(0., 1.), box[2] + box[5] * vr::uni(0., 1.)};
    const double diag = std::sqrt(box[3] * box[3] * c.i("nsub", 0) * c.i("nsub", 0) +
                                  box[4] * box[4] + box[5] * box[5]);
    std::string y = "HydroMask:\n  type: RescaledIC\n";
    y += "  center: " + vec3(cx, "m") + "\n";
    y += "  radius: " + num(diag * vr::uni(0.05, 1.1), "m") + "\n";
    y += "  scale factor density: " + num(vr::logu(0.001, 1.)) + "\n";
    y += "  scale factor velocity: " + num(vr::coin(0.3) ? 1. : vr::uni(0., 2.)) + "\n";
    y += "  scale factor pressure: " + num(vr::logu(0.001, 1.)) + "\n";
    y += "  delta t: " + num(vr::coin(0.5) ? 0. : vr::logu(1e8, 1e12), "s") + "\n";
    c.S("yaml", y);
  }
  gen_chain(c, N);
  return c;
}

VResult body_legacy(const VCase &c, const std::string &dir) {
  VResult r;
  const int kind = (int)c.i("kind");
  const size_t N = (size_t)c.i("N");
  r.label(leg_name[kind]);
  chain_labels(c, N, r);
  ChainResult cr;
  std::function<Component *()> make;
  if (kind == L_GRIDSTAT)
    make = [] { return (Component *)new LegacyComponent(); };
  else
    make = [] { return (Component *)new MaskComponent(); };
  const std::string e = run_chain(c, dir, N, c.iv("k"), c.iv("over"), make, cr);
  if (cr.changed_after_last)
    r.label("state-changes-after-last-restore");
  r.nontrivial = cr.changed_after_last;
  if (!e.empty())
    r.fail(std::string(leg_name[kind]) + ": " + e);
  return r;
}
VResult o_legacy(const VCase &c) { return isolated(c, body_legacy, nullptr); }

} // namespace

int main(int argc, char **argv) {
  std::vector<VProp> props;
  props.push_back(
      {"source_distributions", 6000, gen_src, o_src,
       "one of the six restartable PhotonSourceDistribution classes built by "
       "PhotonSourceDistributionFactory::generate from a generated parameter file; history of 2-18 "
       "simulation steps (update(t), do/add/done_stellar_feedback on a small HydroDensitySubGrid, "
       "non-decreasing times with zero-length, sub-interval, exact-multiple and multi-interval "
       "steps); chain of 1-3 restore points (restart constructor or factory dispatch), optional "
       "overrun after a dump. Non-trivial: the observable source list changes after the last "
       "restore point (static classes: always)",
       // (floors are low because cases of an OPEN known class are not counted:
       // most Caproni cases and all moving distributions without source log)
       {{"Caproni", 0.04},
        {"DiscPatch", 0.08},
        {"UniformRandom", 0.08},
        {"SingleSupernova", 0.07},
        {"state-changes-after-last-restore", 0.25}}});
  props.push_back(
      {"subgrids_and_creator", 2500, gen_grid, o_grid,
       "DensitySubGrid / HydroDensitySubGrid (1-4 cells per axis) and DensitySubGridCreator of "
       "both (1-3 subgrids per axis, periodicity flags, copy levels 0-2 with the simulation's "
       "level restriction) on boxes whose cell sizes are mostly not exactly representable; history "
       "of 2-8 calls: photon packets through the real interact(), cell / neighbour / owning-thread "
       "/ hydro-variable changes, update_original_counters, update_copy_properties, update_copies "
       "with a second level vector, position lookups; every getter of every cell of every subgrid "
       "is compared after every call. Non-trivial: the state changes after the last restore point",
       {{"DensitySubGrid", 0.1},
        {"DensitySubGridCreator<DensitySubGrid>", 0.15},
        {"creator-with-copies", 0.15},
        {"inverse-cell-size-not-reproducible-from-cell-size", 0.15},
        {"state-changes-after-last-restore", 0.4}}});
  props.push_back(
      {"values_and_parameters", 3000, gen_value, o_value,
       "CoordinateVector<double|int_fast32_t|bool|uint_fast32_t>, Box, IonizationVariables, "
       "HydroVariables with generated payloads (signed zeros, subnormals, 1e-300..1e300) and "
       "YAMLDictionary / ParameterFile built from a generated YAML text (groups, typed values, "
       "units, vectors, comments) with a history of 2-10 typed reads of existing keys and of "
       "missing keys with defaults (which extend the used-values map) and add_value. Non-trivial: "
       "value classes always; parameter files when the used values grow after the last restore "
       "point",
       {{"ParameterFile", 0.15}, {"YAMLDictionary", 0.08}, {"HydroVariables", 0.05}}});
  props.push_back(
      {"legacy_grid_logger_mask", 1500, gen_legacy, o_legacy,
       "CartesianDensityGrid (1-3 cells per axis, hydro on) written and restored through "
       "DensityGridFactory together with a StatisticsLogger that appends a line per step to "
       "StatisticsLogger.txt (compared at the end, also after an overrun that has to be truncated); "
       "RescaledICHydroMask created by HydroMaskFactory::generate from a generated parameter file, "
       "initialize_mask on 1-3 HydroDensitySubGrids, apply_mask every step, restored through "
       "HydroMaskFactory::restart. Non-trivial: the state changes after the last restore point",
       {{"RescaledICHydroMask", 0.3}, {"CartesianDensityGrid+StatisticsLogger", 0.3}}});
  return vr::vmain(argc, argv, "C09", props);
}
