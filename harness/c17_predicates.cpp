// C17 - orientation and in-sphere tests always return the exact sign.
//
// Oracle: the full homogeneous determinant (4x4 [x y z 1], 5x5 [x y z |p|^2 1])
// of the integer significands 2^52+m, evaluated in GMP by Laplace expansion -
// another expansion (no translation to a reference point) and another
// big-integer library than the Boost code under test.  A second, geometric
// oracle for the in-sphere test: circumcentre by Cramer's rule in GMP and a
// comparison of squared distances ("e is strictly inside the circumsphere").
//
// Inputs are what the callers pass (NewVoronoiGrid.cpp:149-186,
// NewVoronoiCellConstructor.cpp:1562-1601): coordinates in [1,2), i.e.
// 1 + m 2^-52 with a 52 bit mantissa m.  A case stores the mantissas.
#include "ExactGeometricTests.hpp"
#include "verif_rc.hpp"

#include <gmpxx.h>

using vr::VCase;
using vr::VProp;
using vr::VResult;
using vr::fmt;
typedef CoordinateVector<> Vec;

namespace {

const int64_t MMAX = (1ll << 52) - 1; // largest mantissa

// ------------------------------------------------------------------ oracle
int sgn(const mpz_class &x) { return x > 0 ? 1 : (x < 0 ? -1 : 0); }

// Laplace expansion along the first remaining row; cols = bit mask of the
// columns still available
mpz_class det_rec(const std::vector<std::vector<mpz_class>> &M, size_t row,
                  unsigned cols) {
  const size_t n = M.size();
  if (row == n)
    return 1;
  mpz_class sum = 0;
  int k = 0; // position of the column among the remaining ones
  for (size_t j = 0; j < n; ++j) {
    if (!(cols & (1u << j)))
      continue;
    if (M[row][j] != 0) {
      mpz_class t = M[row][j] * det_rec(M, row + 1, cols & ~(1u << j));
      if (k & 1)
        sum -= t;
      else
        sum += t;
    }
    ++k;
  }
  return sum;
}

mpz_class big(int64_t m) {
  // integer significand of 1 + m 2^-52
  mpz_class r;
  mpz_set_si(r.get_mpz_t(), (long)m);
  r += mpz_class(1) << 52;
  return r;
}

// sign of det [x y z 1] (rows a,b,c,d)
mpz_class orient_det(const int64_t *m /*12*/) {
  std::vector<std::vector<mpz_class>> M(4, std::vector<mpz_class>(4));
  for (int i = 0; i < 4; ++i) {
    for (int k = 0; k < 3; ++k)
      M[i][k] = big(m[3 * i + k]);
    M[i][3] = 1;
  }
  return det_rec(M, 0, 0xf);
}

// second formula, from the documentation of orient3d: positive when d is
// below the plane through a,b,c (counterclockwise seen from above):
// -( (b-a) x (c-a) ) . (d-a)
mpz_class orient_triple(const int64_t *m) {
  mpz_class p[4][3];
  for (int i = 0; i < 4; ++i)
    for (int k = 0; k < 3; ++k)
      p[i][k] = big(m[3 * i + k]);
  mpz_class u[3], v[3], w[3];
  for (int k = 0; k < 3; ++k) {
    u[k] = p[1][k] - p[0][k];
    v[k] = p[2][k] - p[0][k];
    w[k] = p[3][k] - p[0][k];
  }
  mpz_class cx = u[1] * v[2] - u[2] * v[1];
  mpz_class cy = u[2] * v[0] - u[0] * v[2];
  mpz_class cz = u[0] * v[1] - u[1] * v[0];
  mpz_class r = cx * w[0] + cy * w[1] + cz * w[2];
  return -r;
}

// sign of det [x y z x^2+y^2+z^2 1] (rows a..e)
mpz_class insphere_det(const int64_t *m /*15*/) {
  std::vector<std::vector<mpz_class>> M(5, std::vector<mpz_class>(5));
  for (int i = 0; i < 5; ++i) {
    mpz_class n2 = 0;
    for (int k = 0; k < 3; ++k) {
      M[i][k] = big(m[3 * i + k]);
      n2 += M[i][k] * M[i][k];
    }
    M[i][3] = n2;
    M[i][4] = 1;
  }
  return det_rec(M, 0, 0x1f);
}

// geometric meaning: +1 e strictly inside the sphere through a,b,c,d, -1
// strictly outside, 0 on it; returns false if a,b,c,d are coplanar
bool inside_circumsphere(const int64_t *m, int &where) {
  mpz_class p[5][3];
  for (int i = 0; i < 5; ++i)
    for (int k = 0; k < 3; ++k)
      p[i][k] = mpz_class((long)m[3 * i + k]); // translation invariant: plain m
  // 2 (p_i - p_0) . o = |p_i|^2 - |p_0|^2, i = 1..3
  mpz_class A[3][3], rhs[3];
  mpz_class n0 = p[0][0] * p[0][0] + p[0][1] * p[0][1] + p[0][2] * p[0][2];
  for (int i = 0; i < 3; ++i) {
    mpz_class ni = 0;
    for (int k = 0; k < 3; ++k) {
      A[i][k] = 2 * (p[i + 1][k] - p[0][k]);
      ni += p[i + 1][k] * p[i + 1][k];
    }
    rhs[i] = ni - n0;
  }
  auto det3 = [](mpz_class B[3][3]) {
    return mpz_class(B[0][0] * (B[1][1] * B[2][2] - B[1][2] * B[2][1]) -
                     B[0][1] * (B[1][0] * B[2][2] - B[1][2] * B[2][0]) +
                     B[0][2] * (B[1][0] * B[2][1] - B[1][1] * B[2][0]));
  };
  mpz_class D = det3(A);
  if (D == 0)
    return false;
  mpz_class N[3];
  for (int col = 0; col < 3; ++col) {
    mpz_class B[3][3];
    for (int i = 0; i < 3; ++i)
      for (int k = 0; k < 3; ++k)
        B[i][k] = (k == col) ? rhs[i] : A[i][k];
    N[col] = det3(B);
  }
  // o = N / D ; compare |D e - N|^2 with |D a - N|^2
  mpz_class de = 0, da = 0;
  for (int k = 0; k < 3; ++k) {
    mpz_class x = D * p[4][k] - N[k], y = D * p[0][k] - N[k];
    de += x * x;
    da += y * y;
  }
  where = de < da ? 1 : (de > da ? -1 : 0);
  return true;
}

// ------------------------------------------------------------------ helpers
double coord(int64_t m) { return 1. + std::ldexp((double)m, -52); }
Vec point(const int64_t *m) { return Vec(coord(m[0]), coord(m[1]), coord(m[2])); }

struct Perms {
  std::vector<std::vector<int>> p;
  std::vector<int> parity;
  explicit Perms(int n) {
    std::vector<int> v(n);
    for (int i = 0; i < n; ++i)
      v[i] = i;
    do {
      int inv = 0;
      for (int i = 0; i < n; ++i)
        for (int j = i + 1; j < n; ++j)
          inv += v[i] > v[j];
      p.push_back(v);
      parity.push_back(inv & 1 ? -1 : 1);
    } while (std::next_permutation(v.begin(), v.end()));
  }
};
const Perms P4(4), P5(5);

// the filter of orient3d_adaptive re-evaluated (only used to classify cases)
void orient_filter(const Vec &ar, const Vec &br, const Vec &cr, const Vec &dr,
                   double &result, double &errbound) {
  const Vec ad = ar - dr, bd = br - dr, cd = cr - dr;
  const double bdxcdy = bd.x() * cd.y(), cdxbdy = cd.x() * bd.y();
  const double cdxady = cd.x() * ad.y(), adxcdy = ad.x() * cd.y();
  const double adxbdy = ad.x() * bd.y(), bdxady = bd.x() * ad.y();
  errbound = 1.e-10 * ((std::abs(bdxcdy) + std::abs(cdxbdy)) * std::abs(ad.z()) +
                       (std::abs(cdxady) + std::abs(adxcdy)) * std::abs(bd.z()) +
                       (std::abs(adxbdy) + std::abs(bdxady)) * std::abs(cd.z()));
  result = ad.z() * (bdxcdy - cdxbdy) + bd.z() * (cdxady - adxcdy) +
           cd.z() * (adxbdy - bdxady);
}

void insphere_filter(const Vec &ar, const Vec &br, const Vec &cr, const Vec &dr,
                     const Vec &er, double &result, double &errbound) {
  const Vec ae = ar - er, be = br - er, ce = cr - er, de = dr - er;
  const double aexbey = ae.x() * be.y(), bexaey = be.x() * ae.y();
  const double bexcey = be.x() * ce.y(), cexbey = ce.x() * be.y();
  const double cexdey = ce.x() * de.y(), dexcey = de.x() * ce.y();
  const double dexaey = de.x() * ae.y(), aexdey = ae.x() * de.y();
  const double aexcey = ae.x() * ce.y(), cexaey = ce.x() * ae.y();
  const double bexdey = be.x() * de.y(), dexbey = de.x() * be.y();
  const double ab = aexbey - bexaey, bc = bexcey - cexbey, cd = cexdey - dexcey;
  const double da = dexaey - aexdey, ac = aexcey - cexaey, bd = bexdey - dexbey;
  const double abc = ae.z() * bc - be.z() * ac + ce.z() * ab;
  const double bcd = be.z() * cd - ce.z() * bd + de.z() * bc;
  const double cda = ce.z() * da + de.z() * ac + ae.z() * cd;
  const double dab = de.z() * ab + ae.z() * bd + be.z() * da;
  const double a2 = ae.norm2(), b2 = be.norm2(), c2 = ce.norm2(), d2 = de.norm2();
  const double az = std::abs(ae.z()), bz = std::abs(be.z()),
               cz = std::abs(ce.z()), dz = std::abs(de.z());
  auto A = [](double x) { return std::abs(x); };
  errbound =
      1.e-10 *
      (((A(cexdey) + A(dexcey)) * bz + (A(dexbey) + A(bexdey)) * cz +
        (A(bexcey) + A(cexbey)) * dz) * a2 +
       ((A(dexaey) + A(aexdey)) * cz + (A(aexcey) + A(cexaey)) * dz +
        (A(cexdey) + A(dexcey)) * az) * b2 +
       ((A(aexbey) + A(bexaey)) * dz + (A(bexdey) + A(dexbey)) * az +
        (A(dexaey) + A(aexdey)) * bz) * c2 +
       ((A(bexcey) + A(cexbey)) * az + (A(cexaey) + A(aexcey)) * bz +
        (A(aexbey) + A(bexaey)) * cz) * d2);
  result = (d2 * abc - c2 * dab) + (b2 * cda - a2 * bcd);
}

void filter_labels(double result, double errbound, int sign, VResult &r) {
  const bool fall = !(result < -errbound) && !(result > errbound);
  r.label(fall ? "filter-fallthrough" : "filter-decides");
  if (errbound == 0.)
    r.label("errbound-zero");
  else {
    const double q = std::abs(result) / errbound;
    if (q >= 0.1 && q <= 10.)
      r.label("near-filter-threshold");
  }
  if (sign == 0)
    r.label("det-zero");
  else
    r.label(sign > 0 ? "sign+" : "sign-");
  r.nontrivial = fall || sign == 0;
  if (r.nontrivial)
    r.label("degenerate-or-exact-path");
}

// ------------------------------------------------------------------ generators
// Relative integer coordinates -> mantissas: translate every axis by a
// generated offset so that everything lies in [0, 2^52-1].  Returns an empty
// vector if the span does not fit (never by construction; then discarded).
typedef std::vector<std::vector<int64_t>> Rel; // [point][axis]

std::vector<int64_t> place(const Rel &rel) {
  std::vector<int64_t> m(rel.size() * 3);
  for (int k = 0; k < 3; ++k) {
    int64_t lo = rel[0][k], hi = rel[0][k];
    for (auto &p : rel) {
      lo = std::min(lo, p[k]);
      hi = std::max(hi, p[k]);
    }
    RC_PRE(hi - lo <= MMAX);
    const int64_t tmin = -lo, tmax = MMAX - hi;
    int64_t t;
    switch (vr::weighted({6, 1, 1, 1})) {
    case 0:
      t = vr::irange(tmin, tmax);
      break;
    case 1:
      t = tmin; // smallest coordinate exactly 1.0
      break;
    case 2:
      t = tmax; // largest coordinate exactly 2-2^-52
      break;
    default: // a round offset: few significant bits
      t = tmin + ((tmax - tmin) >> vr::irange(1, 8));
      break;
    }
    for (size_t i = 0; i < rel.size(); ++i)
      m[3 * i + k] = rel[i][k] + t;
  }
  return m;
}

int64_t sym(int64_t bound) { return vr::irange(-bound, bound); }
// log-uniform magnitude in [1, 2^maxbits), random sign
int64_t logmag(int maxbits) {
  const int b = (int)vr::irange(0, maxbits - 1);
  const int64_t v = (1ll << b) + (b ? vr::irange(0, (1ll << b) - 1) : 0);
  return vr::coin() ? v : -v;
}

void perturb(Rel &rel, int mode /*1: 1..1000 ulp, 2: log-uniform*/) {
  const int n = (int)vr::irange(1, mode == 1 ? 1 : 2); // coordinates touched
  for (int q = 0; q < n; ++q) {
    const int i = (int)vr::irange(0, (int64_t)rel.size() - 1);
    const int k = (int)vr::irange(0, 2);
    int64_t d = mode == 1 ? vr::irange(1, 1000) * (vr::coin() ? 1 : -1)
                          : logmag(44);
    rel[i][k] += d;
  }
}

// four exactly coplanar points a, a+u, a+v, a+s u+t v
Rel coplanar(bool small) {
  Rel r(4, std::vector<int64_t>(3, 0));
  int64_t s = vr::irange(-3, 3), t = vr::irange(-3, 3);
  int sh = 0;
  for (int k = 0; k < 3; ++k) {
    int64_t u, v;
    if (small) {
      u = sym(1 << 10);
      v = sym(1 << 10);
    } else {
      // per-axis scale: a huge dynamic range between the columns is frequent
      const int bits = (int)vr::pick(std::vector<int>{3, 12, 30, 40, 48, 48, 48});
      u = sym((1ll << bits) - 1);
      v = sym((1ll << bits) - 1);
    }
    r[1][k] = u;
    r[2][k] = v;
    r[3][k] = s * u + t * v;
  }
  if (small) {
    sh = (int)vr::irange(0, 38); // lattice scaled by a power of two
    for (auto &p : r)
      for (auto &x : p)
        x <<= sh;
  }
  return r;
}

Rel corners(int n) {
  // every coordinate within `off` of an end of the mantissa range
  Rel r(n, std::vector<int64_t>(3, 0));
  const int ob = (int)vr::irange(0, 24);
  for (auto &p : r)
    for (auto &x : p) {
      const int64_t off = vr::coin(0.5) ? 0 : vr::irange(0, (1ll << ob) - 1);
      x = vr::coin() ? off : MMAX - off;
    }
  return r;
}

VCase finish(const std::vector<int64_t> &m, int cls, int nperm) {
  VCase c;
  c.I("m", m);
  c.I("cls", cls);
  c.I("perm", vr::irange(0, nperm - 1));
  c.I("allperm", vr::coin(0.05) ? 1 : 0);
  return c;
}

const char *ORIENT_CLS[] = {"uniform",          "corners",
                            "axis-plane",       "lattice-coplanar",
                            "full-coplanar",    "perturbed-1..1000ulp",
                            "perturbed-loguni", "coincident-or-collinear"};

VCase gen_orient() {
  const int cls = vr::weighted({3, 2, 2, 2, 3, 6, 4, 1});
  std::vector<int64_t> m;
  switch (cls) {
  case 0: {
    m.resize(12);
    for (auto &x : m)
      x = vr::irange(0, MMAX);
    break;
  }
  case 1: {
    Rel r = corners(4);
    m.clear();
    for (auto &p : r)
      for (auto x : p)
        m.push_back(x);
    break;
  }
  case 2: { // all four points share one coordinate (a plane of a regular lattice)
    m.resize(12);
    for (auto &x : m)
      x = vr::irange(0, MMAX);
    const int k = (int)vr::irange(0, 2);
    for (int i = 1; i < 4; ++i)
      m[3 * i + k] = m[k];
    break;
  }
  case 3:
    m = place(coplanar(true));
    break;
  case 4:
    m = place(coplanar(false));
    break;
  case 5:
  case 6: {
    Rel r = coplanar(vr::coin(0.4));
    perturb(r, cls == 5 ? 1 : 2);
    m = place(r);
    break;
  }
  default: {
    Rel r(4, std::vector<int64_t>(3, 0));
    for (int i = 1; i < 4; ++i)
      for (int k = 0; k < 3; ++k)
        r[i][k] = sym((1ll << 48) - 1);
    if (vr::coin()) {
      r[(int)vr::irange(1, 3)] = r[0]; // two coincident points
    } else {
      const int64_t f = vr::irange(-3, 3); // three collinear points
      for (int k = 0; k < 3; ++k)
        r[2][k] = f * r[1][k];
    }
    m = place(r);
  }
  }
  // the role of the points (which one is the reference point d) is shuffled
  const auto &sh = P4.p[vr::irange(0, 23)];
  std::vector<int64_t> ms(12);
  for (int i = 0; i < 4; ++i)
    for (int k = 0; k < 3; ++k)
      ms[3 * i + k] = m[3 * sh[i] + k];
  return finish(ms, cls, 24);
}

const char *INSPHERE_CLS[] = {"uniform",
                              "corners",
                              "signperm-sphere",
                              "lattice-sphere",
                              "perturbed-1..1000ulp",
                              "perturbed-loguni",
                              "coplanar-tetrahedron",
                              "coincident",
                              "needle-cluster"};

// all signed permutations of (p,q,r): 48 points on one sphere around 0
std::vector<int64_t> signperm(int64_t p, int64_t q, int64_t r, int idx) {
  static const int pr[6][3] = {{0, 1, 2}, {0, 2, 1}, {1, 0, 2},
                               {1, 2, 0}, {2, 0, 1}, {2, 1, 0}};
  const int64_t v[3] = {p, q, r};
  const int *o = pr[idx / 8];
  const int s = idx % 8;
  return {(s & 1 ? -1 : 1) * v[o[0]], (s & 2 ? -1 : 1) * v[o[1]],
          (s & 4 ? -1 : 1) * v[o[2]]};
}

Rel cospherical(bool lattice) {
  Rel r;
  if (!lattice) {
    // radius vector with independent magnitudes per component up to 2^50
    int64_t p = logmag(50), q = logmag(50), s = logmag(50);
    if (vr::coin(0.15))
      s = 0;
    std::set<int> used;
    while (r.size() < 5) {
      const int idx = (int)vr::irange(0, 47);
      if (!used.insert(idx).second)
        continue;
      r.push_back(signperm(p, q, s, idx));
    }
  } else {
    // all lattice vectors of squared length N within [-R,R]^3
    const int R = 40;
    std::vector<std::vector<int64_t>> all;
    for (;;) {
      const int64_t w[3] = {vr::irange(0, R), vr::irange(0, R), vr::irange(1, R)};
      const int64_t N = w[0] * w[0] + w[1] * w[1] + w[2] * w[2];
      all.clear();
      for (int64_t x = -R; x <= R; ++x)
        for (int64_t y = -R; y <= R; ++y) {
          const int64_t z2 = N - x * x - y * y;
          if (z2 < 0)
            continue;
          const int64_t z = (int64_t)std::llround(std::sqrt((double)z2));
          if (z * z != z2 || z > R)
            continue;
          all.push_back({x, y, z});
          if (z)
            all.push_back({x, y, -z});
        }
      if (all.size() >= 5)
        break;
    }
    const int sh = (int)vr::irange(0, 44);
    std::set<int> used;
    while (r.size() < 5) {
      const int idx = (int)vr::irange(0, (int64_t)all.size() - 1);
      if (!used.insert(idx).second)
        continue;
      r.push_back({all[idx][0] << sh, all[idx][1] << sh, all[idx][2] << sh});
    }
  }
  return r;
}

// Three vertices a, b, c in a tight cluster (2^10..2^34 ulp) around the test
// point e and coplanar with it to within an ulp, so that the sphere through
// a, b, c, e has a radius of the order of the whole coordinate range; the
// fourth vertex d is put on that sphere 2^44..2^51 ulp away and moved by a few
// ulp.  The terms of the in-sphere determinant then differ by ~30 orders of
// magnitude and its floating-point value is pure rounding noise: the largest
// dynamic range the filter's error bound has to cover.
// Points in the order a, b, c, d, e (e = origin of the relative coordinates).
Rel needle_cluster() {
  typedef long double ld;
  const int rb = (int)vr::irange(10, 34);
  const int64_t N = 1ll << rb;
  Rel r(5, std::vector<int64_t>(3, 0));
  for (int i = 0; i < 2; ++i)
    for (int k = 0; k < 3; ++k)
      r[i][k] = sym(N);
  r[2][0] = sym(N);
  r[2][1] = sym(N);
  // det3(a,b,c) = rest + c.z * cof: the c.z that brings it closest to 0
  const __int128 cof = (__int128)r[0][0] * r[1][1] - (__int128)r[0][1] * r[1][0];
  RC_PRE(cof != 0);
  const ld minus_rest =
      -(ld)r[2][0] * ((ld)r[0][1] * r[1][2] - (ld)r[0][2] * r[1][1]) +
      (ld)r[2][1] * ((ld)r[0][0] * r[1][2] - (ld)r[0][2] * r[1][0]);
  const ld czl = std::floor(minus_rest / (ld)cof + 0.5L);
  RC_PRE(std::fabs((double)czl) <= 4. * (double)N);
  r[2][2] = (int64_t)czl + (vr::coin(0.3) ? vr::irange(-2, 2) : 0);
  // circumcentre o relative to e: rows (a,b,c) o = |.|^2/2
  ld M[3][4];
  for (int i = 0; i < 3; ++i) {
    ld n = 0;
    for (int k = 0; k < 3; ++k) {
      M[i][k] = r[i][k];
      n += M[i][k] * M[i][k];
    }
    M[i][3] = 0.5L * n;
  }
  for (int c = 0; c < 3; ++c) {
    int piv = c;
    for (int q = c + 1; q < 3; ++q)
      if (fabsl(M[q][c]) > fabsl(M[piv][c]))
        piv = q;
    RC_PRE(M[piv][c] != 0);
    for (int k = 0; k < 4; ++k)
      std::swap(M[c][k], M[piv][k]);
    for (int q = 0; q < 3; ++q)
      if (q != c) {
        const ld f = M[q][c] / M[c][c];
        for (int k = 0; k < 4; ++k)
          M[q][k] -= f * M[c][k];
      }
  }
  ld o[3], on = 0;
  for (int k = 0; k < 3; ++k) {
    o[k] = M[k][3] / M[k][k];
    on += o[k] * o[k];
  }
  on = sqrtl(on);
  RC_PRE(std::isfinite((double)on) && on > 0);
  // d = t w with |w| = 1 and o.w = t/2: a point of the sphere at distance t
  const ld tmax = std::min((ld)std::ldexp(1., 51), 2 * on);
  RC_PRE(tmax > std::ldexp(1., 44));
  const ld t = std::exp(vr::uni(std::log(std::ldexp(1., 44)), std::log((double)tmax)));
  const ld cs = std::min((ld)1., t / (2 * on)), sn = sqrtl(1 - cs * cs);
  // a unit vector perpendicular to o
  ld v[3] = {(ld)vr::uni(-1., 1.), (ld)vr::uni(-1., 1.), (ld)vr::uni(-1., 1.)};
  ld dot = 0;
  for (int k = 0; k < 3; ++k)
    dot += v[k] * o[k] / on;
  ld vn = 0;
  for (int k = 0; k < 3; ++k) {
    v[k] -= dot * o[k] / on;
    vn += v[k] * v[k];
  }
  vn = sqrtl(vn);
  RC_PRE(vn > 1e-6);
  for (int k = 0; k < 3; ++k) {
    const ld w = cs * o[k] / on + sn * v[k] / vn;
    r[3][k] = (int64_t)std::floor((double)(t * w) + 0.5) + vr::irange(-3, 3);
  }
  return r;
}

VCase gen_insphere() {
  const int cls = vr::weighted({3, 3, 3, 2, 6, 4, 2, 1, 4}) ;
  std::vector<int64_t> m;
  auto flat = [&](const Rel &r) {
    m.clear();
    for (auto &p : r)
      for (auto x : p)
        m.push_back(x);
  };
  switch (cls) {
  case 0:
    m.resize(15);
    for (auto &x : m)
      x = vr::irange(0, MMAX);
    break;
  case 1:
    flat(corners(5));
    break;
  case 2:
    m = place(cospherical(false));
    break;
  case 3:
    m = place(cospherical(true));
    break;
  case 4:
  case 5: {
    Rel r = cospherical(vr::coin(0.4));
    perturb(r, cls == 4 ? 1 : 2);
    m = place(r);
    break;
  }
  case 6: {
    Rel r = coplanar(vr::coin(0.3));
    std::vector<int64_t> e(3);
    for (auto &x : e)
      x = sym((1ll << 48) - 1);
    if (vr::coin(0.3)) // the fifth point in the same plane too
      for (int k = 0; k < 3; ++k)
        e[k] = 2 * r[1][k] - r[2][k];
    r.push_back(e);
    m = place(r);
    break;
  }
  case 8:
    m = place(needle_cluster());
    break;
  default: {
    Rel r(5, std::vector<int64_t>(3, 0));
    for (int i = 1; i < 5; ++i)
      for (int k = 0; k < 3; ++k)
        r[i][k] = sym((1ll << 48) - 1);
    r[(int)vr::irange(1, 4)] = r[0];
    m = place(r);
  }
  }
  // (the needle cluster keeps its roles in half of the cases: the filter is
  // not symmetric in its arguments)
  const auto &sh = (cls == 8 && vr::coin()) ? P5.p[0] : P5.p[vr::irange(0, 119)];
  std::vector<int64_t> ms(15);
  for (int i = 0; i < 5; ++i)
    for (int k = 0; k < 3; ++k)
      ms[3 * i + k] = m[3 * sh[i] + k];
  return finish(ms, cls, 120);
}

// ------------------------------------------------------------------ oracles
bool in_domain(const std::vector<int64_t> &m, size_t n, VResult &r) {
  if (m.size() != n) {
    r.fail("malformed case");
    return false;
  }
  for (auto x : m)
    if (x < 0 || x > MMAX) {
      r.fail("malformed case: mantissa out of range");
      return false;
    }
  return true;
}

VResult o_orient(const VCase &c) {
  VResult r;
  const std::vector<int64_t> &m = c.iv("m");
  if (!in_domain(m, 12, r))
    return r;
  r.label(ORIENT_CLS[c.i("cls")]);
  const int want = sgn(orient_det(m.data()));
  if (want != sgn(orient_triple(m.data()))) {
    r.fail("oracle inconsistency: homogeneous determinant vs triple product");
    return r;
  }
  Vec p[4];
  for (int i = 0; i < 4; ++i)
    p[i] = point(&m[3 * i]);
  // the mapping mantissa -> coordinate is the one the code inverts
  for (int i = 0; i < 12; ++i)
    if (ExactGeometricTests::get_mantissa(coord(m[i])) != (uint64_t)m[i]) {
      r.fail(fmt("get_mantissa(1+%lld*2^-52) = %llu", (long long)m[i],
                 (unsigned long long)ExactGeometricTests::get_mantissa(
                     coord(m[i]))));
      return r;
    }
  double res, eb;
  orient_filter(p[0], p[1], p[2], p[3], res, eb);
  filter_labels(res, eb, want, r);

  const bool all = c.i("allperm") != 0;
  if (all)
    r.label("all-24-permutations");
  const int first = all ? 0 : (int)c.i("perm"), last = all ? 23 : first;
  for (int q = first - 1; q <= last; ++q) {
    // q == first-1 stands for the identity
    const std::vector<int> &pm = q < first ? P4.p[0] : P4.p[q];
    const int par = q < first ? 1 : P4.parity[q];
    const int exp = par * want;
    const int ex =
        ExactGeometricTests::orient3d_exact(p[pm[0]], p[pm[1]], p[pm[2]], p[pm[3]]);
    const int ad = ExactGeometricTests::orient3d_adaptive(p[pm[0]], p[pm[1]],
                                                          p[pm[2]], p[pm[3]]);
    if (ex != exp)
      r.fail(fmt("orient3d_exact = %d, exact sign = %d (points in order "
                 "%d%d%d%d, parity %+d, sign of the unpermuted determinant %d)",
                 ex, exp, pm[0], pm[1], pm[2], pm[3], par, want));
    if (ad != exp)
      r.fail(fmt("orient3d_adaptive = %d, exact sign = %d (points in order "
                 "%d%d%d%d, parity %+d; filter result %g errbound %g for the "
                 "unpermuted order)",
                 ad, exp, pm[0], pm[1], pm[2], pm[3], par, res, eb));
  }
  return r;
}

VResult o_insphere(const VCase &c) {
  VResult r;
  const std::vector<int64_t> &m = c.iv("m");
  if (!in_domain(m, 15, r))
    return r;
  r.label(INSPHERE_CLS[c.i("cls")]);
  const int want = sgn(insphere_det(m.data()));
  Vec p[5];
  for (int i = 0; i < 5; ++i)
    p[i] = point(&m[3 * i]);
  double res, eb;
  insphere_filter(p[0], p[1], p[2], p[3], p[4], res, eb);
  filter_labels(res, eb, want, r);

  const bool all = c.i("allperm") != 0;
  if (all)
    r.label("all-120-permutations");
  const int first = all ? 0 : (int)c.i("perm"), last = all ? 119 : first;
  for (int q = first - 1; q <= last; ++q) {
    const std::vector<int> &pm = q < first ? P5.p[0] : P5.p[q];
    const int par = q < first ? 1 : P5.parity[q];
    const int exp = par * want;
    const int ex = ExactGeometricTests::insphere_exact(
        p[pm[0]], p[pm[1]], p[pm[2]], p[pm[3]], p[pm[4]]);
    const int ad = ExactGeometricTests::insphere_adaptive(
        p[pm[0]], p[pm[1]], p[pm[2]], p[pm[3]], p[pm[4]]);
    if (ex != exp)
      r.fail(fmt("insphere_exact = %d, exact sign = %d (points in order "
                 "%d%d%d%d%d, parity %+d, sign of the unpermuted determinant %d)",
                 ex, exp, pm[0], pm[1], pm[2], pm[3], pm[4], par, want));
    if (ad != exp)
      r.fail(fmt("insphere_adaptive = %d, exact sign = %d (points in order "
                 "%d%d%d%d%d, parity %+d; filter result %g errbound %g for the "
                 "unpermuted order)",
                 ad, exp, pm[0], pm[1], pm[2], pm[3], pm[4], par, res, eb));
  }
  return r;
}

// what the callers rely on (NewVoronoiCellConstructor.cpp:1573-1581): for a
// tetrahedron with orient3d < 0, insphere < 0 <=> e strictly inside the
// circumsphere, 0 <=> on it.  In general insphere = orient3d * (+1 inside).
VResult o_meaning(const VCase &c) {
  VResult r;
  const std::vector<int64_t> &m = c.iv("m");
  if (!in_domain(m, 15, r))
    return r;
  r.label(INSPHERE_CLS[c.i("cls")]);
  Vec p[5];
  for (int i = 0; i < 5; ++i)
    p[i] = point(&m[3 * i]);
  int where = 0;
  const int o = sgn(orient_det(m.data()));
  const bool proper = inside_circumsphere(m.data(), where);
  if (proper != (o != 0)) {
    r.fail("oracle inconsistency: circumcentre system singular vs orientation");
    return r;
  }
  if (!proper) {
    r.label("flat-tetrahedron-skipped");
    return r;
  }
  double res, eb;
  insphere_filter(p[0], p[1], p[2], p[3], p[4], res, eb);
  const int exp = o * where;
  filter_labels(res, eb, exp, r);
  r.label(where > 0 ? "inside" : (where < 0 ? "outside" : "on-sphere"));
  const int oc = ExactGeometricTests::orient3d_adaptive(p[0], p[1], p[2], p[3]);
  const int ex = ExactGeometricTests::insphere_exact(p[0], p[1], p[2], p[3], p[4]);
  const int ad =
      ExactGeometricTests::insphere_adaptive(p[0], p[1], p[2], p[3], p[4]);
  if (oc != o)
    r.fail(fmt("orient3d_adaptive = %d, exact orientation %d", oc, o));
  if (ex != exp)
    r.fail(fmt("insphere_exact = %d but the test point is %s the circumsphere "
               "of a tetrahedron with orientation %d (expected %d)",
               ex, where > 0 ? "inside" : (where < 0 ? "outside" : "on"), o, exp));
  if (ad != exp)
    r.fail(fmt("insphere_adaptive = %d but the test point is %s the "
               "circumsphere of a tetrahedron with orientation %d (expected %d)",
               ad, where > 0 ? "inside" : (where < 0 ? "outside" : "on"), o, exp));
  return r;
}

} // namespace

int main(int argc, char **argv) {
  std::vector<VProp> props;
  const std::string dom =
      "coordinates 1+m*2^-52 from generated 52-bit mantissas m; classes: "
      "uniform; every coordinate within 0..2^24 ulp of 1 or 2 (largest "
      "differences); exactly degenerate (integer lattice scaled by 2^k, "
      "full-mantissa a,a+u,a+v,a+su+tv with per-axis magnitudes 2^3..2^48 / "
      "signed permutations of one radius vector up to 2^50 / all lattice "
      "vectors of one length), translated by a generated offset (incl. "
      "touching 1.0 and 2-2^-52); those perturbed in one coordinate by "
      "1..1000 ulp or in one or two by a log-uniform amount up to 2^44 ulp; "
      "coincident/collinear points; for the in-sphere test also needle "
      "clusters (three vertices within 2^10..2^34 ulp of the test point and "
      "coplanar with it to an ulp, the fourth on their common sphere 2^44.."
      "2^51 ulp away, +-3 ulp); the roles of the points are shuffled. "
      "Non-trivial = exact determinant is 0 or the floating-point filter "
      "(re-evaluated in the harness) cannot decide. Every case checks the "
      "given order and one generated permutation, 5% of the cases all "
      "permutations.";
  props.push_back({"orient3d", 100000, gen_orient, o_orient,
                   "4 points; " + dom,
                   {{"degenerate-or-exact-path", 0.30},
                    {"det-zero", 0.10},
                    {"filter-decides", 0.10},
                    {"near-filter-threshold", 0.005},
                    {"errbound-zero", 0.005}}});
  props.push_back({"insphere", 100000, gen_insphere, o_insphere,
                   "5 points; " + dom,
                   {{"degenerate-or-exact-path", 0.30},
                    {"det-zero", 0.10},
                    {"filter-decides", 0.10},
                    {"near-filter-threshold", 0.005},
                    {"needle-cluster", 0.05}}});
  props.push_back({"insphere_meaning", 40000, gen_insphere, o_meaning,
                   "5 points as for insphere; oracle: circumcentre of a,b,c,d by "
                   "Cramer's rule in GMP, e inside/on/outside by comparing "
                   "squared distances; insphere must equal orient3d * "
                   "(+1 inside, 0 on, -1 outside); flat tetrahedra skipped",
                   {{"on-sphere", 0.05}, {"inside", 0.1}, {"outside", 0.1}}});
  return vr::vmain(argc, argv, "C17", props);
}
