// C19 - the simulation time line never overshoots and ends exactly on time.
// rapidcheck harness: generated (start, end, minimum, maximum, history of
// requested steps, save point) driven through the real TimeLine up to the end
// of the time line; oracle in harness/common/c19_timeline_oracle.hpp (stated
// invariants on the integer state read back through write_restart_file after
// every advance + an independent closed-form model of the step choice).
#include "c19_timeline_oracle.hpp"
#include "verif_rc.hpp"

#include <csignal>

using vr::VCase;
using vr::VProp;
using vr::VResult;
using vr::fmt;

namespace {

tl19::Scratch &scratch() {
  static tl19::Scratch s;
  return s;
}

// ------------------------------------------------------------------ generator
double gen_interval() {
  switch (vr::weighted({4, 3, 1})) {
  case 0:
    return vr::logu(1e-3, 1e18);
  case 1: {
    static const std::vector<double> round = {
        1.,   2.,      1024., 0.5,  1e10, 3.15576e13, 1e15,
        1e-3, 3.0e16,  0.1,   100., 7.,   3.15576e16};
    return vr::pick(round);
  }
  default:
    return vr::logu(1e-30, 1e30);
  }
}

double tie(double T, int64_t j) { return std::ldexp(T, -(int)j); }

// a value, or its neighbour just below / just above
double around(double x) {
  switch (vr::weighted({2, 1, 1})) {
  case 0:
    return x;
  case 1:
    return std::nextafter(x, 0.);
  default:
    return std::nextafter(x, HUGE_VAL);
  }
}

struct Setup {
  double start, end, T, minstep, maxstep;
  int kmin;
};

// boundary = true: minimum / maximum sit exactly on the power-of-two grid
Setup gen_setup(bool boundary) {
  Setup s;
  const double T0 = gen_interval();
  if (vr::coin(0.75)) {
    s.start = 0.;
    s.end = T0;
  } else {
    // general start (no caller does this): offsets from comparable to the
    // interval up to 10^6 times larger, both signs
    if (vr::coin()) {
      const double off = T0 * vr::logu(1e-3, 1e6) * (vr::coin() ? 1. : -1.);
      s.start = off;
      s.end = off + T0;
    } else {
      // start and end chosen independently: end - start is then rounded and
      // start + (end - start) need not reproduce the end time
      s.end = T0;
      s.start = vr::coin() ? -T0 * vr::logu(1e-6, 1e3) : T0 * vr::uni(0., 0.999);
    }
    if (!(s.end - s.start > 0.)) { // cannot happen for these ratios
      s.start = 0.;
      s.end = T0;
    }
  }
  const double T = s.end - s.start;
  s.T = T;
  // maximum: none, on the grid, arbitrary, the default 0.1*T
  const double floorT = T / 256.;
  switch (boundary ? vr::weighted({2, 6, 1, 1}) : vr::weighted({4, 3, 3, 1})) {
  case 0:
    s.maxstep = 0.;
    break;
  case 1:
    s.maxstep = around(tie(T, vr::weighted({6, 6, 6, 4, 3, 2, 1, 1, 1})));
    break;
  case 2:
    s.maxstep = T * vr::logu(1. / 200., 1.5);
    break;
  default:
    s.maxstep = 0.1 * T;
  }
  if (s.maxstep > 0. && s.maxstep < floorT)
    s.maxstep = floorT;
  // minimum: none, on the grid, arbitrary, the default 1e-10*T, very deep,
  // equal to the maximum
  switch (boundary ? vr::weighted({1, 6, 1, 0, 1, 1})
                   : vr::weighted({3, 3, 3, 1, 1, 1})) {
  case 0:
    s.minstep = 0.;
    break;
  case 1:
    s.minstep = around(tie(T, vr::irange(0, 45)));
    break;
  case 2:
    s.minstep = T * std::exp2(-vr::uni(1., 45.));
    break;
  case 3:
    s.minstep = 1e-10 * T;
    break;
  case 4:
    s.minstep = around(tie(T, vr::irange(46, 64)));
    break;
  default:
    s.minstep = s.maxstep > 0. ? s.maxstep : T;
  }
  // min > max is excluded (the constructor then silently raises the maximum)
  if (s.maxstep > 0. && s.minstep > s.maxstep)
    s.minstep = vr::coin() ? s.maxstep : s.maxstep * std::exp2(-vr::uni(0., 30.));
  s.kmin = s.minstep > 0. ? tl19::clampi(tl19::exp_le(T, s.minstep), 0, 63) : 0;
  return s;
}

double gen_single(const Setup &s, int depth) {
  switch (vr::weighted({3, 4, 1})) {
  case 0:
    return around(tie(s.T, vr::irange(0, depth)));
  case 1:
    return s.T * std::exp2(-vr::uni(0., (double)depth));
  default:
    return s.T * vr::uni(0.3, 3.);
  }
}

double gen_special(const Setup &s) {
  const double min_int = std::ldexp(s.T, s.kmin - 63); // minimum on the grid
  switch (vr::weighted({2, 2, 1, 3, 2, 2, 1, 1})) {
  case 0:
    return 0.;
  case 1:
    return DBL_MAX; // what the callers start from when no cell limits the step
  case 2:
    return HUGE_VAL;
  case 3:
    return std::nextafter(min_int, 0.); // just below the integer minimum
  case 4:
    return min_int; // exactly the smallest admissible step
  case 5:
    return s.minstep > 0. ? s.minstep * vr::uni(0.01, 0.999) : min_int * 0.5;
  case 6:
    return 4.9406564584124654e-324;
  default:
    return around(std::ldexp(s.T, -63)); // one integer unit
  }
}

std::vector<double> gen_history(const Setup &s, bool boundary) {
  // how many binary orders below the interval the requests reach: in 70% of
  // the cases not below the minimum (a real run ends at the first stop, so
  // long histories without one matter), otherwise 48, rarely 66 (below one
  // integer unit)
  int depth = vr::coin(0.15) ? 66 : 48;
  if (vr::coin(0.7))
    depth = std::max(3, std::min(depth, 63 - s.kmin));
  const int64_t L = vr::irange(1, 40);
  std::vector<double> q;
  const int pat =
      boundary ? vr::weighted({1, 0, 0, 0, 1, 4}) : vr::weighted({2, 3, 3, 2, 4, 2});
  switch (pat) {
  case 0: { // constant
    const double v = gen_single(s, depth);
    q.assign(L, v);
    break;
  }
  case 1: { // geometric shrink
    static const std::vector<double> ratio = {0.5, 0.7, 0.1, 0.9, 0.25};
    const double r = vr::pick(ratio);
    double v = s.T * vr::uni(0.05, 1.2);
    for (int64_t k = 0; k < L; ++k, v *= r)
      q.push_back(v);
    break;
  }
  case 2: { // geometric growth
    static const std::vector<double> ratio = {2., 1.3, 10., 4.};
    const double r = vr::pick(ratio);
    double v = s.T * std::exp2(-vr::uni(5., (double)depth));
    for (int64_t k = 0; k < L; ++k, v *= r)
      q.push_back(v);
    break;
  }
  case 3: { // alternating over many decades
    static const std::vector<double> drop = {1e-12, 1e-6, 1e-3, 1e-9};
    const double hi = s.T * vr::logu(1e-3, 1.), lo = hi * vr::pick(drop);
    for (int64_t k = 0; k < L; ++k)
      q.push_back((k & 1) ? lo : hi);
    break;
  }
  case 4: // wildly varying
    for (int64_t k = 0; k < L; ++k)
      q.push_back(gen_single(s, depth));
    break;
  default: // power-of-two fractions of the interval and their neighbours
    for (int64_t k = 0; k < L; ++k)
      q.push_back(around(tie(s.T, vr::irange(0, depth))));
  }
  const double pspecial =
      vr::coin(0.6) ? 0. : (boundary ? 0.15 : 0.08); // 60% of the histories: none
  for (auto &v : q)
    if (pspecial > 0. && vr::coin(pspecial))
      v = gen_special(s);
  return q;
}

VCase gen_case(bool boundary) {
  const Setup s = gen_setup(boundary);
  VCase c;
  c.D("start", s.start).D("end", s.end).D("min", s.minstep).D("max", s.maxstep);
  const std::vector<double> q = gen_history(s, boundary);
  c.D("reqs", q);
  // finishing request: must not be below the minimum, and large enough for
  // the run to end within a few hundred steps
  const double lowest = std::max(s.minstep, s.T / 256.);
  double fin;
  switch (vr::weighted({5, 2, 2})) {
  case 0:
    fin = DBL_MAX;
    break;
  case 1: {
    fin = tie(s.T, vr::irange(0, 8));
    if (fin < lowest)
      fin = DBL_MAX;
    break;
  }
  default:
    fin = std::max(lowest, s.T * vr::uni(1. / 256., 2.));
  }
  c.D("fin", fin);
  c.I("save_at", vr::coin(0.4) ? vr::irange(0, (int64_t)q.size()) : -1);
  c.I("every_step", vr::coin(0.1) ? 1 : 0);
  return c;
}

// ------------------------------------------------------------------ oracle
// advance() consists of loops; a defect there can make it spin forever.  A
// call that does not return is reported as inconclusive (exit 2), never as a
// verdict: 60 s is > 10^5 times the normal cost of a whole case.
std::string g_current_case;
void on_alarm(int) {
  static const char msg[] = "INCONCLUSIVE C19 a generated history did not "
                            "finish within 60 s (advance() not returning?): ";
  (void)!write(2, msg, sizeof msg - 1);
  (void)!write(2, g_current_case.data(), g_current_case.size());
  (void)!write(2, "\n", 1);
  _exit(2);
}

VResult o_history(const VCase &c) {
  g_current_case = c.to_text();
  signal(SIGALRM, on_alarm);
  alarm(60);
  struct Disarm {
    ~Disarm() { alarm(0); }
  } disarm;
  tl19::Case k;
  k.start = c.d("start");
  k.end = c.d("end");
  k.minstep = c.d("min");
  k.maxstep = c.d("max");
  k.reqs = c.dv("reqs");
  k.fin = c.d("fin");
  k.save_at = (long)c.i("save_at");
  k.every_step = c.has_i("every_step") && c.i("every_step") != 0;
  const tl19::Outcome o = tl19::run_case(k, scratch());
  VResult r;
  for (auto &l : o.labels)
    r.label(l);
  r.nontrivial = o.nontrivial;
  if (!o.ok)
    r.fail(o.msg);
  return r;
}

} // namespace

int main(int argc, char **argv) {
  std::vector<VProp> props;
  const std::string dom =
      "interval 10^U(-3,18), round values or 10^U(-30,30); start 0 (75%) or a "
      "general start up to 1e6 intervals away; maximum none / on the "
      "power-of-two grid (+-1 ulp) / arbitrary >= interval/256 / 0.1*interval; "
      "minimum none / on the grid / arbitrary / 1e-10*interval / deeper than "
      "2^-46 / equal to the maximum (min > max excluded); history of 1..40 "
      "requests: constant, geometric shrink and growth, alternating over up "
      "to 12 decades, wildly varying over 48 (15%: 66) binary orders, "
      "power-of-two fractions +-1 ulp; injected 0, DBL_MAX, inf, just below / "
      "exactly / well below the minimum, denormal, one integer unit; then the "
      "run is driven to the end with DBL_MAX or a constant request; 40% with a "
      "save/restore through a real restart file at a generated point. "
      "Non-trivial = at least 3 different step sizes in the history and the "
      "divisibility reduction fired at least once in it.";
  props.push_back({"histories", 2500, [] { return gen_case(false); }, o_history,
                   dom,
                   {{"divisibility-reduced-the-step", 0.5},
                    {"stop-below-minimum", 0.05},
                    {"with-save-restore", 0.2},
                    {"start-general", 0.1},
                    {"request-exactly-a-power-of-two-fraction", 0.1}}});
  props.push_back({"boundary_histories", 1500, [] { return gen_case(true); },
                   o_history,
                   "as 'histories', but minimum and maximum on the "
                   "power-of-two grid (+-1 ulp) and requests that are exact "
                   "power-of-two fractions of the interval or their "
                   "neighbours, 15% special values",
                   {{"request-exactly-a-power-of-two-fraction", 0.5},
                    {"max-exact-power-of-two", 0.15},
                    {"min-exact-power-of-two", 0.15},
                    {"stop-below-minimum", 0.1}}});
  return vr::vmain(argc, argv, "C19", props);
}
