// C13 (part a) - the random stream is RANLUX (ranlxd2), for every seed and
// position, and survives a restart.  rapidcheck harness; the oracle is an
// independent integer implementation of the generator written from Luescher's
// definition and the GSL seeding rule (harness/common/c13_ranlux_ref.hpp).
// Whole-program determinism (part b) is a separate Hypothesis unit.
#include "RandomGenerator.hpp"
#include "RestartReader.hpp"
#include "RestartWriter.hpp"
#include "c13_ranlux_ref.hpp"
#include "verif_rc.hpp"

#include <unistd.h>

using vr::VCase;
using vr::VProp;
using vr::VResult;
using vr::fmt;

namespace {

const int64_t TWO31 = 2147483648ll;

// ------------------------------------------------------------------ generators
// seeds: the 31-bit range with its corners, single-bit and dense patterns, and
// what callers can pass on top of that (negative parameter values,
// restart seed + thread index just past 2^31-1)
int64_t gen_seed() {
  switch (vr::weighted({10, 3, 3, 3, 2, 2, 2, 1, 2, 1})) {
  case 9:
    return 0; // documented special case: replaced by 1
  case 0:
    return vr::irange(0, TWO31 - 1);
  case 1: {
    static const std::vector<int64_t> corner = {
        0, 1, 2, 3, 42, TWO31 - 1, TWO31 - 2, 0x40000000ll, 0x3fffffffll,
        0x55555555ll, 0x2aaaaaaall};
    return vr::pick(corner);
  }
  case 2:
    return 1ll << vr::irange(0, 30);
  case 3:
    return vr::irange(0, 1000);
  case 4:
    return (TWO31 - 1) ^ (1ll << vr::irange(0, 30));
  case 5:
    return -vr::irange(1, TWO31);
  case 6:
    return TWO31 - 1 + vr::irange(1, 64); // get_random_integer() + ithread
  case 7:
    return TWO31 * vr::irange(1, 3); // low 31 bits all zero (but seed != 0)
  default:
    return vr::irange(TWO31 - 64, TWO31 - 1);
  }
}

// number of values to draw: many refills (12) and luxury skips; boundary
// lengths frequent
int64_t gen_len(int64_t maxlen) {
  switch (vr::weighted({3, 3, 2, 2})) {
  case 0:
    return vr::irange(1, 60);
  case 1: {
    const int64_t k = vr::irange(1, maxlen / 12);
    return std::max<int64_t>(1, 12 * k + vr::irange(-1, 1));
  }
  case 2:
    return vr::irange(1, maxlen);
  default:
    return vr::irange(maxlen / 2, maxlen);
  }
}

std::string seed_class(int64_t s) {
  if (s == 0)
    return "seed-0";
  if (s == 1)
    return "seed-1";
  if (s < 0)
    return "seed-negative";
  if (s >= TWO31)
    return ((s & (TWO31 - 1)) == 0) ? "seed-low31-zero" : "seed-beyond-2^31";
  if (s == TWO31 - 1)
    return "seed-2^31-1";
  return "seed-in-range";
}

// one draw from the real generator compared with the reference; `as_int`
// selects get_random_integer()
std::string draw_and_compare(RandomGenerator &g, rlx::Stream &ref, bool as_int,
                             int64_t pos, const char *who) {
  const uint64_t k = ref.next();
  if (as_int) {
    const int_fast32_t v = g.get_random_integer();
    if (v < 0 || v >= TWO31)
      return fmt("%s: get_random_integer() = %ld outside [0,2^31) at position "
                 "%ld",
                 who, (long)v, (long)pos);
    if ((uint64_t)v != (k >> 17))
      return fmt("%s: get_random_integer() = %ld, RANLUX gives %lu at position "
                 "%ld",
                 who, (long)v, (unsigned long)(k >> 17), (long)pos);
    return "";
  }
  const double u = g.get_uniform_random_double();
  if (!(u >= 0. && u < 1.))
    return fmt("%s: value %.17g outside [0,1) at position %ld", who, u,
               (long)pos);
  // optical depth drawn as -log(u) (SourceDiscretePhotonTaskContext.hpp:167)
  if (!(-std::log(u) > 0.))
    return fmt("%s: -log(u) = %g not positive for u = %.17g at position %ld",
               who, -std::log(u), u, (long)pos);
  const double expect = std::ldexp((double)k, -48); // exact: k < 2^48
  if (u != expect)
    return fmt("%s: value %a at position %ld, RANLUX (ranlxd2) gives %a "
               "(k = %lu)",
               who, u, (long)pos, expect, (unsigned long)k);
  return "";
}

bool is_int_call(int64_t int_every, int64_t pos) {
  return int_every > 0 && (pos % int_every) == int_every - 1;
}

// ------------------------------------------------------------------ stream
// mode 0: constructor; 1: default-constructed (seed 42) then set_seed, as the
// simulations do; 2: re-seeded after `pre` draws from another seed
VCase gen_stream() {
  VCase c;
  c.I("seed", gen_seed());
  c.I("n", gen_len(5000));
  const int mode = vr::weighted({4, 3, 3});
  c.I("mode", mode);
  c.I("preseed", mode == 2 ? gen_seed() : 42);
  c.I("pre", mode == 2 ? vr::irange(0, 40) : 0);
  c.I("int_every", vr::coin(0.3) ? vr::irange(1, 13) : 0);
  return c;
}

VResult o_stream(const VCase &c) {
  VResult r;
  const int64_t seed = c.i("seed"), n = c.i("n"), mode = c.i("mode");
  const int64_t int_every = c.i("int_every");
  r.label(seed_class(seed));
  r.label(mode == 0 ? "constructed" : mode == 1 ? "set_seed-fresh"
                                                 : "set_seed-after-use");
  if (int_every)
    r.label("with-integer-draws");
  if (n >= 12)
    r.label("past-first-refill");
  if (n >= 1000)
    r.label("n>=1000");
  r.nontrivial = n >= 13;
  rlx::Stream ref(seed);
  RandomGenerator g0((int_fast32_t)seed);
  RandomGenerator g1((int_fast32_t)c.i("preseed"));
  RandomGenerator *g = &g0;
  if (mode != 0) {
    for (int64_t k = 0; k < c.i("pre"); ++k)
      g1.get_uniform_random_double();
    g1.set_seed((int_fast32_t)seed);
    g = &g1;
  }
  for (int64_t pos = 0; pos < n; ++pos) {
    const std::string e =
        draw_and_compare(*g, ref, is_int_call(int_every, pos), pos, "stream");
    if (!e.empty()) {
      r.fail(fmt("seed %ld: ", (long)seed) + e);
      return r;
    }
  }
  return r;
}

// ------------------------------------------------------------------ seeds
// two seeds: the same stream iff they select the same 31-bit register content
VCase gen_pair() {
  VCase c;
  int64_t a = gen_seed(), b;
  switch (vr::weighted({3, 3, 3, 1, 1, 2})) {
  case 0:
    b = gen_seed();
    break;
  case 1:
    b = a + vr::irange(1, 64); // the seeds of the threads of one run
    break;
  case 2:
    b = a ^ (1ll << vr::irange(0, 30));
    break;
  case 3:
    a = 0;
    b = 1;
    break;
  case 4:
    b = -a;
    break;
  default:
    a = vr::irange(0, 3);
    b = vr::irange(0, 3);
  }
  c.I("seed1", a).I("seed2", b);
  return c;
}

VResult o_pair(const VCase &c) {
  VResult r;
  const int64_t a = c.i("seed1"), b = c.i("seed2");
  const bool same = rlx::canonical_seed(a) == rlx::canonical_seed(b);
  r.label(same ? (a == b ? "identical-seeds" : "equivalent-seeds")
               : "different-seeds");
  if ((a == 0 && b == 1) || (a == 1 && b == 0))
    r.label("seed-0-vs-1");
  if ((a ^ b) > 0 && (((a ^ b) & ((a ^ b) - 1)) == 0))
    r.label("one-bit-apart");
  r.nontrivial = a != b;
  RandomGenerator ga((int_fast32_t)a), gb((int_fast32_t)b);
  int first_diff = -1;
  for (int k = 0; k < 48; ++k) {
    const double ua = ga.get_uniform_random_double();
    const double ub = gb.get_uniform_random_double();
    if (ua != ub && first_diff < 0)
      first_diff = k;
  }
  if (same && first_diff >= 0)
    r.fail(fmt("seeds %ld and %ld select the same register content but the "
               "streams differ at position %d",
               (long)a, (long)b, first_diff));
  if (!same && (first_diff < 0 || first_diff >= 24))
    r.fail(fmt("different seeds %ld and %ld: streams agree on the first %d "
               "values",
               (long)a, (long)b, first_diff < 0 ? 48 : first_diff));
  return r;
}

// ------------------------------------------------------------------ threads
// the per-thread generators of a run: default-constructed, then
// set_seed(seed + ithread) (TaskBasedIonizationSimulation.cpp:255-258)
VCase gen_threads() {
  VCase c;
  int64_t s;
  switch (vr::weighted({4, 2, 2, 2})) {
  case 0:
    s = vr::irange(0, TWO31 - 1);
    break;
  case 1:
    s = vr::irange(-3, 3);
    break;
  case 2:
    s = TWO31 - 1 - vr::irange(0, 70);
    break;
  default:
    s = 42;
  }
  c.I("seed", s);
  c.I("threads", vr::irange(1, 64));
  c.I("n", vr::irange(12, 80));
  return c;
}

VResult o_threads(const VCase &c) {
  VResult r;
  const int64_t seed = c.i("seed"), T = c.i("threads"), n = c.i("n");
  r.nontrivial = T >= 2;
  std::vector<RandomGenerator> gens(T);
  for (int64_t t = 0; t < T; ++t)
    gens[t].set_seed((int_fast32_t)(seed + t));
  std::vector<std::vector<double>> out(T);
  for (int64_t t = 0; t < T; ++t) {
    rlx::Stream ref(seed + t);
    for (int64_t pos = 0; pos < n; ++pos) {
      const uint64_t k = ref.next();
      const double u = gens[t].get_uniform_random_double();
      out[t].push_back(u);
      if (u != std::ldexp((double)k, -48)) {
        r.fail(fmt("thread %ld of seed %ld: value %a at position %ld, RANLUX "
                   "with seed %ld gives %a",
                   (long)t, (long)seed, u, (long)pos, (long)(seed + t),
                   std::ldexp((double)k, -48)));
        return r;
      }
    }
  }
  // the single-thread stream is the stream of thread 0
  {
    RandomGenerator one((int_fast32_t)seed);
    for (int64_t pos = 0; pos < n; ++pos)
      if (one.get_uniform_random_double() != out[0][pos]) {
        r.fail(fmt("seed %ld: thread 0 of %ld differs from the one-thread "
                   "stream at position %ld",
                   (long)seed, (long)T, (long)pos));
        return r;
      }
  }
  bool aliased = false;
  for (int64_t t = 0; t < T; ++t)
    for (int64_t u = t + 1; u < T; ++u) {
      const bool same_seed =
          rlx::canonical_seed(seed + t) == rlx::canonical_seed(seed + u);
      bool eq = true;
      for (int k = 0; k < 24 && k < n; ++k)
        if (out[t][k] != out[u][k])
          eq = false;
      if (same_seed)
        aliased = true; // seed 0 and seed 1 are the same stream by definition
      else if (eq) {
        r.fail(fmt("threads %ld and %ld of seed %ld share their first values",
                   (long)t, (long)u, (long)seed));
        return r;
      }
    }
  if (aliased)
    r.label("two-threads-on-seed-0-and-1");
  if (seed + T - 1 >= TWO31)
    r.label("thread-seed-wraps-2^31");
  return r;
}

// ------------------------------------------------------------------ restart
std::string scratch_name() {
  static unsigned long counter = 0;
  const char *d = getenv("VERIF_TMP");
  return std::string(d ? d : ".") + "/c13_" + std::to_string((long)getpid()) +
         "_" + std::to_string(counter++) + ".rst";
}

// a chain of save points; after each the run continues with the *restored*
// generator, next to one that was never interrupted
VCase gen_restart() {
  VCase c;
  c.I("seed", gen_seed());
  const int nsave = (int)vr::irange(1, 4);
  std::vector<int64_t> gaps; // draws before each save point
  for (int k = 0; k < nsave; ++k) {
    switch (vr::weighted({2, 4, 3, 2})) {
    case 0:
      gaps.push_back(0); // straight after construction / previous restore
      break;
    case 1: // around a refill boundary
      gaps.push_back(std::max<int64_t>(0, 12 * vr::irange(0, 40) + vr::irange(-1, 1)));
      break;
    case 2:
      gaps.push_back(vr::irange(1, 30));
      break;
    default:
      gaps.push_back(vr::irange(1, 3000));
    }
  }
  c.I("gaps", gaps);
  c.I("tail", vr::irange(25, 120)); // draws after the last restore
  c.I("int_every", vr::coin(0.3) ? vr::irange(1, 13) : 0);
  return c;
}

VResult o_restart(const VCase &c) {
  VResult r;
  const int64_t seed = c.i("seed"), tail = c.i("tail");
  const int64_t int_every = c.i("int_every");
  const std::vector<int64_t> &gaps = c.iv("gaps");
  r.label(seed_class(seed));
  r.label(fmt("save-points-%d", (int)gaps.size()));
  rlx::Stream ref(seed), ref2(seed);
  RandomGenerator straight((int_fast32_t)seed);
  RandomGenerator *cur = new RandomGenerator((int_fast32_t)seed);
  int64_t pos = 0;
  bool any_mid_block = false, any_boundary = false, any_fresh = false;
  auto advance = [&](int64_t n) -> std::string {
    for (int64_t k = 0; k < n; ++k, ++pos) {
      const bool as_int = is_int_call(int_every, pos);
      // the uninterrupted generator defines the expected stream; the
      // reference pins it to RANLUX
      std::string e = draw_and_compare(straight, ref, as_int, pos,
                                       "uninterrupted generator");
      if (e.empty())
        e = draw_and_compare(*cur, ref2, as_int, pos,
                             "generator restored from restart file");
      if (!e.empty())
        return e;
    }
    return "";
  };
  std::string err;
  for (size_t s = 0; s < gaps.size() && err.empty(); ++s) {
    err = advance(gaps[s]);
    if (!err.empty())
      break;
    if (pos == 0)
      any_fresh = true;
    else if (pos % 12 == 0)
      any_boundary = true;
    else
      any_mid_block = true;
    const std::string fn = scratch_name();
    {
      RestartWriter w(fn);
      cur->write_restart_file(w);
    }
    RandomGenerator *next;
    {
      RestartReader rd(fn);
      next = new RandomGenerator(rd);
    }
    std::remove(fn.c_str());
    delete cur;
    cur = next;
  }
  if (err.empty())
    err = advance(tail);
  delete cur;
  if (any_fresh)
    r.label("saved-before-first-draw");
  if (any_boundary)
    r.label("saved-on-refill-boundary");
  if (any_mid_block)
    r.label("saved-mid-block");
  r.nontrivial = pos >= 13;
  if (!err.empty())
    r.fail(fmt("seed %ld: ", (long)seed) + err);
  return r;
}

} // namespace

int main(int argc, char **argv) {
  std::vector<VProp> props;
  const std::string seeds =
      "seeds: uniform over [0,2^31), corners {0,1,2,3,42,2^31-1,2^31-2,2^30,..}, "
      "single bits, all-ones minus a bit, [0,1000], negative, 2^31-1+[1,64] "
      "(restart seed + thread), k*2^31, top of the range. ";
  props.push_back(
      {"stream_is_ranlxd2", 3000, gen_stream, o_stream,
       seeds +
           "n in [1,5000] values (12k-1,12k,12k+1 frequent) via the "
           "constructor, set_seed on a fresh or on a used generator, with "
           "get_random_integer() interleaved in 30%; every value == k/2^48 of "
           "the integer reference, in [0,1), -log(u)>0, integer == k>>17. "
           "Non-trivial = more than 12 values (past the first refill).",
       {{"past-first-refill", 0.7}, {"seed-0", 0.01}, {"set_seed-after-use", 0.1}}});
  props.push_back(
      {"seeds_select_streams", 6000, gen_pair, o_pair,
       seeds + "pairs: independent, +[1,64], one bit apart, (0,1), (s,-s), "
               "[0,3]^2; same register content => identical 48 values, "
               "otherwise a difference within the first 24. Non-trivial = the "
               "two seeds differ.",
       {{"seed-0-vs-1", 0.02}, {"one-bit-apart", 0.1}}});
  props.push_back(
      {"thread_seeding", 1500, gen_threads, o_threads,
       "1..64 generators set_seed(seed+t) as the simulations do; each == "
       "reference(seed+t), thread 0 == one-thread stream, pairwise different "
       "unless the seeds are 0 and 1. Non-trivial = at least 2 threads."});
  props.push_back(
      {"restart_roundtrip", 6000, gen_restart, o_restart,
       seeds +
           "1..4 chained save points after 0, 12k+-1, [1,30] or [1,3000] "
           "draws, through real RestartWriter/RestartReader files; the "
           "restored generator, the uninterrupted one and the reference agree "
           "on every later value (>= 25 after the last restore). Non-trivial = "
           "more than 12 values compared.",
       {{"saved-on-refill-boundary", 0.1}, {"saved-before-first-draw", 0.05}}});
  return vr::vmain(argc, argv, "C13", props);
}
