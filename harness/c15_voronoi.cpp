// C15 - Voronoi grids are valid tessellations and the two constructions agree.
//
// Oracles
//  * invariants of each grid (NewVoronoiGrid, OldVoronoiGrid; serial and
//    multi-threaded): volumes > 0, sum == box volume, every non-negligible face
//    has a twin of equal area and midpoint in the neighbour, the face lies on
//    the bisector plane / the wall, its vertex loop is oriented away from the
//    generator, get_index(x) == brute-force nearest generator;
//  * differential New vs Old (volumes, centroids, neighbour relation over
//    non-negligible faces) for non-degenerate input;
//  * an independent brute-force reference (n <= NREF): every face is the
//    bisector plane clipped against all other half-spaces and the walls
//    (long double Sutherland-Hodgman, O(n^3)), volume/centroid by cones from
//    the generator.  This is the only reference for exactly degenerate input,
//    where only the incremental construction is required to work.
#include "NewVoronoiGrid.hpp"
#include "OldVoronoiCell.hpp"
#include "OldVoronoiGrid.hpp"
#include "verif_rc.hpp"

#include <cfloat>
#include <omp.h>
#include <poll.h>
#include <signal.h>
#include <sys/resource.h>
#include <sys/wait.h>
#include <unistd.h>

using vr::VCase;
using vr::VProp;
using vr::VResult;
using vr::fmt;
typedef CoordinateVector<> Vec;
typedef long double LD;

namespace {

const int NREF = 64; // largest grid checked against the O(n^3) reference

// --------------------------------------------------------------- small algebra
struct V3 {
  LD x, y, z;
};
V3 operator+(V3 a, V3 b) { return {a.x + b.x, a.y + b.y, a.z + b.z}; }
V3 operator-(V3 a, V3 b) { return {a.x - b.x, a.y - b.y, a.z - b.z}; }
V3 operator*(LD s, V3 a) { return {s * a.x, s * a.y, s * a.z}; }
LD dot(V3 a, V3 b) { return a.x * b.x + a.y * b.y + a.z * b.z; }
V3 cross(V3 a, V3 b) {
  return {a.y * b.z - a.z * b.y, a.z * b.x - a.x * b.z, a.x * b.y - a.y * b.x};
}
LD norm(V3 a) { return sqrtl(dot(a, a)); }
V3 tov(const Vec &v) { return {v.x(), v.y(), v.z()}; }

struct Plane { // half space n.x <= c
  V3 n;
  LD c;
  int64_t id; // neighbour index, or -1..-6 for the walls
};

// ------------------------------------------------------------ reference cells
struct RefFace {
  int64_t id;
  LD area;
  V3 mid;
};
struct RefCell {
  LD vol;
  V3 cen;
  std::vector<RefFace> faces;
};

void clip(std::vector<V3> &poly, const Plane &h) {
  std::vector<V3> out;
  const size_t n = poly.size();
  out.reserve(n + 2);
  for (size_t k = 0; k < n; ++k) {
    const V3 &a = poly[k], &b = poly[(k + 1) % n];
    const LD da = dot(h.n, a) - h.c, db = dot(h.n, b) - h.c;
    const bool ia = da <= 0, ib = db <= 0;
    if (ia)
      out.push_back(a);
    if (ia != ib) {
      const LD t = da / (da - db);
      out.push_back(a + t * (b - a));
    }
  }
  poly.swap(out);
}

RefCell ref_cell(size_t i, const std::vector<V3> &p, const V3 &lo, const V3 &hi) {
  std::vector<Plane> H;
  for (size_t j = 0; j < p.size(); ++j) {
    if (j == i)
      continue;
    const V3 d = p[j] - p[i];
    H.push_back({d, dot(d, 0.5L * (p[i] + p[j])), (int64_t)j});
  }
  H.push_back({{-1, 0, 0}, -lo.x, -1});
  H.push_back({{1, 0, 0}, hi.x, -2});
  H.push_back({{0, -1, 0}, -lo.y, -3});
  H.push_back({{0, 1, 0}, hi.y, -4});
  H.push_back({{0, 0, -1}, -lo.z, -5});
  H.push_back({{0, 0, 1}, hi.z, -6});
  const LD S = 4 * norm(hi - lo);
  RefCell c;
  c.vol = 0;
  c.cen = {0, 0, 0};
  for (size_t f = 0; f < H.size(); ++f) {
    const Plane &P = H[f];
    const LD nn = norm(P.n);
    const V3 n = (1 / nn) * P.n;
    // foot of the generator on the plane
    const LD h = (P.c - dot(P.n, p[i])) / nn; // distance generator - plane (>0)
    const V3 o = p[i] + h * n;
    V3 a = fabsl(n.x) < 0.6L ? V3{1, 0, 0} : V3{0, 1, 0};
    V3 u = cross(n, a);
    u = (1 / norm(u)) * u;
    const V3 v = cross(n, u);
    // counterclockwise seen from outside (from the side n points to)
    std::vector<V3> poly = {o + S * u + S * v, o + (-S) * u + S * v,
                            o + (-S) * u + (-S) * v, o + S * u + (-S) * v};
    for (size_t g = 0; g < H.size() && poly.size() >= 3; ++g)
      if (g != f)
        clip(poly, H[g]);
    if (poly.size() < 3)
      continue;
    V3 A = {0, 0, 0}, M = {0, 0, 0};
    LD area = 0;
    for (size_t k = 1; k + 1 < poly.size(); ++k) {
      const V3 w = cross(poly[k] - poly[0], poly[k + 1] - poly[0]);
      const LD ta = 0.5L * dot(w, n);
      area += ta;
      M = M + (ta / 3) * (poly[0] + poly[k] + poly[k + 1]);
    }
    (void)A;
    if (!(area > 0))
      continue;
    M = (1 / area) * M;
    const LD cone = area * h / 3;
    c.vol += cone;
    c.cen = c.cen + cone * (p[i] + 0.75L * (M - p[i]));
    c.faces.push_back({P.id, area, M});
  }
  if (c.vol > 0)
    c.cen = (1 / c.vol) * c.cen;
  return c;
}

// ------------------------------------------------------------ running a grid
struct GFace {
  int64_t id; // neighbour or -1..-6
  double area;
  V3 mid;
  std::vector<V3> vert;
};
struct GridOut {
  std::vector<double> vol;
  std::vector<V3> cen;
  std::vector<std::vector<GFace>> faces;
  std::vector<int64_t> index; // get_index of the queries (-1: not evaluated)
};

int64_t wall_id_new(uint_fast32_t ngb) {
  switch (ngb) {
  case NEWVORONOICELL_BOX_LEFT:
    return -1;
  case NEWVORONOICELL_BOX_RIGHT:
    return -2;
  case NEWVORONOICELL_BOX_FRONT:
    return -3;
  case NEWVORONOICELL_BOX_BACK:
    return -4;
  case NEWVORONOICELL_BOX_BOTTOM:
    return -5;
  case NEWVORONOICELL_BOX_TOP:
    return -6;
  }
  return -99; // a corner of the all-encompassing tetrahedron: must not survive
}
int64_t wall_id_old(uint_fast32_t ngb) {
  switch (ngb) {
  case OLDVORONOI_BOX_LEFT:
    return -1;
  case OLDVORONOI_BOX_RIGHT:
    return -2;
  case OLDVORONOI_BOX_FRONT:
    return -3;
  case OLDVORONOI_BOX_BACK:
    return -4;
  case OLDVORONOI_BOX_BOTTOM:
    return -5;
  case OLDVORONOI_BOX_TOP:
    return -6;
  }
  return -99;
}

// would PointLocations::generalngbiterator index outside its bucket grid?
// (same arithmetic as PointLocations.hpp:49-66 and :480-486; only used to avoid
// undefined behaviour inside the harness process)
bool query_overflows(const Vec &q0, const Box<> &box, size_t n, size_t bucket,
                     bool oldgrid = false) {
  const uint_fast32_t npc = std::min<uint_fast32_t>(bucket, n);
  const double desired = n / npc;
  const uint_fast32_t nc = std::round(std::cbrt(desired));
  Vec q = q0;
  if (oldgrid) // the unit conversion of OldVoronoiGrid::get_index (a no-op in exact arithmetic)
    for (int k = 0; k < 3; ++k)
      q[k] = box.get_anchor()[k] + (q[k] - box.get_anchor()[k]) *
                                       box.get_sides()[k] / box.get_sides()[k];
  for (int k = 0; k < 3; ++k) {
    if (!(q[k] < box.get_anchor()[k] + box.get_sides()[k]))
      return true;
    const double side = box.get_sides()[k] / nc;
    const uint_fast32_t a = (q[k] - box.get_anchor()[k]) / side;
    if (a >= nc)
      return true;
  }
  return false;
}

template <class GRID>
GridOut run_grid(const std::vector<Vec> &pos, const Box<> &box, int threads,
                 const std::vector<Vec> &queries, bool isnew) {
  GridOut o;
  omp_set_num_threads(threads);
  {
    GRID grid(pos, box);
    grid.compute_grid(threads);
    const size_t n = pos.size();
    o.vol.resize(n);
    o.cen.resize(n);
    o.faces.resize(n);
    for (size_t i = 0; i < n; ++i) {
      o.vol[i] = grid.get_volume(i);
      o.cen[i] = tov(grid.get_centroid(i));
      const std::vector<VoronoiFace> fs = grid.get_faces(i);
      for (auto &f : fs) {
        GFace g;
        const uint_fast32_t ngb = f.get_neighbour();
        g.id = grid.is_real_neighbour(ngb)
                   ? (int64_t)ngb
                   : (isnew ? wall_id_new(ngb) : wall_id_old(ngb));
        g.area = f.get_surface_area();
        g.mid = tov(f.get_midpoint());
        for (auto &v : f.get_vertices())
          g.vert.push_back(tov(v));
        o.faces[i].push_back(g);
      }
    }
    for (auto &q : queries) {
      // (the grid runs in a forked child: an out-of-bounds bucket index shows up
      // as a crash of the child, see run_isolated)
      if (getenv("C15_GUARD_QUERIES") &&
          query_overflows(q, box, n, isnew ? NEWVORONOIGRID_NUM_BUCKET : 10, !isnew))
        o.index.push_back(-2);
      else
        o.index.push_back((int64_t)grid.get_index(q));
    }
  }
  omp_set_num_threads(1);
  return o;
}

// Every grid is built in a forked child: an endless loop or a crash of the code
// under test becomes a reported failure instead of killing the check.  (The
// parent never enters an OpenMP region, so forking is safe.)
void encode(const GridOut &o, std::vector<double> &d) {
  d.push_back((double)o.vol.size());
  for (size_t i = 0; i < o.vol.size(); ++i) {
    d.push_back(o.vol[i]);
    d.push_back((double)o.cen[i].x);
    d.push_back((double)o.cen[i].y);
    d.push_back((double)o.cen[i].z);
    d.push_back((double)o.faces[i].size());
    for (auto &f : o.faces[i]) {
      d.push_back((double)f.id);
      d.push_back(f.area);
      d.push_back((double)f.mid.x);
      d.push_back((double)f.mid.y);
      d.push_back((double)f.mid.z);
      d.push_back((double)f.vert.size());
      for (auto &v : f.vert) {
        d.push_back((double)v.x);
        d.push_back((double)v.y);
        d.push_back((double)v.z);
      }
    }
  }
  d.push_back((double)o.index.size());
  for (auto x : o.index)
    d.push_back((double)x);
}
bool decode(const std::vector<double> &d, GridOut &o) {
  size_t k = 0;
  auto get = [&](double &x) {
    if (k >= d.size())
      return false;
    x = d[k++];
    return true;
  };
  double x, y, z, nn;
  if (!get(nn))
    return false;
  const size_t n = (size_t)nn;
  o.vol.resize(n);
  o.cen.resize(n);
  o.faces.resize(n);
  for (size_t i = 0; i < n; ++i) {
    double nf;
    if (!get(o.vol[i]) || !get(x) || !get(y) || !get(z) || !get(nf))
      return false;
    o.cen[i] = {x, y, z};
    for (size_t f = 0; f < (size_t)nf; ++f) {
      GFace g;
      double id, nv;
      if (!get(id) || !get(g.area) || !get(x) || !get(y) || !get(z) || !get(nv))
        return false;
      g.id = (int64_t)id;
      g.mid = {x, y, z};
      for (size_t v = 0; v < (size_t)nv; ++v) {
        if (!get(x) || !get(y) || !get(z))
          return false;
        g.vert.push_back({x, y, z});
      }
      o.faces[i].push_back(g);
    }
  }
  if (!get(nn))
    return false;
  for (size_t q = 0; q < (size_t)nn; ++q) {
    if (!get(x))
      return false;
    o.index.push_back((int64_t)x);
  }
  return true;
}

// a grid of 300 generators takes < 0.5 s.  A hang is decided on the CPU time
// of the child (load independent); the wall-clock limit only ends cases on an
// overloaded machine and is inconclusive ("wall-limit"), never a failure.
const double BUDGET_S = 8.;
const double WALL_LIMIT_S = 240.;

// returns "" or what went wrong ("timeout", "signal N", "abort: ...")
template <class GRID>
std::string run_isolated(const std::vector<Vec> &pos, const Box<> &box,
                         int threads, const std::vector<Vec> &queries,
                         bool isnew, GridOut &out) {
  if (getenv("C15_NOFORK")) { // debugging aid
    out = run_grid<GRID>(pos, box, threads, queries, isnew);
    return "";
  }
  int fd[2];
  if (pipe(fd) != 0)
    return "pipe failed";
  fflush(stdout);
  fflush(stderr);
  const pid_t pid = fork();
  if (pid < 0)
    return "fork failed";
  if (pid == 0) {
    close(fd[0]);
    struct rlimit rl;
    rl.rlim_cur = (rlim_t)BUDGET_S;
    rl.rlim_max = (rlim_t)BUDGET_S + 2;
    setrlimit(RLIMIT_CPU, &rl);
    signal(SIGXCPU, SIG_DFL);
    std::vector<double> d;
    try {
      const GridOut o = run_grid<GRID>(pos, box, threads, queries, isnew);
      d.push_back(1.);
      encode(o, d);
    } catch (const VerifAbort &e) {
      d.clear();
      d.push_back(-1.);
      const std::string m = e.file + ":" + std::to_string(e.line) + ": " + e.msg;
      for (char ch : m)
        d.push_back((double)(unsigned char)ch);
    } catch (const std::exception &e) {
      d.clear();
      d.push_back(-1.);
      const std::string m = std::string("exception: ") + e.what();
      for (char ch : m)
        d.push_back((double)(unsigned char)ch);
    } catch (...) {
      d.clear();
      d.push_back(-1.);
    }
    const char *b = (const char *)d.data();
    size_t left = d.size() * sizeof(double);
    while (left) {
      const ssize_t w = write(fd[1], b, left);
      if (w <= 0)
        break;
      b += w;
      left -= (size_t)w;
    }
    _exit(0);
  }
  close(fd[1]);
  std::vector<char> buf;
  bool timeout = false;
  const auto t0 = std::chrono::steady_clock::now();
  for (;;) {
    const double el =
        std::chrono::duration<double>(std::chrono::steady_clock::now() - t0).count();
    if (el > WALL_LIMIT_S) {
      timeout = true;
      break;
    }
    struct pollfd pf = {fd[0], POLLIN, 0};
    const int pr = poll(&pf, 1, 200);
    if (pr > 0) {
      char tmp[65536];
      const ssize_t g = read(fd[0], tmp, sizeof tmp);
      if (g <= 0)
        break;
      buf.insert(buf.end(), tmp, tmp + g);
    }
  }
  close(fd[0]);
  if (timeout)
    kill(pid, SIGKILL);
  int status = 0;
  waitpid(pid, &status, 0);
  if (timeout)
    return "wall-limit";
  if (WIFSIGNALED(status) &&
      (WTERMSIG(status) == SIGXCPU || WTERMSIG(status) == SIGKILL))
    return "timeout"; // CPU budget used up
  if (WIFSIGNALED(status))
    return "signal " + std::to_string(WTERMSIG(status));
  std::vector<double> d(buf.size() / sizeof(double));
  memcpy(d.data(), buf.data(), d.size() * sizeof(double));
  if (d.empty())
    return "no result";
  if (d[0] < 0) {
    std::string m = "abort: ";
    for (size_t k = 1; k < d.size(); ++k)
      m += (char)d[k];
    return m;
  }
  d.erase(d.begin());
  if (!decode(d, out))
    return "truncated result";
  return "";
}

// The incremental construction works on coordinates rescaled into [1,2)
// (NewVoronoiGrid.cpp:136-186); generators that collapse onto each other or
// onto a wall at that resolution (2^-52 of 9 x the longest side) are not
// distinct points for it.  Same arithmetic, used only as a precondition.
std::vector<double> rescaled(const double *x, const double *a, const double *s) {
  const double ms = std::max(s[0], std::max(s[1], s[2]));
  std::vector<double> r(3);
  for (int k = 0; k < 3; ++k) {
    const double mn = a[k] - s[k];
    const double range = ((mn + 9 * ms) - mn) * (1. + DBL_EPSILON);
    r[k] = 1. + (x[k] - mn) / range;
  }
  return r;
}
bool resolvable(const std::vector<double> &flat, const double *a, const double *s) {
  std::set<std::vector<double>> seen;
  double lo[3], hi[3];
  for (int k = 0; k < 3; ++k) {
    lo[k] = a[k];
    hi[k] = a[k] + s[k];
  }
  const std::vector<double> rl = rescaled(lo, a, s), rh = rescaled(hi, a, s);
  for (size_t i = 0; i + 2 < flat.size(); i += 3) {
    const std::vector<double> r = rescaled(&flat[i], a, s);
    for (int k = 0; k < 3; ++k)
      if (!(r[k] - rl[k] > 16 * DBL_EPSILON && rh[k] - r[k] > 16 * DBL_EPSILON))
        return false;
    if (!seen.insert(r).second)
      return false;
  }
  return true;
}

// ------------------------------------------------------------------ generator
const char *CLS[] = {"uniform",        "clustered",     "lattice",
                     "perturbed-lattice", "coplanar-cospherical",
                     "near-walls", "needle-cell"};

double gauss() {
  const double u1 = vr::uni(1e-12, 1.), u2 = vr::uni();
  return std::sqrt(-2. * std::log(u1)) * std::cos(6.283185307179586 * u2);
}
double ulps(double x, int64_t k) {
  for (int64_t q = 0; q < std::llabs(k); ++q)
    x = std::nextafter(x, k > 0 ? 1e300 : -1e300);
  return x;
}

VCase gen_grid(int maxn, bool nondegenerate_only) {
  VCase c;
  // box: anchor and sides, aspect ratio up to 1:20
  double a[3], s[3];
  const int bm = vr::weighted({3, 2, 3});
  // the unit of length is the caller's: unit boxes, a few units, two decades
  // around 1, and (1/3 of the general boxes) anything from micrometres to
  // kiloparsecs in metres - every tolerance in the two grids is relative to
  // the box
  const double L = bm == 0 ? 1.
                   : (bm == 1 ? vr::dyadic(0.5, 4., 3)
                              : (vr::coin(0.67) ? vr::logu(1e-2, 1e2)
                                                : vr::logu(1e-6, 1e20)));
  for (int k = 0; k < 3; ++k) {
    a[k] = bm == 0 ? 0. : (bm == 1 ? vr::dyadic(-2., 2., 3) : L * vr::uni(-2., 2.));
    s[k] = L;
  }
  if (vr::coin(0.5))
    for (int k = 0; k < 3; ++k)
      s[k] = L * (bm == 2 ? vr::logu(0.05, 1.) : vr::dyadic(1. / 16, 1.0625, 4));
  int cls = vr::weighted({4, 4, 3, 3, 3, 3, 2});
  if (nondegenerate_only && (cls == 2 || cls == 4))
    cls = vr::coin() ? 0 : 3;
  std::vector<std::vector<double>> p; // unit coordinates in (0,1)
  auto clampu = [](double x) {
    // reflect into the box and keep a relative distance 1e-12 from the walls
    x = std::abs(x);
    if (x > 1.)
      x = 2. - x;
    x = std::abs(x);
    return std::min(1. - 1e-12, std::max(1e-12, x));
  };
  int n = (int)vr::irange(2, maxn);
  if (vr::coin(0.3))
    n = (int)vr::irange(2, std::min(maxn, 12));
  switch (cls) {
  case 0:
    for (int i = 0; i < n; ++i)
      p.push_back({vr::uni(1e-12, 1.), vr::uni(1e-12, 1.), vr::uni(1e-12, 1.)});
    break;
  case 1: {
    const int nb = (int)vr::irange(1, 4);
    std::vector<std::vector<double>> ctr;
    std::vector<double> sig;
    for (int b = 0; b < nb; ++b) {
      ctr.push_back({vr::uni(0.05, 0.95), vr::uni(0.05, 0.95), vr::uni(0.05, 0.95)});
      sig.push_back(vr::logu(1e-6, 1e-1));
    }
    const int nbg = vr::coin(0.5) ? (int)vr::irange(0, n / 2) : 0; // background
    for (int i = 0; i < n; ++i) {
      if (i < nbg) {
        p.push_back({vr::uni(1e-12, 1.), vr::uni(1e-12, 1.), vr::uni(1e-12, 1.)});
        continue;
      }
      const int b = (int)vr::irange(0, nb - 1);
      p.push_back({clampu(ctr[b][0] + sig[b] * gauss()),
                   clampu(ctr[b][1] + sig[b] * gauss()),
                   clampu(ctr[b][2] + sig[b] * gauss())});
    }
    break;
  }
  case 2:
  case 3: {
    int m[3];
    for (;;) {
      for (int k = 0; k < 3; ++k)
        m[k] = (int)vr::irange(1, 7);
      if (m[0] * m[1] * m[2] >= 2 && m[0] * m[1] * m[2] <= maxn)
        break;
    }
    // perturbation amplitude: the whole range, and (40%) the decade and a half
    // just above the snapping tolerance of the plane-cutting construction
    // (~4e-9 sides): bisector planes then pass close to existing vertices and
    // the on-plane decisions have to be consistent - the regime of its
    // "complicated setup" branches, outside the open finding K4 (< 1e-6)
    double amp = 0.;
    if (cls == 3)
      amp = vr::logu(1e-13, 0.3);
    if (cls == 3 && vr::coin(0.4)) {
      // a full cubic lattice of 5^3 or 6^3 displaced by 1.5e-6..2e-5 sides
      const int mm = (int)vr::irange(5, 6);
      if (mm * mm * mm <= maxn) {
        m[0] = m[1] = m[2] = mm;
        amp = mm * vr::logu(1.5e-6, 2e-5);
      }
    }
    const bool drop = vr::coin(0.3);
    const int stagger = vr::weighted({5, 1, 1}); // cubic, bcc-like, shifted planes
    for (int ix = 0; ix < m[0]; ++ix)
      for (int iy = 0; iy < m[1]; ++iy)
        for (int iz = 0; iz < m[2]; ++iz) {
          if (drop && vr::coin(0.2) && !(ix + iy + iz == 0))
            continue;
          double q[3] = {(ix + 0.5) / m[0], (iy + 0.5) / m[1], (iz + 0.5) / m[2]};
          if (stagger == 2 && (iz & 1))
            q[0] += 0.25 / m[0];
          p.push_back({q[0], q[1], q[2]});
          if (stagger == 1)
            p.push_back({q[0] + 0.25 / m[0], q[1] + 0.25 / m[1], q[2] + 0.25 / m[2]});
        }
    if (cls == 3)
      for (auto &q : p)
        for (int k = 0; k < 3; ++k) {
          if (amp < 1e-12)
            q[k] = ulps(q[k], vr::irange(-1000, 1000));
          else
            q[k] = clampu(q[k] + amp / m[k] * vr::uni(-1., 1.));
        }
    break;
  }
  case 4: {
    // points exactly in one plane / on one sphere (+ optional ulp noise), plus
    // a few generic points
    const bool sphere = vr::coin();
    const int64_t noise = vr::coin(0.5) ? 0 : vr::irange(1, 1000);
    const int ng = (int)vr::irange(0, 3);
    if (sphere) {
      // signed permutations of (i,j,k)/64: exactly cospherical in unit coords
      const int64_t v[3] = {vr::irange(1, 12), vr::irange(0, 12), vr::irange(0, 12)};
      static const int pr[6][3] = {{0, 1, 2}, {0, 2, 1}, {1, 0, 2},
                                   {1, 2, 0}, {2, 0, 1}, {2, 1, 0}};
      std::set<std::vector<int64_t>> seen;
      const int want = std::min(n, 24);
      for (int t = 0; t < 200 && (int)seen.size() < want; ++t) {
        const int *o = pr[vr::irange(0, 5)];
        const int sg = (int)vr::irange(0, 7);
        seen.insert({(sg & 1 ? -1 : 1) * v[o[0]], (sg & 2 ? -1 : 1) * v[o[1]],
                     (sg & 4 ? -1 : 1) * v[o[2]]});
      }
      for (auto &w : seen)
        p.push_back({0.5 + w[0] / 64., 0.5 + w[1] / 64., 0.5 + w[2] / 64.});
      if (vr::coin(0.5))
        p.push_back({0.5, 0.5, 0.5});
    } else {
      const int axis = (int)vr::irange(0, 2);
      const double h = vr::dyadic(0.125, 0.875, 5);
      for (int i = 0; i < n; ++i) {
        std::vector<double> q = {vr::uni(0.01, 0.99), vr::uni(0.01, 0.99),
                                 vr::uni(0.01, 0.99)};
        q[axis] = h;
        p.push_back(q);
      }
    }
    if (noise)
      for (auto &q : p) {
        const int k = (int)vr::irange(0, 2);
        q[k] = ulps(q[k], vr::irange(-noise, noise));
      }
    for (int i = 0; i < ng; ++i)
      p.push_back({vr::uni(0.01, 0.99), vr::uni(0.01, 0.99), vr::uni(0.01, 0.99)});
    break;
  }
  case 6: {
    // One needle-shaped cell: generator P squeezed by three close neighbours
    // (distance a) whose bisector planes open under a small angle, closed at
    // the back; its tip lies a distance R0 >> a away, where a generator Q
    // just beyond the tip (and nothing else inside the tip's circumsphere)
    // decides the last vertex.  The rest of the box is a jittered lattice of
    // well separated points.  Whether that far vertex is found / cut depends
    // on the termination criteria of the neighbour searches of both
    // constructions.  Everything is well separated (>= 0.03 sides).
    const int ax = (int)vr::irange(0, 2), sg = vr::coin() ? 1 : -1;
    const double a = vr::uni(0.04, 0.07), R0 = vr::uni(0.22, 0.32);
    const double sina = 0.5 * a / R0, cosa = std::sqrt(1. - sina * sina);
    double P[3] = {vr::uni(0.3, 0.7), vr::uni(0.3, 0.7), vr::uni(0.3, 0.7)};
    P[ax] = sg > 0 ? vr::uni(0.15, 0.3) : vr::uni(0.7, 0.85);
    const int b1 = (ax + 1) % 3, b2 = (ax + 2) % 3;
    const double ph0 = vr::uni(0., 6.283185307179586);
    auto mk = [&](double da, double d1, double d2) {
      std::vector<double> q(3);
      q[ax] = P[ax] + sg * da;
      q[b1] = P[b1] + d1;
      q[b2] = P[b2] + d2;
      return q;
    };
    for (int i = 0; i < 3; ++i) {
      const double phi = ph0 + 2.0943951023931953 * i;
      p.push_back(mk(a * sina, a * cosa * std::cos(phi), a * cosa * std::sin(phi)));
    }
    p.push_back({P[0], P[1], P[2]});
    p.push_back(mk(-a, 0., 0.));
    p.push_back(mk(R0 + vr::uni(0.04, 0.1), 0., 0.)); // Q beyond the tip
    const int mm = (int)vr::irange(4, 5);
    const double jit = 0.16 / mm;
    for (int ix = 0; ix < mm; ++ix)
      for (int iy = 0; iy < mm; ++iy)
        for (int iz = 0; iz < mm; ++iz) {
          const double q[3] = {(ix + 0.5) / mm + jit * vr::uni(-0.5, 0.5),
                               (iy + 0.5) / mm + jit * vr::uni(-0.5, 0.5),
                               (iz + 0.5) / mm + jit * vr::uni(-0.5, 0.5)};
          const double along = sg * (q[ax] - P[ax]);
          const double d1 = q[b1] - P[b1], d2 = q[b2] - P[b2];
          const double rad = std::sqrt(d1 * d1 + d2 * d2);
          const bool near_needle = along > -0.12 && along < R0 + 0.05 && rad < 0.15;
          const double t = along - R0;
          const bool near_tip = std::sqrt(t * t + rad * rad) < R0 + 0.04;
          if (!near_needle && !near_tip)
            p.push_back({q[0], q[1], q[2]});
        }
    for (auto &q : p)
      for (int k = 0; k < 3; ++k)
        q[k] = clampu(q[k] + 1e-3 * vr::uni(-1., 1.));
    break;
  }
  default: {
    // distance scale to the walls: 1e-6..1e-3 sides; 2% of these grids go down
    // to 1e-12 (there NewVoronoiGrid can loop for ever - known finding
    // newvoronoi_hang_generator_near_wall - which costs BUDGET_S per case)
    const double dlo = vr::coin(0.02) ? 1e-12 : 1e-6;
    for (int i = 0; i < n; ++i) {
      const double dwall = vr::logu(dlo, 1e-3);
      std::vector<double> q = {vr::uni(1e-12, 1.), vr::uni(1e-12, 1.),
                               vr::uni(1e-12, 1.)};
      const int nw = (int)vr::irange(0, 3); // coordinates pushed to a wall
      for (int w = 0; w < nw; ++w) {
        const int k = (int)vr::irange(0, 2);
        q[k] = vr::coin() ? dwall : 1. - dwall * vr::uni(0.5, 1.);
      }
      p.push_back(q);
    }
  }
  }
  // real coordinates; distinct and strictly inside by construction (checked)
  std::vector<double> flat;
  std::set<std::vector<double>> seen;
  for (auto &q : p) {
    std::vector<double> x(3);
    for (int k = 0; k < 3; ++k)
      x[k] = a[k] + s[k] * q[k];
    bool inside = true;
    for (int k = 0; k < 3; ++k)
      inside &= x[k] > a[k] && x[k] < a[k] + s[k] &&
                (x[k] - a[k]) / s[k] < 1. - 1e-13 && (x[k] - a[k]) / s[k] > 1e-13;
    if (!inside || !seen.insert(rescaled(x.data(), a, s)).second)
      continue;
    flat.insert(flat.end(), x.begin(), x.end());
  }
  RC_PRE(flat.size() >= 6);
  RC_PRE(resolvable(flat, a, s));
  c.I("cls", cls);
  c.I("threads", vr::weighted({5, 2, 2, 1}) + 1);
  c.D("anchor", {a[0], a[1], a[2]});
  c.D("sides", {s[0], s[1], s[2]});
  c.D("pos", flat);
  // queries
  const size_t np = flat.size() / 3;
  std::vector<double> qs;
  const int nq = 12;
  for (int t = 0; t < nq; ++t) {
    double x[3];
    switch (vr::weighted({3, 2, 3, 2, 1})) {
    case 0:
      for (int k = 0; k < 3; ++k)
        x[k] = a[k] + s[k] * vr::uni();
      break;
    case 1: { // close to a generator
      const size_t i = vr::irange(0, np - 1);
      const double r = vr::logu(1e-9, 1e-1);
      for (int k = 0; k < 3; ++k)
        x[k] = flat[3 * i + k] + s[k] * r * vr::uni(-1., 1.);
      break;
    }
    case 2: { // close to the bisector of two generators
      const size_t i = vr::irange(0, np - 1), j = vr::irange(0, np - 1);
      const double w = 0.5 + (vr::coin(0.3) ? 0. : vr::logu(1e-12, 1e-2) * (vr::coin() ? 1 : -1));
      const double r = vr::coin() ? 0. : vr::logu(1e-6, 1e-1);
      for (int k = 0; k < 3; ++k)
        x[k] = flat[3 * i + k] * (1. - w) + flat[3 * j + k] * w + s[k] * r * vr::uni(-1., 1.);
      break;
    }
    case 3: { // a few ulp inside a wall
      for (int k = 0; k < 3; ++k)
        x[k] = a[k] + s[k] * vr::uni();
      const int k = (int)vr::irange(0, 2);
      if (vr::coin(0.7))
        x[k] = ulps(a[k] + s[k], -vr::irange(1, 4));
      else
        x[k] = ulps(a[k], vr::irange(0, 4));
      break;
    }
    default: { // exactly a generator
      const size_t i = vr::irange(0, np - 1);
      for (int k = 0; k < 3; ++k)
        x[k] = flat[3 * i + k];
    }
    }
    for (int k = 0; k < 3; ++k) {
      // into the half-open box [a, a+s)
      if (!(x[k] >= a[k]))
        x[k] = a[k];
      if (!(x[k] < a[k] + s[k]))
        x[k] = std::nextafter(a[k] + s[k], -1e300);
    }
    qs.insert(qs.end(), x, x + 3);
  }
  c.D("queries", qs);
  return c;
}

// ------------------------------------------------------------------ oracles
struct Problem {
  std::vector<Vec> pos, queries;
  std::vector<V3> p;
  Box<> box;
  V3 lo, hi;
  double Vbox, Lbox;
  int cls, threads;
};

Problem unpack(const VCase &c) {
  Problem P;
  const auto &a = c.dv("anchor");
  const auto &s = c.dv("sides");
  P.box = Box<>(Vec(a[0], a[1], a[2]), Vec(s[0], s[1], s[2]));
  P.lo = {a[0], a[1], a[2]};
  P.hi = {(LD)a[0] + s[0], (LD)a[1] + s[1], (LD)a[2] + s[2]};
  const auto &x = c.dv("pos");
  for (size_t i = 0; i + 2 < x.size(); i += 3) {
    P.pos.push_back(Vec(x[i], x[i + 1], x[i + 2]));
    P.p.push_back({x[i], x[i + 1], x[i + 2]});
  }
  const auto &q = c.dv("queries");
  for (size_t i = 0; i + 2 < q.size(); i += 3)
    P.queries.push_back(Vec(q[i], q[i + 1], q[i + 2]));
  P.Vbox = s[0] * s[1] * s[2];
  P.Lbox = std::sqrt(s[0] * s[0] + s[1] * s[1] + s[2] * s[2]);
  P.cls = (int)c.i("cls");
  P.threads = (int)c.i("threads");
  return P;
}

bool valid_problem(const Problem &P, VResult &r) {
  if (P.pos.size() < 2) {
    r.fail("malformed case: fewer than 2 generators");
    return false;
  }
  std::set<std::vector<double>> seen;
  for (auto &x : P.pos) {
    if (!P.box.inside(x) || !seen.insert({x.x(), x.y(), x.z()}).second) {
      r.fail("malformed case: generator outside the box or duplicated");
      return false;
    }
    for (int k = 0; k < 3; ++k) {
      const double u = (x[k] - P.box.get_anchor()[k]) / P.box.get_sides()[k];
      if (!(u > 1e-13 && u < 1. - 1e-13)) {
        r.fail("malformed case: generator closer than 1e-13 to a wall");
        return false;
      }
    }
  }
  {
    std::vector<double> flat;
    for (auto &x : P.pos)
      for (int k = 0; k < 3; ++k)
        flat.push_back(x[k]);
    const double a[3] = {P.box.get_anchor().x(), P.box.get_anchor().y(),
                         P.box.get_anchor().z()};
    const double sd[3] = {P.box.get_sides().x(), P.box.get_sides().y(),
                          P.box.get_sides().z()};
    if (!resolvable(flat, a, sd)) {
      r.fail("malformed case: generators coincide (with each other or a wall) "
             "at the resolution of the rescaled coordinates");
      return false;
    }
  }
  return true;
}

// smallest separation between generators relative to the box: conditioning
double min_separation(const Problem &P) {
  LD m = 1e300L;
  for (size_t i = 0; i < P.p.size(); ++i)
    for (size_t j = i + 1; j < P.p.size(); ++j)
      m = std::min(m, norm(P.p[i] - P.p[j]));
  return (double)m;
}

// Tolerance model (DESIGN.md 3): a computed Voronoi vertex may be displaced by
// DELTA box diagonals (~1e6 ulp of the box: the circumcentres are evaluated in
// plain double arithmetic), on top of a relative 1e-9.
const double DELTA = 1e-10;
// OldVoronoiCell snaps a vertex onto a cutting plane when |v.d - d.d| <=
// OLDVORONOI_TOLERANCE |sides|^2 (d = half the generator separation), i.e. it
// documents a positional accuracy of 2e-10 L^2 / |d|.  For that grid the model
// uses 10x this bound (set per case from the smallest generator separation).
double g_delta = DELTA;
const double TOL_GEO = 1e-8;   // distance to planes, relative to the box diagonal
const double AREA_MIN = 1e-6;  // "non-negligible" face: area > AREA_MIN * V^(2/3)
double tolV(double Lbox, double V, double A) { return 1e-9 * V + g_delta * Lbox * A; }
double tolA(double Lbox, double A) {
  return 1e-9 * A + g_delta * Lbox * 4. * std::sqrt(std::max(A, 0.));
}

struct Stat {
  double sum_err = 0, twin_area = 0, twin_mid = 0, plane = 0;
  double ref_vol = 0, ref_cen = 0, ref_area = 0;
  double diff_vol = 0, diff_cen = 0;
};

// invariants of one grid
void check_grid(const char *name, const Problem &P, const GridOut &G,
                VResult &r, Stat &st) {
  const size_t n = P.pos.size();
  LD sum = 0;
  for (size_t i = 0; i < n; ++i) {
    if (!(G.vol[i] > 0.) || !std::isfinite(G.vol[i])) {
      r.fail(fmt("%s: cell %zu has volume %g", name, i, G.vol[i]));
      return;
    }
    sum += G.vol[i];
    for (int k = 0; k < 3; ++k) {
      const LD ck = k == 0 ? G.cen[i].x : (k == 1 ? G.cen[i].y : G.cen[i].z);
      const LD lo = k == 0 ? P.lo.x : (k == 1 ? P.lo.y : P.lo.z);
      const LD hi = k == 0 ? P.hi.x : (k == 1 ? P.hi.y : P.hi.z);
      if (!(ck >= lo - 1e-9L * (hi - lo) && ck <= hi + 1e-9L * (hi - lo))) {
        r.fail(fmt("%s: centroid of cell %zu outside the box (axis %d: %.17Lg)",
                   name, i, k, ck));
        return;
      }
    }
  }
  const double serr = (double)fabsl(sum - P.Vbox) / P.Vbox;
  st.sum_err = std::max(st.sum_err, serr);
  double stol = 0.;
  for (size_t i = 0; i < n; ++i) {
    double A = 0.;
    for (auto &f : G.faces[i])
      if (f.area > 0. && std::isfinite(f.area))
        A += f.area;
    stol += tolV(P.Lbox, G.vol[i], A);
  }
  if ((double)fabsl(sum - P.Vbox) > stol) {
    r.fail(fmt("%s: sum of cell volumes %.17Lg != box volume %.17g (rel %g, "
               "allowed %g)",
               name, sum, P.Vbox, serr, stol / P.Vbox));
    return;
  }
  if (getenv("C15_SUMONLY"))
    return;
  for (size_t i = 0; i < n; ++i) {
    const double li = std::cbrt(G.vol[i]);
    for (auto &f : G.faces[i]) {
      if (!(f.area > AREA_MIN * li * li))
        continue; // negligible (or NaN) face
      if (f.id == -99) {
        r.fail(fmt("%s: cell %zu keeps a face (area %g) with a corner of the "
                   "all-encompassing tetrahedron",
                   name, i, f.area));
        return;
      }
      // the plane the face must lie in, outward normal
      V3 nrm;
      LD off;
      if (f.id >= 0) {
        if ((size_t)f.id >= n || (size_t)f.id == i) {
          r.fail(fmt("%s: cell %zu has a face with neighbour %lld", name, i,
                     (long long)f.id));
          return;
        }
        const V3 d = P.p[f.id] - P.p[i];
        nrm = (1 / norm(d)) * d;
        off = dot(nrm, 0.5L * (P.p[i] + P.p[f.id]));
      } else {
        const int w = (int)(-f.id) - 1;
        nrm = {0, 0, 0};
        const LD sg = (w & 1) ? 1 : -1;
        (w / 2 == 0 ? nrm.x : (w / 2 == 1 ? nrm.y : nrm.z)) = sg;
        const V3 &b = (w & 1) ? P.hi : P.lo;
        off = dot(nrm, b);
      }
      const double pe = (double)fabsl(dot(nrm, f.mid) - off);
      st.plane = std::max(st.plane, pe / P.Lbox);
      // (the plane-cutting construction documents a positional accuracy
      // that depends on the generator separation: g_delta carries it)
      if (pe > std::max(TOL_GEO, g_delta) * P.Lbox) {
        r.fail(fmt("%s: face %zu->%lld (area %g): midpoint is %g away from the "
                   "%s",
                   name, i, (long long)f.id, f.area, pe,
                   f.id >= 0 ? "bisector plane" : "wall"));
        return;
      }
      // generator on the inner side (follows from the above, kept explicit)
      if (!(dot(nrm, f.mid - P.p[i]) > 0)) {
        r.fail(fmt("%s: generator %zu is not on the inner side of its face "
                   "towards %lld",
                   name, i, (long long)f.id));
        return;
      }
      // orientation of the vertex loop (Newell normal) away from the generator
      if (f.vert.size() >= 3) {
        V3 A = {0, 0, 0};
        for (size_t k = 0; k < f.vert.size(); ++k)
          A = A + cross(f.vert[k] - f.mid, f.vert[(k + 1) % f.vert.size()] - f.mid);
        const LD an = 0.5L * dot(A, nrm);
        // |an| == area for a correctly ordered planar loop
        if (fabsl(fabsl(an) - f.area) > 1e-6 * f.area + 10 * tolA(P.Lbox, f.area)) {
          r.fail(fmt("%s: face %zu->%lld: vertex loop spans area %Lg, reported "
                     "area %g",
                     name, i, (long long)f.id, fabsl(an), f.area));
          return;
        }
      }
      if (f.id < 0)
        continue;
      // twin
      const size_t j = (size_t)f.id;
      const double lj = std::cbrt(G.vol[j]);
      const double lmax = std::max(li, lj);
      const GFace *tw = nullptr;
      for (auto &g : G.faces[j])
        if (g.id == (int64_t)i && (!tw || g.area > tw->area))
          tw = &g;
      if (!tw) {
        // negligible seen from the (larger) neighbour?
        if (f.area > AREA_MIN * lmax * lmax + 10 * tolA(P.Lbox, f.area))
          r.fail(fmt("%s: face %zu->%zu (area %g) has no twin in cell %zu", name,
                     i, j, f.area, j));
        else
          continue;
        return;
      }
      const double ae = std::abs(tw->area - f.area);
      st.twin_area = std::max(st.twin_area, ae / (lmax * lmax));
      if (ae > 10 * tolA(P.Lbox, std::max(f.area, tw->area))) {
        r.fail(fmt("%s: face %zu->%zu has area %.17g, its twin %.17g", name, i,
                   j, f.area, tw->area));
        return;
      }
      if (f.area > 1e-3 * lmax * lmax) {
        const double me = (double)norm(tw->mid - f.mid);
        st.twin_mid = std::max(st.twin_mid, me / lmax);
        if (me > 1e-6 * lmax + std::max(TOL_GEO, 4. * g_delta) * P.Lbox) {
          r.fail(fmt("%s: face %zu->%zu: midpoints of the twins differ by %g "
                     "(cell size %g)",
                     name, i, j, me, lmax));
          return;
        }
      }
    }
  }
}

void check_queries(const char *name, const Problem &P, const GridOut &G,
                   VResult &r) {
  for (size_t t = 0; t < P.queries.size(); ++t) {
    const V3 q = tov(P.queries[t]);
    if (G.index[t] == -2) {
      // known finding pointlocations_top_wall_bucket, reported by the sub-check
      // index_near_walls; the call is not made (it would be undefined behaviour)
      r.label("query-bucket-overflow-skipped");
      continue;
    }
    LD best = 1e300L, second = 1e300L;
    size_t bi = 0;
    for (size_t i = 0; i < P.p.size(); ++i) {
      const LD d = dot(P.p[i] - q, P.p[i] - q);
      if (d < best) {
        second = best;
        best = d;
        bi = i;
      } else if (d < second)
        second = d;
    }
    if (second - best <= 1e-12L * second) {
      r.label("ambiguous-nearest");
      continue;
    }
    if (G.index[t] != (int64_t)bi) {
      const LD dg = G.index[t] >= 0 && (size_t)G.index[t] < P.p.size()
                        ? dot(P.p[G.index[t]] - q, P.p[G.index[t]] - q)
                        : -1;
      r.fail(fmt("%s: get_index(%.17g, %.17g, %.17g) = %lld (distance^2 %Lg), "
                 "nearest generator is %zu (distance^2 %Lg)",
                 name, P.queries[t].x(), P.queries[t].y(), P.queries[t].z(),
                 (long long)G.index[t], dg, bi, best));
      return;
    }
  }
}

// compare a grid with the brute-force reference
void check_ref(const char *name, const Problem &P, const GridOut &G,
               const std::vector<RefCell> &R, VResult &r, Stat &st) {
  for (size_t i = 0; i < P.p.size(); ++i) {
    const double l = std::cbrt((double)R[i].vol);
    double A = 0., D = 0.;
    for (auto &f : R[i].faces) {
      A += (double)f.area;
      D = std::max(D, 2. * (double)norm(f.mid - P.p[i]));
    }
    const double tv = tolV(P.Lbox, (double)R[i].vol, A);
    const double dv = std::abs(G.vol[i] - (double)R[i].vol);
    const double ve = dv / (double)R[i].vol;
    st.ref_vol = std::max(st.ref_vol, dv / tv);
    if (!(dv <= tv)) {
      r.fail(fmt("%s: cell %zu volume %.17g, brute-force half-space "
                 "intersection %.17Lg (rel %g, allowed %g)",
                 name, i, G.vol[i], R[i].vol, ve, tv / (double)R[i].vol));
      return;
    }
    const double ce = (double)norm(G.cen[i] - R[i].cen);
    const double tc = (tv / (double)R[i].vol + 1e-9) * D * 4.;
    st.ref_cen = std::max(st.ref_cen, ce / tc);
    if (!(ce <= tc)) {
      r.fail(fmt("%s: cell %zu centroid differs from the brute-force one by %g "
                 "(cell diameter %g, allowed %g)",
                 name, i, ce, D, tc));
      return;
    }
    // neighbour relation over non-negligible faces, both directions
    std::map<int64_t, double> ga, ra;
    for (auto &f : G.faces[i])
      if (f.area > 0)
        ga[f.id] += f.area;
    for (auto &f : R[i].faces)
      ra[f.id] += (double)f.area;
    for (auto &kv : ra) {
      const double a2 = ga.count(kv.first) ? ga[kv.first] : 0.;
      st.ref_area = std::max(st.ref_area, std::abs(a2 - kv.second) / (l * l));
      if (std::abs(a2 - kv.second) > 10 * tolA(P.Lbox, kv.second) + 1e-8 * l * l) {
        r.fail(fmt("%s: face %zu->%lld has area %.17g, brute-force %.17g", name,
                   i, (long long)kv.first, a2, kv.second));
        return;
      }
    }
    for (auto &kv : ga)
      if (!ra.count(kv.first) && kv.second > 10 * tolA(P.Lbox, kv.second) + 1e-8 * l * l) {
        r.fail(fmt("%s: cell %zu has a face of area %g towards %lld that does "
                   "not exist in the brute-force cell",
                   name, i, kv.second, (long long)kv.first));
        return;
      }
  }
}

void debug(const char *what, const Problem &P, const Stat &st, double sep) {
  if (!getenv("C15_DEBUG"))
    return;
  fprintf(stderr,
          "C15DBG %s cls=%d n=%zu thr=%d sep=%.2e sum=%.2e twinA=%.2e twinM=%.2e "
          "plane=%.2e refV=%.2e refC=%.2e refA=%.2e dV=%.2e dC=%.2e\n",
          what, P.cls, P.pos.size(), P.threads, sep, st.sum_err, st.twin_area,
          st.twin_mid, st.plane, st.ref_vol, st.ref_cen, st.ref_area,
          st.diff_vol, st.diff_cen);
}

void common_labels(const Problem &P, VResult &r, bool mt) {
  r.label(CLS[P.cls]);
  const size_t n = P.pos.size();
  r.label(n < 8 ? "n<8" : (n <= NREF ? "n<=64" : "n>64"));
  if (mt && P.threads > 1)
    r.label("multi-threaded");
  const double ar = std::max({P.box.get_sides().x(), P.box.get_sides().y(),
                              P.box.get_sides().z()}) /
                    std::min({P.box.get_sides().x(), P.box.get_sides().y(),
                              P.box.get_sides().z()});
  if (ar > 4.)
    r.label("elongated-box");
  const double smax = std::max({P.box.get_sides().x(), P.box.get_sides().y(),
                                P.box.get_sides().z()});
  r.label(smax < 0.05 ? "box-sides<0.05"
                      : (smax > 1e3 ? "box-sides>1e3" : "box-sides~1"));
  const bool degenerate = P.cls == 2 || P.cls == 3 || P.cls == 4;
  r.nontrivial = n >= 8 && (degenerate || P.cls == 1 || (mt && P.threads > 1));
}

// ---------------------------------------------------------------- matchers
// relative distance of the generator closest to a wall
double min_wall_distance(const Problem &P) {
  double m = 1.;
  for (auto &x : P.pos)
    for (int k = 0; k < 3; ++k) {
      const double u = (x[k] - P.box.get_anchor()[k]) / P.box.get_sides()[k];
      m = std::min(m, std::min(u, 1. - u));
    }
  return m;
}
// Known finding "newvoronoi_sliver_geometry": the Delaunay structure is exact,
// but the cell vertices are circumcentres evaluated in plain double arithmetic
// (NewVoronoiTetrahedron.hpp:148-173); for a sliver (four nearly coplanar
// vertices, e.g. a generator and its mirror image next to a wall, lattice
// planes, nearly cocircular points) the result is arbitrary.  Matcher: the
// input contains such a configuration.
bool sliver_prone(const Problem &P) {
  if (min_wall_distance(P) < 1e-3 || min_separation(P) < 1e-5 * P.Lbox)
    return true;
  const size_t n = P.p.size();
  // four generators sharing a coordinate (axis-aligned plane); the
  // construction adds the mirror images of the generators in the walls, so two
  // generators sharing a coordinate already make an exactly cocircular
  // quadruple (a rectangle) with their images
  for (int k = 0; k < 3; ++k) {
    std::vector<double> v;
    for (auto &x : P.pos)
      v.push_back((x[k] - P.box.get_anchor()[k]) / P.box.get_sides()[k]);
    std::sort(v.begin(), v.end());
    for (size_t i = 0; i + 1 < v.size(); ++i)
      if (v[i + 1] - v[i] < 1e-9)
        return true;
  }
  // a nearly flat quadruple among a generator and its 16 nearest neighbours
  for (size_t a = 0; a < n; ++a) {
    std::vector<std::pair<LD, size_t>> nb;
    for (size_t j = 0; j < n; ++j)
      if (j != a)
        nb.push_back({dot(P.p[j] - P.p[a], P.p[j] - P.p[a]), j});
    const size_t kk = std::min<size_t>(16, nb.size());
    std::partial_sort(nb.begin(), nb.begin() + kk, nb.end());
    for (size_t x = 0; x < kk; ++x)
      for (size_t y = x + 1; y < kk; ++y) {
        const V3 u = P.p[nb[x].second] - P.p[a], v = P.p[nb[y].second] - P.p[a];
        const V3 w = cross(u, v);
        for (size_t z = y + 1; z < kk; ++z) {
          const V3 t = P.p[nb[z].second] - P.p[a];
          const LD e = std::max({norm(u), norm(v), norm(t)});
          // flatness below which the circumcentre of the quadruple, computed
          // in double arithmetic, can be displaced by more than the DELTA of
          // the tolerance model: relative error of the centre ~ EPS e^3/|det|
          // >= DELTA  <=>  |det| <= (EPS/DELTA) e^3 = 1e-6 e^3 (x2 margin)
          if (fabsl(dot(w, t)) < 2e-6L * e * e * e)
            return true;
          // a fifth generator (nearly) on the circumsphere of the quadruple:
          // the Delaunay triangulation is (nearly) degenerate there and
          // contains sliver tetrahedra whichever way the tie is broken
          {
            // circumcentre c relative to a: 2 M c = (|u|^2,|v|^2,|t|^2)
            const LD det = dot(w, t);
            if (det == 0.L)
              continue;
            const V3 vt = cross(v, t), tu = cross(t, u);
            const LD u2 = dot(u, u), v2 = dot(v, v), t2 = dot(t, t);
            const V3 cc = (0.5L / det) * (u2 * vt + v2 * tu + t2 * w);
            const LD R = norm(cc);
            if (!(R < 4.L * (LD)P.Lbox))
              continue;
            for (size_t q = 0; q < kk; ++q) {
              if (q == x || q == y || q == z)
                continue;
              const LD d = norm(P.p[nb[q].second] - P.p[a] - cc);
              if (fabsl(d - R) < 2e-6L * R)
                return true;
            }
          }
        }
      }
  }
  return false;
}

// Known finding "oldvoronoi_tolerance_near_degenerate": with four or more
// generators within a few snapping tolerances of a common axis-aligned plane (a
// lattice perturbed by about the tolerance of OldVoronoiCell) the plane cutting
// construction takes inconsistent on-plane decisions.  OldVoronoiCell snaps a
// vertex onto a cutting plane when it is closer than tol = 2e-10 |sides|^2 /
// |d|, d = half the generator separation (OLDVORONOI_TOLERANCE).  Measured on
// the unchanged tree without any exclusion (1110 failing cases of 21600): the
// spread of the four generators is at most 16.1 tol in all of them.  A later
// thorough run (36000 cases) found one mild case (twin midpoints 2x the
// allowance) at 50 tol; the matcher uses 150 tol.
bool old_tolerance_prone(const Problem &P) {
  const V3 sd = tov(P.box.get_sides());
  const double tol =
      2e-10 * (double)dot(sd, sd) / (0.5 * min_separation(P)); // a length
  for (int k = 0; k < 3; ++k) {
    std::vector<double> v;
    for (auto &x : P.pos)
      v.push_back(x[k] - P.box.get_anchor()[k]);
    std::sort(v.begin(), v.end());
    for (size_t i = 0; i + 3 < v.size(); ++i)
      if (v[i + 3] - v[i] < 150. * tol)
        return true;
  }
  return false;
}

// four generators in one axis-aligned plane (regular lattices and the like)
bool has_lattice_plane(const Problem &P) {
  for (int k = 0; k < 3; ++k) {
    std::vector<double> v;
    for (auto &x : P.pos)
      v.push_back((x[k] - P.box.get_anchor()[k]) / P.box.get_sides()[k]);
    std::sort(v.begin(), v.end());
    for (size_t i = 0; i + 3 < v.size(); ++i)
      if (v[i + 3] - v[i] < 1e-9)
        return true;
  }
  return false;
}

void grid_failure(const char *name, const std::string &err, const Problem &P,
                  VResult &r) {
  if (err == "wall-limit") { // overloaded machine: says nothing about the code
    r.label("inconclusive-wall-limit");
    r.nontrivial = false;
    return;
  }
  if (err == "timeout" && has_lattice_plane(P) && min_wall_distance(P) >= 1e-3 &&
      min_separation(P) >= 1e-5 * P.Lbox) {
    r.fail(fmt("%s: construction of an (almost) exactly degenerate lattice did "
               "not finish within %g s of CPU time (normal: < 0.5 s)",
               name, BUDGET_S));
    r.known = "newvoronoi_hang_degenerate_lattice";
    return;
  }
  if (err == "timeout") {
    r.fail(fmt("%s: construction did not finish within %g s of CPU time "
               "(normal: < 0.5 s)",
               name, BUDGET_S));
    if (min_wall_distance(P) < 1e-3 || min_separation(P) < 1e-5 * P.Lbox)
      r.known = "newvoronoi_hang_generator_near_wall";
  } else {
    r.fail(fmt("%s: construction failed on a valid input: %s", name, err.c_str()));
    if (err.compare(0, 6, "signal") == 0 &&
        (min_wall_distance(P) < 1e-3 || min_separation(P) < 1e-5 * P.Lbox))
      r.known = "newvoronoi_hang_generator_near_wall"; // same class: hang or crash
  }
}

// the incremental construction: invariants, queries, brute-force reference
VResult o_new_impl(const VCase &c);
VResult o_old_impl(const VCase &c);

// A failure of a multi-threaded construction whose single-threaded
// construction of the same generators is fine is a violation seen on real,
// unsynchronised threads: it is reported even when a re-run does not hit the
// interleaving again, and it is never one of the (deterministic, geometric)
// known findings.
VResult thread_checked(VResult (*impl)(const VCase &), const VCase &c) {
  VResult r = impl(c);
  if (!r.ok && c.i("threads") > 1) {
    VCase c1 = c;
    for (auto &p : c1.ii)
      if (p.first == "threads")
        p.second = {1};
    const VResult r1 = impl(c1);
    bool inconclusive = false;
    for (auto &l : r1.labels)
      inconclusive |= l == "inconclusive-wall-limit";
    if (r1.ok && !inconclusive) {
      r.schedule_dependent = true;
      r.known.clear();
      r.msg += fmt(" [with %d threads; the 1-thread construction of the same "
                   "generators passes every check]",
                   (int)c.i("threads"));
    }
  }
  return r;
}
VResult o_new(const VCase &c) { return thread_checked(o_new_impl, c); }
VResult o_old(const VCase &c) { return thread_checked(o_old_impl, c); }

VResult o_new_impl(const VCase &c) {
  VResult r;
  const Problem P = unpack(c);
  if (!valid_problem(P, r))
    return r;
  common_labels(P, r, true);
  Stat st;
  g_delta = DELTA;
  if (getenv("C15_TRACE")) {
    std::ofstream f("last.case");
    VCase cc = c;
    cc.prop = "new_grid";
    f << cc.to_text();
  }
  GridOut G;
  const std::string err =
      run_isolated<NewVoronoiGrid>(P.pos, P.box, P.threads, P.queries, true, G);
  if (!err.empty()) {
    grid_failure("NewVoronoiGrid", err, P, r);
    return r;
  }
  check_grid("NewVoronoiGrid", P, G, r, st);
  if (r.ok && P.threads > 1) {
    // the multi-threaded construction must give the same grid
    GridOut S;
    const std::string e1 = run_isolated<NewVoronoiGrid>(P.pos, P.box, 1, {}, true, S);
    if (!e1.empty()) {
      grid_failure("NewVoronoiGrid (1 thread)", e1, P, r);
      return r;
    }
    for (size_t i = 0; i < P.pos.size() && r.ok; ++i)
      if (S.vol[i] != G.vol[i] || S.faces[i].size() != G.faces[i].size()) {
        r.fail(fmt("NewVoronoiGrid: cell %zu differs between 1 and %d threads "
                   "(volume %.17g vs %.17g, %zu vs %zu faces)",
                   i, P.threads, S.vol[i], G.vol[i], S.faces[i].size(),
                   G.faces[i].size()));
        return r; // not a geometry problem: never a known finding
      }
  }
  if (r.ok && P.pos.size() <= (size_t)NREF) {
    std::vector<RefCell> R;
    for (size_t i = 0; i < P.p.size(); ++i)
      R.push_back(ref_cell(i, P.p, P.lo, P.hi));
    check_ref("NewVoronoiGrid", P, G, R, r, st);
    r.label("brute-force-reference");
  }
  if (!r.ok && sliver_prone(P))
    r.known = "newvoronoi_sliver_geometry";
  if (r.ok)
    check_queries("NewVoronoiGrid", P, G, r);
  debug("new", P, st, min_separation(P) / P.Lbox);
  if (!r.ok && getenv("C15_NOFAIL")) {
    fprintf(stderr, "C15FAIL new cls=%d n=%zu %016llx known=%s %s\n", P.cls,
            P.pos.size(), (unsigned long long)c.hash(), r.known.c_str(),
            r.msg.substr(0, 150).c_str());
    char fn[256];
    snprintf(fn, sizeof fn, "nofail-%016llx.case", (unsigned long long)c.hash());
    std::ofstream f(fn);
    VCase cc = c;
    cc.prop = "new_grid";
    f << cc.to_text();
    r.ok = true;
    r.known.clear();
  }
  return r;
}

// the plane-cutting construction and the differential
VResult o_old_impl(const VCase &c) {
  VResult r;
  const Problem P = unpack(c);
  if (!valid_problem(P, r))
    return r;
  common_labels(P, r, true);
  Stat st;
  const double sep = min_separation(P) / P.Lbox;
  // OldVoronoiCell treats a vertex whose (distance to a cutting plane) x (half
  // the generator separation) is below OLDVORONOI_TOLERANCE |sides|^2 = 2e-10
  // |sides|^2 as lying on the plane: structure finer than ~1e-3 of the box is
  // below what that algorithm resolves by design, and exactly degenerate input
  // is not required to work (property statement).  Both are excluded here.
  if ((sep < 1e-3 || min_wall_distance(P) < 1e-3) && !getenv("C15_NOSKIP")) {
    r.label("below-old-tolerance-skipped");
    r.nontrivial = false;
    return r;
  }
  g_delta = DELTA + 10. * 2. * 2.e-10 / sep; // 2e-10: the documented tolerance, deliberately not the macro
  GridOut O;
  const std::string err =
      run_isolated<OldVoronoiGrid>(P.pos, P.box, P.threads, P.queries, false, O);
  if (err == "wall-limit") {
    grid_failure("OldVoronoiGrid", err, P, r);
    return r;
  }
  if (!err.empty()) {
    r.fail(fmt("OldVoronoiGrid: construction failed on a valid input: %s",
               err.c_str()));
    // the inconsistent on-plane decisions of the open finding K4 can also
    // corrupt the cell topology (crash / endless loop) - same input class
    if (old_tolerance_prone(P))
      r.known = "oldvoronoi_tolerance_near_degenerate";
    return r;
  }
  check_grid("OldVoronoiGrid", P, O, r, st);
  if (r.ok)
    check_queries("OldVoronoiGrid", P, O, r);
  if (r.ok) {
    GridOut G;
    const std::string e1 = run_isolated<NewVoronoiGrid>(P.pos, P.box, 1, {}, true, G);
    if (!e1.empty()) {
      grid_failure("NewVoronoiGrid", e1, P, r);
      return r;
    }
    for (size_t i = 0; i < P.pos.size() && r.ok; ++i) {
      const double l = std::cbrt(G.vol[i]);
      double A = 0., D = 0.;
      for (auto &f : G.faces[i])
        if (f.area > 0. && std::isfinite(f.area)) {
          A += f.area;
          if (f.area > AREA_MIN * l * l)
            D = std::max(D, 2. * (double)norm(f.mid - P.p[i]));
        }
      const double tv = tolV(P.Lbox, G.vol[i], A);
      const double ve = std::abs(G.vol[i] - O.vol[i]);
      const double ce = (double)norm(G.cen[i] - O.cen[i]);
      const double tc = (tv / G.vol[i] + 1e-9) * D * 4.;
      st.diff_vol = std::max(st.diff_vol, ve / tv);
      st.diff_cen = std::max(st.diff_cen, ce / tc);
      if (!(ve <= tv))
        r.fail(fmt("cell %zu: volume %.17g (incremental) vs %.17g (plane "
                   "cutting), rel %g, allowed %g",
                   i, G.vol[i], O.vol[i], ve / G.vol[i], tv / G.vol[i]));
      else if (!(ce <= tc))
        r.fail(fmt("cell %zu: centroids of the two constructions differ by %g "
                   "(allowed %g)",
                   i, ce, tc));
      else {
        std::map<int64_t, double> ga, oa;
        for (auto &f : G.faces[i])
          if (f.area > 0)
            ga[f.id] += f.area;
        for (auto &f : O.faces[i])
          if (f.area > 0)
            oa[f.id] += f.area;
        for (auto &kv : ga) {
          const double a2 = oa.count(kv.first) ? oa[kv.first] : 0.;
          if (std::abs(a2 - kv.second) > 10 * tolA(P.Lbox, kv.second) + 1e-8 * l * l)
            r.fail(fmt("face %zu->%lld: area %.17g (incremental) vs %.17g "
                       "(plane cutting)",
                       i, (long long)kv.first, kv.second, a2));
        }
        for (auto &kv : oa)
          if (!ga.count(kv.first) && kv.second > 10 * tolA(P.Lbox, kv.second) + 1e-8 * l * l)
            r.fail(fmt("face %zu->%lld of area %g only exists in the plane "
                       "cutting construction",
                       i, (long long)kv.first, kv.second));
      }
    }
  }
  g_delta = DELTA;
  // a failed invariant of the plane-cutting grid alone is never attributed to
  // the finding about the incremental construction
  const bool old_only = r.msg.compare(0, 15, "OldVoronoiGrid:") == 0;
  if (!r.ok && r.known.empty() && old_tolerance_prone(P))
    r.known = "oldvoronoi_tolerance_near_degenerate";
  else if (!r.ok && r.known.empty() && !old_only && sliver_prone(P))
    r.known = "newvoronoi_sliver_geometry"; // the differential sees it as well
  debug("old", P, st, sep);
  if (!r.ok && getenv("C15_NOFAIL")) {
    fprintf(stderr, "C15FAIL old cls=%d n=%zu sep=%.2e %016llx known=%s %s\n", P.cls,
            P.pos.size(), sep, (unsigned long long)c.hash(), r.known.c_str(),
            r.msg.substr(0, 150).c_str());
    r.known.clear();
    char fn[256];
    snprintf(fn, sizeof fn, "nofail-old-%016llx.case", (unsigned long long)c.hash());
    std::ofstream f(fn);
    VCase cc = c;
    cc.prop = "old_vs_new";
    f << cc.to_text();
    r.ok = true;
  }
  return r;
}

// positions a few ulp inside the walls: the bucket index of PointLocations
VCase gen_index() {
  VCase c;
  double a[3], s[3];
  for (int k = 0; k < 3; ++k) {
    a[k] = vr::coin(0.3) ? 0. : vr::uni(-2., 2.);
    s[k] = vr::coin(0.3) ? 1. : vr::logu(0.05, 20.);
  }
  const int n = (int)vr::irange(2, 200);
  std::vector<double> flat;
  for (int i = 0; i < n; ++i)
    for (int k = 0; k < 3; ++k)
      flat.push_back(a[k] + s[k] * vr::uni(1e-3, 1. - 1e-3));
  RC_PRE(resolvable(flat, a, s));
  {
    std::set<std::vector<double>> seen;
    for (size_t i = 0; i + 2 < flat.size(); i += 3)
      RC_PRE(seen.insert({flat[i], flat[i + 1], flat[i + 2]}).second);
  }
  c.I("cls", 0);
  c.I("threads", 1);
  c.D("anchor", {a[0], a[1], a[2]});
  c.D("sides", {s[0], s[1], s[2]});
  c.D("pos", flat);
  std::vector<double> qs;
  for (int t = 0; t < 12; ++t) {
    double x[3];
    for (int k = 0; k < 3; ++k)
      x[k] = a[k] + s[k] * vr::uni();
    const int nk = (int)vr::irange(1, 3);
    for (int w = 0; w < nk; ++w) {
      const int k = (int)vr::irange(0, 2);
      x[k] = vr::coin(0.8) ? ulps(a[k] + s[k], -vr::irange(1, 3)) : ulps(a[k], vr::irange(0, 3));
    }
    for (int k = 0; k < 3; ++k) {
      if (!(x[k] >= a[k]))
        x[k] = a[k];
      if (!(x[k] < a[k] + s[k]))
        x[k] = std::nextafter(a[k] + s[k], -1e300);
    }
    qs.insert(qs.end(), x, x + 3);
  }
  c.D("queries", qs);
  return c;
}

VResult o_index(const VCase &c) {
  VResult r;
  const Problem P = unpack(c);
  if (!valid_problem(P, r))
    return r;
  r.label(P.pos.size() <= 10 ? "one-bucket-old" : "several-buckets");
  r.nontrivial = true;
  if (getenv("C15_TRACE")) {
    std::ofstream f("last.case");
    VCase cc = c;
    cc.prop = "index_near_walls";
    f << cc.to_text();
  }
  for (int which = 0; which < 2 && r.ok; ++which) {
    GridOut G;
    const std::string err =
        which == 0 ? run_isolated<NewVoronoiGrid>(P.pos, P.box, 1, P.queries, true, G)
                   : run_isolated<OldVoronoiGrid>(P.pos, P.box, 1, P.queries, false, G);
    const char *name = which == 0 ? "NewVoronoiGrid" : "OldVoronoiGrid";
    if (err == "wall-limit") {
      grid_failure(name, err, P, r);
      return r;
    }
    if (!err.empty()) {
      r.fail(fmt("%s: construction or get_index failed on a valid input: %s", name,
                 err.c_str()));
      if (err.compare(0, 6, "signal") == 0)
        r.known = "pointlocations_top_wall_bucket"; // positions 1-3 ulp below a wall
      if (getenv("C15_TRACE"))
        rename("last.case", "sig.case");
      return r;
    }
    for (size_t t = 0; t < P.queries.size(); ++t)
      if (G.index[t] == -2) {
        r.label("query-bucket-overflow");
        r.fail(fmt("%s: get_index(%.17g, %.17g, %.17g): a position inside the "
                   "box (and inside PointLocations' own asserted range) maps to "
                   "bucket index == number of buckets; "
                   "PointLocations::generalngbiterator would read _grid out of "
                   "bounds",
                   name, P.queries[t].x(), P.queries[t].y(), P.queries[t].z()));
        r.known = "pointlocations_top_wall_bucket";
        return r;
      }
    check_queries(name, P, G, r);
  }
  return r;
}

} // namespace

int main(int argc, char **argv) {
  std::vector<VProp> props;
  const std::string dom =
      "box: unit / dyadic / generic anchor and sides, aspect ratio up to 1:20; "
      "2..N distinct generators strictly inside (>=1e-12 sides from the walls): "
      "uniform; 1-4 Gaussian blobs with sigma 1e-6..1e-1 of the box (+ optional "
      "background); regular lattices up to 7 per axis (cubic, two interleaved, "
      "shifted planes, 20% holes) - exactly degenerate; lattices perturbed by "
      "1..1000 ulp or by 1e-13..0.3 cell sizes; points exactly in one plane / on "
      "one sphere (+- 1..1000 ulp) plus generic points; points 1e-6..1e-3 sides "
      "(2%: 1e-12..) from walls, edges and corners. 1-4 threads. 12 positions per grid for "
      "get_index: uniform, next to generators, on/next to bisectors, 0-4 ulp "
      "inside the walls, exactly on generators. Non-trivial = >=8 generators and "
      "(degenerate or clustered class or multi-threaded).";
  props.push_back({"new_grid", 400, [] { return gen_grid(vr::coin(0.7) ? NREF : 300, false); },
                   o_new,
                   "NewVoronoiGrid: invariants + brute-force half-space reference "
                   "for n<=64 + thread independence; " + dom,
                   {{"brute-force-reference", 0.4},
                    {"lattice", 0.05},
                    {"coplanar-cospherical", 0.05},
                    {"multi-threaded", 0.2}}});
  props.push_back({"old_vs_new", 300, [] { return gen_grid(300, true); }, o_old,
                   "OldVoronoiGrid: invariants, and agreement with NewVoronoiGrid "
                   "(volumes, centroids, faces) on non-degenerate classes; " + dom});
  props.push_back({"index_near_walls", 300, gen_index, o_index,
                   "2..200 uniform generators; 12 positions per grid with 1-3 "
                   "coordinates 1-3 ulp below the upper wall or 0-3 ulp above the "
                   "lower wall; get_index of both grids == brute-force nearest"});
  return vr::vmain(argc, argv, "C15", props);
}
