// C18 - atomic data and sampled photon frequencies are physical.
//
// rapidcheck harness.  Oracles:
//  * photoionization cross sections: independent phfit2 (c18_ref.hpp, own parse
//    of /repo/data/verner_{A,B,C}.dat, evaluated in eV / long double) for every
//    (Z,N,shell) row of the tables and for the 14 tracked ions; exact zeros
//    below thresholds; the Fortran-generated table /repo/test/verner_testdata.txt
//    anchors both the code and the reference.
//  * recombination rates: finite, >= 0, > 0 up to 1e5 K; H and He equal to the
//    Verner & Ferland (1996) fit (coefficients from the paper and, for H, from
//    the shipped rrfit table) and decreasing along ordered temperature chains;
//    every (Z,N) of rrfit against an own evaluation from an own parse.
//  * charge transfer: the (ion, partner) pairs of
//    IonizationStateCalculator::compute_ionization_states_metals: finite, >= 0,
//    constant outside the documented validity interval.
//  * spectra: uniform deviates are injected through the public RandomGenerator
//    restart constructor; sampled frequency inside the documented range,
//    non-decreasing in u, and bracketing u with the numerically integrated
//    analytic cumulative distribution within the resolution of the table.
#include "ChargeTransferRates.hpp"
#include "FixedValueCrossSections.hpp"
#include "HeliumLymanContinuumSpectrum.hpp"
#include "HeliumTwoPhotonContinuumDataLocation.hpp"
#include "HeliumTwoPhotonContinuumSpectrum.hpp"
#include "HydrogenLymanContinuumSpectrum.hpp"
#include "LinearPhotonSourceSpectrumMask.hpp"
#include "MaskedPhotonSourceSpectrum.hpp"
#include "MonochromaticPhotonSourceSpectrum.hpp"
#include "PlanckPhotonSourceSpectrum.hpp"
#include "RandomGenerator.hpp"
#include "RestartReader.hpp"
#include "RestartWriter.hpp"
#include "UniformPhotonSourceSpectrum.hpp"
#include "VernerCrossSections.hpp"
#include "VernerCrossSectionsDataLocation.hpp"
#include "VernerRecombinationRates.hpp"
#include "VernerRecombinationRatesDataLocation.hpp"

#include "c18_ref.hpp"
#include "verif_rc.hpp"

#include <memory>
#include <unistd.h>

using vr::VCase;
using vr::VProp;
using vr::VResult;
using vr::fmt;
typedef long double LD;

namespace {

const double NUH = 3.288465385e15; // "13.6 eV in Hz" as the samplers return it

// ------------------------------------------------------------ shared state
struct IonDef {
  int ion;
  const char *name;
  int Z, N;
  std::vector<int> shells; // shells summed for this ion (valence shells as
                           // documented in VernerCrossSections.cpp:259-322)
};
const std::vector<IonDef> &ions() {
  static const std::vector<IonDef> t = {
      {ION_H_n, "H0", 1, 1, {1}},       {ION_He_n, "He0", 2, 2, {1}},
      {ION_C_p1, "C+", 6, 5, {3, 2}},   {ION_C_p2, "C++", 6, 4, {2}},
      {ION_N_n, "N0", 7, 7, {3, 2}},    {ION_N_p1, "N+", 7, 6, {3, 2}},
      {ION_N_p2, "N++", 7, 5, {3}},     {ION_O_n, "O0", 8, 8, {3, 2}},
      {ION_O_p1, "O+", 8, 7, {3, 2}},   {ION_Ne_n, "Ne0", 10, 10, {3, 2}},
      {ION_Ne_p1, "Ne+", 10, 9, {3}},   {ION_S_p1, "S+", 16, 15, {5, 4}},
      {ION_S_p2, "S++", 16, 14, {5, 4}}, {ION_S_p3, "S+++", 16, 13, {5}}};
  return t;
}

std::string data_dir() {
  std::string a = VERNERCROSSSECTIONSDATALOCATION_A;
  return a.substr(0, a.rfind('/'));
}
std::string test_dir() {
  std::string d = data_dir();
  return d.substr(0, d.rfind('/')) + "/test";
}

const c18::Phfit &PH() {
  static c18::Phfit p;
  static bool done = false;
  if (!done) {
    done = true;
    p.load(VERNERCROSSSECTIONSDATALOCATION_A, VERNERCROSSSECTIONSDATALOCATION_B,
           VERNERCROSSSECTIONSDATALOCATION_C);
    if (!p.ok) {
      fprintf(stderr, "C18: cannot parse the Verner tables: %s\n", p.err.c_str());
      exit(2);
    }
  }
  return p;
}
const c18::Rrfit &RR() {
  static c18::Rrfit r;
  static bool done = false;
  if (!done) {
    done = true;
    r.load(VERNERRECOMBINATIONRATESDATALOCATION);
    if (!r.ok) {
      fprintf(stderr, "C18: cannot parse verner_rec_data.txt\n");
      exit(2);
    }
  }
  return r;
}
const VernerCrossSections &XS() {
  static VernerCrossSections x;
  return x;
}
const VernerRecombinationRates &RC() {
  static VernerRecombinationRates x;
  return x;
}

double edge_hz(double E_eV) { return E_eV * c18::ev2hz(); }

// distance in units in the last place (0 = identical), saturating
int ulps_between(double a, double b) {
  if (a == b)
    return 0;
  double x = std::min(a, b);
  const double y = std::max(a, b);
  for (int k = 1; k <= 8; ++k) {
    x = std::nextafter(x, INFINITY);
    if (x == y)
      return k;
  }
  return 9;
}

// all edges (eV) of the ion stage (Z,N): every shell threshold of table A
std::vector<double> edges_of(int Z, int N) {
  std::vector<double> e;
  for (int is = 1; is <= 7; ++is) {
    const c18::ShellRow *r = PH().shell(Z, N, is);
    if (r)
      e.push_back(r->Eth);
  }
  return e;
}

// frequency generator: generic log grid, or adjacent to an edge
double gen_nu(const std::vector<double> &edges_eV, double lo, double hi) {
  static const std::vector<double> rel = {1e-15, 1e-12, 1e-9, 1e-6, 1e-3};
  const int mode = vr::weighted({8, 4, 5, 2});
  if (mode == 0 || edges_eV.empty())
    return vr::logu(lo * NUH, hi * NUH);
  double nu = edge_hz(vr::pick(edges_eV));
  if (mode == 1) { // exactly on / a few ulps around
    const int k = vr::coin(0.3) ? 0 : (int)vr::irange(-3, 3);
    for (int j = 0; j < std::abs(k); ++j)
      nu = std::nextafter(nu, k > 0 ? INFINITY : 0.);
    return nu;
  }
  if (mode == 2)
    return nu * (1. + (vr::coin() ? 1. : -1.) *
                          (vr::coin() ? vr::pick(rel) : vr::logu(1e-16, 1e-3)));
  return nu * vr::logu(0.9, 1.1);
}

// classification relative to the edges; returns the smallest relative distance
double classify_edges(double nu, const std::vector<double> &edges_eV,
                      VResult &r) {
  double best = 1e300;
  int bu = 99;
  for (double E : edges_eV) {
    const double h = edge_hz(E);
    best = std::min(best, std::abs(nu - h) / h);
    bu = std::min(bu, ulps_between(nu, h));
  }
  if (bu == 0)
    r.label("exactly-on-edge");
  else if (bu <= 3)
    r.label("edge-within-3ulp");
  else if (best <= 1e-6)
    r.label("edge-within-1e-6");
  else if (best <= 0.1)
    r.label("edge-within-10pc");
  else
    r.label("generic-frequency");
  return best;
}

const char *branch_name(c18::Phfit::Branch b) {
  switch (b) {
  case c18::Phfit::BELOW_THR:
    return "ref-zero-below-threshold";
  case c18::Phfit::NOT_OUTER:
    return "ref-zero-shell-beyond-outer";
  case c18::Phfit::BETWEEN:
    return "ref-zero-valence-shell-below-inner-edge";
  case c18::Phfit::FIT_A:
    return "ref-inner-shell-fit";
  case c18::Phfit::FIT_B:
    return "ref-outer-shell-fit";
  default:
    return "ref-no-row";
  }
}

// ------------------------------------------------------------ cross sections
VCase gen_xsec_shell() {
  VCase c;
  const auto &rows = PH().rows;
  // tracked ion stages and their iso-nuclear neighbours more often
  int idx;
  if (vr::coin(0.3)) {
    const IonDef &d = vr::pick(ions());
    std::vector<int> cand;
    for (size_t k = 0; k < rows.size(); ++k)
      if (rows[k].Z == d.Z && rows[k].N == d.N)
        cand.push_back((int)k);
    idx = vr::pick(cand);
  } else
    idx = (int)vr::irange(0, (int64_t)rows.size() - 1);
  const c18::ShellRow &r = rows[idx];
  c.I("zni", {r.Z, r.N, r.is});
  std::vector<double> e = edges_of(r.Z, r.N);
  double nu;
  if (vr::coin(0.1)) // y = E/E0 = 1: the factor (y-1)^2 cancels
    nu = edge_hz(r.E0) * (vr::coin(0.3) ? 1. : vr::logu(0.999, 1.001));
  else if (vr::coin(0.3)) // somewhere above this shell's own threshold
    nu = edge_hz(r.Eth) * vr::logu(0.5, 50.);
  else
    nu = gen_nu(e, 0.5, vr::coin(0.7) ? 100. : 1e4);
  c.D("nu", nu);
  return c;
}

VResult o_xsec_shell(const VCase &c) {
  VResult r;
  const int Z = (int)c.i("zni", 0), N = (int)c.i("zni", 1), is = (int)c.i("zni", 2);
  const double nu = c.d("nu");
  const std::vector<double> e = edges_of(Z, N);
  const double dist = classify_edges(nu, e, r);
  r.nontrivial = dist <= 1e-6;
  const LD E = (LD)nu / (LD)c18::ev2hz();
  const c18::Phfit::Val ref = PH().eval(
      Z, N, is, E, [&](double Eedge) { return nu < edge_hz(Eedge); });
  r.label(branch_name(ref.br));
  if (ref.br == c18::Phfit::NOROW) {
    r.nontrivial = false;
    return r;
  }
  const double got = XS().get_cross_section_verner(Z, N, is, nu);
  if (!std::isfinite(got) || got < 0.) {
    r.fail(fmt("sigma(Z=%d,N=%d,shell=%d; nu=%.17g Hz) = %g is not finite and "
               ">= 0",
               Z, N, is, nu, got));
    return r;
  }
  if (ref.sigma == 0.L) {
    if (got != 0.)
      r.fail(fmt("sigma(Z=%d,N=%d,shell=%d; nu=%.17g Hz = %.12Lg eV) = %g, "
                 "expected exactly 0 (%s)",
                 Z, N, is, nu, E, got, branch_name(ref.br)));
    return r;
  }
  const LD err = fabsl((LD)got - ref.sigma);
  if (err > ref.reltol * ref.sigma)
    r.fail(fmt("sigma(Z=%d,N=%d,shell=%d; nu=%.17g Hz = %.12Lg eV) = %.17g, "
               "independent phfit2 %.17Lg (%s), rel.diff %.3Lg > tol %.3Lg",
               Z, N, is, nu, E, got, ref.sigma, branch_name(ref.br),
               err / ref.sigma, ref.reltol));
  return r;
}

VCase gen_xsec_ion() {
  VCase c;
  const int k = (int)vr::irange(0, (int64_t)ions().size() - 1);
  c.I("ion", k);
  const IonDef &d = ions()[k];
  std::vector<double> e = edges_of(d.Z, d.N);
  e.push_back(13.6); // hydrogen threshold: lower end of every spectrum
  double nu;
  if (vr::coin(0.08)) { // frequencies the samplers can return exactly
    static const std::vector<double> f = {3.289e15,         NUH,
                                          4. * NUH,         4. * 3.289e15,
                                          1.81 * NUH,       4.788e15,
                                          1.6 * NUH,        0.5 * NUH,
                                          100. * NUH};
    nu = vr::pick(f);
  } else
    nu = gen_nu(e, 0.5, 100.);
  c.D("nu", nu);
  return c;
}

VResult o_xsec_ion(const VCase &c) {
  VResult r;
  const IonDef &d = ions()[c.i("ion")];
  const double nu = c.d("nu");
  std::vector<double> e = edges_of(d.Z, d.N);
  const double dist = classify_edges(nu, e, r);
  r.nontrivial = dist <= 1e-6;
  r.label(std::string("ion-") + d.name);
  const LD E = (LD)nu / (LD)c18::ev2hz();
  LD sum = 0.L, tol = 0.L;
  bool anyA = false, anyB = false;
  for (int is : d.shells) {
    const c18::Phfit::Val v = PH().eval(
        d.Z, d.N, is, E, [&](double Eedge) { return nu < edge_hz(Eedge); });
    if (v.br == c18::Phfit::NOROW) {
      r.fail(fmt("table A has no row for %s shell %d", d.name, is));
      return r;
    }
    sum += v.sigma;
    tol += v.sigma * v.reltol;
    anyA = anyA || v.br == c18::Phfit::FIT_A;
    anyB = anyB || v.br == c18::Phfit::FIT_B;
  }
  if (anyA)
    r.label("ref-inner-shell-fit");
  if (anyB)
    r.label("ref-outer-shell-fit");
  // the ion's threshold is that of its outermost shell
  double thr = 1e300;
  for (int is : d.shells)
    thr = std::min(thr, edge_hz(PH().shell(d.Z, d.N, is)->Eth));
  const bool below = nu < thr;
  if (below)
    r.label("below-ion-threshold");
  const double got = XS().get_cross_section(d.ion, nu);
  if (!std::isfinite(got) || got < 0.) {
    r.fail(fmt("sigma(%s; nu=%.17g Hz) = %g is not finite and >= 0", d.name, nu,
               got));
    return r;
  }
  if (below) {
    if (got != 0.)
      r.fail(fmt("sigma(%s; nu=%.17g Hz) = %g below the threshold %.17g Hz "
                 "(expected exactly 0)",
                 d.name, nu, got, thr));
    return r;
  }
  if (!(sum > 0.L)) {
    r.fail(fmt("reference cross section of %s vanishes above threshold at "
               "nu=%.17g",
               d.name, nu));
    return r;
  }
  if (fabsl((LD)got - sum) > tol + 4e-16L * sum)
    r.fail(fmt("sigma(%s; nu=%.17g Hz = %.12Lg eV) = %.17g, independent phfit2 "
               "%.17Lg, rel.diff %.3Lg > tol %.3Lg",
               d.name, nu, E, got, sum, fabsl((LD)got - sum) / sum, tol / sum));
  return r;
}

// the table of the non-pinned unit test (written by Verner's Fortran routine)
struct TestData {
  std::vector<std::vector<double>> rows;
};
const TestData &xs_testdata() {
  static TestData t;
  static bool done = false;
  if (!done) {
    done = true;
    t.rows = c18::Phfit::numeric_lines(test_dir() + "/verner_testdata.txt", 15);
    if (t.rows.size() < 50) {
      fprintf(stderr, "C18: cannot read verner_testdata.txt\n");
      exit(2);
    }
  }
  return t;
}
const TestData &rec_testdata() {
  static TestData t;
  static bool done = false;
  if (!done) {
    done = true;
    t.rows =
        c18::Phfit::numeric_lines(test_dir() + "/verner_rec_testdata.txt", 15);
    if (t.rows.size() < 50) {
      fprintf(stderr, "C18: cannot read verner_rec_testdata.txt\n");
      exit(2);
    }
  }
  return t;
}

VCase gen_xsec_testdata() {
  VCase c;
  c.I("row", vr::irange(0, (int64_t)xs_testdata().rows.size() - 1));
  c.I("ion", vr::irange(0, 13));
  return c;
}
VResult o_xsec_testdata(const VCase &c) {
  VResult r;
  const auto &row = xs_testdata().rows.at(c.i("row"));
  const IonDef &d = ions()[c.i("ion")];
  const double EeV = row[0] * 13.6;
  const double want = row[1 + c.i("ion")] * 1e-22; // Mb -> m^2
  r.nontrivial = want > 0.;
  r.label(want > 0. ? "tabulated-nonzero" : "tabulated-zero");
  LD sum = 0.L;
  for (int is : d.shells)
    sum += PH().eval(d.Z, d.N, is, (LD)EeV, [&](double Eedge) {
                  return EeV < Eedge;
                }).sigma;
  const double nu = edge_hz(EeV);
  const double got = XS().get_cross_section(d.ion, nu);
  if (std::abs((double)sum - want) > 1e-9 * want)
    r.fail(fmt("REFERENCE disagrees with verner_testdata.txt: %s at %.6g eV: "
               "reference %.15Lg, table %.15g",
               d.name, EeV, sum, want));
  if (std::abs(got - want) > 1e-9 * want)
    r.fail(fmt("sigma(%s, %.6g eV) = %.15g, verner_testdata.txt says %.15g",
               d.name, EeV, got, want));
  return r;
}

VCase gen_xsec_fixed() {
  VCase c;
  std::vector<double> v;
  for (int k = 0; k < 14; ++k)
    v.push_back(vr::coin(0.2) ? 0. : vr::logu(1e-26, 1e-18));
  c.D("sigma", v);
  c.I("ion", vr::irange(0, 13));
  c.D("nu", vr::logu(0.5 * NUH, 100. * NUH));
  return c;
}
VResult o_xsec_fixed(const VCase &c) {
  VResult r;
  const std::vector<double> &v = c.dv("sigma");
  FixedValueCrossSections X(v[0], v[1], v[2], v[3], v[4], v[5], v[6], v[7], v[8],
                            v[9], v[10], v[11], v[12], v[13]);
  const int k = (int)c.i("ion");
  const double got = X.get_cross_section(ions()[k].ion, c.d("nu"));
  r.nontrivial = v[k] != 0.;
  r.label(v[k] != 0. ? "nonzero" : "zero");
  if (!(got == v[k]))
    r.fail(fmt("FixedValueCrossSections(%s) = %.17g, parameter %.17g",
               ions()[k].name, got, v[k]));
  return r;
}

// ------------------------------------------------------------ temperatures
// temperatures at which a fit changes regime / validity, a clamp of the charge
// transfer rates sets in, or the property statement has a boundary
const std::vector<double> &switch_T() {
  static const std::vector<double> t = {
      10.,  1e9,  1e5,  1e3,  6e4,  2e4, 3.,   1e6,  90.,  9e7, 6e3,
      5e3,  5e4,  100., 1e4,  3e4,  1e2, 1e7,  1e8,  3.148, 15.54, 7.036e5,
      3.676e7};
  return t;
}
double gen_T() {
  static const std::vector<double> rel = {1e-15, 1e-12, 1e-9, 1e-6};
  const int mode = vr::weighted({6, 2, 2, 1});
  double T;
  if (mode == 0)
    return vr::logu(10., 1e9);
  T = vr::pick(switch_T());
  if (mode == 1) {
    const int k = (int)vr::irange(-2, 2);
    for (int j = 0; j < std::abs(k); ++j)
      T = std::nextafter(T, k > 0 ? INFINITY : 0.);
  } else if (mode == 2)
    T *= 1. + (vr::coin() ? 1. : -1.) * vr::pick(rel);
  else
    T *= vr::logu(0.5, 2.);
  return std::min(1e9, std::max(10., T));
}
bool near_switch(double T) {
  for (double s : switch_T())
    if (std::abs(T - s) <= 1e-6 * s)
      return true;
  return false;
}
void label_T(double T, VResult &r) {
  r.label(T <= 1e3 ? "T<=1e3" : T <= 1e5 ? "1e3<T<=1e5" : T <= 1e7 ? "1e5<T<=1e7"
                                                                     : "T>1e7");
  if (near_switch(T))
    r.label("T-at-regime-switch");
}

VCase gen_rate() {
  VCase c;
  c.I("ion", vr::irange(0, 13));
  c.D("T", gen_T());
  return c;
}
VResult o_rate(const VCase &c) {
  VResult r;
  const IonDef &d = ions()[c.i("ion")];
  const double T = c.d("T");
  label_T(T, r);
  r.label(std::string("ion-") + d.name);
  r.nontrivial = near_switch(T);
  const double a = RC().get_recombination_rate(d.ion, T);
  if (!std::isfinite(a) || a < 0.) {
    r.fail(fmt("alpha(%s, T=%.17g K) = %g is not finite and >= 0", d.name, T, a));
    return r;
  }
  if (T <= 1e5 && !(a > 0.))
    r.fail(fmt("alpha(%s, T=%.17g K) = %g, must be > 0 for T <= 1e5 K", d.name,
               T, a));
  if (a == 0.)
    r.label("rate-clipped-to-zero");
  // the rate contains the radiative part (rrfit) for every ion; wherever the
  // total is positive it cannot be smaller than ... (no statement: the
  // dielectronic fits do become negative) - only H and He have a closed form
  if (d.ion == ION_H_n || d.ion == ION_He_n) {
    LD ref;
    if (d.ion == ION_H_n)
      // Verner & Ferland (1996), table 1, H I
      ref = c18::Rrfit::vf96(7.982e-11L, 0.7480L, 3.148L, 7.036e5L, T);
    else
      // Verner & Ferland (1996), table 1, He I (first set, 3 K .. 1e6 K)
      ref = c18::Rrfit::vf96(3.294e-11L, 0.6910L, 15.54L, 3.676e7L, T);
    ref *= 1e-6L;
    if (fabsl((LD)a - ref) > 1e-13L * ref)
      r.fail(fmt("alpha(%s, T=%.17g K) = %.17g, Verner & Ferland (1996) eq.4 "
                 "gives %.17Lg (rel.diff %.3Lg)",
                 d.name, T, a, ref, fabsl((LD)a - ref) / ref));
    if (d.ion == ION_H_n) {
      // the same fit is shipped in the rrfit table
      const LD ref2 = RR().eval(1, 1, T) * 1e-6L;
      if (fabsl((LD)a - ref2) > 1e-13L * ref2)
        r.fail(fmt("alpha(H0, T=%.17g K) = %.17g, rrfit table gives %.17Lg", T,
                   a, ref2));
    }
  }
  return r;
}

VCase gen_rate_testdata() {
  VCase c;
  c.I("row", vr::irange(0, (int64_t)rec_testdata().rows.size() - 1));
  c.I("ion", vr::irange(0, 13));
  return c;
}
VResult o_rate_testdata(const VCase &c) {
  VResult r;
  const auto &row = rec_testdata().rows.at(c.i("row"));
  const IonDef &d = ions()[c.i("ion")];
  const double T = row[0], want = row[1 + c.i("ion")] * 1e-6;
  r.nontrivial = true;
  label_T(T, r);
  const double got = RC().get_recombination_rate(d.ion, T);
  if (!(std::abs(got - want) <= 1e-12 * want))
    r.fail(fmt("alpha(%s, T=%.17g K) = %.17g, verner_rec_testdata.txt says "
               "%.17g",
               d.name, T, got, want));
  return r;
}

VCase gen_rrfit() {
  VCase c;
  const int iz = (int)vr::irange(1, 30);
  c.I("zn", {iz, vr::irange(1, iz)});
  c.D("T", gen_T());
  return c;
}
VResult o_rrfit(const VCase &c) {
  VResult r;
  const int iz = (int)c.i("zn", 0), in = (int)c.i("zn", 1);
  const double T = c.d("T");
  label_T(T, r);
  const bool newfit = in <= 3 || in == 11 || (iz > 5 && iz < 9) || iz == 10 ||
                      (iz == 26 && in > 11);
  r.label(newfit ? "verner-ferland-fit" : (iz == 26 && in <= 13) ? "iron-fit"
                                                                 : "power-law-fit");
  r.nontrivial = near_switch(T);
  const double got = RC().get_recombination_rate_verner(iz, in, T);
  const LD ref = RR().eval(iz, in, T);
  if (!std::isfinite(got) || !(got > 0.)) {
    r.fail(fmt("rrfit(Z=%d,N=%d,T=%.17g) = %g is not finite and > 0", iz, in, T,
               got));
    return r;
  }
  // condition of pow(tt, -a-b*log10(tt)) in tt is <= |a| + 2|b log10 tt| <~ 2
  if (fabsl((LD)got - ref) > 2e-13L * ref)
    r.fail(fmt("rrfit(Z=%d,N=%d,T=%.17g) = %.17g, own evaluation of the "
               "shipped table %.17Lg (rel.diff %.3Lg)",
               iz, in, T, got, ref, fabsl((LD)got - ref) / ref));
  return r;
}

// ordered temperature chains for H0 and He0
VCase gen_chain() {
  static const std::vector<double> step = {1e-12, 1e-9, 1e-6, 1e-3,
                                           0.1,   1.,   9.,   99.};
  VCase c;
  c.I("ion", vr::irange(0, 1));
  std::vector<double> T;
  double t = vr::coin(0.2) ? vr::pick(switch_T()) : vr::logu(10., 1e8);
  t = std::min(1e9, std::max(10., t));
  T.push_back(t);
  for (int k = 0; k < 7; ++k) {
    double n;
    if (vr::coin(0.15))
      n = std::nextafter(t, INFINITY); // adjacent doubles
    else
      n = t * (1. + vr::pick(step) * vr::uni(0.5, 1.));
    if (n > 1e9)
      break;
    T.push_back(n);
    t = n;
  }
  c.D("T", T);
  return c;
}
VResult o_chain(const VCase &c) {
  VResult r;
  const IonDef &d = ions()[c.i("ion")];
  const std::vector<double> &T = c.dv("T");
  r.label(std::string("ion-") + d.name);
  bool close = false;
  double prev = 0.;
  for (size_t k = 0; k < T.size(); ++k) {
    const double a = RC().get_recombination_rate(d.ion, T[k]);
    if (!std::isfinite(a) || !(a > 0.)) {
      r.fail(fmt("alpha(%s, T=%.17g) = %g not finite and > 0", d.name, T[k], a));
      return r;
    }
    if (k > 0) {
      const double rel = T[k] / T[k - 1] - 1.;
      if (rel <= 1e-6)
        close = true;
      // d ln alpha / d ln T is between -0.5 and -1.5: a relative step of
      // 1e-12 changes the rate by >= 5e-13, far above the rounding (~1e-15)
      if (rel >= 1e-12) {
        if (!(a < prev))
          r.fail(fmt("alpha(%s) does not decrease: T=%.17g -> %.17g, "
                     "T=%.17g -> %.17g",
                     d.name, T[k - 1], prev, T[k], a));
      } else if (!(a <= prev * (1. + 8 * 0x1p-52)))
        r.fail(fmt("alpha(%s) increases between neighbouring temperatures: "
                   "T=%.17g -> %.17g, T=%.17g -> %.17g",
                   d.name, T[k - 1], prev, T[k], a));
    }
    prev = a;
  }
  if (close)
    r.label("chain-with-step<=1e-6");
  r.nontrivial = close;
  return r;
}

// ------------------------------------------------------------ charge transfer
struct CTDef {
  int kind; // 0 recombination with H, 1 ionization by H+, 2 recombination with He
  int ion;
  const char *name;
  double lo, hi; // documented validity interval in units of 1e4 K (0,0: const)
};
// exactly the calls of IonizationStateCalculator::compute_ionization_states_metals
const std::vector<CTDef> &ct_reactions() {
  static const std::vector<CTDef> t = {
      {0, ION_C_p2, "recH(C++)", 0.1, 10.},  {2, ION_C_p2, "recHe(C++)", 0.1, 3.},
      {1, ION_N_n, "ionH(N0)", 0.01, 5.},    {0, ION_N_n, "recH(N0)", 0.01, 5.},
      {0, ION_N_p1, "recH(N+)", 0.1, 10.},   {2, ION_N_p1, "recHe(N+)", 0.1, 3.},
      {0, ION_N_p2, "recH(N++)", 0.001, 10.}, {2, ION_N_p2, "recHe(N++)", 0, 0},
      {1, ION_O_n, "ionH(O0)", 0.001, 1.},   {0, ION_O_n, "recH(O0)", 0.001, 1.},
      {0, ION_O_p1, "recH(O+)", 0.01, 10.},  {2, ION_O_p1, "recHe(O+)", 0.5, 5.},
      {0, ION_Ne_p1, "recH(Ne+)", 0, 0},     {2, ION_Ne_p1, "recHe(Ne+)", 0, 0},
      {0, ION_S_p1, "recH(S+)", 0, 0},       {0, ION_S_p2, "recH(S++)", 0.1, 3.},
      {2, ION_S_p2, "recHe(S++)", 0.1, 3.},  {0, ION_S_p3, "recH(S+++)", 0.1, 3.},
      {2, ION_S_p3, "recHe(S+++)", 0.1, 3.}};
  return t;
}
double ct_call(const CTDef &d, double T4) {
  static const ChargeTransferRates C;
  switch (d.kind) {
  case 0:
    return C.get_charge_transfer_recombination_rate_H(d.ion, T4);
  case 1:
    return C.get_charge_transfer_ionization_rate_H(d.ion, T4);
  default:
    return C.get_charge_transfer_recombination_rate_He(d.ion, T4);
  }
}
VCase gen_ct() {
  VCase c;
  const int k = (int)vr::irange(0, (int64_t)ct_reactions().size() - 1);
  c.I("reaction", k);
  const CTDef &d = ct_reactions()[k];
  double T = gen_T();
  if (d.hi > 0. && vr::coin(0.3)) { // at the clamps of this very reaction
    T = (vr::coin() ? d.lo : d.hi) * 1e4;
    const int u = (int)vr::irange(-2, 2);
    for (int j = 0; j < std::abs(u); ++j)
      T = std::nextafter(T, u > 0 ? INFINITY : 0.);
    T = std::min(1e9, std::max(10., T));
  }
  c.D("T", T);
  return c;
}
VResult o_ct(const VCase &c) {
  VResult r;
  const CTDef &d = ct_reactions()[c.i("reaction")];
  const double T = c.d("T");
  const double T4 = T * 1.e-4; // as the ionization balance passes it
  label_T(T, r);
  r.label(d.name);
  const double a = ct_call(d, T4);
  bool atclamp = false;
  if (d.hi > 0.)
    atclamp = std::abs(T4 - d.lo) <= 1e-6 * d.lo || std::abs(T4 - d.hi) <= 1e-6 * d.hi;
  r.nontrivial = near_switch(T) || atclamp;
  if (atclamp)
    r.label("T-at-validity-limit");
  if (!std::isfinite(a) || a < 0.) {
    r.fail(fmt("%s at T=%.17g K: %g is not finite and >= 0", d.name, T, a));
    return r;
  }
  // rates are of order 1e-15 m^3/s at most (1e-9 cm^3/s)
  if (a > 1e-12)
    r.fail(fmt("%s at T=%.17g K: %g m^3/s is not a physical rate coefficient",
               d.name, T, a));
  // outside the documented validity interval the fit is frozen at the limit
  if (d.hi > 0.) {
    if (T4 < d.lo) {
      r.label("below-validity-range");
      const double b = ct_call(d, d.lo);
      if (a != b)
        r.fail(fmt("%s at T=%.17g K = %.17g differs from the value at the lower "
                   "validity limit %.17g",
                   d.name, T, a, b));
    } else if (T4 > d.hi) {
      r.label("above-validity-range");
      const double b = ct_call(d, d.hi);
      if (a != b)
        r.fail(fmt("%s at T=%.17g K = %.17g differs from the value at the upper "
                   "validity limit %.17g",
                   d.name, T, a, b));
    } else
      r.label("inside-validity-range");
  } else {
    r.label("constant-rate");
    if (a != ct_call(d, 1.))
      r.fail(fmt("%s depends on T although documented constant", d.name));
  }
  return r;
}

// ------------------------------------------------------------ spectra
// injection of chosen uniform deviates through the restart constructor: the
// state is positioned so that the next 11 draws return xdbl[1..11] verbatim
struct Injector {
  std::string file;
  Injector() {
    const char *t = getenv("VERIF_TMP");
    file = std::string(t ? t : ".") + "/c18_rng_" + std::to_string((long)getpid()) +
           ".dump";
  }
  ~Injector() { unlink(file.c_str()); }
  RandomGenerator make(const std::vector<double> &u) {
    // (a fresh inode every time: rewriting a truncated file makes ext4 flush
    // synchronously on close)
    unlink(file.c_str());
    {
      RestartWriter w(file);
      w.write<double>(0.5);
      for (int k = 0; k < 11; ++k)
        w.write<double>(k < (int)u.size() ? u[k] : 0.5);
      w.write<double>(0.);                  // carry
      w.write<uint_fast32_t>(0);            // ir
      w.write<uint_fast32_t>(8);            // jr
      w.write<uint_fast32_t>(0);            // ir_old
      w.write<uint_fast32_t>(397);          // pr
    }
    RestartReader rd(file);
    return RandomGenerator(rd);
  }
};
Injector &INJ() {
  static Injector i;
  return i;
}

double gen_u() {
  double u;
  switch (vr::weighted({2, 3, 3, 8, 3, 1})) {
  case 0:
    u = 1e-10;
    break;
  case 1:
    u = vr::logu(1e-10, 1e-4);
    break;
  case 2:
    u = vr::logu(1e-4, 0.05);
    break;
  case 3:
    u = vr::uni();
    break;
  case 4:
    u = 1. - vr::logu(1e-16, 1e-2);
    break;
  default:
    u = 1. - 0x1p-53;
  }
  if (u < 1e-10)
    u = 1e-10;
  if (!(u < 1.))
    u = 1. - 0x1p-53;
  return u;
}
std::vector<double> gen_us() {
  std::vector<double> u;
  for (int k = 0; k < 11; ++k)
    u.push_back(gen_u());
  std::sort(u.begin(), u.end());
  return u;
}

// description of one sampler for the generic oracle
struct SpecRef {
  double nu_min, nu_max;    // documented range (Hz)
  const c18::Cdf *cdf;      // reference cumulative distribution of x = nu/unit
  double unit;              // Hz per unit of the cdf argument
  double bin;               // width of a table bin, in cdf argument units
  double kdown, kup;        // resolution: Q(u) in [nu - kdown*bin, nu + kup*bin]
  double eps_u;             // slack on u (quadrature / Monte Carlo noise)
  double kfirst = 0.;       // resolution (bins) for deviates in the first bin
  bool check_cdf = true;    // false: range and monotonicity only
};

// returns "" or a failure message; sets labels
std::string check_samples(const SpecRef &s, const std::vector<double> &u,
                          const std::vector<double> &nu, VResult &r,
                          bool *range_fail = nullptr) {
  bool first = false, last = false;
  const double c_first = s.cdf ? s.cdf->value(s.cdf->lo + s.bin) : 0.;
  const double c_last = s.cdf ? s.cdf->value(s.cdf->hi - s.bin) : 1.;
  std::string msg;
  for (size_t k = 0; k < u.size(); ++k) {
    if (u[k] < c_first)
      first = true;
    if (u[k] > c_last)
      last = true;
    if (!std::isfinite(nu[k]) || nu[k] < s.nu_min || nu[k] > s.nu_max) {
      if (msg.empty()) {
        msg = fmt("u=%.17g -> nu=%.17g Hz outside the ionizing range [%.17g, "
                  "%.17g] (nu/nu_min = %.9f, nu/nu_max = %.9f)",
                  u[k], nu[k], s.nu_min, s.nu_max, nu[k] / s.nu_min,
                  nu[k] / s.nu_max);
        if (range_fail)
          *range_fail = true;
      }
      continue;
    }
    if (k > 0 && nu[k] < nu[k - 1] * (1. - 16 * 0x1p-52) && msg.empty())
      msg = fmt("not monotone: u=%.17g -> %.17g Hz but u=%.17g -> %.17g Hz",
                u[k - 1], nu[k - 1], u[k], nu[k]);
    if (s.cdf && s.check_cdf) {
      const double x = nu[k] / s.unit;
      // the first bin of a table is resolved no better than the bin itself
      const double kd = (u[k] < c_first) ? std::max(s.kfirst, s.kdown) : s.kdown;
      const double ku = (u[k] < c_first) ? std::max(s.kfirst, s.kup) : s.kup;
      const double eu = s.eps_u;
      const double cl = s.cdf->value(x - kd * s.bin) - eu;
      const double ch = s.cdf->value(x + ku * s.bin) + eu;
      if (!(cl <= u[k] && u[k] <= ch) && msg.empty())
        msg = fmt("u=%.17g -> nu=%.17g Hz (x=%.9f): reference CDF over the "
                  "table resolution [x-%.2g bin, x+%.2g bin] is [%.9g, %.9g] "
                  "(CDF(x)=%.9g, CDF(x+bin)=%.9g)",
                  u[k], nu[k], x, kd, ku, cl + s.eps_u, ch - s.eps_u,
                  s.cdf->value(x), s.cdf->value(x + s.bin));
    }
  }
  if (first)
    r.label("u-in-first-bin");
  if (last)
    r.label("u-in-last-bin");
  if (u.front() == 1e-10)
    r.label("u=1e-10");
  r.nontrivial = first || last;
  return msg;
}

// photon-number Planck spectrum in x = nu/NUH on [1,4]
c18::Cdf planck_cdf(double T) {
  const double a = c18::H_JS * NUH / (c18::KB_JK * T);
  c18::Cdf c;
  c.build(1., 4., 3996, [a](double x) { return x * x / std::expm1(a * x); });
  return c;
}

VCase gen_planck() {
  VCase c;
  static const std::vector<double> sp = {3000., 4e4, 2e5, 1e4, 5e3, 1e5, 3e4};
  c.D("T", vr::coin(0.2) ? vr::pick(sp) : vr::logu(3000., 2e5));
  c.D("u", gen_us());
  return c;
}
VResult o_planck(const VCase &c) {
  VResult r;
  const double T = c.d("T");
  const std::vector<double> &u = c.dv("u");
  r.label(T < 1e4 ? "T<1e4" : T < 5e4 ? "1e4<=T<5e4" : "T>=5e4");
  PlanckPhotonSourceSpectrum S(T, 1., nullptr);
  RandomGenerator g = INJ().make(u);
  std::vector<double> nu;
  for (size_t k = 0; k < u.size(); ++k)
    nu.push_back(S.get_random_frequency(g, 0.));
  const c18::Cdf cdf = planck_cdf(T);
  // the table interpolates log(CDF) against log(nu) inside a bin (measured:
  // within 0.1 bin + 1e-5 of the analytic quantile for 3000 K <= T); only the
  // first bin (floor 1e-10 instead of 0) is resolved no better than the bin
  SpecRef s{NUH, 4. * NUH, &cdf, NUH, 3. / 999., 0.25, 0.25, 5e-5, 1.};
  const std::string m = check_samples(s, u, nu, r);
  if (!m.empty())
    r.fail(fmt("Planck(T=%.17g K): ", T) + m);
  return r;
}

// He two-photon continuum: piecewise linear A(y), y = nu/4.98e15, own parse
const c18::Cdf &he2pc_cdf() {
  static c18::Cdf c;
  static bool done = false;
  if (!done) {
    done = true;
    static std::vector<std::vector<double>> tab =
        c18::Phfit::numeric_lines(HELIUMTWOPHOTONCONTINUUMDATALOCATION, 2);
    if (tab.size() != 41) {
      fprintf(stderr, "C18: cannot read He2q.dat\n");
      exit(2);
    }
    c.build(1., 1.6, 3996, [](double x) {
      const double y = x * NUH / 4.98e15;
      if (!(y < 1.))
        return 0.;
      size_t k = 0;
      while (k + 2 < tab.size() && tab[k + 1][0] <= y)
        ++k;
      const double f = (y - tab[k][0]) / (tab[k + 1][0] - tab[k][0]);
      return tab[k][1] + f * (tab[k + 1][1] - tab[k][1]);
    });
  }
  return c;
}

VCase gen_simple() {
  VCase c;
  const int kind = vr::weighted({2, 1, 3});
  c.I("kind", kind);
  c.D("par", kind == 1 ? vr::logu(NUH, 4. * NUH) : vr::logu(10., 1e9));
  c.D("u", gen_us());
  return c;
}
VResult o_simple(const VCase &c) {
  VResult r;
  const int kind = (int)c.i("kind");
  const std::vector<double> &u = c.dv("u");
  RandomGenerator g = INJ().make(u);
  std::vector<double> nu;
  std::string m;
  if (kind == 0) {
    r.label("uniform");
    UniformPhotonSourceSpectrum S;
    for (size_t k = 0; k < u.size(); ++k)
      nu.push_back(S.get_random_frequency(g, c.d("par")));
    static c18::Cdf cdf;
    if (cdf.n == 0)
      cdf.build(1., 4., 8, [](double) { return 1.; });
    SpecRef s{3.289e15, 4. * 3.289e15, &cdf, 3.289e15, 3. / 999., 1e-9, 1e-9, 1e-13};
    m = check_samples(s, u, nu, r);
    r.nontrivial = true;
  } else if (kind == 1) {
    r.label("monochromatic");
    const double f = c.d("par");
    MonochromaticPhotonSourceSpectrum S(f, 1., nullptr);
    for (size_t k = 0; k < u.size(); ++k) {
      const double x = S.get_random_frequency(g, 8000.);
      if (!(x == f) && m.empty())
        m = fmt("monochromatic spectrum of %.17g Hz returned %.17g", f, x);
    }
    r.nontrivial = true;
  } else {
    r.label("helium-two-photon");
    static HeliumTwoPhotonContinuumSpectrum S;
    for (size_t k = 0; k < u.size(); ++k)
      nu.push_back(S.get_random_frequency(g, c.d("par")));
    // linear interpolation of the tabulated CDF inside a bin of 0.6/999
    SpecRef s{NUH, 1.6 * NUH, &he2pc_cdf(), NUH, 0.6 / 999., 0.05, 0.05, 1e-5};
    m = check_samples(s, u, nu, r);
  }
  if (!m.empty())
    r.fail(m);
  return r;
}

// H and He Lyman continua: nu^2 sigma(nu) exp(-h(nu-nu0)/kT) (photon numbers;
// Wood, Mathis & Ercolano 2004, eq. 8), sigma from the independent phfit2
struct LycGrid {
  double lo, hi; // Hz
  int n;
  std::vector<double> w; // nu^2 sigma at 2n+1 points (nodes and midpoints)
  void init(int Z, int N, double a, double b) {
    lo = a;
    hi = b;
    n = 3996;
    w.resize(2 * n + 1);
    for (int k = 0; k <= 2 * n; ++k) {
      const double nu = lo + (hi - lo) * k / (2. * n);
      w[k] = nu / NUH * nu / NUH * sigma(Z, N, nu);
    }
  }
  static double sigma(int Z, int N, double nu) {
    return (double)PH().eval(Z, N, 1, (LD)nu / (LD)c18::ev2hz(),
                             [&](double E) { return nu < edge_hz(E); })
               .sigma *
           1e22;
  }
};
c18::Cdf lyc_cdf(int which, double T) {
  static LycGrid G[2];
  static bool done = false;
  if (!done) {
    done = true;
    G[0].init(1, 1, 3.289e15, 4. * 3.289e15);
    G[1].init(2, 2, 1.81 * NUH, 4. * NUH);
  }
  const LycGrid &g = G[which];
  const double a = c18::H_JS / (c18::KB_JK * T);
  const int Z = which == 0 ? 1 : 2;
  c18::Cdf c;
  c.lo = g.lo;
  c.hi = g.hi;
  c.n = g.n;
  c.cum.assign(g.n + 1, 0.);
  const double h = (g.hi - g.lo) / g.n;
  for (int k = 0; k < g.n; ++k) {
    const double e0 = std::exp(-a * (k * h)), e1 = std::exp(-a * ((k + 0.5) * h)),
                 e2 = std::exp(-a * ((k + 1) * h));
    c.cum[k + 1] = c.cum[k] + h / 6. * (g.w[2 * k] * e0 + 4. * g.w[2 * k + 1] * e1 +
                                        g.w[2 * k + 2] * e2);
  }
  const double lo = g.lo;
  c.pdf = [a, lo, Z](double nu) {
    return nu / NUH * nu / NUH * LycGrid::sigma(Z, Z, nu) * std::exp(-a * (nu - lo));
  };
  return c;
}

const double LYC_T0 = 1567.5, LYC_T1 = 14932.5; // first / last table temperature

VCase gen_lyc() {
  VCase c;
  c.I("which", vr::irange(0, 1));
  double T;
  switch (vr::weighted({8, 4, 3, 3})) {
  case 0:
    T = vr::uni(LYC_T0, LYC_T1);
    break;
  case 1:
    T = vr::logu(1e3, 1e5);
    break;
  case 2: { // on / next to a table temperature
    T = 1500. + ((double)vr::irange(0, 99) + 0.5) * 13500. / 100.;
    const int k = (int)vr::irange(-1, 1);
    if (k)
      T = std::nextafter(T, k > 0 ? INFINITY : 0.);
    break;
  }
  default: {
    static const std::vector<double> sp = {8000., 1e4, 100., 1500., 15000.,
                                           1e3,   1e5, 2e4,  5000.};
    T = vr::pick(sp);
  }
  }
  c.D("T", T);
  c.D("u", gen_us());
  return c;
}
VResult o_lyc(const VCase &c) {
  VResult r;
  static HydrogenLymanContinuumSpectrum SH(XS());
  static HeliumLymanContinuumSpectrum SHe(XS());
  const int which = (int)c.i("which");
  const double T = c.d("T");
  const std::vector<double> &u = c.dv("u");
  r.label(which == 0 ? "H-Lyman-continuum" : "He-Lyman-continuum");
  const bool intable = T >= LYC_T0 && T <= LYC_T1;
  r.label(intable ? "T-inside-table" : T < LYC_T0 ? "T-below-table" : "T-above-table");
  RandomGenerator g = INJ().make(u);
  std::vector<double> nu;
  for (size_t k = 0; k < u.size(); ++k)
    nu.push_back(which == 0 ? SH.get_random_frequency(g, T)
                            : SHe.get_random_frequency(g, T));
  // outside the tabulated temperatures (bin centres 1567.5 .. 14932.5 K) the
  // sampler documents a clamp to the nearest table: the distribution there is
  // that of the first / last tabulated temperature
  const double Teff = std::max(LYC_T0, std::min(T, LYC_T1));
  const c18::Cdf cdf = lyc_cdf(which, Teff);
  const double lo = cdf.lo, hi = cdf.hi;
  // the sampler returns table nodes (no interpolation inside a bin) blended
  // between the two neighbouring temperature tables: the exact quantile lies
  // in [nu, nu + 1 bin]; a quarter of a bin is allowed on either side
  SpecRef s{lo, hi, &cdf, 1., (hi - lo) / 999., 0.25, 1.25, 1e-4};
  const std::string m = check_samples(s, u, nu, r);
  if (!m.empty())
    r.fail(fmt("%s Lyman continuum at T=%.17g K: ", which == 0 ? "H" : "He", T) + m);
  return r;
}

// masked Planck spectrum
struct MaskedCfg {
  double T;
  int nbins;
  int nsamples;
};
const std::vector<MaskedCfg> &masked_cfgs() {
  static const std::vector<MaskedCfg> t = {{4e4, 100, 400000}, {2e4, 100, 400000},
                                           {1e5, 50, 400000},  {4e4, 1000, 400000},
                                           {4e4, 25, 400000}};
  return t;
}
VCase gen_masked() {
  VCase c;
  c.I("cfg", vr::irange(0, (int64_t)masked_cfgs().size() - 1));
  c.D("u", gen_us());
  return c;
}
VResult o_masked(const VCase &c) {
  VResult r;
  static std::map<int, std::unique_ptr<MaskedPhotonSourceSpectrum>> S;
  static std::map<int, c18::Cdf> C;
  const int k = (int)c.i("cfg");
  const MaskedCfg &cfg = masked_cfgs().at(k);
  if (!S.count(k)) {
    S[k].reset(new MaskedPhotonSourceSpectrum(
        new PlanckPhotonSourceSpectrum(cfg.T, 1., nullptr),
        new LinearPhotonSourceSpectrumMask(), cfg.nbins, cfg.nsamples));
    const double a = c18::H_JS * NUH / (c18::KB_JK * cfg.T);
    // Planck photon numbers times the linear mask 1 - (nu - nu0)/(3 nu0),
    // nu0 = 3.289e15 Hz; argument in units of 3.289e15 Hz
    const double q = 3.289e15 / NUH;
    C[k].build(NUH / 3.289e15, 4. * NUH / 3.289e15, 3996, [a, q](double x) {
      const double f = x * q;
      return f * f / std::expm1(a * f) * std::max(0., 1. - (x - 1.) / 3.);
    });
  }
  const std::vector<double> &u = c.dv("u");
  r.label(fmt("bins=%d", cfg.nbins));
  RandomGenerator g = INJ().make(u);
  std::vector<double> nu;
  for (size_t j = 0; j < u.size(); ++j)
    nu.push_back(S[k]->get_random_frequency(g, 0.));
  const double bin = 3. / (cfg.nbins - 1.);
  // histogram of nsamples draws, linear interpolation inside a bin: half a bin
  // of resolution and 5 sigma of binomial noise on the cumulative distribution
  SpecRef s{3.289e15, 4. * 3.289e15, &C[k], 3.289e15, bin, 0.5, 0.5,
            5. * 0.5 / std::sqrt((double)cfg.nsamples)};
  bool range_fail = false;
  const std::string m = check_samples(s, u, nu, r, &range_fail);
  if (!m.empty()) {
    r.fail(fmt("masked Planck(T=%g K, %d bins, %d samples): ", cfg.T, cfg.nbins,
               cfg.nsamples) +
           m);
    // hint for the reader: is the failure explained by a shift of one bin?
    std::vector<double> shifted;
    for (double x : nu)
      shifted.push_back(x + bin * 3.289e15);
    VResult dummy;
    SpecRef s2 = s;
    s2.nu_max += bin * 3.289e15;
    s2.nu_min -= bin * 3.289e15;
    s2.kdown = s2.kup = 1.;
    if (check_samples(s2, u, shifted, dummy).empty())
      r.msg += " [consistent with the table being shifted down by one bin]";
  }
  return r;
}

} // namespace

int main(int argc, char **argv) {
  std::vector<VProp> props;
  const std::string fdom =
      "frequency: log-uniform on [0.5,100] nu_H (shell check: 30% up to 1e4 "
      "nu_H), or an edge (every shell threshold of the ion stage in "
      "verner_A.dat, converted as E*(eV/h)) exactly / +-1..3 ulp / "
      "*(1+-{1e-15,1e-12,1e-9,1e-6,1e-3}) / within 10%. Non-trivial = within "
      "1e-6 (relative) of an edge.";
  props.push_back({"xsec_shell", 300000, gen_xsec_shell, o_xsec_shell,
                   "every (Z,N,shell) row of verner_A.dat (30% rows of tracked "
                   "ion stages), 10% of the cases at E=E_0 where (y-1)^2 "
                   "cancels, 27% log-uniform on [0.5,50] x the shell's own "
                   "threshold; get_cross_section_verner == independent phfit2 "
                   "within 16 eps (4 + |dlnF/dlny|); exact 0 where phfit2 "
                   "returns 0. " + fdom,
                   {{"exactly-on-edge", 0.02},
                    {"ref-outer-shell-fit", 0.03},
                    {"ref-inner-shell-fit", 0.1},
                    {"ref-zero-valence-shell-below-inner-edge", 0.01}}});
  props.push_back({"xsec_ion", 300000, gen_xsec_ion, o_xsec_ion,
                   "14 tracked ions through get_cross_section; reference = sum "
                   "of the independent phfit2 over the valence shells "
                   "documented for the ion; exact 0 below the ion threshold; "
                   "8% frequencies that the samplers return exactly. " + fdom,
                   {{"exactly-on-edge", 0.02}, {"below-ion-threshold", 0.05}}});
  props.push_back({"xsec_testdata", 3000, gen_xsec_testdata, o_xsec_testdata,
                   "(row, ion) of /repo/test/verner_testdata.txt: code and "
                   "reference both within 1e-9 of the Fortran table. "
                   "Non-trivial = tabulated value non-zero."});
  props.push_back({"xsec_fixed", 20000, gen_xsec_fixed, o_xsec_fixed,
                   "FixedValueCrossSections with 14 generated parameters (20% "
                   "zeros): returns the parameter of the ion for any frequency"});
  const std::string tdom =
      "T log-uniform on [10,1e9] K, or a regime switch / validity limit / "
      "statement boundary {10,1e9,1e5,1e3,6e4,2e4,...} exactly, +-2 ulp, "
      "*(1+-{1e-15..1e-6}), within a factor 2. Non-trivial = within 1e-6 of "
      "such a temperature.";
  props.push_back({"recombination", 200000, gen_rate, o_rate,
                   "14 tracked ions: finite, >=0, >0 for T<=1e5 K; H0 and He0 "
                   "equal Verner & Ferland (1996) eq. 4 (coefficients from the "
                   "paper; H0 also from the shipped rrfit table) to 1e-13. " + tdom,
                   {{"T-at-regime-switch", 0.1}}});
  props.push_back({"recombination_testdata", 3000, gen_rate_testdata,
                   o_rate_testdata,
                   "(row, ion) of /repo/test/verner_rec_testdata.txt to 1e-12"});
  props.push_back({"rrfit_all", 150000, gen_rrfit, o_rrfit,
                   "every 1<=N<=Z<=30 of get_recombination_rate_verner against "
                   "an own evaluation of rrfit from an own parse of "
                   "verner_rec_data.txt (2e-13), finite and > 0. " + tdom});
  props.push_back({"recombination_monotone", 100000, gen_chain, o_chain,
                   "H0/He0: chains of up to 8 increasing temperatures (steps "
                   "1 ulp, 1e-12 .. x100): strictly decreasing for relative "
                   "steps >= 1e-12, non-increasing (8 eps) below. Non-trivial = "
                   "chain contains a step <= 1e-6.",
                   {{"chain-with-step<=1e-6", 0.2}}});
  props.push_back({"charge_transfer", 200000, gen_ct, o_ct,
                   "the 19 (reaction, ion) calls of "
                   "compute_ionization_states_metals with T4 = T*1e-4: finite, "
                   ">= 0, < 1e-12 m^3/s, frozen outside the documented validity "
                   "interval; 30% at the clamps of the reaction +-2 ulp. " + tdom,
                   {{"T-at-validity-limit", 0.05}}});
  const std::string udom =
      " 11 sorted deviates per case from {1e-10, log-uniform [1e-10,1e-4], "
      "[1e-4,0.05], uniform, 1-log-uniform[1e-16,1e-2], 1-2^-53}, injected "
      "through RandomGenerator(RestartReader&). Non-trivial = a deviate in the "
      "first or last table bin.";
  props.push_back({"spectrum_planck", 30000, gen_planck, o_planck,
                   "Planck, T_eff log-uniform [3000,2e5] K (20% special): nu in "
                   "[1,4] x 3.288465385e15 Hz, non-decreasing in u, u inside "
                   "the reference CDF over +-0.25 bin (first bin: +-1 bin) "
                   "+-5e-5." + udom,
                   {{"u-in-first-bin", 0.2}}});
  props.push_back({"spectrum_simple", 30000, gen_simple, o_simple,
                   "uniform (exact), monochromatic (exact), He two-photon "
                   "continuum (own parse of He2q.dat, +-0.05 bin, +-1e-5)." + udom});
  props.push_back({"spectrum_lyc", 30000, gen_lyc, o_lyc,
                   "H / He Lyman continuum, T uniform in the table "
                   "[1567.5,14932.5] K (45%), log-uniform [1e3,1e5] K, table "
                   "temperatures +-1 ulp, {100,1500,8000,1e4,15000,1e5,..}: nu "
                   "in range, non-decreasing, u inside the reference CDF (of "
                   "the nearest tabulated temperature outside the table) over "
                   "[-0.25,+1.25] bins (+-1e-4)." + udom,
                   {{"T-inside-table", 0.3}, {"T-below-table", 0.05}, {"T-above-table", 0.05}}});
  props.push_back({"spectrum_masked", 10000, gen_masked, o_masked,
                   "linearly masked Planck spectra {(4e4 K,100 bins),(2e4,100),"
                   "(1e5,50),(4e4,1000),(4e4,25)} x 4e5 samples: nu in "
                   "[1,4] x 3.289e15 Hz, non-decreasing, u inside the reference "
                   "CDF over +-0.5 bin (+- 5 sigma of the sampling noise)." + udom});
  return vr::vmain(argc, argv, "C18", props);
}
