// C20 - libFuzzer target: arbitrary bytes -> YAMLDictionary.  If the parser
// accepts the text (no cmac_error), print -> parse -> print must reproduce the
// same dictionary and the same text (c20::yaml_roundtrip without an expected
// map).  ASan/UBSan are on.  A violated oracle prints VERIF-ORACLE-FAIL and
// traps.
//
// One malformed-indentation shape makes the parser itself execute undefined
// behaviour (see c20::predicts_parser_ub); it is outside the property (which
// quantifies over well-formed trees) and is skipped and counted.
#include "c20_oracle.hpp"

#include <cinttypes>
#include <map>
#include <unordered_set>

namespace {

uint64_t g_execs = 0, g_nontrivial = 0;
std::unordered_set<uint64_t> g_distinct;
std::map<std::string, uint64_t> g_labels;
std::vector<std::string> g_samples;

uint64_t fnv(const std::string &s) {
  uint64_t h = 1469598103934665603ull;
  for (unsigned char c : s) {
    h ^= c;
    h *= 1099511628211ull;
  }
  return h;
}

std::string jesc(const std::string &s) {
  std::string o = "\"";
  for (unsigned char ch : s) {
    if (ch == '"' || ch == '\\') {
      o += '\\';
      o += (char)ch;
    } else if (ch == '\n')
      o += "\\n";
    else if (ch < 0x20 || ch >= 0x7f)
      o += '?';
    else
      o += (char)ch;
  }
  return o + "\"";
}

void write_stats() {
  const char *fn = getenv("VERIF_FUZZ_STATS");
  if (!fn)
    return;
  FILE *f = fopen(fn, "w");
  if (!f)
    return;
  fprintf(f, "{\"executions\":%" PRIu64 ",\"nontrivial\":%" PRIu64
             ",\"distinct_hashes\":[",
          g_execs, g_nontrivial);
  bool first = true;
  size_t n = 0;
  for (uint64_t h : g_distinct) {
    if (n++ >= 200000)
      break;
    fprintf(f, "%s\"%" PRIx64 "\"", first ? "" : ",", h);
    first = false;
  }
  fprintf(f, "],\"samples\":[");
  for (size_t k = 0; k < g_samples.size(); ++k)
    fprintf(f, "%s%s", k ? "," : "", jesc(g_samples[k]).c_str());
  fprintf(f, "],\"labels\":{");
  first = true;
  for (auto &l : g_labels) {
    fprintf(f, "%s%s:%" PRIu64, first ? "" : ",", jesc(l.first).c_str(),
            l.second);
    first = false;
  }
  fprintf(f, "}}\n");
  fclose(f);
}

struct AtExit {
  AtExit() { atexit(write_stats); }
} g_atexit;

} // namespace

extern "C" int LLVMFuzzerTestOneInput(const uint8_t *data, size_t size) {
  ++g_execs;
  std::string text((const char *)data, size);
  // a NUL byte would end nothing in std::string, but keep the text a text
  for (char &ch : text)
    if (ch == '\0')
      ch = ' ';
  if (c20::predicts_parser_ub(text)) {
    ++g_labels["skipped-malformed-dedent-ub"];
    return 0;
  }
  c20::YamlInfo info;
  const std::string msg = c20::yaml_roundtrip(text, nullptr, info);
  if (!info.parsed) {
    ++g_labels["rejected-by-parser"];
    return 0;
  }
  ++g_labels["parsed"];
  if (info.nkeys == 0)
    ++g_labels["parsed-empty"];
  if (info.shape.stale_pop)
    ++g_labels["printer-pop-shape"];
  if (info.headers > info.min_headers)
    ++g_labels["redundant-headers-printed"];
  if (info.shape.maxjump >= 2) {
    ++g_nontrivial;
    if (g_distinct.size() < 200000)
      g_distinct.insert(fnv(text));
    if (g_samples.size() < 4)
      g_samples.push_back(text);
  }
  if (!msg.empty()) {
    fprintf(stderr, "VERIF-ORACLE-FAIL C20/fuzz_c20_yaml: %s | input: %s\n",
            msg.c_str(), c20::show(text).c_str());
    write_stats();
    __builtin_trap();
  }
  return 0;
}
