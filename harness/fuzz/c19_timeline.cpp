// C19 - libFuzzer target (thorough tier).  The bytes are decoded into the same
// case structure the rapidcheck harness generates (time line set-up, history
// of requested steps, finishing request, save point) and judged by the same
// oracle (harness/common/c19_timeline_oracle.hpp).  A violated oracle prints
// VERIF-ORACLE-FAIL with the decoded case and traps.
#include "c19_timeline_oracle.hpp"

#include <cinttypes>
#include <fuzzer/FuzzedDataProvider.h>
#include <map>
#include <unordered_set>

namespace {

tl19::Scratch *g_scratch = nullptr;
uint64_t g_execs = 0, g_nontrivial = 0;
std::unordered_set<uint64_t> g_distinct;
std::map<std::string, uint64_t> g_labels;
std::vector<std::string> g_samples;

std::string case_text(const tl19::Case &c) {
  std::string s = tl19::sfmt("start %a end %a min %a max %a fin %a save_at %ld "
                             "every_step %d reqs %zu:",
                             c.start, c.end, c.minstep, c.maxstep, c.fin,
                             c.save_at, (int)c.every_step, c.reqs.size());
  for (double q : c.reqs)
    s += tl19::sfmt(" %a", q);
  return s;
}

uint64_t case_hash(const tl19::Case &c) {
  uint64_t h = 1469598103934665603ull;
  auto mix = [&](const void *p, size_t n) {
    const unsigned char *b = (const unsigned char *)p;
    for (size_t k = 0; k < n; ++k) {
      h ^= b[k];
      h *= 1099511628211ull;
    }
  };
  mix(&c.start, 8);
  mix(&c.end, 8);
  mix(&c.minstep, 8);
  mix(&c.maxstep, 8);
  mix(&c.fin, 8);
  mix(&c.save_at, sizeof c.save_at);
  if (!c.reqs.empty())
    mix(c.reqs.data(), 8 * c.reqs.size());
  return h;
}

std::string jesc(const std::string &s) {
  std::string o = "\"";
  for (unsigned char ch : s) {
    if (ch == '"' || ch == '\\') {
      o += '\\';
      o += (char)ch;
    } else if (ch < 0x20 || ch >= 0x7f)
      o += '?';
    else
      o += (char)ch;
  }
  return o + "\"";
}

void write_stats() {
  const char *fn = getenv("VERIF_FUZZ_STATS");
  if (fn) {
    FILE *f = fopen(fn, "w");
    if (f) {
      fprintf(f, "{\"executions\":%" PRIu64 ",\"nontrivial\":%" PRIu64
                 ",\"distinct_hashes\":[",
              g_execs, g_nontrivial);
      bool first = true;
      for (uint64_t h : g_distinct) {
        fprintf(f, "%s\"%" PRIx64 "\"", first ? "" : ",", h);
        first = false;
      }
      fprintf(f, "],\"samples\":[");
      for (size_t k = 0; k < g_samples.size(); ++k)
        fprintf(f, "%s%s", k ? "," : "", jesc(g_samples[k]).c_str());
      fprintf(f, "],\"labels\":{");
      first = true;
      for (auto &l : g_labels) {
        fprintf(f, "%s%s:%" PRIu64, first ? "" : ",", jesc(l.first).c_str(),
                l.second);
        first = false;
      }
      fprintf(f, "}}\n");
      fclose(f);
    }
  }
  delete g_scratch;
  g_scratch = nullptr;
}

double frac(FuzzedDataProvider &p) { // [0,1) with 53 bits
  return (double)(p.ConsumeIntegral<uint64_t>() >> 11) * 0x1p-53;
}
double around(FuzzedDataProvider &p, double x) {
  switch (p.ConsumeIntegral<uint8_t>() % 4) {
  case 0:
    return std::nextafter(x, 0.);
  case 1:
    return std::nextafter(x, HUGE_VAL);
  default:
    return x;
  }
}

tl19::Case decode(FuzzedDataProvider &p) {
  tl19::Case c;
  double T0;
  switch (p.ConsumeIntegral<uint8_t>() % 4) {
  case 0:
    T0 = std::ldexp(1. + frac(p), p.ConsumeIntegralInRange<int>(-10, 60));
    break;
  case 1: {
    static const double round[] = {1.,   2.,     1024., 0.5,  1e10, 3.15576e13,
                                   1e15, 1e-3,   3.0e16, 0.1, 100., 7.};
    T0 = round[p.ConsumeIntegral<uint8_t>() % 12];
    break;
  }
  case 2:
    T0 = std::ldexp(1. + frac(p), p.ConsumeIntegralInRange<int>(-99, 99));
    break;
  default:
    T0 = std::ldexp(1., p.ConsumeIntegralInRange<int>(-30, 60));
  }
  c.start = 0.;
  c.end = T0;
  if (p.ConsumeIntegral<uint8_t>() % 4 == 0) {
    const double off = T0 *
                       std::ldexp(1. + frac(p), p.ConsumeIntegralInRange<int>(-10, 20)) *
                       (p.ConsumeBool() ? 1. : -1.);
    if (p.ConsumeBool()) { // start and end independent: end - start rounds
      const double s2 = p.ConsumeBool() ? -off : T0 * 0.999 * frac(p);
      if (s2 < T0 && T0 - s2 > 0. && s2 != 0.)
        c.start = s2;
    } else if ((off + T0) - off > 0.) {
      c.start = off;
      c.end = off + T0;
    }
  }
  const double T = c.end - c.start;
  const double floorT = T / 256.;
  switch (p.ConsumeIntegral<uint8_t>() % 4) {
  case 0:
    c.maxstep = 0.;
    break;
  case 1:
    c.maxstep = around(p, std::ldexp(T, -p.ConsumeIntegralInRange<int>(0, 8)));
    break;
  case 2:
    c.maxstep = T * std::ldexp(1. + frac(p), -p.ConsumeIntegralInRange<int>(0, 8));
    break;
  default:
    c.maxstep = 0.1 * T;
  }
  if (c.maxstep > 0. && c.maxstep < floorT)
    c.maxstep = floorT;
  switch (p.ConsumeIntegral<uint8_t>() % 6) {
  case 0:
    c.minstep = 0.;
    break;
  case 1:
    c.minstep = around(p, std::ldexp(T, -p.ConsumeIntegralInRange<int>(0, 64)));
    break;
  case 2:
    c.minstep = T * std::ldexp(1. + frac(p), -p.ConsumeIntegralInRange<int>(1, 50));
    break;
  case 3:
    c.minstep = 1e-10 * T;
    break;
  case 4:
    c.minstep = c.maxstep > 0. ? c.maxstep : T;
    break;
  default:
    c.minstep = 0.;
  }
  if (c.maxstep > 0. && c.minstep > c.maxstep)
    c.minstep = c.maxstep * std::ldexp(1., -p.ConsumeIntegralInRange<int>(0, 30));
  const int kmin =
      c.minstep > 0. ? tl19::clampi(tl19::exp_le(T, c.minstep), 0, 63) : 0;
  const double min_int = std::ldexp(T, kmin - 63);

  const int n = p.ConsumeIntegral<uint8_t>() % 49;
  double prev = T / 8.;
  for (int k = 0; k < n && p.remaining_bytes() > 0; ++k) {
    double q;
    switch (p.ConsumeIntegral<uint8_t>() % 10) {
    case 0:
      q = around(p, std::ldexp(T, -(p.ConsumeIntegral<uint8_t>() % 67)));
      break;
    case 1:
      q = T * std::ldexp(1. + frac(p), -(p.ConsumeIntegral<uint8_t>() % 67));
      break;
    case 2:
      switch (p.ConsumeIntegral<uint8_t>() % 8) {
      case 0:
        q = 0.;
        break;
      case 1:
        q = DBL_MAX;
        break;
      case 2:
        q = HUGE_VAL;
        break;
      case 3:
        q = std::nextafter(min_int, 0.);
        break;
      case 4:
        q = min_int;
        break;
      case 5:
        q = c.minstep > 0. ? c.minstep * frac(p) : min_int * 0.5;
        break;
      case 6:
        q = 4.9406564584124654e-324;
        break;
      default:
        q = around(p, std::ldexp(T, -63));
      }
      break;
    case 3:
      q = prev * 0.5;
      break;
    case 4:
      q = prev * 2.;
      break;
    case 5:
    case 6:
      q = prev;
      break;
    case 7:
      q = prev * (0.05 + 1.9 * frac(p));
      break;
    case 8:
      q = prev * 1e-12;
      break;
    default:
      q = T * 3. * frac(p);
    }
    if (!(q >= 0.)) // negative / NaN are outside the domain
      q = 0.;
    c.reqs.push_back(q);
    if (q > 0. && std::isfinite(q))
      prev = q;
  }
  const double lowest = std::max(c.minstep, floorT);
  switch (p.ConsumeIntegral<uint8_t>() % 3) {
  case 0:
    c.fin = DBL_MAX;
    break;
  case 1:
    c.fin = std::ldexp(T, -p.ConsumeIntegralInRange<int>(0, 8));
    if (c.fin < lowest)
      c.fin = DBL_MAX;
    break;
  default:
    c.fin = std::max(lowest, T * 2. * frac(p));
  }
  const uint8_t sv = p.ConsumeIntegral<uint8_t>();
  c.save_at = (sv & 1) ? (long)((sv >> 1) % (c.reqs.size() + 1)) : -1;
  c.every_step = (p.ConsumeIntegral<uint8_t>() % 8) == 1;
  return c;
}

} // namespace

extern "C" int LLVMFuzzerTestOneInput(const uint8_t *data, size_t size) {
  if (!g_scratch) {
    g_scratch = new tl19::Scratch();
    atexit(write_stats);
  }
  FuzzedDataProvider p(data, size);
  const tl19::Case c = decode(p);
  tl19::Outcome o;
  try {
    o = tl19::run_case(c, *g_scratch);
  } catch (const VerifAbort &e) {
    o.fail("unexpected abort at " + e.file + ":" + std::to_string(e.line) +
           ": " + e.msg);
  }
  ++g_execs;
  for (auto &l : o.labels)
    ++g_labels[l];
  if (o.nontrivial) {
    ++g_nontrivial;
    if (g_distinct.size() < 200000 && g_distinct.insert(case_hash(c)).second &&
        g_samples.size() < 4)
      g_samples.push_back(case_text(c));
  }
  if (!o.ok) {
    fprintf(stderr, "VERIF-ORACLE-FAIL C19 %s | case: %s\n", o.msg.c_str(),
            case_text(c).c_str());
    fflush(stderr);
    __builtin_trap();
  }
  return 0;
}
