// C20 - libFuzzer target for the unit algebra.  The bytes are decoded into
//  (mode 0) 1..5 factors from the unit table with exponents -6..6 and spacing
//           variants -> get_unit(text) == product of parts (c20::check_compound),
//           value -> to_SI -> to_unit round trip for the quantity that has this
//           dimension (if any), convert(a->a') with the same factors permuted
//  (mode 1) a raw string over the alphabet of unit texts -> get_unit either
//           rejects it (cmac_error / std::exception from std::stoi) or returns
//           a unit that does not depend on surrounding blanks and is the same
//           on a second call; ASan/UBSan watch the scanner
// A violated oracle prints VERIF-ORACLE-FAIL and traps.
#include "c20_oracle.hpp"

#include <cinttypes>
#include <fuzzer/FuzzedDataProvider.h>
#include <map>
#include <unordered_set>

namespace {

uint64_t g_execs = 0, g_nontrivial = 0;
std::unordered_set<uint64_t> g_distinct;
std::map<std::string, uint64_t> g_labels;
std::vector<std::string> g_samples;

uint64_t fnv(const std::string &s) {
  uint64_t h = 1469598103934665603ull;
  for (unsigned char c : s) {
    h ^= c;
    h *= 1099511628211ull;
  }
  return h;
}
std::string jesc(const std::string &s) {
  std::string o = "\"";
  for (unsigned char ch : s) {
    if (ch == '"' || ch == '\\') {
      o += '\\';
      o += (char)ch;
    } else if (ch < 0x20 || ch >= 0x7f)
      o += '?';
    else
      o += (char)ch;
  }
  return o + "\"";
}
void write_stats() {
  const char *fn = getenv("VERIF_FUZZ_STATS");
  if (!fn)
    return;
  FILE *f = fopen(fn, "w");
  if (!f)
    return;
  fprintf(f, "{\"executions\":%" PRIu64 ",\"nontrivial\":%" PRIu64
             ",\"distinct_hashes\":[",
          g_execs, g_nontrivial);
  bool first = true;
  size_t n = 0;
  for (uint64_t h : g_distinct) {
    if (n++ >= 200000)
      break;
    fprintf(f, "%s\"%" PRIx64 "\"", first ? "" : ",", h);
    first = false;
  }
  fprintf(f, "],\"samples\":[");
  for (size_t k = 0; k < g_samples.size(); ++k)
    fprintf(f, "%s%s", k ? "," : "", jesc(g_samples[k]).c_str());
  fprintf(f, "],\"labels\":{");
  first = true;
  for (auto &l : g_labels) {
    fprintf(f, "%s%s:%" PRIu64, first ? "" : ",", jesc(l.first).c_str(),
            l.second);
    first = false;
  }
  fprintf(f, "}}\n");
  fclose(f);
}
struct AtExit {
  AtExit() {
    atexit(write_stats);
  }
} g_atexit;

[[noreturn]] void oracle_fail(const std::string &msg) {
  fprintf(stderr, "VERIF-ORACLE-FAIL C20/fuzz_c20_units: %s\n", msg.c_str());
  write_stats();
  __builtin_trap();
}

bool same_unit(const Unit &a, const Unit &b) {
  const double va = c20::unit_value(a), vb = c20::unit_value(b);
  return a.is_same_quantity(b) && memcmp(&va, &vb, 8) == 0;
}

void raw_mode(FuzzedDataProvider &p) {
  static const char alphabet[] = "mcpkasGyMrhgKJHzeVPbdntolirg  ^^-+0123456789";
  std::string s;
  const size_t n = p.ConsumeIntegralInRange<size_t>(0, 24);
  for (size_t i = 0; i < n && p.remaining_bytes() > 0; ++i)
    s += alphabet[p.ConsumeIntegral<uint8_t>() % (sizeof(alphabet) - 1)];
  // exponents of more than one digit only cost time (the power is a loop)
  int run = 0;
  for (char ch : s) {
    run = isdigit((unsigned char)ch) ? run + 1 : 0;
    if (run > 1) {
      ++g_labels["raw-skipped-long-exponent"];
      return;
    }
  }
  auto parse = [](const std::string &t, Unit &u) {
    try {
      u = UnitConverter::get_unit(t);
      return true;
    } catch (const VerifAbort &) {
      return false;
    } catch (const std::exception &) {
      return false; // std::stoi on "m^" or "m^-"
    }
  };
  Unit a(0., 0, 0, 0, 0, 0, 0), b(0., 0, 0, 0, 0, 0, 0), c(0., 0, 0, 0, 0, 0, 0);
  const bool oka = parse(s, a);
  const bool okb = parse(s, b);
  if (oka != okb || (oka && !same_unit(a, b)))
    oracle_fail("get_unit(\"" + s + "\") gives two different answers");
  ++g_labels[oka ? "raw-accepted" : "raw-rejected"];
  if (oka) {
    const bool okc = parse("  " + s + " ", c);
    if (!okc || !same_unit(a, c))
      oracle_fail("get_unit(\"" + s + "\") changes when blanks are added "
                  "around it");
  }
}

void factor_mode(FuzzedDataProvider &p) {
  const int n = p.ConsumeIntegralInRange<int>(1, 5);
  std::vector<c20::Factor> fs;
  std::vector<int> style;
  int nneg = 0;
  for (int i = 0; i < n; ++i) {
    const int k = p.ConsumeIntegral<uint8_t>() % c20::n_unit_defs;
    int e = p.ConsumeIntegralInRange<int>(-6, 6);
    if (e == 0)
      ++g_labels["exponent-0"];
    fs.push_back({c20::unit_defs[k].name, e});
    style.push_back(p.ConsumeIntegral<uint8_t>() & 31);
    nneg += e < 0;
  }
  const std::string text = c20::render_unit(fs, style);
  const c20::UnitRef ref = c20::unit_reference(fs);
  if (!ref.in_range) {
    ++g_labels["outside-double-range"];
    return;
  }
  ++g_labels[c20::sfmt("factors-%d", n)];
  if (fs.size() >= 2 && nneg >= 1) {
    ++g_nontrivial;
    if (g_distinct.size() < 200000)
      g_distinct.insert(fnv(text));
    if (g_samples.size() < 4)
      g_samples.push_back(text);
  }
  if (nneg >= 2)
    ++g_labels["two-negative-exponents"];
  std::string msg;
  try {
    msg = c20::check_compound(text, fs, ref);
  } catch (const VerifAbort &e) {
    msg = "get_unit(\"" + text + "\") aborts: " + e.msg;
  }
  if (!msg.empty())
    oracle_fail(msg);
  // reversed order of the factors: same unit up to rounding
  std::vector<c20::Factor> rev(fs.rbegin(), fs.rend());
  const c20::UnitRef rref = c20::unit_reference(rev);
  if (rref.in_range) {
    const std::string rtext = c20::render_unit(rev, {});
    const double v = 1. + p.ConsumeIntegral<uint16_t>() / 65536.;
    const double conv = UnitConverter::convert(v, text, rtext);
    if (!c20::close_rel(conv, v, 8. * (ref.ops + 2)))
      oracle_fail(c20::sfmt("convert(%.17g, \"%s\", \"%s\") = %.17g (same "
                            "factors in reverse order)",
                            v, text.c_str(), rtext.c_str(), conv));
  }
  // typed round trip if a quantity has this dimension
  for (int q = 0; q < NUMBER_OF_QUANTITIES; ++q) {
    const c20::QDim d = c20::quantity_dim(q);
    if (d.L == ref.L && d.T == ref.T && d.M == ref.M && d.K == ref.K &&
        d.A == ref.A) {
      ++g_labels["typed-roundtrip"];
      const double v = 0.5 + p.ConsumeIntegral<uint16_t>() / 1024.;
      const double si = c20::to_SI_q(q, v, text);
      if (!c20::close_rel(si, (long double)v * ref.value, 4. * (ref.ops + 3)))
        oracle_fail(c20::sfmt("to_SI<%d>(%.17g, \"%s\") = %.17g, product of "
                              "parts %.17Lg",
                              q, v, text.c_str(), si, v * ref.value));
      const double back = c20::to_unit_q(q, si, text);
      if (!c20::close_rel(back, v, 8.))
        oracle_fail(c20::sfmt("to_unit<%d>(to_SI(%.17g, \"%s\")) = %.17g", q, v,
                              text.c_str(), back));
      break;
    }
  }
}

} // namespace

extern "C" int LLVMFuzzerTestOneInput(const uint8_t *data, size_t size) {
  ++g_execs;
  FuzzedDataProvider p(data, size);
  if (p.ConsumeIntegral<uint8_t>() % 4 == 3)
    raw_mode(p);
  else
    factor_mode(p);
  return 0;
}
