// C01, layer L2 - every photon packet that is launched in a task-based
// photoionization iteration terminates exactly once, and an iteration leaves
// nothing behind.
//
// A generated case = (grid layout, periodicity, density field, point sources,
// copy level, diffuse field, number of packets, iterations, logical threads,
// pool sizes above the need, SCHEDULE).  The oracle builds the REAL objects
// (DensitySubGridCreator<DensitySubGrid>, MemorySpace, ThreadSafeVector<Task>,
// TaskQueues, DistributedPhotonSource, SourceDiscretePhotonTaskContext,
// PhotonTraversalTaskContext, PhotonReemitTaskContext,
// PrematureLaunchTaskContext, Scheduler, FixedValueCrossSections,
// MonochromaticPhotonSourceSpectrum, FixedValueDiffuseReemissionHandler,
// RandomGenerator) and runs a REPLICA of the worker loop of
// TaskBasedIonizationSimulation::run (src/TaskBasedIonizationSimulation.cpp,
// "photon source tasks" ... end of the parallel region) on N fibers under a
// deterministic scheduler that switches fibers only at the yield hook compiled
// into every AtomicValue operation (guard CMI_VERIF).  The interleaving is a
// pure function of the case, so it shrinks and replays.
//
// KNOWN THREAT: the loop text below (struct Sim: create_source_tasks, worker,
// between_iterations, copy_levels) is a COPY of the simulation's text; it is
// kept line by line in the original's order so that it can be diffed.  A
// change to the loop in TaskBasedIonizationSimulation.cpp itself is only seen
// by layer L1 (py/c01_accounting.py, real executable).  Everything the loop
// calls is the real code.
//
// Oracle (invariants; the event counters of VerifHooks.hpp count one event per
// packet and are independent from the program's arithmetic on buffer sizes):
//  (i)   end of every iteration: launched == requested == handed to source
//        tasks; absorbed + escaped + not re-emitted == requested;
//        num_photon_done == requested; no re-emission events without diffuse
//        field; no active buffer; every queue empty; number of active tasks
//        back to its value before the iteration; no subgrid (copies included)
//        has an output buffer slot left.
//  (ii)  at quiescent points (every K-th pass through the top of the loop all
//        fibers are parked between two tasks): packets in pooled buffers +
//        packets not yet launched + terminated == requested; the program's
//        num_photon_done == terminated events; every active buffer is
//        referenced by exactly one of {queued task, task held by a parked
//        fiber, subgrid output slot}; every active task is queued or held.
//  (iii) bounded termination (the run is deterministic, so a budget hit is a
//        failure, reported with the state of the accounting): at most 50 x a
//        generous estimate of the number of tasks the packets can need; no
//        more than 5e7 atomic operations without any task being started; no
//        packet enters a subgrid three times in exactly the same state (its
//        traversal is a deterministic function of that state, so it would be
//        handed round for ever).  The schedule is FAIR: run lengths between
//        scheduling points are geometrically distributed (seeded by the case);
//        strictly periodic schedules can starve a spin lock for ever, which is
//        a property of spin locks, not a defect.
//  (iv)  iteration k+1 starts clean (same checks before it starts).
#include "Abundances.hpp"
#include "AtomicValue.hpp"
#include "Box.hpp"
#include "CoordinateVector.hpp"
#include "DensityFunction.hpp"
#include "DensitySubGrid.hpp"
#include "DensitySubGridCreator.hpp"
#include "DensityValues.hpp"
#include "DistributedPhotonSource.hpp"
#include "FixedValueCrossSections.hpp"
#include "FixedValueDiffuseReemissionHandler.hpp"
#include "MemorySpace.hpp"
#include "MonochromaticPhotonSourceSpectrum.hpp"
#include "PhotonBuffer.hpp"
#include "PhotonPacketStatistics.hpp"
#include "PhotonReemitTaskContext.hpp"
#include "PhotonSourceDistribution.hpp"
#include "PhotonTraversalTaskContext.hpp"
#include "PrematureLaunchTaskContext.hpp"
#include "RandomGenerator.hpp"
#include "Scheduler.hpp"
#include "FlushContinuousPhotonBuffersTaskContext.hpp"
#include "IsotropicContinuousPhotonSource.hpp"
#include "SourceContinuousPhotonTaskContext.hpp"
#include "SourceDiscretePhotonTaskContext.hpp"
#include "Task.hpp"
#include "TaskContext.hpp"
#include "TaskQueue.hpp"
#include "ThreadSafeVector.hpp"
#include "TravelDirections.hpp"
#include "VerifHooks.hpp"

#include "c08_fiber.hpp"
#include "verif_rc.hpp"

#include <cfloat>
#include <execinfo.h>
#include <fcntl.h>
#include <map>
#include <memory>
#include <unordered_map>
#include <omp.h>
#include <signal.h>
#include <unistd.h>

using vr::VCase;
using vr::VProp;
using vr::VResult;
using vr::fmt;

namespace {

// ================================================================ crash net
// A broken hand-over can corrupt memory before an invariant is evaluated.  A
// fatal signal inside an oracle is turned into a reported failure of the
// current (unshrunk) case.
bool g_replay = false;
bool g_in_case = false;
char g_text[1 << 16];
size_t g_text_len = 0;
unsigned long long g_hash = 0;
char g_prop[96] = "photon_loop";

void render_case(const VCase &c) {
  const std::string t = c.to_text();
  g_text_len = std::min(t.size(), sizeof g_text - 1);
  memcpy(g_text, t.data(), g_text_len);
  g_hash = c.hash();
  snprintf(g_prop, sizeof g_prop, "%s", c.prop.c_str());
}
size_t put_s(char *b, size_t pos, size_t cap, const char *t) {
  while (*t && pos + 1 < cap)
    b[pos++] = *t++;
  return pos;
}
size_t put_hex16(char *b, size_t pos, size_t cap, unsigned long long v) {
  for (int k = 15; k >= 0 && pos + 1 < cap; --k)
    b[pos++] = "0123456789abcdef"[(v >> (4 * k)) & 15];
  return pos;
}
void crash_handler(int sig) {
  static char buf[4096];
  static char path[1024];
  static volatile sig_atomic_t busy = 0;
  if (busy)
    _exit(71);
  busy = 1;
  const char *what = sig == SIGSEGV   ? "SIGSEGV"
                     : sig == SIGBUS  ? "SIGBUS"
                     : sig == SIGABRT ? "SIGABRT"
                     : sig == SIGFPE  ? "SIGFPE"
                                      : "signal";
  if (g_replay || !g_in_case) {
    size_t n = put_s(buf, 0, sizeof buf,
                     g_in_case ? "REPLAY-FAIL crash: fatal "
                               : "CRASH outside an oracle: fatal ");
    n = put_s(buf, n, sizeof buf, what);
    n = put_s(buf, n, sizeof buf, " inside the photon propagation code\n");
    (void)!write(1, buf, n);
    _exit(g_in_case ? 1 : 70);
  }
  const char *fd = getenv("VERIF_FAILDIR");
  size_t m = put_s(path, 0, sizeof path, fd ? fd : ".");
  m = put_s(path, m, sizeof path, "/C01-");
  m = put_s(path, m, sizeof path, g_prop);
  m = put_s(path, m, sizeof path, "-crash-");
  m = put_hex16(path, m, sizeof path, g_hash);
  m = put_s(path, m, sizeof path, ".case");
  path[m] = 0;
  int f = open(path, O_WRONLY | O_CREAT | O_TRUNC, 0644);
  if (f >= 0) {
    (void)!write(f, g_text, g_text_len);
    size_t n = put_s(buf, 0, sizeof buf, "# fatal ");
    n = put_s(buf, n, sizeof buf, what);
    n = put_s(buf, n, sizeof buf,
              " inside the photon propagation code (case not shrunk)\n");
    (void)!write(f, buf, n);
    close(f);
  }
  size_t n = put_s(buf, 0, sizeof buf, "FAILCASE ");
  n = put_s(buf, n, sizeof buf, g_prop);
  n = put_s(buf, n, sizeof buf, " ");
  n = put_s(buf, n, sizeof buf, path);
  n = put_s(buf, n, sizeof buf, "\n");
  (void)!write(1, buf, n);
  if (const char *out = getenv("VERIF_OUT")) {
    n = put_s(buf, 0, sizeof buf,
              "{\"property_id\":\"C01\",\"props\":{\"");
    n = put_s(buf, n, sizeof buf, g_prop);
    n = put_s(buf, n, sizeof buf,
              "\":{"
              "\"evaluations\":1,\"nontrivial\":0,\"distinct_nontrivial\":0,"
              "\"known_excluded\":0,\"wall_s\":0,\"failed\":true,"
              "\"fail_msg\":\"fatal ");
    n = put_s(buf, n, sizeof buf, what);
    n = put_s(buf, n, sizeof buf,
              " inside the photon propagation code under a generated schedule "
              "(case not shrunk; the counters of this shard are lost)\","
              "\"fail_file\":\"");
    n = put_s(buf, n, sizeof buf, path);
    n = put_s(buf, n, sizeof buf,
              "\",\"rule\":\"\",\"labels\":{},\"starved\":[],\"samples\":[],"
              "\"distinct_hashes\":[]}}}\n");
    f = open(out, O_WRONLY | O_CREAT | O_TRUNC, 0644);
    if (f >= 0) {
      (void)!write(f, buf, n);
      close(f);
    }
  }
  _exit(1);
}
void install_crash_net() {
  static char altstack[1 << 16];
  stack_t ss;
  ss.ss_sp = altstack;
  ss.ss_size = sizeof altstack;
  ss.ss_flags = 0;
  sigaltstack(&ss, nullptr);
  struct sigaction sa;
  memset(&sa, 0, sizeof sa);
  sa.sa_handler = crash_handler;
  sa.sa_flags = SA_ONSTACK | SA_NODEFER;
  sigemptyset(&sa.sa_mask);
  sigaction(SIGSEGV, &sa, nullptr);
  sigaction(SIGBUS, &sa, nullptr);
  sigaction(SIGABRT, &sa, nullptr);
  sigaction(SIGFPE, &sa, nullptr);
}
struct CaseScope {
  CaseScope(const VCase &c) {
    render_case(c);
    g_in_case = true;
  }
  ~CaseScope() { g_in_case = false; }
};

// ============================================================== case inputs
const double SIGMA_H = 6.3e-22;       // m^2 (6.3e-18 cm^2)
const double NU_SOURCE = 3.28847e15;  // Hz
const double NU_REEMIT = 3.4e15;      // Hz

// sign of a travel direction along each axis (+1: P side, -1: N side), in the
// order of the TravelDirection enumeration.  Used for LABELS only.
const int DIRSIGN[TRAVELDIRECTION_NUMBER][3] = {
    {0, 0, 0},                                                  // INSIDE
    {1, 1, 1},   {1, 1, -1},  {1, -1, 1},  {1, -1, -1},         // CORNER_Pxx
    {-1, 1, 1},  {-1, 1, -1}, {-1, -1, 1}, {-1, -1, -1},        // CORNER_Nxx
    {0, 1, 1},   {0, 1, -1},  {0, -1, 1},  {0, -1, -1},         // EDGE_X
    {1, 0, 1},   {1, 0, -1},  {-1, 0, 1},  {-1, 0, -1},         // EDGE_Y
    {1, 1, 0},   {1, -1, 0},  {-1, 1, 0},  {-1, -1, 0},         // EDGE_Z
    {1, 0, 0},   {-1, 0, 0},  {0, 1, 0},   {0, -1, 0},          // FACE_X, Y
    {0, 0, 1},   {0, 0, -1}};                                   // FACE_Z
inline bool is_corner(int d) { return d >= 1 && d <= 8; }
inline bool is_edge(int d) { return d >= 9 && d <= 20; }

uint64_t mix64(uint64_t x) {
  x += 0x9e3779b97f4a7c15ull;
  x = (x ^ (x >> 30)) * 0xbf58476d1ce4e5b9ull;
  x = (x ^ (x >> 27)) * 0x94d049bb133111ebull;
  return x ^ (x >> 31);
}

struct Geo {
  int nc[3], ns[3], per[3];
  double anchor[3], side[3];
};

// density field: number density per GLOBAL cell, from the case
class TableDensity : public DensityFunction {
  const Geo &_g;
  const std::vector< double > &_n;

public:
  TableDensity(const Geo &g, const std::vector< double > &n) : _g(g), _n(n) {}
  virtual DensityValues operator()(const Cell &cell) {
    const CoordinateVector<> m = cell.get_cell_midpoint();
    int idx[3];
    for (int a = 0; a < 3; ++a) {
      idx[a] = (int)std::floor((m[a] - _g.anchor[a]) / _g.side[a] * _g.nc[a]);
      idx[a] = std::max(0, std::min(_g.nc[a] - 1, idx[a]));
    }
    DensityValues v;
    v.set_number_density(_n[(idx[0] * _g.nc[1] + idx[1]) * _g.nc[2] + idx[2]]);
    v.set_ionic_fraction(ION_H_n, 1.);
    v.set_temperature(8000.);
    return v;
  }
};

// point sources: positions and weights, from the case
class TableSources : public PhotonSourceDistribution {
  std::vector< CoordinateVector<> > _pos;
  std::vector< double > _w;

public:
  TableSources(const std::vector< double > &pos, const std::vector< double > &w) {
    double tot = 0.;
    for (double x : w)
      tot += x;
    for (size_t i = 0; i < w.size(); ++i) {
      _pos.push_back(
          CoordinateVector<>(pos[3 * i], pos[3 * i + 1], pos[3 * i + 2]));
      _w.push_back(w[i] / tot);
    }
  }
  virtual photonsourcenumber_t get_number_of_sources() const {
    return _pos.size();
  }
  virtual CoordinateVector<> get_position(photonsourcenumber_t index) {
    return _pos[index];
  }
  virtual double get_weight(photonsourcenumber_t index) const {
    return _w[index];
  }
  virtual double get_total_luminosity() const { return 1.e48; }
};

// =================================================================== the run
struct Stop {}; // a fiber stops: a violation was recorded

struct Sim {
  // ---- inputs
  Geo g;
  int nth = 2, niter = 1, copy_level = 0, diffuse = 0, qk = 0;
  size_t _number_of_photons = 0; // discrete + injected (termination test)
  size_t n_discrete = 0, n_injected = 0;
  // continuous (external) source: 0 none, 1 continuous only, 2 discrete +
  // continuous; names as in TaskBasedIonizationSimulation::run
  int cont_mode = 0;
  double lum_ratio = 1.;
  std::unique_ptr< IsotropicContinuousPhotonSource > _continuous_photon_source;
  std::unique_ptr< MonochromaticPhotonSourceSpectrum >
      _continuous_photon_source_spectrum;
  std::vector< ThreadLock > continuous_source_lock;
  std::vector< std::vector< PhotonBuffer > > continuous_buffers;
  uint_fast32_t number_of_discrete_photons = 0;
  uint_fast32_t number_of_continuous_photons = 0;
  uint_fast32_t fixed_number_of_continuous_photons = 0;
  double discrete_photon_weight = 1., continuous_photon_weight = 1.;
  uint64_t flush_executed = 0, n_cont_tasks = 0, n_flush_total = 0;
  std::vector< int64_t > inj_cell, inj_frac, inj_dir;
  std::vector< double > inj_tau;
  std::vector< int > stride;
  uint64_t sched_seed = 0;
  double tau_min = 1.;
  // ---- the real objects (names as in TaskBasedIonizationSimulation)
  std::unique_ptr< DensitySubGridCreator< DensitySubGrid > > _grid_creator;
  std::unique_ptr< MemorySpace > _buffers;
  std::unique_ptr< ThreadSafeVector< Task > > _tasks;
  std::vector< TaskQueue * > _queues;
  std::unique_ptr< TaskQueue > _shared_queue;
  std::unique_ptr< TableSources > _photon_source_distribution;
  std::unique_ptr< DistributedPhotonSource< DensitySubGrid > > photon_source;
  std::unique_ptr< FixedValueCrossSections > _cross_sections;
  std::unique_ptr< MonochromaticPhotonSourceSpectrum > _photon_source_spectrum;
  std::unique_ptr< DiffuseReemissionHandler > _reemission_handler;
  std::vector< RandomGenerator > _random_generators;
  Abundances _abundances;
  size_t nbuf = 0, ntask = 0;
  // ---- per iteration (replica locals that the worker shares)
  bool global_run_flag = true;
  AtomicValue< uint_fast32_t > num_photon_done;
  TaskContext *task_contexts[TASKTYPE_NUMBER] = {nullptr};
  PrematureLaunchTaskContext< DensitySubGrid > *premature_launch = nullptr;
  Scheduler *scheduler = nullptr;
  size_t number_of_photons_done = 0; // handed to source tasks
  // ---- scheduler
  fbaton::Scheduler *fs = nullptr;
  uint64_t ops = 0, switches = 0, sched_state = 1;
  uint64_t last_task_ops = 0, stall_budget = 0, max_gap = 0;
  uint64_t task_budget = 0, tasks_iter = 0, max_tasks_frac_ppm = 0;
  double expected_tasks = 0.;
  bool stalled = false;
  std::unordered_map< uint64_t, std::pair< uint64_t, int > > seen_states;
  std::vector< uint64_t > opcount;
  bool in_check = false, budget_hit = false;
  // ---- quiescence barrier
  bool q_requested = false;
  int q_parked = 0, q_alive = 0;
  uint64_t q_counter = 0, q_checks = 0;
  std::vector< uint_fast32_t > held;
  // ---- verdict and statistics
  bool failed = false;
  std::string msg;
  int iteration = 0;
  std::vector< uint64_t > tasks_executed; // per thread
  uint64_t n_overflow = 0, n_premature = 0, n_premature_edgecorner = 0,
           n_premature_inside = 0, n_exact_full = 0, n_wrap = 0, n_reemit = 0,
           n_stolen = 0, n_premature_xpp = 0, n_p_edgecorner_traffic = 0;
  uint64_t max_ops_iter = 0;

  ~Sim() {
    for (auto *q : _queues)
      delete q;
    cleanup_iteration();
  }

  void note(const std::string &s) {
    if (!failed) {
      failed = true;
      msg = fmt("iteration %d: ", iteration) + s;
    }
  }

  // ------------------------------------------------------------ construction
  void build(const VCase &c) {
    for (int a = 0; a < 3; ++a) {
      g.nc[a] = (int)c.i("nc", a);
      g.ns[a] = (int)c.i("ns", a);
      g.per[a] = (int)c.i("per", a);
      g.anchor[a] = c.d("anchor", a);
      g.side[a] = c.d("side", a);
    }
    nth = (int)c.i("nth");
    niter = (int)c.i("niter");
    copy_level = (int)c.i("copy_level");
    diffuse = (int)c.i("diffuse");
    qk = (int)c.i("qk");
    sched_seed = (uint64_t)c.i("sched_seed");
    const size_t nphot = (size_t)c.i("nphot");
    cont_mode = c.has_i("cont_mode") ? (int)c.i("cont_mode") : 0;
    lum_ratio = c.has_d("lum_ratio") ? c.d("lum_ratio") : 1.;
    // REPLICA of the split of the packets over the source kinds
    {
      const size_t _number_of_photons = nphot;
      number_of_discrete_photons = 0;
      if (cont_mode != 1) {
        number_of_discrete_photons = _number_of_photons;
      }
      number_of_continuous_photons = 0;
      if (cont_mode != 0) {
        number_of_continuous_photons = _number_of_photons;
      }
      discrete_photon_weight = 1.;
      continuous_photon_weight = 1.;
      if (number_of_discrete_photons > 0 && number_of_continuous_photons > 0) {
        number_of_discrete_photons >>= 1;
        number_of_continuous_photons =
            _number_of_photons - number_of_discrete_photons;
        const double luminosity_ratio = lum_ratio;
        discrete_photon_weight = 2. / (luminosity_ratio + 1.);
        continuous_photon_weight =
            2. * luminosity_ratio / (luminosity_ratio + 1.);
      }
      fixed_number_of_continuous_photons = number_of_continuous_photons;
    }
    n_discrete = number_of_discrete_photons;
    if (c.has_i("inj_cell")) {
      inj_cell = c.iv("inj_cell");
      inj_frac = c.iv("inj_frac");
      inj_dir = c.iv("inj_dir");
      inj_tau = c.dv("inj_tau");
    }
    n_injected = inj_tau.size();
    _number_of_photons = nphot + n_injected;
    for (auto s : c.iv("stride"))
      stride.push_back((int)std::max<int64_t>(1, s));
    stride.resize(nth, 1);

    Box<> box(CoordinateVector<>(g.anchor[0], g.anchor[1], g.anchor[2]),
              CoordinateVector<>(g.side[0], g.side[1], g.side[2]));
    _grid_creator.reset(new DensitySubGridCreator< DensitySubGrid >(
        box, CoordinateVector< int_fast32_t >(g.nc[0], g.nc[1], g.nc[2]),
        CoordinateVector< int_fast32_t >(g.ns[0], g.ns[1], g.ns[2]),
        CoordinateVector< bool >(g.per[0] != 0, g.per[1] != 0, g.per[2] != 0)));
    {
      const double lmax = std::max(g.side[0], std::max(g.side[1], g.side[2]));
      tau_min = DBL_MAX;
      for (double n : c.dv("dens"))
        tau_min = std::min(tau_min, n * SIGMA_H * lmax);
    }
    {
      TableDensity df(g, c.dv("dens"));
      _grid_creator->initialize(df);
    }
    if (cont_mode != 1)
      _photon_source_distribution.reset(
          new TableSources(c.dv("spos"), c.dv("sweight")));
    if (cont_mode != 0) {
      _continuous_photon_source.reset(new IsotropicContinuousPhotonSource(box));
      _continuous_photon_source_spectrum.reset(
          new MonochromaticPhotonSourceSpectrum(NU_SOURCE));
    }
    _cross_sections.reset(new FixedValueCrossSections(
        SIGMA_H, 0., 0., 0., 0., 0., 0., 0., 0., 0., 0., 0., 0., 0.));
    _photon_source_spectrum.reset(
        new MonochromaticPhotonSourceSpectrum(NU_SOURCE));
    static const double prob[4] = {0., 0.05, 0.364, 0.9};
    if (diffuse > 0)
      _reemission_handler.reset(
          new FixedValueDiffuseReemissionHandler(prob[diffuse], NU_REEMIT));
    _random_generators.resize(nth);
    for (int t = 0; t < nth; ++t)
      _random_generators[t].set_seed((int_fast32_t)c.i("seed") + t);

    // pools comfortably above the need (the property's proviso): every pooled
    // buffer except two transient ones per thread holds at least one packet
    nbuf = _number_of_photons + 64 + 4 * (size_t)nth;
    ntask = nbuf + _number_of_photons / PHOTONBUFFER_SIZE + 64;
    _buffers.reset(new MemorySpace(nbuf));
    _tasks.reset(new ThreadSafeVector< Task >(ntask, "c01-tasks"));
    for (int t = 0; t < nth; ++t)
      _queues.push_back(new TaskQueue(ntask + 1, "c01-queue"));
    _shared_queue.reset(new TaskQueue(ntask + 1, "c01-shared"));

    copy_levels();

    if (_photon_source_distribution != nullptr) {
      photon_source.reset(new DistributedPhotonSource< DensitySubGrid >(
          number_of_discrete_photons, *_photon_source_distribution,
          *_grid_creator));
    }
    {
      const uint_fast32_t number_of_continuous_blocks = _queues.size();
      continuous_source_lock =
          std::vector< ThreadLock >(number_of_continuous_blocks);
      continuous_buffers.resize(number_of_continuous_blocks);
      if (_continuous_photon_source != nullptr) {
        for (uint_fast32_t i = 0; i < number_of_continuous_blocks; ++i) {
          continuous_buffers[i].resize(
              _grid_creator->number_of_original_subgrids());
        }
      }
    }

    // "subgrid initialisation" of the simulation: which thread grabs which
    // subgrid is schedule dependent there; here it is part of the case
    const int own_mode = (int)c.i("own_mode");
    const uint64_t oseed = (uint64_t)c.i("seed");
    for (size_t this_igrid = 0;
         this_igrid < _grid_creator->number_of_actual_subgrids(); ++this_igrid) {
      DensitySubGrid &subgrid = *_grid_creator->get_subgrid(this_igrid);
      const int owner = own_mode == 0   ? 0
                        : own_mode == 1 ? (int)(this_igrid % nth)
                                        : (int)(mix64(oseed ^ (this_igrid * 77u)) % nth);
      for (int ingb = 0; ingb < TRAVELDIRECTION_NUMBER; ++ingb) {
        subgrid.set_active_buffer(ingb, NEIGHBOUR_OUTSIDE);
        subgrid.set_owning_thread(owner);
      }
    }
    opcount.assign(nth, 0);
    held.assign(nth, NO_TASK);
    tasks_executed.assign(nth, 0);
  }

  // REPLICA of TaskBasedIonizationSimulation::run, "subgrid copies"
  void copy_levels() {
    std::vector< uint_fast8_t > levels(
        _grid_creator->number_of_original_subgrids(), 0);

    // set the copy level of all subgrids containing a source to the given
    // parameter value (for now)
    if (_photon_source_distribution) {
      const photonsourcenumber_t number_of_sources =
          _photon_source_distribution->get_number_of_sources();
      for (photonsourcenumber_t isource = 0; isource < number_of_sources;
           ++isource) {
        const CoordinateVector<> position =
            _photon_source_distribution->get_position(isource);
        DensitySubGridCreator< DensitySubGrid >::iterator gridit =
            _grid_creator->get_subgrid(position);
        levels[gridit.get_index()] = copy_level;
      }
    }

    // impose copy restrictions
    {
      uint_fast8_t max_level = 0;
      const size_t levelsize = levels.size();
      for (size_t i = 0; i < levelsize; ++i) {
        max_level = std::max(max_level, levels[i]);
      }

      size_t ngbs[6];
      while (max_level > 0) {
        for (size_t i = 0; i < levelsize; ++i) {
          if (levels[i] == max_level) {
            const uint_fast8_t numngbs = _grid_creator->get_neighbours(i, ngbs);
            for (uint_fast8_t ingb = 0; ingb < numngbs; ++ingb) {
              const size_t ngbi = ngbs[ingb];
              if (levels[ngbi] < levels[i] - 1) {
                levels[ngbi] = levels[i] - 1;
              }
            }
          }
        }
        --max_level;
      }
    }
    _grid_creator->create_copies(levels);
  }

  // REPLICA of the start of an iteration up to "photon source tasks"
  void start_iteration() {
    // reset the photon source information
    if (photon_source) {
      photon_source->reset();
    }

    // reset mean intensity counters
    for (size_t this_igrid = 0;
         this_igrid < _grid_creator->number_of_actual_subgrids(); ++this_igrid) {
      auto gridit = _grid_creator->get_subgrid(this_igrid);
      (*gridit).reset_intensities();
    }

    // reset the diffuse field variables
    if (_reemission_handler != nullptr) {
      for (size_t this_igrid = 0;
           this_igrid < _grid_creator->number_of_actual_subgrids();
           ++this_igrid) {
        auto gridit = _grid_creator->get_subgrid(this_igrid);
        for (auto cellit = (*gridit).begin(); cellit != (*gridit).end();
             ++cellit) {
          IonizationVariables &vars = cellit.get_ionization_variables();
          _reemission_handler->set_reemission_probabilities(vars);
        }
      }
    }
  }

  // REPLICA of "photon source tasks"
  void create_source_tasks() {
    number_of_photons_done = 0;
    uint64_t rounds = 0;
    if (photon_source) {
      while (number_of_photons_done < number_of_discrete_photons) {
        for (size_t isrc = 0; isrc < photon_source->get_number_of_sources();
             ++isrc) {

          const size_t number_of_photons_this_batch =
              photon_source->get_photon_batch(isrc, PHOTONBUFFER_SIZE);
          if (number_of_photons_this_batch > 0) {
            const size_t new_task = _tasks->get_free_element();
            (*_tasks)[new_task].set_type(TASKTYPE_SOURCE_DISCRETE_PHOTON);
            (*_tasks)[new_task].set_subgrid(isrc);
            (*_tasks)[new_task].set_buffer(number_of_photons_this_batch);
            _shared_queue->add_task(new_task);
            number_of_photons_done += number_of_photons_this_batch;
          }
        }
        // VERIF: the original loops for ever if the source hands out less than
        // it was asked to distribute; bounded here
        if (++rounds > _number_of_photons + 8) {
          note(fmt("source task creation does not end: %zu of %zu packets "
                   "handed out after %llu rounds over all sources",
                   number_of_photons_done, _number_of_photons,
                   (unsigned long long)rounds));
          return;
        }
      }
    }
    if (_continuous_photon_source) {
      const uint_fast32_t number_of_continuous_blocks = _queues.size();
      number_of_continuous_photons = fixed_number_of_continuous_photons;
      const uint_fast32_t batch_size = PHOTONBUFFER_SIZE;
      uint_fast32_t block_index = 0;
      const uint_fast32_t num_batches =
          number_of_continuous_photons / batch_size;
      for (uint_fast32_t ibatch = 0; ibatch < num_batches; ++ibatch) {
        const size_t new_task = _tasks->get_free_element();
        (*_tasks)[new_task].set_type(TASKTYPE_SOURCE_CONTINUOUS_PHOTON);
        (*_tasks)[new_task].set_buffer(batch_size);
        (*_tasks)[new_task].set_subgrid(block_index %
                                        number_of_continuous_blocks);
        (*_tasks)[new_task].set_dependency(
            &continuous_source_lock[block_index % number_of_continuous_blocks]);
        ++block_index;
        _shared_queue->add_task(new_task);
        number_of_photons_done += batch_size;
        ++n_cont_tasks; // VERIF
      }
      const uint_fast32_t num_last_batch =
          number_of_continuous_photons % batch_size;
      if (num_last_batch > 0) {
        const size_t new_task = _tasks->get_free_element();
        (*_tasks)[new_task].set_type(TASKTYPE_SOURCE_CONTINUOUS_PHOTON);
        (*_tasks)[new_task].set_buffer(num_last_batch);
        (*_tasks)[new_task].set_subgrid(block_index %
                                        number_of_continuous_blocks);
        (*_tasks)[new_task].set_dependency(
            &continuous_source_lock[block_index % number_of_continuous_blocks]);
        ++block_index;
        _shared_queue->add_task(new_task);
        number_of_photons_done += num_last_batch;
        ++n_cont_tasks; // VERIF
      }
      number_of_continuous_photons = fixed_number_of_continuous_photons;
    }
    // (the original asserts this; assertions are off in production)
    if (number_of_photons_done != _number_of_photons - n_injected)
      note(fmt("packets handed to source tasks %zu =/= packets requested %zu",
               number_of_photons_done, _number_of_photons - n_injected));
  }

  // VERIF: packets with degenerate directions (along an axis, a face diagonal
  // or the body diagonal; started on cell lattice points), which isotropic
  // point sources produce with probability ~0 but external sources with a
  // fixed direction produce all the time.  They are put into the pool exactly
  // as SourceDiscretePhotonTaskContext::execute does it (one buffer and one
  // traversal task per subgrid), before the threads start.
  void inject_packets() {
    if (n_injected == 0)
      return;
    std::map< size_t, std::vector< size_t > > by_subgrid;
    std::vector< CoordinateVector<> > pos(n_injected), dir(n_injected);
    for (size_t k = 0; k < n_injected; ++k) {
      double d[3], nrm = 0.;
      for (int a = 0; a < 3; ++a) {
        static const double fr[4] = {0., 0.25, 0.5, 0.01};
        const double cs = g.side[a] / g.nc[a];
        pos[k][a] = g.anchor[a] +
                    ((double)inj_cell[3 * k + a] + fr[inj_frac[3 * k + a] & 3]) * cs;
        d[a] = (double)inj_dir[3 * k + a];
        nrm += d[a] * d[a];
      }
      const double inv = 1. / std::sqrt(nrm);
      dir[k] = CoordinateVector<>(d[0] * inv, d[1] * inv, d[2] * inv);
      by_subgrid[_grid_creator->get_subgrid(pos[k]).get_index()].push_back(k);
    }
    for (auto &grp : by_subgrid) {
      const size_t subgrid_index = grp.first;
      uint_fast32_t buffer_index = _buffers->get_free_buffer();
      PhotonBuffer &input_buffer = (*_buffers)[buffer_index];
      input_buffer.grow(grp.second.size());
      input_buffer.set_subgrid_index(subgrid_index);
      input_buffer.set_direction(TRAVELDIRECTION_INSIDE);
      for (size_t i = 0; i < grp.second.size(); ++i) {
        const size_t k = grp.second[i];
        PhotonPacket &photon = input_buffer[i];
        photon.set_type(PHOTONTYPE_PRIMARY);
        photon.set_scatter_counter(0);
        photon.set_position(pos[k]);
        photon.set_direction(dir[k]);
        photon.set_weight(1.);
        photon.set_target_optical_depth(inj_tau[k]);
        photon.set_energy(NU_SOURCE);
        for (int_fast32_t ion = 0; ion < NUMBER_OF_IONNAMES; ++ion) {
          photon.set_photoionization_cross_section(
              ion, _cross_sections->get_cross_section(ion, NU_SOURCE) *
                       (ion == ION_H_n ? 1. : 0.));
        }
      }
      DensitySubGrid &subgrid = *_grid_creator->get_subgrid(subgrid_index);
      const size_t task_index = _tasks->get_free_element();
      Task &new_task = (*_tasks)[task_index];
      new_task.set_type(TASKTYPE_PHOTON_TRAVERSAL);
      new_task.set_subgrid(subgrid_index);
      new_task.set_buffer(buffer_index);
      new_task.set_dependency(subgrid.get_dependency());
      _queues[subgrid.get_owning_thread()]->add_task(task_index);
    }
  }

  // REPLICA of "create task contexts"
  PhotonPacketStatistics *statistics = nullptr;
  void create_contexts() {
    global_run_flag = true;
    num_photon_done.set(0);
    statistics = new PhotonPacketStatistics(5);

    if (photon_source) {
      task_contexts[TASKTYPE_SOURCE_DISCRETE_PHOTON] =
          new SourceDiscretePhotonTaskContext< DensitySubGrid >(
              *photon_source, *_buffers, _random_generators,
              discrete_photon_weight, *_photon_source_spectrum, _abundances,
              *_cross_sections, *_grid_creator, *_tasks);
    }

    if (_continuous_photon_source) {
      task_contexts[TASKTYPE_SOURCE_CONTINUOUS_PHOTON] =
          new SourceContinuousPhotonTaskContext(
              *_continuous_photon_source, *_buffers, _random_generators,
              continuous_photon_weight, *_continuous_photon_source_spectrum,
              _abundances, *_cross_sections, *_grid_creator, *_tasks,
              continuous_buffers, _queues, *_shared_queue,
              number_of_continuous_photons, continuous_source_lock);
      task_contexts[TASKTYPE_FLUSH_CONTINUOUS_PHOTON_BUFFERS] =
          new FlushContinuousPhotonBuffersTaskContext(
              *_buffers, *_grid_creator, *_tasks, continuous_buffers, _queues);
    }

    if (_reemission_handler) {
      task_contexts[TASKTYPE_PHOTON_REEMIT] =
          new PhotonReemitTaskContext< DensitySubGrid >(
              *_buffers, _random_generators, *_reemission_handler, _abundances,
              *_cross_sections, *_grid_creator, *_tasks, num_photon_done);
    }

    task_contexts[TASKTYPE_PHOTON_TRAVERSAL] =
        new PhotonTraversalTaskContext< DensitySubGrid >(
            *_buffers, *_grid_creator, *_tasks, num_photon_done, statistics,
            _reemission_handler != nullptr);

    premature_launch = new PrematureLaunchTaskContext< DensitySubGrid >(
        *_buffers, *_grid_creator, *_tasks, _queues, *_shared_queue);

    scheduler = new Scheduler(*_tasks, _queues, *_shared_queue);
  }

  void cleanup_iteration() {
    for (int_fast32_t itask = 0; itask < TASKTYPE_NUMBER; ++itask) {
      delete task_contexts[itask];
      task_contexts[itask] = nullptr;
    }
    delete premature_launch;
    premature_launch = nullptr;
    delete scheduler;
    scheduler = nullptr;
    delete statistics;
    statistics = nullptr;
  }

  // ---------------------------------------------------------------- observers
  // VERIF-OBSERVE: classification of the task that is about to be executed
  // (public read accessors only)
  void observe_task(const int thread_id, Task &task) {
    ++tasks_executed[thread_id];
    max_gap = std::max(max_gap, ops - last_task_ops);
    last_task_ops = ops;
    if (++tasks_iter > task_budget) {
      budget_hit = true;
      note(fmt("more than %llu tasks executed in one iteration (at least 50 "
               "times the number a packet count of %zu can need here): a "
               "packet is handed round for ever",
               (unsigned long long)task_budget, _number_of_photons));
      throw Stop();
    }
    const int type = (int)task.get_type();
    if (type == TASKTYPE_FLUSH_CONTINUOUS_PHOTON_BUFFERS)
      ++flush_executed;
    if (type != TASKTYPE_PHOTON_TRAVERSAL && type != TASKTYPE_PHOTON_REEMIT)
      return;
    const size_t b = task.get_buffer();
    if (b >= nbuf) {
      note(fmt("task of type %d refers to buffer %zu outside the pool of %zu",
               type, b, nbuf));
      throw Stop();
    }
    PhotonBuffer &buffer = (*_buffers)[b];
    const int din = (int)buffer.get_direction();
    const size_t sz = buffer.size();
    static const char *trace = getenv("C01_TRACE");
    if (trace && ops > (uint64_t)atoll(trace) && sz > 0) {
      const PhotonPacket &pp = buffer[0];
      fprintf(stderr, "TRACE thread %d type %d subgrid %zu din %d size %zu pos %a %a %a dir %.17g %.17g %.17g tau %g\n",
              thread_id, type, (size_t)buffer.get_subgrid_index(), din, sz,
              pp.get_position()[0], pp.get_position()[1], pp.get_position()[2],
              pp.get_direction()[0], pp.get_direction()[1], pp.get_direction()[2],
              pp.get_target_optical_depth());
    }
    if (type == TASKTYPE_PHOTON_REEMIT) {
      if (sz == PHOTONBUFFER_SIZE)
        ++n_overflow;
      else {
        ++n_premature;
        ++n_premature_inside;
      }
      return;
    }
    if (din < 0 || din >= TRAVELDIRECTION_NUMBER)
      return;
    // a packet whose complete state (subgrid, side of entry, position,
    // direction, remaining optical depth) recurs can never terminate: its
    // traversal is a deterministic function of that state
    // (not for packets that start inside: launches and re-emissions are new
    // packets, and two injected packets may be identical)
    if (din != TRAVELDIRECTION_INSIDE && seen_states.size() < 3000000) {
      for (size_t ip = 0; ip < sz && ip < PHOTONBUFFER_SIZE; ++ip) {
        const PhotonPacket &pp = buffer[ip];
        const CoordinateVector<> x = pp.get_position(), d = pp.get_direction();
        const double v[7] = {x[0], x[1], x[2], d[0], d[1], d[2],
                             pp.get_target_optical_depth()};
        uint64_t h1 = mix64((uint64_t)buffer.get_subgrid_index() * 31 + din);
        uint64_t h2 = mix64(h1 ^ 0x5555);
        for (int k = 0; k < 7; ++k) {
          uint64_t bits;
          memcpy(&bits, &v[k], 8);
          h1 = mix64(h1 ^ bits);
          h2 = mix64(h2 + bits * 0x9e3779b97f4a7c15ull + k);
        }
        auto &e = seen_states[h1];
        if (e.second == 0)
          e.first = h2;
        if (e.first == h2 && ++e.second >= 3) {
          note(fmt("a packet entered subgrid %zu through side %d for the third "
                   "time in exactly the same state (position %.17g %.17g "
                   "%.17g, direction %.17g %.17g %.17g, remaining optical "
                   "depth %.17g): it is handed round for ever and never "
                   "terminates",
                   (size_t)buffer.get_subgrid_index(), din, v[0], v[1], v[2],
                   v[3], v[4], v[5], v[6]));
          throw Stop();
        }
      }
    }
    if (din != TRAVELDIRECTION_INSIDE) {
      if (sz == PHOTONBUFFER_SIZE)
        ++n_overflow;
      else {
        ++n_premature;
        if (is_corner(din) || is_edge(din))
          ++n_premature_edgecorner;
        if (din == TRAVELDIRECTION_EDGE_X_NN) // output direction EDGE_X_PP
          ++n_premature_xpp;
      }
      // the packets entered through the N side of an edge/corner, i.e. they
      // left the previous subgrid through a P edge/corner
      if ((is_corner(din) || is_edge(din)) &&
          DIRSIGN[din][0] <= 0 && DIRSIGN[din][1] <= 0 && DIRSIGN[din][2] <= 0)
        ++n_p_edgecorner_traffic;
      // periodic wrap: entered through the side that is a box face
      size_t ig = buffer.get_subgrid_index();
      if (ig < _grid_creator->number_of_actual_subgrids()) {
        // copies: same position as the original
        double sbox[6];
        (*_grid_creator->get_subgrid(ig)).get_grid_box(sbox);
        for (int a = 0; a < 3; ++a) {
          const double lo = sbox[a], hi = sbox[a] + sbox[3 + a];
          const double tol = 0.25 * sbox[3 + a];
          if (DIRSIGN[din][a] < 0 && std::abs(lo - g.anchor[a]) < tol)
            ++n_wrap;
          if (DIRSIGN[din][a] > 0 &&
              std::abs(hi - (g.anchor[a] + g.side[a])) < tol)
            ++n_wrap;
        }
      }
    }
  }

  // VERIF-OBSERVE: after execute(), while the subgrid is still locked: did a
  // hand-over fill a buffer exactly (add_photons returned a new buffer that
  // stayed empty and was freed again, the slot is empty)?
  void observe_added(Task &task, const uint_fast32_t num_tasks_to_add,
                     const uint_fast32_t *tasks_to_add) {
    if (task.get_type() != TASKTYPE_PHOTON_TRAVERSAL)
      return;
    const size_t ig = task.get_subgrid();
    if (ig >= _grid_creator->number_of_actual_subgrids())
      return;
    DensitySubGrid &this_grid = *_grid_creator->get_subgrid(ig);
    for (uint_fast32_t k = 0; k < num_tasks_to_add; ++k) {
      Task &nt = (*_tasks)[tasks_to_add[k]];
      const size_t b = nt.get_buffer();
      if (b >= nbuf)
        continue;
      int out = 0;
      if (nt.get_type() == TASKTYPE_PHOTON_TRAVERSAL) {
        const int din = (int)(*_buffers)[b].get_direction();
        if (din <= 0 || din >= TRAVELDIRECTION_NUMBER)
          continue;
        out = TravelDirections::output_to_input_direction(din);
      }
      if (this_grid.get_active_buffer(out) == NEIGHBOUR_OUTSIDE)
        ++n_exact_full;
    }
  }

  // ------------------------------------------------------- container state
  struct State {
    size_t active_buffers = 0, active_tasks = 0, queue_entries = 0,
           shared_entries = 0, slots = 0;
    uint64_t launched = 0, absorbed = 0, escaped = 0, reemitted = 0,
             not_reemitted = 0, done = 0;
    uint64_t cont_packets = 0; // packets waiting in the continuous buffers
    size_t cont_nonempty = 0;
  };
  State state() {
    State s;
    s.active_buffers = _buffers->get_number_of_active_buffers();
    s.active_tasks = _tasks->get_number_of_active_elements();
    for (auto *q : _queues)
      s.queue_entries += q->size();
    s.shared_entries = _shared_queue->size();
    for (auto it = _grid_creator->begin(); it != _grid_creator->all_end(); ++it)
      for (int d = 0; d < TRAVELDIRECTION_NUMBER; ++d)
        if ((*it).get_active_buffer(d) != NEIGHBOUR_OUTSIDE)
          ++s.slots;
    s.launched = n_injected + // put into the pool before the threads start
                 cmi_verif_counters()[CMI_VERIF_LAUNCHED_DISCRETE].load() +
                 cmi_verif_counters()[CMI_VERIF_LAUNCHED_CONTINUOUS].load();
    s.absorbed = cmi_verif_counters()[CMI_VERIF_ABSORBED].load();
    s.escaped = cmi_verif_counters()[CMI_VERIF_ESCAPED].load();
    s.reemitted = cmi_verif_counters()[CMI_VERIF_REEMITTED].load();
    s.not_reemitted = cmi_verif_counters()[CMI_VERIF_NOT_REEMITTED].load();
    s.done = num_photon_done.value();
    for (auto &blk : continuous_buffers)
      for (auto &b : blk)
        if (b.size() > 0) {
          s.cont_packets += b.size();
          ++s.cont_nonempty;
        }
    return s;
  }
  static std::string show(const State &s, size_t requested) {
    return fmt("requested %zu, launched %llu, absorbed %llu + escaped %llu + "
               "not re-emitted %llu = %llu terminated (re-emitted %llu), "
               "num_photon_done %llu; active buffers %zu, active tasks %zu, "
               "queue entries %zu + %zu shared, subgrid output slots %zu, "
               "%llu packets in %zu continuous source buffers",
               requested, (unsigned long long)s.launched,
               (unsigned long long)s.absorbed, (unsigned long long)s.escaped,
               (unsigned long long)s.not_reemitted,
               (unsigned long long)(s.absorbed + s.escaped + s.not_reemitted),
               (unsigned long long)s.reemitted, (unsigned long long)s.done,
               s.active_buffers, s.active_tasks, s.queue_entries,
               s.shared_entries, s.slots, (unsigned long long)s.cont_packets,
               s.cont_nonempty);
  }

  // (iv) / before an iteration
  void check_clean(const char *when) {
    in_check = true;
    const State s = state();
    in_check = false;
    if (s.cont_packets != 0)
      note(fmt("%s: %llu packets wait in continuous source buffers", when,
               (unsigned long long)s.cont_packets));
    if (s.active_buffers != 0 || s.active_tasks != 0 || s.queue_entries != 0 ||
        s.shared_entries != 0 || s.slots != 0)
      note(fmt("%s: not clean: %zu active buffers, %zu active tasks, %zu + %zu "
               "queue entries, %zu subgrid output slots",
               when, s.active_buffers, s.active_tasks, s.queue_entries,
               s.shared_entries, s.slots));
  }

  // (i) end of an iteration
  void check_end(const size_t tasks_before) {
    in_check = true;
    const State s = state();
    in_check = false;
    const size_t N = _number_of_photons;
    const std::string all = " [" + show(s, N) + "]";
    if (s.launched != N)
      return note(fmt("packets launched %llu =/= packets requested %zu",
                      (unsigned long long)s.launched, N) + all);
    if (s.absorbed + s.escaped + s.not_reemitted != N)
      return note(fmt("packets terminated %llu =/= packets requested %zu",
                      (unsigned long long)(s.absorbed + s.escaped +
                                           s.not_reemitted), N) + all);
    if (s.done != N)
      return note(fmt("num_photon_done %llu =/= packets requested %zu at the "
                      "end of the iteration", (unsigned long long)s.done, N) +
                  all);
    if (_reemission_handler == nullptr && (s.reemitted || s.not_reemitted))
      return note("re-emission events without a diffuse field" + all);
    if (_reemission_handler != nullptr && s.absorbed != 0)
      return note("with a diffuse field every absorbed packet must go through "
                  "the re-emission decision" + all);
    if (s.cont_packets != 0)
      return note(fmt("%llu packets are still waiting in %zu continuous source "
                      "buffer(s) after the iteration",
                      (unsigned long long)s.cont_packets, s.cont_nonempty) +
                  all);
    {
      // exactly one flush task per source copy, once all continuous source
      // tasks have run
      const uint64_t expect =
          fixed_number_of_continuous_photons > 0 ? (uint64_t)_queues.size() : 0;
      if (flush_executed != expect)
        return note(fmt("%llu flush tasks were executed, %llu (one per source "
                        "copy) must be created and run",
                        (unsigned long long)flush_executed,
                        (unsigned long long)expect) + all);
    }
    if (s.active_buffers != 0)
      return note(fmt("%zu packet buffer(s) still active after the iteration",
                      s.active_buffers) + all);
    if (s.queue_entries != 0 || s.shared_entries != 0)
      return note("queue entries left behind" + all);
    if (s.active_tasks != tasks_before)
      return note(fmt("%zu task(s) active after the iteration, %zu before it",
                      s.active_tasks, tasks_before) + all);
    if (s.slots != 0)
      return note(fmt("%zu subgrid output slot(s) still refer to a buffer",
                      s.slots) + all);
  }

  // (ii) every fiber is parked between two tasks
  void check_quiescent() {
    ++q_checks;
    in_check = true;
    struct Out {
      bool &f;
      ~Out() { f = false; }
    } out{in_check};
    const State s = state();
    const size_t N = _number_of_photons;
    const std::string all = " [quiescent point " + std::to_string(q_checks) +
                            ": " + show(s, N) + "]";
    // active tasks
    std::vector< Task * > active(ntask + 1, nullptr);
    const size_t nact = _tasks->get_active_elements(ntask + 1, active.data());
    size_t nheld = 0;
    for (int t = 0; t < nth; ++t)
      if (held[t] != NO_TASK)
        ++nheld;
    if (nact != s.active_tasks)
      return note(fmt("%zu task slots are in use but the task pool counts %zu",
                      nact, s.active_tasks) + all);
    if (nact != s.queue_entries + s.shared_entries + nheld)
      return note(fmt("%zu active tasks, but %zu queued + %zu held by a "
                      "thread: a task is neither queued nor being executed (or "
                      "queued twice)", nact,
                      s.queue_entries + s.shared_entries, nheld) + all);
    std::vector< unsigned char > ref(nbuf, 0);
    uint64_t pending = 0;
    size_t nref = 0;
    for (size_t k = 0; k < nact; ++k) {
      Task &task = *active[k];
      const int type = (int)task.get_type();
      if (type == TASKTYPE_SOURCE_DISCRETE_PHOTON ||
          type == TASKTYPE_SOURCE_CONTINUOUS_PHOTON) {
        pending += task.get_buffer();
      } else if (type == TASKTYPE_FLUSH_CONTINUOUS_PHOTON_BUFFERS) {
        // refers to a source copy, not to a buffer
      } else if (type == TASKTYPE_PHOTON_TRAVERSAL ||
                 type == TASKTYPE_PHOTON_REEMIT) {
        const size_t b = task.get_buffer();
        if (b >= nbuf)
          return note(fmt("a task refers to buffer %zu outside the pool", b) +
                      all);
        if (ref[b]++)
          return note(fmt("buffer %zu is referenced by two tasks", b) + all);
        ++nref;
      } else
        return note(fmt("active task of unexpected type %d", type) + all);
    }
    size_t ig = 0;
    for (auto it = _grid_creator->begin(); it != _grid_creator->all_end();
         ++it, ++ig) {
      for (int d = 0; d < TRAVELDIRECTION_NUMBER; ++d) {
        const size_t b = (*it).get_active_buffer(d);
        if (b == NEIGHBOUR_OUTSIDE)
          continue;
        if (b >= nbuf)
          return note(fmt("subgrid %zu slot %d refers to buffer %zu outside the "
                          "pool", ig, d, b) + all);
        if (ref[b]++)
          return note(fmt("buffer %zu (output slot %d of subgrid %zu) is also "
                          "referenced by a task or another slot", b, d, ig) +
                      all);
        ++nref;
      }
    }
    if (nref != s.active_buffers)
      return note(fmt("%zu buffers are active but %zu are referenced by a "
                      "queued task, a held task or a subgrid output slot",
                      s.active_buffers, nref) + all);
    uint64_t in_ref = 0, in_all = 0;
    for (size_t b = 0; b < nbuf; ++b) {
      const uint64_t sz = (*_buffers)[b].size();
      in_all += sz;
      if (ref[b])
        in_ref += sz;
    }
    if (in_all != in_ref)
      return note(fmt("%llu packets sit in buffers that nothing refers to",
                      (unsigned long long)(in_all - in_ref)) + all);
    const uint64_t term = s.absorbed + s.escaped + s.not_reemitted;
    if (s.launched + pending != N)
      return note(fmt("launched %llu + waiting in source tasks %llu =/= "
                      "requested %zu", (unsigned long long)s.launched,
                      (unsigned long long)pending, N) + all);
    if (in_ref + s.cont_packets + term != s.launched)
      return note(fmt("packets in buffers %llu (+ %llu in continuous source "
                      "buffers) + terminated %llu =/= launched %llu",
                      (unsigned long long)in_ref,
                      (unsigned long long)s.cont_packets,
                      (unsigned long long)term,
                      (unsigned long long)s.launched) + all);
    if (s.done != term)
      return note(fmt("num_photon_done %llu =/= %llu termination events "
                      "between two tasks", (unsigned long long)s.done,
                      (unsigned long long)term) + all);
  }

  // -------------------------------------------------------------- scheduling
  static Sim *&cur() {
    static Sim *s = nullptr;
    return s;
  }
  static void hook() {
    Sim *S = cur();
    if (S == nullptr || S->in_check)
      return;
    const int me = S->fs->current();
    if (me < 0)
      return;
    if (S->fs->aborted)
      throw fbaton::Abort();
    static const char *bt = getenv("C01_BT");
    if (bt && S->ops - S->last_task_ops + 300 > S->stall_budget) {
      void *fr[24];
      const int n = backtrace(fr, 24);
      fprintf(stderr, "BT fiber %d:\n", me);
      backtrace_symbols_fd(fr, n, 2);
    }
    if (++S->ops - S->last_task_ops > S->stall_budget) {
      S->budget_hit = true;
      S->stalled = true;
      S->fs->aborted = true;
      throw fbaton::Abort();
    }
    ++S->opcount[me];
    // scheduling points: a logical thread gives the processor away after a
    // run of atomic operations whose length is geometrically distributed with
    // mean stride[me]; the decisions come from a xorshift stream seeded by the
    // case, so the schedule is a pure function of the case.  (Strictly
    // periodic run lengths can resonate with the retry loop of a spin lock for
    // ever - an unfair schedule under which no spin lock terminates.)
    uint64_t x = S->sched_state;
    x ^= x << 13;
    x ^= x >> 7;
    x ^= x << 17;
    S->sched_state = x;
    if ((x >> 11) % (uint64_t)S->stride[me] != 0)
      return; // not a scheduling point for this logical thread
    S->fs->yield();
    if (((x >> 40) & 15) == 0)
      S->fs->yield(); // delayed a little longer
  }

  // the top of the loop: between two tasks
  void park(const int thread_id, const uint_fast32_t current_index) {
    if (failed)
      throw Stop();
    if (qk <= 0)
      return;
    if (!q_requested) {
      if (++q_counter % (uint64_t)qk != 0)
        return;
      q_requested = true;
    }
    held[thread_id] = current_index;
    ++q_parked;
    if (q_parked == q_alive) {
      check_quiescent();
      q_requested = false;
    } else {
      while (q_requested && !failed)
        fbaton::pause();
    }
    --q_parked;
    held[thread_id] = NO_TASK;
    if (failed)
      throw Stop();
  }
  void leave(const int thread_id) {
    --q_alive;
    if (q_requested && q_alive > 0 && q_parked == q_alive && !failed) {
      check_quiescent();
      q_requested = false;
    }
  }

  // REPLICA of the body of the parallel region (one logical thread)
  void worker(const int_fast8_t thread_id) {
    // thread initialisation
    ThreadContext *thread_contexts[TASKTYPE_NUMBER] = {nullptr};
    struct Guard {
      ThreadContext **tc;
      ~Guard() {
        for (int_fast32_t itask = 0; itask < TASKTYPE_NUMBER; ++itask) {
          delete tc[itask];
        }
      }
    } guard{thread_contexts};
    for (int_fast32_t itask = 0; itask < TASKTYPE_NUMBER; ++itask) {
      if (task_contexts[itask]) {
        thread_contexts[itask] = task_contexts[itask]->get_thread_context();
      }
    }

    // actual run flag
    uint_fast32_t current_index = _shared_queue->get_task(*_tasks);
    // a thread that obtained a task just before another thread cleared the
    // run flag still has to execute (and release) that task
    while (global_run_flag || current_index != NO_TASK) {
      park(thread_id, current_index); // VERIF

      if (current_index == NO_TASK) {
        premature_launch->execute();
        current_index = scheduler->get_task(thread_id);
      }

      while (current_index != NO_TASK) {
        park(thread_id, current_index); // VERIF

        // execute task
        uint_fast32_t num_tasks_to_add = 0;
        uint_fast32_t tasks_to_add[TRAVELDIRECTION_NUMBER];
        int_fast32_t queues_to_add[TRAVELDIRECTION_NUMBER];

        Task &task = (*_tasks)[current_index];
        observe_task(thread_id, task); // VERIF (thread_stats in the original)

        task.start(thread_id);

        num_tasks_to_add = task_contexts[task.get_type()]->execute(
            thread_id, thread_contexts[task.get_type()], tasks_to_add,
            queues_to_add, task);

        // log the end time of the task
        task.stop();
        observe_added(task, num_tasks_to_add, tasks_to_add); // VERIF

        task.unlock_dependency();

        // we are done with the task, clean up (if we don't output it)
        {
          _tasks->free_element(current_index);
        }

        for (uint_fast32_t itask = 0; itask < num_tasks_to_add; ++itask) {
          if (queues_to_add[itask] < 0) {
            // general queue
            _shared_queue->add_task(tasks_to_add[itask]);
          } else {
            _queues[queues_to_add[itask]]->add_task(tasks_to_add[itask]);
          }
        }

        current_index = scheduler->get_task(thread_id);
      }

      if (_buffers->is_empty() &&
          num_photon_done.value() == _number_of_photons) {
        global_run_flag = false;
      } else {
        current_index = scheduler->get_task(thread_id);
      }
      // VERIF: global_run_flag is a plain bool read by the loop condition;
      // another thread may clear it between the fetch above and that read
      cmi_verif_yield();
    } // while(global_run_flag)
  }

  // REPLICA of what follows the parallel region until the end of the iteration
  // (the temperature calculation and the diagnostic output are left out: they
  // touch neither buffers nor queues; the temperature tasks take and free task
  // slots only)
  void between_iterations() {
    _grid_creator->update_original_counters();
    _buffers->reset();
    _grid_creator->update_copy_properties();
    _tasks->clear();
  }

  // ---------------------------------------------------------------- one run
  void run(const std::vector< int > &choices) {
    static fbaton::Scheduler S;
    fs = &S;
    for (iteration = 0; iteration < niter && !failed; ++iteration) {
      for (int k = 0; k < CMI_VERIF_NUMBER_OF_COUNTERS; ++k)
        cmi_verif_counters()[k].store(0);
      check_clean(iteration == 0 ? "before the first iteration"
                                 : "start of the next iteration");
      if (failed)
        break;
      start_iteration();
      const size_t tasks_before = _tasks->get_number_of_active_elements();
      create_source_tasks();
      if (failed)
        break;
      inject_packets();
      create_contexts();

      // budgets (deterministic run, so a budget hit is a failure):
      //  * tasks per iteration: 50 x a generous estimate of what the packets
      //    can need (every hand-over of a single packet as an own task)
      //  * atomic operations without any task being started (dead/live lock)
      {
        const double chain = diffuse == 3 ? 10. : (diffuse == 2 ? 1.6 : 1.06);
        const double hops = (double)(g.ns[0] + g.ns[1] + g.ns[2]);
        const bool periodic = g.per[0] || g.per[1] || g.per[2];
        // optical depth of one box crossing along the shortest side, through
        // the most transparent material
        const double smin = std::min(g.side[0], std::min(g.side[1], g.side[2]));
        const double smax = std::max(g.side[0], std::max(g.side[1], g.side[2]));
        const double tau_box = std::max(tau_min, 1.e-3) * smin / smax;
        const double boxes = periodic ? 1. + 3. / tau_box : 1.;
        expected_tasks =
            (double)_number_of_photons * chain * (2. + hops * boxes) + 100.;
        for (size_t k = 0; k < n_injected; ++k)
          expected_tasks +=
              chain * (2. + hops * (periodic ? 1. + (3. + inj_tau[k]) / tau_box : 1.));
        expected_tasks += (double)(_queues.size() * (2 + _grid_creator->number_of_original_subgrids()));
        task_budget = (uint64_t)(50. * expected_tasks);
        stall_budget = 50000000;
        tasks_iter = 0;
        n_flush_total += flush_executed;
        flush_executed = 0;
        last_task_ops = 0;
        stalled = false;
        seen_states.clear();
      }
      ops = 0;
      sched_state = mix64(sched_seed + 977u * (uint64_t)iteration) | 1u;
      std::fill(opcount.begin(), opcount.end(), 0);
      budget_hit = false;
      q_requested = false;
      q_parked = 0;
      q_alive = nth;
      q_counter = 0;
      std::fill(held.begin(), held.end(), NO_TASK);

      std::vector< std::function< void() > > progs;
      for (int t = 0; t < nth; ++t) {
        progs.push_back([this, t]() {
          cmi_verif_yield_hook() = &Sim::hook; // wraps the scheduler's hook
          try {
            worker((int_fast8_t)t);
          } catch (const Stop &) {
            global_run_flag = false;
          } catch (const VerifAbort &e) {
            note("unexpected abort at " + e.file + ":" +
                 std::to_string(e.line) + ": " + e.msg);
            global_run_flag = false;
          }
          leave(t);
        });
      }
      cur() = this;
      const bool ok = S.run(progs, choices, ~0ull >> 1);
      cmi_verif_yield_hook() = nullptr;
      cur() = nullptr;
      switches += S.switches;
      max_ops_iter = std::max(max_ops_iter, ops);
      if (getenv("C01_DEBUG"))
        fprintf(stderr, "DBG ops %llu gap %llu tasks %llu expected %.0f N %zu nsub %zu diffuse %d nth %d switches %llu\n",
                (unsigned long long)ops, (unsigned long long)max_gap,
                (unsigned long long)tasks_iter, expected_tasks,
                _number_of_photons, (size_t)_grid_creator->number_of_actual_subgrids(), diffuse, nth,
                (unsigned long long)S.switches);
      if (S.foreign_exception)
        note("harness error: foreign exception in a fiber");
      max_tasks_frac_ppm = std::max(max_tasks_frac_ppm, (uint64_t)(1.e6 * (double)tasks_iter / (double)task_budget));
      if ((!ok || budget_hit) && !failed) {
        in_check = true;
        const State s = state();
        in_check = false;
        const uint64_t term = s.absorbed + s.escaped + s.not_reemitted;
        std::string why;
        if (s.active_tasks == 0 && s.active_buffers == 0 && s.cont_packets > 0)
          why = fmt("%llu packets wait in %zu continuous source buffer(s) but "
                    "no task exists that would flush them; ",
                    (unsigned long long)s.cont_packets, s.cont_nonempty);
        else if (s.active_tasks == 0 && s.active_buffers == 0)
          why = s.done == _number_of_photons
                    ? "" 
                    : fmt("nothing is left to do, but num_photon_done %llu can "
                          "never become the %zu requested packets (%llu "
                          "termination events): a packet was lost or "
                          "miscounted; ", (unsigned long long)s.done,
                          _number_of_photons, (unsigned long long)term);
        else if (s.active_tasks == 0)
          why = fmt("%zu buffer(s) hold packets but no task will ever process "
                    "them; ", s.active_buffers);
        else
          why = "tasks exist but none can be started (a lock is never "
                "released, or a task is in no queue); ";
        note("the iteration never ends: " + why +
             fmt("no task was started during %llu atomic operations (the "
                 "longest wait on the unchanged code is at least 20 times "
                 "shorter) [", (unsigned long long)stall_budget) +
             show(s, _number_of_photons) + "]");
      }
      if (!failed)
        check_end(tasks_before);
      n_reemit += cmi_verif_counters()[CMI_VERIF_REEMITTED].load();
      cleanup_iteration();
      if (!failed)
        between_iterations();
    }
    if (!failed) {
      iteration = niter;
      check_clean("after the last iteration");
    }
  }
};

// ================================================================ generator
double ulps(double x, int k) {
  for (; k > 0; --k)
    x = std::nextafter(x, DBL_MAX);
  for (; k < 0; ++k)
    x = std::nextafter(x, -DBL_MAX);
  return x;
}

VCase gen_case() {
  VCase c;
  const int nth = (int)vr::irange(2, 4);
  // ---- layout
  int ns[3], cps[3], nc[3];
  for (int a = 0; a < 3; ++a)
    ns[a] = vr::weighted({3, 5, 3}) + 1;
  if (ns[0] * ns[1] * ns[2] == 1 && vr::coin(0.9))
    ns[vr::irange(0, 2)] = 2;
  const bool tiny = vr::coin(0.45);
  for (int a = 0; a < 3; ++a) {
    if (ns[a] == 1)
      cps[a] = tiny ? (int)vr::irange(2, 3) : (int)vr::irange(2, 6);
    else if (ns[a] == 2)
      cps[a] = tiny ? 1 : (int)vr::irange(1, 3);
    else
      cps[a] = tiny ? 1 : (int)vr::irange(1, 2);
    nc[a] = ns[a] * cps[a];
  }
  int per[3] = {0, 0, 0};
  const int pmode = vr::weighted({5, 2, 2, 1});
  if (pmode == 1)
    per[vr::irange(0, 2)] = 1;
  else if (pmode == 2)
    for (int a = 0; a < 3; ++a)
      per[a] = vr::coin(0.5);
  else if (pmode == 3)
    per[0] = per[1] = per[2] = 1;
  const bool periodic = per[0] || per[1] || per[2];
  // ---- geometry
  // 0 dyadic, anchor 0; 1 dyadic, box straddles 0 / far from 0; 2 arbitrary;
  // 3 nearly cubic cells (two faces are crossed almost simultaneously by a
  //   packet that travels along a diagonal)
  const int gmode = vr::weighted({4, 3, 3, 2});
  const double near_eps = vr::pick(std::vector< double >{1.e-8, 1.e-11, 1.e-14, 1.e-15, 2.3e-16, 2.3e-16});
  double cell[3], anchor[3], side[3];
  static const std::vector< double > dy = {0.25, 0.5, 1., 2.};
  const double c0 = vr::pick(dy);
  const bool cubic = vr::coin(0.6);
  for (int a = 0; a < 3; ++a) {
    if (gmode == 2) {
      cell[a] = vr::uni(0.3, 3.);
      anchor[a] = vr::uni(-2., 1.) * cell[a] * nc[a];
    } else if (gmode == 3) {
      cell[a] = c0 * (1. + (double)vr::irange(-1, 2) * near_eps);
      anchor[a] = vr::coin(0.5) ? 0. : -0.5 * cell[a] * nc[a];
    } else {
      cell[a] = cubic ? c0 : vr::pick(dy);
      anchor[a] = gmode == 0 ? 0. : -(double)vr::irange(0, nc[a]) * cell[a];
      if (gmode == 1 && vr::coin(0.3))
        anchor[a] = (double)vr::pick(std::vector< int >{-64, 8, 1024, -4096});
    }
    side[a] = nc[a] * cell[a];
  }
  const double lmax = std::max(side[0], std::max(side[1], side[2]));
  // ---- density: optical depth across the longest box side per palette entry
  static const std::vector< double > taus = {0.1, 0.3, 1., 3., 10., 30.};
  const int dkind = vr::weighted({3, 3, 3, 3});
  double pal[3];
  pal[0] = vr::pick(taus);
  pal[1] = vr::coin(0.5) ? 30. : vr::pick(taus);
  pal[2] = vr::coin(0.5) ? 0.1 : vr::pick(taus);
  if (!periodic && vr::coin(0.15))
    pal[2] = 0.; // empty region (every packet that enters it escapes or passes)
  if (periodic) {
    // keep the number of box crossings per packet bounded (cost)
    for (int k = 0; k < 3; ++k)
      pal[k] = std::max(pal[k], 0.3);
  }
  const bool ultra = vr::coin(0.3);
  if (ultra)
    pal[1] = vr::pick(std::vector< double >{1.e18, 1.e20, 1.e22});
  const uint64_t fseed = (uint64_t)vr::irange(0, 1 << 20);
  const int fblock = (int)vr::irange(1, 3);
  const int split_axis = (int)vr::irange(0, 2);
  std::vector< double > dens((size_t)nc[0] * nc[1] * nc[2]);
  for (int i = 0; i < nc[0]; ++i)
    for (int j = 0; j < nc[1]; ++j)
      for (int k = 0; k < nc[2]; ++k) {
        const int cc[3] = {i, j, k};
        int p = 0;
        if (dkind == 1)
          p = (2 * cc[split_axis] < nc[split_axis]) ? 1 : 2;
        else if (dkind == 2)
          p = (int)(mix64(mix64(mix64(fseed ^ (uint64_t)(i / fblock)) ^
                                (uint64_t)(j / fblock)) ^
                          (uint64_t)(k / fblock)) %
                    3);
        else if (dkind == 3)
          p = (int)(mix64(mix64(mix64(fseed ^ (uint64_t)i) ^ (uint64_t)j) ^
                          (uint64_t)k) %
                    3);
        dens[((size_t)i * nc[1] + j) * nc[2] + k] = pal[p] / (SIGMA_H * lmax);
      }
  // ---- sources
  const int nsrc = vr::weighted({5, 3, 2}) + 1;
  std::vector< double > spos, sweight;
  std::vector< int64_t > sclass;
  // how many axes of a source sit on / next to a subgrid boundary
  for (int s = 0; s < nsrc; ++s) {
    const int nb = vr::weighted({2, 2, 3, 4}); // 0 interior, 1 face, 2 edge, 3 corner
    bool onb[3] = {false, false, false};
    if (nb == 3)
      onb[0] = onb[1] = onb[2] = true;
    else if (nb == 2) {
      const int skip = (int)vr::irange(0, 2);
      for (int a = 0; a < 3; ++a)
        onb[a] = a != skip;
    } else if (nb == 1)
      onb[vr::irange(0, 2)] = true;
    const int umode = vr::weighted({5, 3, 2}); // exact / all just below / mixed
    for (int a = 0; a < 3; ++a) {
      const double sub = side[a] / ns[a]; // as DensitySubGridCreator computes it
      double x;
      int cls = 0;
      if (onb[a]) {
        int k = umode == 0 ? 0 : (umode == 1 ? -1 : (int)vr::irange(-2, 2));
        // boundary j: lower face of subgrid j.  j = 0 is the lower box face;
        // the upper box face is not inside the box
        int j = (int)vr::irange(0, ns[a] - 1);
        if (k < 0 && j == 0) {
          if (ns[a] > 1)
            j = (int)vr::irange(1, ns[a] - 1);
          else
            k = 0;
        }
        x = ulps(anchor[a] + j * sub, k);
        cls = k == 0 ? 1 : (k < 0 ? 2 : 3);
      } else {
        // interior: a dyadic fraction of the box (cell boundaries included)
        x = anchor[a] + side[a] * vr::dyadic(0., 1., 5);
        if (vr::coin(0.5))
          x = anchor[a] + side[a] * vr::uni(0.02, 0.98);
      }
      // safety: inside the half-open box
      if (!(x >= anchor[a]))
        x = anchor[a];
      if (!(x < ulps(anchor[a] + side[a], -4)))
        x = anchor[a] + 0.5 * side[a];
      spos.push_back(x);
      sclass.push_back(cls);
    }
    sweight.push_back(vr::coin(0.4) ? 1. : (double)vr::irange(1, 9));
  }
  // ---- run parameters
  static const std::vector< int64_t > special = {1,   2,   3,   199,  200, 201,
                                                 399, 400, 401, 1000, 1400, 1500};
  int64_t nphot;
  const int pm = vr::weighted({3, 4, 2, 1});
  if (pm == 0)
    nphot = vr::pick(special);
  else if (pm == 1)
    nphot = vr::irange(1, 450);
  else if (pm == 2)
    nphot = vr::irange(451, 1000);
  else
    nphot = vr::irange(1001, 1500);
  const int diffuse = vr::weighted({4, 2, 2, 2});
  if (diffuse == 3 && nphot > 600 && (periodic || vr::coin(0.7)))
    nphot = vr::irange(1, 600);
  if (diffuse == 3 && periodic)
    for (auto &n : dens)
      n = std::max(n, 1. / (SIGMA_H * lmax));
  c.I("nth", nth);
  c.I("nc", std::vector< int64_t >{nc[0], nc[1], nc[2]});
  c.I("ns", std::vector< int64_t >{ns[0], ns[1], ns[2]});
  c.I("per", std::vector< int64_t >{per[0], per[1], per[2]});
  c.I("copy_level", vr::weighted({4, 3, 3}));
  c.I("diffuse", diffuse);
  c.I("nphot", nphot);
  c.I("niter", vr::coin(0.35) ? 2 : 1);
  c.I("own_mode", vr::irange(0, 2));
  c.I("seed", vr::irange(1, 1 << 20));
  c.I("qk", vr::pick(std::vector< int64_t >{0, 1, 2, 5, 5, 17, 17, 60, 60, 200}));
  c.I("ultra", ultra);
  c.I("sclass", sclass);
  // ---- schedule: per-thread stride (every stride-th atomic operation of a
  // thread is a scheduling point) + choice pattern (prefix or cyclic)
  static const std::vector< int64_t > strides = {1, 1, 1, 2, 3, 5, 8, 17, 64, 257};
  static const std::vector< int64_t > long_strides = {1, 3, 17, 257, 2000, 5000};
  std::vector< int64_t > st;
  const bool same = vr::coin(0.4);
  const int64_t s0 = vr::pick(long_strides);
  for (int t = 0; t < nth; ++t)
    st.push_back(same ? s0 : vr::pick(strides));
  c.I("stride", st);
  c.I("sched_seed", vr::irange(0, 1 << 20));
  std::vector< int64_t > ch;
  const int mode = vr::weighted({2, 4, 2, 2});
  int len = 0;
  if (mode == 0 || mode == 1)
    len = (int)vr::irange(1, 200);
  else if (mode == 2)
    len = (int)vr::irange(1, 12);
  static const std::vector< int > runs = {1, 1, 1, 2, 2, 3, 4, 6, 9, 14, 25, 40};
  while ((int)ch.size() < len) {
    const int64_t who = vr::irange(0, nth - 1);
    const int r = mode == 1 ? vr::pick(runs) : 1;
    for (int k = 0; k < r && (int)ch.size() < len; ++k)
      ch.push_back(who);
  }
  c.I("choices", ch);
  c.I("cyclic", len > 0 && vr::coin(0.5));
  // injected packets with degenerate directions
  if (vr::coin(0.45)) {
    const int K = (int)vr::irange(1, 12);
    std::vector< int64_t > icell, ifrac, idir;
    std::vector< double > itau;
    const bool samefrac = vr::coin(0.7);
    for (int k = 0; k < K; ++k) {
      const int64_t f0 = vr::irange(0, 3);
      int64_t dd[3] = {0, 0, 0};
      while (dd[0] == 0 && dd[1] == 0 && dd[2] == 0)
        for (int a = 0; a < 3; ++a)
          dd[a] = vr::weighted({2, 1, 2}) - 1;
      for (int a = 0; a < 3; ++a) {
        icell.push_back(vr::irange(0, nc[a] - 1));
        ifrac.push_back(samefrac ? f0 : vr::irange(0, 3));
        idir.push_back(dd[a]);
      }
      itau.push_back(vr::coin(0.5) ? vr::uni(0.01, 4.) : vr::uni(0.5, 40.));
    }
    c.I("inj_cell", icell);
    c.I("inj_frac", ifrac);
    c.I("inj_dir", idir);
    c.D("inj_tau", itau);
  }
  c.D("anchor", std::vector< double >{anchor[0], anchor[1], anchor[2]});
  c.D("side", std::vector< double >{side[0], side[1], side[2]});
  c.D("spos", spos);
  c.D("sweight", sweight);
  c.D("dens", dens);
  return c;
}

// the same cases + an isotropic external source, alone or mixed with the point
// sources (the packets are split as the simulation does it)
VCase gen_case_continuous() {
  VCase c = gen_case();
  c.I("cont_mode", vr::weighted({0, 5, 5}));
  c.D("lum_ratio", vr::pick(std::vector< double >{0.25, 1., 3.}));
  // the number of continuous source tasks decides whether the flush decision
  // is taken by one task or contended: make 2-5 tasks frequent
  if (vr::coin(0.5)) {
    static const std::vector< int64_t > np = {201, 399, 400, 401, 402, 600,
                                              799, 800, 801, 1000, 1200};
    for (auto &f : c.ii)
      if (f.first == "nphot")
        f.second[0] = vr::pick(np);
  }
  return c;
}

// =================================================================== oracle
VResult o_loop(const VCase &c) {
  CaseScope scope(c);
  VResult r;
  std::vector< int > choices;
  {
    const auto &ch = c.iv("choices");
    if (!ch.empty()) {
      // a cyclic pattern is repeated, but only as long as the operations it
      // can force on one (possibly spinning) thread stay far below the
      // no-progress budget
      int64_t smax = 1;
      for (auto x : c.iv("stride"))
        smax = std::max(smax, x);
      const size_t total =
          c.i("cyclic") ? std::max<size_t>(ch.size(), (size_t)(200000 / smax)) > 20000
                              ? 20000
                              : std::max<size_t>(ch.size(), (size_t)(200000 / smax))
                        : ch.size();
      for (size_t k = 0; k < total; ++k)
        choices.push_back((int)ch[k % ch.size()]);
    }
  }
  // independent pre-check for the external source: every position the real
  // source hands out must lie inside the half-open box, i.e. map to an
  // existing subgrid (otherwise the source task writes outside
  // continuous_buffers and the heap is corrupted before any invariant can be
  // evaluated)
  if (c.has_i("cont_mode") && c.i("cont_mode") != 0) {
    Box<> box(CoordinateVector<>(c.d("anchor", 0), c.d("anchor", 1),
                                 c.d("anchor", 2)),
              CoordinateVector<>(c.d("side", 0), c.d("side", 1), c.d("side", 2)));
    IsotropicContinuousPhotonSource source(box);
    // the real position -> subgrid map (no subgrids are allocated)
    DensitySubGridCreator< DensitySubGrid > probe(
        box,
        CoordinateVector< int_fast32_t >((int)c.i("nc", 0), (int)c.i("nc", 1),
                                         (int)c.i("nc", 2)),
        CoordinateVector< int_fast32_t >((int)c.i("ns", 0), (int)c.i("ns", 1),
                                         (int)c.i("ns", 2)),
        CoordinateVector< bool >(false, false, false));
    std::vector< std::unique_ptr< DensitySubGrid > > probe_grids(
        probe.number_of_original_subgrids());
    RandomGenerator rg((int_fast32_t)c.i("seed") + 1000);
    for (int k = 0; k < 5000; ++k) {
      const auto pd = source.get_random_incoming_direction(rg);
      if (probe.get_subgrid(pd.first).get_index() >=
          probe.number_of_original_subgrids()) {
        r.label("external-source-packet-outside-the-box");
        r.fail(fmt("IsotropicContinuousPhotonSource created a packet at %.17g "
                   "%.17g %.17g for which get_subgrid() returns index %zu of "
                   "%zu subgrids; the continuous source task would write "
                   "outside its buffers", pd.first[0], pd.first[1],
                   pd.first[2], (size_t)probe.get_subgrid(pd.first).get_index(),
                   (size_t)probe.number_of_original_subgrids()));
        return r;
      }
      // ... and the position must lie in the block it is mapped to
      {
        const size_t idx = probe.get_subgrid(pd.first).get_index();
        if (!probe_grids[idx])
          probe_grids[idx].reset(probe.create_subgrid(idx));
        double sbox[6];
        probe_grids[idx]->get_grid_box(sbox);
        for (int a = 0; a < 3; ++a) {
          const double tol = 1.e-9 * sbox[3 + a];
          if (!(pd.first[a] >= sbox[a] - tol &&
                pd.first[a] <= sbox[a] + sbox[3 + a] + tol)) {
            r.label("external-source-packet-outside-the-box");
            r.fail(fmt("IsotropicContinuousPhotonSource created a packet at "
                       "%.17g %.17g %.17g, get_subgrid() maps it to subgrid "
                       "%zu whose extent along axis %d is [%.17g, %.17g]: the "
                       "packet is handed to a subgrid that does not contain it",
                       pd.first[0], pd.first[1], pd.first[2], idx, a, sbox[a],
                       sbox[a] + sbox[3 + a]));
            return r;
          }
        }
      }
    }
  }
  Sim S;
  S.build(c);
  S.run(choices);

  const size_t nsub = S._grid_creator->number_of_actual_subgrids();
  const size_t norig = S._grid_creator->number_of_original_subgrids();
  int working = 0;
  for (auto n : S.tasks_executed)
    if (n)
      ++working;
  r.label(fmt("threads=%d", S.nth));
  r.label(fmt("threads-that-executed-tasks=%d", working));
  r.label(nsub >= 2 ? "subgrids>=2" : "subgrids=1");
  if (S.n_overflow)
    r.label("buffer-overflow(full-buffer-handed-over)");
  if (S.n_premature)
    r.label("premature-launch-happened");
  if (S.n_premature_edgecorner)
    r.label("premature-launch-of-edge-or-corner-buffer");
  if (S.n_premature_inside)
    r.label("premature-launch-of-reemission-buffer");
  if (S.n_premature_xpp)
    r.label("premature-launch-of-EDGE_X_PP-buffer");
  if (S.n_p_edgecorner_traffic)
    r.label("traffic-through-a-P-edge-or-corner");
  if (S.n_exact_full)
    r.label("buffer-exactly-full");
  if (S.n_reemit)
    r.label("reemission-happened");
  if (nsub > norig)
    r.label("copies");
  if (S.n_wrap)
    r.label("periodic-wrap");
  bool onb = false, near = false;
  for (auto k : c.iv("sclass")) {
    onb = onb || k == 1;
    near = near || k >= 2;
  }
  if (onb && S.cont_mode != 1)
    r.label("source-on-boundary");
  if (near && S.cont_mode != 1)
    r.label("source-within-2ulp-of-boundary");
  if (S.cont_mode == 1)
    r.label("continuous-source-only");
  if (S.cont_mode == 2)
    r.label("discrete+continuous-sources");
  if (S.cont_mode && (S._number_of_photons - S.n_injected) % 2)
    r.label("odd-packet-count");
  if (S.cont_mode) {
    const uint64_t per_iter = S.n_cont_tasks / (uint64_t)std::max(1, S.niter);
    r.label(per_iter >= 2 ? "continuous-source-tasks>=2"
                          : "continuous-source-tasks=1");
    if (per_iter > (uint64_t)S.nth)
      r.label("continuous-source-tasks>copies(serialised-by-copy-lock)");
  }
  if (S.niter > 1)
    r.label("second-iteration");
  if (c.i("ultra"))
    r.label("ultra-opaque-cells");
  if (S.diffuse)
    r.label(fmt("diffuse=%d", S.diffuse));
  if (S._number_of_photons % PHOTONBUFFER_SIZE)
    r.label("packets-not-multiple-of-200");
  if (S.q_checks)
    r.label("quiescent-points-checked");
  if (S.n_injected)
    r.label("injected-degenerate-direction-packets");
  if (S.budget_hit)
    r.label("budget-hit");
  // cost classes (to keep the budgets honest)
  r.label(S.max_tasks_frac_ppm < 2000    ? "tasks<0.2%-of-budget"
          : S.max_tasks_frac_ppm < 20000 ? "tasks<2%-of-budget"
                                         : "tasks>=2%-of-budget");
  r.label(S.max_gap * 50 < S.stall_budget ? "longest-wait<2%-of-budget"
                                          : "longest-wait>=2%-of-budget");
  r.nontrivial = working >= 2 && nsub >= 2 &&
                 (S._number_of_photons % PHOTONBUFFER_SIZE) != 0 &&
                 (S.n_overflow > 0 || S.n_premature > 0);
  if (S.failed)
    r.fail(S.msg);
  return r;
}

} // namespace

int main(int argc, char **argv) {
  omp_set_num_threads(1);
  g_replay = argc >= 2 && std::string(argv[1]) == "--replay";
  install_crash_net();
  std::vector< VProp > props;
  props.push_back(
      {"photon_loop", 3000, gen_case, o_loop,
       "cells 2..6 per axis, 1..3 subgrids per axis (tiny subgrids frequent), "
       "periodicity only with positive density, geometry dyadic / straddling "
       "0 / arbitrary / nearly cubic, density palettes tau 0.1..30 across the "
       "box incl. opaque/transparent/empty/ultra-opaque regions, 1-3 point "
       "sources (interior, exactly on subgrid faces/edges/corners, within 2 "
       "ulp of them), optionally 1-12 injected packets with degenerate "
       "directions (axis, face diagonal, body diagonal) on cell lattice "
       "points, copy level 0..2 via create_copies, diffuse field off or fixed "
       "re-emission probability 0.05/0.364/0.9, 1..1500 packets (1/199/200/"
       "201/400 frequent), 1-2 iterations reusing all containers, 2-4 logical "
       "threads, pools above the need, schedule = choice pattern + per-thread "
       "mean run length between scheduling points at atomic-operation "
       "granularity (fair, seeded by the case). Non-trivial: >=2 threads "
       "executed tasks, >=2 subgrids, packets not a multiple of 200, at least "
       "one full buffer handed over or one premature launch",
       {{"premature-launch-happened", 0.3},
        {"buffer-overflow(full-buffer-handed-over)", 0.04},
        {"premature-launch-of-edge-or-corner-buffer", 0.1},
        {"premature-launch-of-EDGE_X_PP-buffer", 0.005},
        {"traffic-through-a-P-edge-or-corner", 0.02},
        {"buffer-exactly-full", 0.003},
        {"reemission-happened", 0.2},
        {"copies", 0.2},
        {"periodic-wrap", 0.1},
        {"source-on-boundary", 0.3},
        {"second-iteration", 0.15},
        {"quiescent-points-checked", 0.5}}});
  props.push_back(
      {"photon_loop_continuous", 1500, gen_case_continuous, o_loop,
       "the cases of photon_loop + an IsotropicContinuousPhotonSource, alone "
       "or mixed with the point sources (packets split exactly as "
       "TaskBasedIonizationSimulation does: discrete = N>>1, continuous = N - "
       "discrete), real SourceContinuousPhotonTaskContext and "
       "FlushContinuousPhotonBuffersTaskContext, one source copy per logical "
       "thread; packet counts that give 2-6 continuous source tasks frequent. "
       "Additional invariants: every continuous source buffer is empty at the "
       "end of the iteration and exactly one flush task per source copy has "
       "run. Non-trivial as photon_loop",
       {{"continuous-source-only", 0.2},
        {"discrete+continuous-sources", 0.2},
        {"continuous-source-tasks>=2", 0.3},
        {"odd-packet-count", 0.15},
        {"premature-launch-happened", 0.3},
        {"second-iteration", 0.15},
        {"quiescent-points-checked", 0.5}}});
  return vr::vmain(argc, argv, "C01", props);
}
