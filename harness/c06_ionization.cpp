// C06 - ionization and thermal balance always return a physical cell state.
//
// Generated input: a non-negative photon spectrum (mixture of 1..6 frequencies
// with weights).  The per-ion mean-intensity estimators and the two heating
// estimators of a cell are accumulated from that spectrum through the real
// VernerCrossSections class exactly like DensitySubGrid::update_intensity_
// counters / DensityGrid::update_integrals do, so they are mutually consistent
// the way a real run makes them.  The cell state (n, T), the abundances and
// the flux normalisation (target photoionization rate J_H over 23 decades, or
// "no photon reached the cell") are generated independently.
//
// Oracles: invariants (finite, bounds, per-element sums, temperature clamps, no
// abort) for the real entry points, and - for hydrogen-only gas - an
// independent long-double closed form / balance residual / monotone chains.
#include "Abundances.hpp"
#include "ChargeTransferRates.hpp"
#include "DensitySubGrid.hpp"
#include "IonizationStateCalculator.hpp"
#include "IonizationVariables.hpp"
#include "LineCoolingData.hpp"
#include "TemperatureCalculator.hpp"
#include "VernerCrossSections.hpp"
#include "VernerRecombinationRates.hpp"
#include "verif_rc.hpp"

using vr::VCase;
using vr::VProp;
using vr::VResult;
using vr::fmt;
typedef long double LD;

namespace {

// ------------------------------------------------------------ shipped tables
const VernerCrossSections &XS() {
  static VernerCrossSections x;
  return x;
}
const VernerRecombinationRates &RR() {
  static VernerRecombinationRates x;
  return x;
}
const ChargeTransferRates &CT() {
  static ChargeTransferRates x;
  return x;
}
const LineCoolingData &LC() {
  static LineCoolingData x;
  return x;
}

const double NUH = 3.289e15;   // lowest frequency any shipped spectrum emits
const double PLANCK = 6.626070040e-34;
const double FRAC_TOL = 1e-12; // "within round-off" of [0,1]

const char *ion_name(int i) {
  static const char *nm[] = {"H0",  "He0", "C+",  "C++", "N0",  "N+", "N++",
                             "O0",  "O+",  "Ne0", "Ne+", "S+",  "S++", "S+++"};
  return (i >= 0 && i < 14) ? nm[i] : "?";
}

// ------------------------------------------------------------ case <-> input
struct In {
  std::vector<double> nu, w;
  double JH;      // target photoionization rate of hydrogen (s^-1); 0 = no photon
  double n, T;    // number density (m^-3), temperature (K)
  double AHe;     // helium abundance
  double Am[5];   // C N O Ne S abundances
  double eH, eHe; // thresholds subtracted in the heating estimators (Hz)
};

In unpack(const VCase &c) {
  In s;
  s.nu = c.dv("nu");
  s.w = c.dv("w");
  s.JH = c.d("JH");
  s.n = c.d("n");
  s.T = c.d("T");
  s.AHe = c.d("AHe");
  for (int i = 0; i < 5; ++i)
    s.Am[i] = c.d("Ametal", i);
  s.eH = c.d("ethr", 0);
  s.eHe = c.d("ethr", 1);
  return s;
}

struct Est {
  double j[NUMBER_OF_IONNAMES]; // raw (unnormalised) estimators
  double hH, hHe;
  double jfac, hfac;
};

// what the photon traversal accumulates in a cell for this spectrum
Est estimators(const In &s) {
  Est e;
  for (int i = 0; i < NUMBER_OF_IONNAMES; ++i)
    e.j[i] = 0.;
  e.hH = 0.;
  e.hHe = 0.;
  if (s.JH > 0.) {
    for (size_t k = 0; k < s.nu.size(); ++k) {
      double dj[NUMBER_OF_IONNAMES];
      for (int i = 0; i < NUMBER_OF_IONNAMES; ++i) {
        dj[i] = s.w[k] * XS().get_cross_section(i, s.nu[k]);
        e.j[i] += dj[i];
      }
      e.hH += dj[ION_H_n] * (s.nu[k] - s.eH);
      e.hHe += dj[ION_He_n] * (s.nu[k] - s.eHe);
    }
  }
  // normalisation L / (total weight * cell volume): chosen such that the
  // hydrogen photoionization rate is the generated J_H
  e.jfac = (s.JH > 0. && e.j[ION_H_n] > 0.) ? s.JH / e.j[ION_H_n] : 1e-5;
  e.hfac = e.jfac * PLANCK;
  return e;
}

void fill(IonizationVariables &v, const In &s, const Est &e) {
  v.set_number_density(s.n);
  v.set_temperature(s.T);
  for (int i = 0; i < NUMBER_OF_IONNAMES; ++i) {
    v.set_mean_intensity(i, e.j[i]);
    v.set_ionic_fraction(i, 0.);
  }
  v.set_ionic_fraction(ION_H_n, 1e-6); // the initial value every grid uses
  v.set_ionic_fraction(ION_He_n, 1e-6);
  v.set_heating(HEATINGTERM_H, e.hH);
  v.set_heating(HEATINGTERM_He, e.hHe);
}

// independent hydrogen recombination rate (Verner & Ferland 1996, eq. 4,
// table 1, HI), m^3 s^-1
LD alphaH_ref(LD T) {
  const LD t1 = sqrtl(T / 3.148L), t2 = sqrtl(T / 7.036e5L);
  return 7.982e-11L * 1e-6L /
         (t1 * powl(1.L + t1, 1.L - 0.7480L) * powl(1.L + t2, 1.L + 0.7480L));
}

// stable closed form of  n a (1-x)^2 = x J
LD xH_ref(LD J, LD na) {
  if (!(J > 0.L))
    return 1.L;
  const LD C = J / na;
  return 2.L / (C + 2.L + sqrtl(C * C + 4.L * C));
}

// ------------------------------------------------------------ generators
void gen_spectrum(VCase &c) {
  const int kind = vr::weighted({5, 3, 2, 4, 2, 2});
  const int k = (int)vr::irange(1, 6);
  std::vector<double> nu, w;
  static const std::vector<double> he_edge = {5.944e15, 5.9455e15, 5.946e15,
                                              5.947e15, 5.948e15,  5.949e15};
  for (int i = 0; i < k; ++i) {
    double f;
    switch (kind) {
    case 0: // anything in [nu_H, 100 nu_H], log-uniform
      f = NUH * std::pow(10., vr::uni(0., 2.));
      break;
    case 1: // nothing above the helium threshold (1.8076 nu_H)
      f = NUH * vr::uni(1., 1.8);
      break;
    case 2: // only just above the hydrogen threshold
      f = vr::coin(0.3) ? NUH : NUH * (1. + std::pow(10., vr::uni(-12., -3.)));
      break;
    case 3: // the range every shipped stellar spectrum covers
      f = NUH * vr::uni(1., 4.);
      break;
    case 4: // straddling the helium threshold / the 5.948e15 heating offset
      f = vr::coin(0.7) ? vr::pick(he_edge) : NUH * vr::uni(1., 1.8);
      break;
    default: // hard photons only
      f = NUH * vr::uni(30., 100.);
    }
    nu.push_back(f);
    // weight * path length (m): sum of a few packets crossing a cell
    w.push_back(std::pow(10., vr::uni(12., 16.)));
  }
  c.D("nu", nu).D("w", w);
  // the two pairs of thresholds the two photon-traversal implementations use
  if (vr::coin(0.6))
    c.D("ethr", {3.288e15, 5.948e15}); // DensitySubGrid.hpp
  else
    c.D("ethr", {13.6 * 1.60217662e-19 / PLANCK,
                 24.6 * 1.60217662e-19 / PLANCK}); // DensityGrid.hpp
}

double gen_flux(bool typical = false) {
  // 23 decades plus "no photon reached this cell"
  switch (typical ? vr::weighted({1, 6, 1, 8}) : vr::weighted({2, 14, 2, 2})) {
  case 0:
    return 0.;
  case 1:
    return std::pow(10., vr::uni(-22., 1.));
  case 2: // around the 1e-20 "trivially neutral" shortcut of the H/He solver
    return 1e-20 * vr::pick(std::vector<double>{0.5, 0.999999, 1., 1.000001, 2.});
  default: // typical H II region values
    return std::pow(10., vr::uni(-12., -5.));
  }
}

double gen_density() {
  switch (vr::weighted({1, 10, 2})) {
  case 0:
    return 0.;
  case 1:
    return std::pow(10., vr::uni(4., 12.));
  default:
    return vr::pick(std::vector<double>{1e4, 1e6, 1e8, 1e12});
  }
}

double gen_temperature() {
  switch (vr::weighted({8, 2, 1})) {
  case 0:
    return std::pow(10., vr::uni(2., 5.));
  case 1:
    return vr::pick(std::vector<double>{100., 500., 4000., 8000., 1e4, 3e4, 1e5});
  default:
    return vr::uni(5000., 15000.);
  }
}

// he: 0 = any, 1 = helium present, 2 = hydrogen only
void gen_abundances(VCase &c, int he) {
  double AHe;
  if (he == 2)
    AHe = 0.;
  else {
    switch (vr::weighted({he == 0 ? 3 : 0, 4, 4, 1})) {
    case 0:
      AHe = 0.;
      break;
    case 1:
      AHe = 0.1;
      break;
    case 2:
      AHe = vr::uni(0., 0.15);
      break;
    default:
      AHe = vr::pick(std::vector<double>{1e-10, 1e-3, 0.15});
    }
  }
  std::vector<double> m(5);
  const int mk = vr::weighted({2, 3, 5});
  static const double lex[5] = {2.2e-4, 4.e-5, 3.3e-4, 5.e-5, 9.e-6};
  for (int i = 0; i < 5; ++i)
    m[i] = mk == 0 ? 0. : mk == 1 ? lex[i] : (vr::coin(0.15) ? 0. : std::pow(10., vr::uni(-8., -3.)));
  c.D("AHe", AHe).D("Ametal", m);
}

VCase gen_cell(int he, bool typical_flux = false) {
  VCase c;
  gen_spectrum(c);
  c.D("JH", gen_flux(typical_flux));
  c.D("n", gen_density());
  c.D("T", gen_temperature());
  gen_abundances(c, he);
  return c;
}

// ------------------------------------------------------------ shared checks
// returns "" if the ionic fractions form a physical state
std::string check_fractions(const IonizationVariables &v) {
  for (int i = 0; i < NUMBER_OF_IONNAMES; ++i) {
    const double x = v.get_ionic_fraction(i);
    if (!std::isfinite(x))
      return fmt("ionic fraction of %s is not finite (%g)", ion_name(i), x);
    if (x < -FRAC_TOL || x > 1. + FRAC_TOL)
      return fmt("ionic fraction of %s outside [0,1]: %.17g", ion_name(i), x);
  }
  struct {
    const char *el;
    int first, count;
  } els[] = {{"C", ION_C_p1, 2},  {"N", ION_N_n, 3},  {"O", ION_O_n, 2},
             {"Ne", ION_Ne_n, 2}, {"S", ION_S_p1, 3}};
  for (auto &e : els) {
    double sum = 0.;
    for (int i = 0; i < e.count; ++i)
      sum += v.get_ionic_fraction(e.first + i);
    if (sum > 1. + FRAC_TOL)
      return fmt("tracked stages of %s sum to %.17g > 1", e.el, sum);
  }
  return "";
}

// hydrogen-only gas: x must solve  n alpha (1-x)^2 = x J  (J = 0: x = 1)
std::string check_hydrogen(double x, bool noflux, LD J, LD na, VResult &r) {
  const LD xr = xH_ref(noflux ? 0.L : J, na);
  if (noflux) {
    if (x != 1.)
      return fmt("no ionizing radiation but neutral fraction %.17g != 1", x);
  } else if (x > 1.0000001e-14) { // not on the documented floor
    const LD res = na * (1.L - x) * (1.L - x) - x * J;
    if (fabsl(res) > 1e-9L * fmaxl(na, x * J))
      return fmt("hydrogen balance residual %Lg > 1e-9*max(n alpha=%Lg, x J=%Lg)"
                 " for x=%.17g (reference %.17Lg, C=%Lg)",
                 res, na, (LD)x * J, x, xr, J / na);
    if (fabsl(x - xr) > 1e-9L * xr)
      return fmt("hydrogen neutral fraction %.17g differs from the closed form "
                 "%.17Lg (C=%Lg)",
                 x, xr, J / na);
  } else {
    r.label("on-floor");
    if (xr > 1.0001e-14L)
      return fmt("neutral fraction on the 1e-14 floor although the balance "
                 "gives %.17Lg",
                 xr);
  }
  return "";
}

void classify(const In &s, const Est &e, VResult &r) {
  r.label(s.AHe > 0. ? "He-present" : "H-only");
  if (s.n == 0.)
    r.label("vacuum");
  if (s.JH == 0.)
    r.label("zero-flux");
  else {
    if (e.j[ION_He_n] == 0.)
      r.label("no-He-ionizing-photons");
    if (s.JH < 1e-20)
      r.label("flux-below-1e-20");
    if (s.n > 0.) {
      const double C = (double)(s.JH / (s.n * alphaH_ref(s.T)));
      if (C > 1e6)
        r.label("C>1e6");
      else if (C < 1e-6)
        r.label("C<1e-6");
    }
  }
  bool allzero = true;
  for (int i = 0; i < 5; ++i)
    allzero = allzero && s.Am[i] == 0.;
  if (allzero)
    r.label("no-metals");
}

// ------------------------------------------------------------ oracles
// (1) IonizationStateCalculator::calculate_ionization_state on one cell
VResult o_state(const VCase &c) {
  VResult r;
  const In s = unpack(c);
  const Est e = estimators(s);
  classify(s, e, r);
  Abundances ab(s.AHe, s.Am[0], s.Am[1], s.Am[2], s.Am[3], s.Am[4]);
  IonizationStateCalculator calc(1., ab, RR(), CT());
  IonizationVariables v;
  fill(v, s, e);
  try {
    calc.calculate_ionization_state(e.jfac, e.hfac, v);
  } catch (const VerifAbort &a) {
    r.fail("ionization state calculation aborted: " + a.msg);
    return r;
  }
  const double x = v.get_ionic_fraction(ION_H_n);
  r.nontrivial = s.JH > 0. && s.n > 0. && x > 1e-12 && x < 1. - 1e-12;
  std::string m = check_fractions(v);
  if (m.empty() && v.get_temperature() != s.T)
    m = fmt("temperature changed from %g to %g although no temperature "
            "computation was requested",
            s.T, v.get_temperature());
  // hydrogen-only gas: the neutral fraction solves the balance equation
  if (m.empty() && s.AHe == 0. && s.n > 0.)
    m = check_hydrogen(x, s.JH == 0., (LD)e.jfac * (LD)e.j[ION_H_n],
                       (LD)s.n * alphaH_ref(s.T), r);
  if (!m.empty())
    r.fail(m);
  return r;
}

// (1b) a history of iterations on the SAME cell object, as a real run does:
// the mean intensity counters are reset and refilled every iteration, the ionic
// fractions of the previous iteration are still in the cell when the next
// calculation starts (a stage that one branch forgets to set keeps its old
// value)
VResult o_history(const VCase &c) {
  VResult r;
  const int K = (int)c.i("iterations");
  In s0;
  s0.n = c.d("n");
  s0.T = c.d("T");
  s0.AHe = c.d("AHe");
  for (int i = 0; i < 5; ++i)
    s0.Am[i] = c.d("Ametal", i);
  s0.eH = c.d("ethr", 0);
  s0.eHe = c.d("ethr", 1);
  Abundances ab(s0.AHe, s0.Am[0], s0.Am[1], s0.Am[2], s0.Am[3], s0.Am[4]);
  IonizationStateCalculator calc(1., ab, RR(), CT());
  IonizationVariables v;
  bool had_flux = false, zero_after_flux = false, hard = false;
  for (int k = 0; k < K; ++k) {
    In s = s0;
    s.nu = c.dv(fmt("nu%d", k));
    s.w = c.dv(fmt("w%d", k));
    s.JH = c.d(fmt("JH%d", k));
    const Est e = estimators(s);
    if (k == 0) {
      fill(v, s, e);
    } else {
      // what the simulation does between iterations
      v.reset_mean_intensities();
      for (int i = 0; i < NUMBER_OF_IONNAMES; ++i)
        v.set_mean_intensity(i, e.j[i]);
      v.set_heating(HEATINGTERM_H, e.hH);
      v.set_heating(HEATINGTERM_He, e.hHe);
    }
    if (s.JH > 0.) {
      had_flux = true;
      for (double f : s.nu)
        hard = hard || f > 1.2e16;
    } else if (had_flux)
      zero_after_flux = true;
    try {
      calc.calculate_ionization_state(e.jfac, e.hfac, v);
    } catch (const VerifAbort &a) {
      r.fail(fmt("iteration %d: ionization state calculation aborted: ", k) + a.msg);
      return r;
    }
    const std::string m = check_fractions(v);
    if (!m.empty()) {
      r.fail(fmt("iteration %d of %d on the same cell: ", k, K) + m);
      return r;
    }
    if (s.n > 0. && s.JH == 0. && v.get_ionic_fraction(ION_H_n) != 1.) {
      r.fail(fmt("iteration %d: no ionizing radiation but hydrogen neutral "
                 "fraction %.17g",
                 k, v.get_ionic_fraction(ION_H_n)));
      return r;
    }
  }
  r.label(s0.AHe > 0. ? "He-present" : "H-only");
  if (zero_after_flux)
    r.label("zero-flux-after-irradiation");
  if (hard)
    r.label("hard-photons");
  r.nontrivial = had_flux && K >= 2 && s0.n > 0.;
  return r;
}

// (2) TemperatureCalculator::calculate_temperature on one cell
VResult o_temperature(const VCase &c) {
  VResult r;
  const In s = unpack(c);
  const Est e = estimators(s);
  classify(s, e, r);
  const double pah = c.d("pahfac"), cr = c.d("crfac");
  if (pah > 0.)
    r.label("PAH-heating");
  if (cr > 0.)
    r.label("cosmic-ray-heating");
  Abundances ab(s.AHe, s.Am[0], s.Am[1], s.Am[2], s.Am[3], s.Am[4]);
  TemperatureCalculator tc(true, 0, 1., ab, c.d("eps"), (uint_fast32_t)c.i("maxit"),
                           pah, cr, 0.75, c.d("crscale"), 4000., LC(), RR(),
                           CT(), nullptr);
  IonizationVariables v;
  fill(v, s, e);
  try {
    tc.calculate_temperature(v, e.jfac, e.hfac,
                             CoordinateVector<>(0., 0., c.d("z")));
  } catch (const VerifAbort &a) {
    r.fail("temperature calculation aborted: " + a.msg);
    return r;
  }
  const double x = v.get_ionic_fraction(ION_H_n);
  const double T = v.get_temperature();
  r.nontrivial = s.JH > 0. && s.n > 0. && x > 1e-12 && x < 1. - 1e-12;
  if (T == 500.)
    r.label("T=500K-neutral");
  else if (T == 30000.)
    r.label("T=30000K-cap");
  else
    r.label("T-interior");
  std::string m = check_fractions(v);
  if (m.empty() && !(std::isfinite(T) && T >= 500. && T <= 30000.))
    m = fmt("temperature %.17g outside the documented bounds [500 K, 30000 K]", T);
  if (!m.empty())
    r.fail(m);
  return r;
}

// (3) hydrogen-only chains: monotone in J and in n*alpha
//     kind 0/1: the static closed-form routine, kind 2/3: the cell entry point
VResult o_chain(const VCase &c) {
  VResult r;
  const int kind = (int)c.i("kind");
  const std::vector<double> &f = c.dv("factor"); // cumulative, non-decreasing
  const size_t K = f.size();
  std::vector<double> x(K);
  std::vector<LD> xr(K), Cs(K);
  static const char *kn[] = {"static-J-chain", "static-n.alpha-chain",
                             "cell-flux-chain", "cell-density-chain"};
  r.label(kn[kind]);
  try {
    if (kind <= 1) {
      const double a = c.d("alpha"), J0 = c.d("JH"), n0 = c.d("n");
      for (size_t i = 0; i < K; ++i) {
        const double J = kind == 0 ? J0 * f[i] : J0;
        const double n = kind == 1 ? n0 * f[i] : n0;
        x[i] = IonizationStateCalculator::compute_ionization_state_hydrogen(a, J, n);
        Cs[i] = (LD)J / ((LD)n * (LD)a);
        xr[i] = xH_ref(J, (LD)n * (LD)a);
      }
    } else {
      In s = unpack(c);
      Abundances ab(0., s.Am[0], s.Am[1], s.Am[2], s.Am[3], s.Am[4]);
      IonizationStateCalculator calc(1., ab, RR(), CT());
      const Est e0 = estimators(s);
      for (size_t i = 0; i < K; ++i) {
        In t = s;
        Est e = e0;
        if (kind == 2) {
          e.jfac = e0.jfac * f[i];
          e.hfac = e.jfac * PLANCK;
        } else
          t.n = s.n * f[i];
        IonizationVariables v;
        fill(v, t, e);
        calc.calculate_ionization_state(e.jfac, e.hfac, v);
        x[i] = v.get_ionic_fraction(ION_H_n);
        const LD J = (LD)e.jfac * (LD)e.j[ION_H_n];
        const LD na = (LD)t.n * alphaH_ref(t.T);
        Cs[i] = J / na;
        xr[i] = xH_ref(J, na);
        const std::string m = check_fractions(v);
        if (!m.empty()) {
          r.fail(m);
          return r;
        }
      }
    }
  } catch (const VerifAbort &a) {
    r.fail("hydrogen ionization state aborted: " + a.msg);
    return r;
  }
  // direction: J up -> x down ; n*alpha up -> x up
  const bool down = (kind == 0 || kind == 2);
  bool tie = false, neartie = false, window = false, nt = false;
  for (size_t i = 0; i < K; ++i) {
    if (!(std::isfinite(x[i]) && x[i] >= 0. && x[i] <= 1.)) {
      r.fail(fmt("neutral fraction %.17g at chain position %zu (C=%Lg)", x[i], i,
                 Cs[i]));
      return r;
    }
    if (x[i] > 1e-12 && x[i] < 1. - 1e-12)
      nt = true;
    if (Cs[i] > 1e6L && Cs[i] < 1e11L)
      window = true;
    if (i == 0)
      continue;
    const double step = f[i] / f[i - 1] - 1.;
    if (step == 0.)
      tie = true;
    else if (step < 1e-9)
      neartie = true;
    // the closed form is accurate to ~5e-11 (its Taylor branch starts at
    // C=4e10 with relative truncation error 2/C): only violations beyond
    // 1e-10 relative are strict
    const double hi = down ? x[i - 1] : x[i], lo = down ? x[i] : x[i - 1];
    if (lo > hi * (1. + 1e-10)) {
      r.fail(fmt("neutral fraction not monotone: x=%.17g at C=%Lg but x=%.17g "
                 "at C=%Lg (references %.17Lg, %.17Lg)",
                 x[i - 1], Cs[i - 1], x[i], Cs[i], xr[i - 1], xr[i]));
      return r;
    }
    if (step == 0. && x[i] != x[i - 1]) {
      r.fail(fmt("identical inputs give different neutral fractions %.17g vs "
                 "%.17g",
                 x[i - 1], x[i]));
      return r;
    }
  }
  if (tie)
    r.label("has-exact-tie");
  if (neartie)
    r.label("has-near-tie");
  if (window)
    r.label("C-in-1e6..1e11");
  r.nontrivial = nt;
  return r;
}

VCase gen_chain() {
  const int kind = vr::weighted({4, 4, 2, 2});
  VCase c;
  if (kind <= 1) {
    const double T = gen_temperature();
    // the recombination rate any caller passes: the shipped fit at some T
    c.D("alpha", RR().get_recombination_rate(ION_H_n, T));
    c.D("n", std::pow(10., vr::uni(4., 12.)));
  } else {
    c = gen_cell(2);
    if (c.d("n") == 0.) {
      // the chain needs gas; keep the rest of the generated cell
      for (auto &p : c.dd)
        if (p.first == "n")
          p.second[0] = 1e8;
    }
  }
  // place the start of the chain: anywhere / around the window where the
  // closed form is hardest (1e6 < C < 1e11) / around the Taylor switch C=4e10 /
  // around the 1e-14 floor (C = 1e14)
  const double n = c.d("n");
  const double na = n * (kind <= 1 ? c.d("alpha")
                                   : (double)alphaH_ref(c.d("T")));
  double C0;
  switch (vr::weighted({4, 4, 2, 1})) {
  case 0:
    C0 = std::pow(10., vr::uni(-8., 16.));
    break;
  case 1:
    C0 = std::pow(10., vr::uni(5., 11.));
    break;
  case 2:
    C0 = 4e10 * (1. + vr::uni(-1e-3, 1e-3));
    break;
  default:
    C0 = 1e14 * std::pow(10., vr::uni(-1., 1.));
  }
  const double J0 = C0 * na;
  if (kind <= 1)
    c.D("JH", J0);
  else
    for (auto &p : c.dd)
      if (p.first == "JH")
        p.second[0] = J0;
  const int K = (int)vr::irange(3, 8);
  std::vector<double> f(K);
  f[0] = 1.;
  for (int i = 1; i < K; ++i) {
    double ratio;
    switch (vr::weighted({5, 2, 2, 1})) {
    case 0:
      ratio = std::pow(10., vr::uni(0., 2.));
      break;
    case 1:
      ratio = 1. + std::pow(10., vr::uni(-15.5, -3.));
      break;
    case 2:
      ratio = 1. + std::pow(10., vr::uni(-3., 0.));
      break;
    default:
      ratio = 1.;
    }
    f[i] = f[i - 1] * ratio;
  }
  c.D("factor", f);
  c.I("kind", kind);
  return c;
}

// (4) the call site of the task-based algorithm: a whole subgrid, the
//     normalisation L / (total weight * cell volume) computed by the code, the
//     temperature computation switched on or off
VResult o_subgrid(const VCase &c) {
  VResult r;
  const In s0 = unpack(c);
  const Est e0 = estimators(s0);
  classify(s0, e0, r);
  const bool flag = c.i("do_temperature") != 0;
  const int loop = (int)c.i("loop"), minloop = (int)c.i("minloop");
  const bool active = flag && loop > minloop;
  r.label(active ? "temperature-on" : (flag ? "temperature-too-early" : "temperature-off"));
  const double side = c.d("side"), totweight = c.d("totweight");
  double box[6] = {c.d("anchor", 0), c.d("anchor", 1), c.d("anchor", 2),
                   side, side, 2. * side};
  DensitySubGrid sub(box, CoordinateVector< int_fast32_t >(1, 1, 2));
  const double V = side * side * side;
  // luminosity such that L / (totweight V) is the generated normalisation
  const double L = e0.jfac * totweight * V;
  Abundances ab(s0.AHe, s0.Am[0], s0.Am[1], s0.Am[2], s0.Am[3], s0.Am[4]);
  TemperatureCalculator tc(flag, (uint_fast32_t)minloop, L, ab, 1e-3, 100, 0., 0.,
                           0.75, 0., 4000., LC(), RR(), CT(), nullptr);
  In s[2] = {s0, s0};
  s[1].n = c.d("n2");
  s[1].T = c.d("T2");
  const double wscale = c.d("wscale2"); // the second cell saw a different flux
  int k = 0;
  for (auto it = sub.begin(); it != sub.end(); ++it, ++k) {
    Est e = e0;
    if (k == 1) {
      for (int i = 0; i < NUMBER_OF_IONNAMES; ++i)
        e.j[i] *= wscale;
      e.hH *= wscale;
      e.hHe *= wscale;
    }
    fill(it.get_ionization_variables(), s[k], e);
  }
  if (k != 2) {
    r.fail(fmt("subgrid has %d cells instead of 2", k));
    return r;
  }
  try {
    tc.calculate_temperature((uint_fast32_t)loop, totweight, sub);
  } catch (const VerifAbort &a) {
    r.fail("subgrid temperature/ionization calculation aborted: " + a.msg);
    return r;
  }
  k = 0;
  for (auto it = sub.begin(); it != sub.end(); ++it, ++k) {
    const IonizationVariables &v = it.get_ionization_variables();
    const double x = v.get_ionic_fraction(ION_H_n), T = v.get_temperature();
    if (s[k].JH > 0. && s[k].n > 0. && x > 1e-12 && x < 1. - 1e-12)
      r.nontrivial = true;
    std::string m = check_fractions(v);
    if (m.empty()) {
      if (active) {
        if (!(std::isfinite(T) && T >= 500. && T <= 30000.))
          m = fmt("temperature %.17g outside [500 K, 30000 K]", T);
      } else if (T != s[k].T)
        m = fmt("temperature computation disabled but the temperature changed "
                "from %.17g to %.17g",
                s[k].T, T);
      else if (s0.AHe == 0. && s[k].n > 0.) {
        // the normalisation the code must have used: L / (totweight V)
        const LD jH = (LD)e0.jfac * (LD)e0.j[ION_H_n] * (k == 1 ? (LD)wscale : 1.L);
        m = check_hydrogen(x, !(jH > 0.L), jH, (LD)s[k].n * alphaH_ref(s[k].T), r);
      }
    }
    if (!m.empty()) {
      r.fail(fmt("cell %d: ", k) + m);
      return r;
    }
  }
  return r;
}

VCase gen_history() {
  VCase c;
  const int K = (int)vr::irange(2, 5);
  c.I("iterations", K);
  for (int k = 0; k < K; ++k) {
    VCase t;
    gen_spectrum(t);
    c.D(fmt("nu%d", k), t.dv("nu")).D(fmt("w%d", k), t.dv("w"));
    // zero flux is frequent: a cell that was irradiated and then shadowed
    c.D(fmt("JH%d", k), (k > 0 && vr::coin(0.35)) ? 0. : gen_flux(vr::coin(0.7)));
    if (k == 0)
      c.D("ethr", t.dv("ethr"));
  }
  double n = gen_density();
  if (n == 0. && vr::coin(0.8))
    n = std::pow(10., vr::uni(4., 12.));
  c.D("n", n);
  c.D("T", gen_temperature());
  gen_abundances(c, 0);
  return c;
}

VCase gen_subgrid_case() {
  VCase c = gen_cell(0, vr::coin(0.3));
  c.I("do_temperature", vr::coin(0.5) ? 1 : 0);
  const int minloop = (int)vr::irange(0, 5);
  c.I("minloop", minloop);
  // the comparison is "loop > minimum": make the boundary frequent
  c.I("loop", vr::coin(0.5) ? minloop + vr::irange(0, 1) : vr::irange(0, 10));
  c.D("side", std::pow(10., vr::uni(13., 18.)));
  c.D("anchor", {vr::uni(-1e17, 1e17), vr::uni(-1e17, 1e17), vr::uni(-1e17, 1e17)});
  c.D("totweight", std::pow(10., vr::uni(2., 8.)));
  c.D("n2", gen_density());
  c.D("T2", gen_temperature());
  c.D("wscale2", vr::coin(0.2) ? 0. : std::pow(10., vr::uni(-6., 6.)));
  return c;
}

VCase gen_temperature_case() {
  // half of the cells get H II region fluxes: that is where the iteration
  // ends between the clamps
  VCase c = gen_cell(0, vr::coin(0.5));
  c.D("eps", vr::coin(0.8) ? 1e-3 : vr::pick(std::vector<double>{1e-2, 1e-5}));
  c.I("maxit", vr::coin(0.8) ? 100 : vr::irange(1, 30));
  // PAH and cosmic-ray heating are optional extras (default off)
  c.D("pahfac", vr::coin(0.85) ? 0. : vr::pick(std::vector<double>{0.1, 1., 10.}));
  c.D("crfac", 0.);
  c.D("crscale", 0.);
  c.D("z", 0.);
  return c;
}

} // namespace

int main(int argc, char **argv) {
  std::vector<VProp> props;
  const std::string dom =
      "cell estimators accumulated through VernerCrossSections from a generated "
      "spectrum (1-6 frequencies in [3.289e15 Hz, 100x]; classes: generic "
      "log-uniform, nothing above the He threshold, only just above the H "
      "threshold, stellar range, straddling the He threshold, hard only), "
      "normalised to J_H = 10^U(-22,1) s^-1 (plus exact 0 = no photon reached "
      "the cell, plus values around the 1e-20 shortcut); n in {0} u "
      "10^U(4,12) m^-3; T in 10^U(2,5) K; He abundance {0, 0.1, U(0,0.15), "
      "1e-10, 1e-3, 0.15}; metal abundances {0, Lexington, 10^U(-8,-3)}. "
      "Non-trivial = J_H>0, n>0 and 1e-12 < x_H < 1-1e-12.";
  props.push_back({"state_physical", 2000000, [] { return gen_cell(0); }, o_state,
                   dom + " Oracle: no abort, all ionic fractions finite and in "
                         "[-1e-12,1+1e-12], tracked stages per metal sum to <= "
                         "1+1e-12, temperature untouched; hydrogen-only: balance "
                         "residual <= 1e-9 max(n alpha, x J) and agreement with "
                         "the long-double closed form.",
                   {{"He-present", 0.3},
                    {"H-only", 0.15},
                    {"C>1e6", 0.1},
                    {"no-He-ionizing-photons", 0.1},
                    {"zero-flux", 0.03},
                    {"vacuum", 0.02}}});
  props.push_back({"state_history", 300000, gen_history, o_history,
                   "2-5 iterations on the same cell object (reset_mean_intensities "
                   "+ new estimators from a new spectrum/flux, 35% zero flux after "
                   "the first iteration, ionic fractions of the previous iteration "
                   "left in place as in a real run); bounds and sums after every "
                   "iteration. Non-trivial: >=2 iterations, some flux, n>0.",
                   {{"zero-flux-after-irradiation", 0.2}}});
  props.push_back({"hydrogen_balance", 1200000, [] { return gen_cell(2); }, o_state,
                   dom + " Hydrogen-only gas (He abundance exactly 0) through "
                         "the cell entry point; same oracle as state_physical.",
                   {{"C>1e6", 0.1}, {"C<1e-6", 0.02}}});
  props.push_back({"hydrogen_monotone", 1200000, gen_chain, o_chain,
                   "hydrogen-only chains of 3-8 inputs ordered in J (x must not "
                   "increase) or in n*alpha (x must not decrease), through the "
                   "static closed-form routine and through the cell entry point; "
                   "chain starts placed anywhere in C=J/(n alpha)=10^U(-8,16), in "
                   "1e5..1e11, within 1e-3 of the Taylor switch 4e10, around the "
                   "floor C=1e14; steps 10^U(0,2), 1+10^U(-15.5,-3), 1+10^U(-3,0) "
                   "and exact ties. Violations beyond 1e-10 relative are strict. "
                   "Non-trivial = some 1e-12 < x < 1-1e-12 in the chain.",
                   {{"has-near-tie", 0.2},
                    {"has-exact-tie", 0.1},
                    {"C-in-1e6..1e11", 0.2}}});
  props.push_back({"temperature_physical", 400000, gen_temperature_case,
                   o_temperature,
                   dom + " TemperatureCalculator::calculate_temperature with the "
                         "default parameters (epsilon 1e-3, 100 iterations, "
                         "minimum ionized temperature 4000 K; 20% other "
                         "epsilon/iteration limits, 15% PAH heating). Oracle: no "
                         "abort, fractions as above, temperature finite and in "
                         "[500 K, 30000 K].",
                   {{"He-present", 0.3}, {"T-interior", 0.05}}});
  props.push_back({"subgrid_call_site", 300000, gen_subgrid_case, o_subgrid,
                   dom + " Two-cell DensitySubGrid (cell side 10^U(13,18) m, total "
                         "weight 10^U(2,8), luminosity chosen so that L/(totweight V) "
                         "gives the generated J_H; second cell with its own n, T and a "
                         "flux scaled by 10^U(-6,6) or 0) through TemperatureCalculator::"
                         "calculate_temperature(loop, totweight, subgrid) with the "
                         "temperature computation on/off and loop around the minimum "
                         "iteration number. Oracle: no abort, fractions physical, T in "
                         "[500 K, 30000 K] when the computation is active and bit-identical "
                         "to the input otherwise.",
                   {{"temperature-on", 0.1},
                    {"temperature-off", 0.2},
                    {"temperature-too-early", 0.1}}});
  return vr::vmain(argc, argv, "C06", props);
}
