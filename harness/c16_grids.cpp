// C16 - every position maps to exactly one cell; legacy grid traversal
// conserves path; search structures return the brute-force answer.
//
// Sub-checks (each one: generated input -> real code -> independent oracle):
//   amr_tree      AMRGrid<T>: refinement histories; enumeration first->next,
//                 key bijection, geometry, volumes, position lookup (get_key /
//                 get_cell) incl. positions exactly on walls, neighbour pointers
//   cart_locate   CartesianDensityGrid: lookup, volumes, iteration, neighbours
//   cart_ray      CartesianDensityGrid::interact / integrate_optical_depth
//   amr_ray       AMRDensityGrid::interact after two-stage refinement
//   octree        Octree searches == brute force
//   pointloc      PointLocations::get_closest_neighbour == brute force
//   morton        MortonKeyGenerator == independent bit interleave
//
// Oracles are written from the mathematics (long double slab intersections,
// integer tree model for the AMR hierarchy, brute force for the searches); the
// only thing taken from the code under test is the documented geometry
// definition (anchor + i * side).  (VoronoiDensityGrid traversal is not covered.)
//
// Findings of this check that were repaired in /repo (regression cases in
// replays/C16/prefix-F*.case, reverse patches regress/unfix-F*.diff): F8 block /
// child index vs. anchors, F22 Cartesian index == ncell below the upper face,
// F23 absorbed in the last cell reported as escaped, F24 wrong child after a
// periodic wrap into a refined neighbour, F25 endless loop in a periodic
// single-block dimension, F26 PointLocations bucket index out of range.
#include "AMRDensityGrid.hpp"
#include "AMRGrid.hpp"
#include "AMRRefinementScheme.hpp"
#include "CartesianDensityGrid.hpp"
#include "DensityFunction.hpp"
#include "DensityValues.hpp"
#include "HomogeneousDensityFunction.hpp"
#include "MortonKeyGenerator.hpp"
#include "Octree.hpp"
#include "Photon.hpp"
#include "PointLocations.hpp"
#include "VoronoiDensityGrid.hpp"
#include "VoronoiGeneratorDistribution.hpp"

#include "c16_guard.hpp"
#include "verif_rc.hpp"

#include <cfloat>
#include <memory>

using vr::VCase;
using vr::VProp;
using vr::VResult;
using vr::fmt;
typedef CoordinateVector<> Vec;
typedef long double LD;

namespace {

const double EPS = 0x1p-52;
// ------------------------------------------------------------------ utilities
uint64_t mix64(uint64_t x) {
  x += 0x9e3779b97f4a7c15ull;
  x = (x ^ (x >> 30)) * 0xbf58476d1ce4e5b9ull;
  x = (x ^ (x >> 27)) * 0x94d049bb133111ebull;
  return x ^ (x >> 31);
}
// deterministic pseudo-random number in [0,1) as a pure function of its inputs
double h01(uint64_t seed, uint64_t id, uint64_t k) {
  return (double)(mix64(mix64(seed * 0x100000001b3ull + id) + k) >> 11) *
         0x1p-53;
}

struct Geo {
  double a[3], L[3];
  bool per[3];
  Box<> box() const { return Box<>(Vec(a[0], a[1], a[2]), Vec(L[0], L[1], L[2])); }
  double top(int i) const { return a[i] + L[i]; } // as Box::get_top_anchor
  double scale() const {
    double s = 0.;
    for (int i = 0; i < 3; ++i)
      s = std::max(s, std::max(std::abs(a[i]), std::abs(a[i] + L[i])));
    return s;
  }
  double diag() const { return std::sqrt(L[0] * L[0] + L[1] * L[1] + L[2] * L[2]); }
  double volume() const { return L[0] * L[1] * L[2]; }
};

Geo geo_of(const VCase &c) {
  Geo g;
  for (int i = 0; i < 3; ++i) {
    g.a[i] = c.d("box_a", i);
    g.L[i] = c.d("box_L", i);
    g.per[i] = c.has_i("periodic") ? c.i("periodic", i) != 0 : false;
  }
  return g;
}

// box generator: unit, dyadic, decimal (parameter-file like), generic, physical
std::string gen_box(VCase &c, bool allow_flat = true) {
  double a[3], L[3];
  const int cls = vr::weighted({2, 2, 4, 3, 2});
  const bool cubic = vr::coin(0.4);
  std::string name;
  for (int i = 0; i < 3; ++i) {
    switch (cls) {
    case 0:
      a[i] = 0.;
      L[i] = 1.;
      name = "box-unit";
      break;
    case 1:
      a[i] = vr::dyadic(-4., 4., 3);
      L[i] = std::ldexp(1., (int)vr::irange(-2, 3));
      name = "box-dyadic";
      break;
    case 2:
      L[i] = (double)vr::irange(100, 9999) / 1000.;
      a[i] = vr::coin(0.5) ? -0.5 * L[i]
                           : (vr::coin(0.3) ? 0. : (double)vr::irange(-5000, 5000) / 1000.);
      name = "box-decimal";
      break;
    case 3:
      L[i] = vr::logu(0.05, 20.);
      a[i] = vr::coin(0.3) ? 0. : vr::uni(-3., 3.) * L[i];
      name = "box-generic";
      break;
    default:
      L[i] = (double)vr::irange(100, 9999) / 1000. * 3.0857e16;
      a[i] = vr::coin(0.6) ? -0.5 * L[i] : 0.;
      name = "box-physical";
      break;
    }
    if (cubic && i > 0) {
      a[i] = a[0];
      L[i] = L[0];
    }
  }
  if (!cubic && allow_flat && vr::coin(0.15)) {
    // strongly elongated box
    const int k = (int)vr::irange(0, 2);
    L[k] *= (double)vr::irange(4, 20);
  }
  c.D("box_a", {a[0], a[1], a[2]}).D("box_L", {L[0], L[1], L[2]});
  return name;
}

void gen_periodic(VCase &c) {
  int64_t p[3] = {0, 0, 0};
  switch (vr::weighted({4, 2, 4})) {
  case 0:
    break;
  case 1:
    p[0] = p[1] = p[2] = 1;
    break;
  default:
    for (int i = 0; i < 3; ++i)
      p[i] = vr::coin(0.5);
  }
  c.I("periodic", {p[0], p[1], p[2]});
}

// cell / block counts incl. odd and mixed factors, 1x1xn
void gen_counts(int64_t n[3], int64_t maxn, int64_t maxprod) {
  static const std::vector<std::vector<int64_t>> shapes = {
      {3, 5, 7}, {6, 4, 2}, {1, 1, 8}, {1, 1, 5}, {5, 1, 1}, {2, 3, 4},
      {7, 7, 7}, {5, 5, 5}, {3, 3, 3}, {9, 2, 1}, {4, 4, 4}, {8, 8, 8},
      {1, 1, 1}, {2, 2, 2}, {6, 6, 6}, {1, 7, 1}, {3, 1, 2}, {10, 6, 3}};
  if (vr::coin(0.45)) {
    const auto &s = vr::pick(shapes);
    const int rot = (int)vr::irange(0, 2);
    for (int i = 0; i < 3; ++i)
      n[i] = std::min(maxn, s[(i + rot) % 3]);
  } else {
    for (int i = 0; i < 3; ++i)
      n[i] = vr::irange(1, maxn);
  }
  while (n[0] * n[1] * n[2] > maxprod) {
    int k = 0;
    for (int i = 1; i < 3; ++i)
      if (n[i] > n[k])
        k = i;
    n[k] = (n[k] + 1) / 2;
  }
}

// ---------------------------------------------------------------- opacities
struct Opac {
  double n, xH, xHe;
};
Opac opac_of(uint64_t seed, uint64_t id, bool transparent_ok, double lscale) {
  Opac o;
  o.n = std::pow(10., 2. * h01(seed, id, 0) - 1.) / lscale;
  const double u = h01(seed, id, 1);
  if (transparent_ok && u < 0.15)
    o.xH = 0.;
  else if (u < 0.4)
    o.xH = 1.;
  else
    o.xH = 1e-3 + 0.999 * h01(seed, id, 2);
  o.xHe = h01(seed, id, 3) < 0.5 ? 0. : h01(seed, id, 4);
  return o;
}
const double SIGMA_H = 1.;

// ------------------------------------------------- generic ray oracle (boxes)
struct BCell {
  LD lo[3], hi[3];
  double kappa;
};
struct Seg {
  LD t0, t1;
  int cell;
};

struct Ray {
  double p[3], d[3], tau, sHe;
};

// intersections (positive length) of the ray with all cells and their periodic
// images, clipped to [0,tmax]; closed form slab intersections
std::vector<Seg> ray_segments(const std::vector<BCell> &cells, const Geo &g,
                              const Ray &r, LD tmax) {
  // the periodic images pierced by the ray: between two consecutive crossings
  // of periodic faces the image shift is constant
  std::vector<LD> cross;
  cross.push_back(0.L);
  cross.push_back(tmax);
  for (int i = 0; i < 3; ++i) {
    if (!g.per[i] || r.d[i] == 0.)
      continue;
    const LD x0 = r.p[i], x1 = (LD)r.p[i] + tmax * (LD)r.d[i];
    const LD lo = std::min(x0, x1), hi = std::max(x0, x1);
    const long k0 = (long)std::floor((double)((lo - g.a[i]) / g.L[i])) - 1;
    const long k1 = (long)std::floor((double)((hi - g.a[i]) / g.L[i])) + 1;
    if (k1 - k0 > 200000)
      return std::vector<Seg>(); // (excluded by the generators)
    for (long k = k0; k <= k1; ++k) {
      const LD t = ((LD)g.a[i] + (LD)k * (LD)g.L[i] - (LD)r.p[i]) / (LD)r.d[i];
      if (t > 0.L && t < tmax)
        cross.push_back(t);
    }
  }
  std::sort(cross.begin(), cross.end());
  std::vector<Seg> out;
  for (size_t ci = 0; ci + 1 < cross.size(); ++ci) {
    const LD ta0 = cross[ci], tb0 = cross[ci + 1];
    if (!(tb0 > ta0))
      continue;
    const LD tm = 0.5L * (ta0 + tb0);
    LD s[3] = {0.L, 0.L, 0.L};
    for (int i = 0; i < 3; ++i)
      if (g.per[i])
        s[i] = std::floor(((LD)r.p[i] + tm * (LD)r.d[i] - (LD)g.a[i]) / (LD)g.L[i]);
    for (size_t ic = 0; ic < cells.size(); ++ic) {
      const BCell &c = cells[ic];
      LD t0 = ta0, t1 = tb0;
      bool empty = false;
      for (int i = 0; i < 3 && !empty; ++i) {
        const LD lo = c.lo[i] + s[i] * (LD)g.L[i];
        const LD hi = c.hi[i] + s[i] * (LD)g.L[i];
        if (r.d[i] == 0.) {
          if (!((LD)r.p[i] >= lo && (LD)r.p[i] < hi))
            empty = true;
        } else {
          LD ta = (lo - (LD)r.p[i]) / (LD)r.d[i];
          LD tb = (hi - (LD)r.p[i]) / (LD)r.d[i];
          if (ta > tb)
            std::swap(ta, tb);
          t0 = std::max(t0, ta);
          t1 = std::min(t1, tb);
          if (!(t1 > t0))
            empty = true;
        }
      }
      if (!empty && t1 > t0)
        out.push_back(Seg{t0, t1, (int)ic});
    }
  }
  std::sort(out.begin(), out.end(), [](const Seg &x, const Seg &y) {
    return x.t0 < y.t0 || (x.t0 == y.t0 && x.t1 < y.t1);
  });
  return out;
}

// distance to the first non-periodic box face along the ray (inf if none)
LD ray_exit(const Geo &g, const Ray &r) {
  LD t = INFINITY;
  for (int i = 0; i < 3; ++i) {
    if (g.per[i] || r.d[i] == 0.)
      continue;
    const LD w = r.d[i] > 0. ? (LD)g.a[i] + (LD)g.L[i] : (LD)g.a[i];
    t = std::min(t, (w - (LD)r.p[i]) / (LD)r.d[i]);
  }
  return std::max(t, 0.L);
}

struct RayExpect {
  bool too_long = false;
  LD l_exit = 0, l_abs = 0, l_end = 0; // l_abs = inf if tau never reached
  std::vector<LD> path;                // expected path per cell
  LD tau_used = 0;
  size_t nseg = 0;
  std::vector<Seg> segs;
};

// travelled length at which the optical depth 'tau' is reached (inf if it is not
// reached on the given segments)
template <typename CELLS> LD l_of_tau(const std::vector<Seg> &segs, const CELLS &cells, LD tau) {
  LD acc = 0.L;
  if (tau <= 0.L)
    return 0.L;
  for (const Seg &s : segs) {
    const LD k = cells[s.cell].kappa;
    const LD dt = s.t1 - s.t0;
    if (k > 0.L && acc + k * dt >= tau)
      return s.t0 + std::max(0.L, (tau - acc) / k);
    acc += k * dt;
  }
  return INFINITY;
}

RayExpect ray_expect(const std::vector<BCell> &cells, const Geo &g,
                     const Ray &r) {
  RayExpect e;
  e.l_exit = ray_exit(g, r);
  LD tmax = std::min(e.l_exit, 4.L * (LD)g.diag());
  for (int i = 0; i < 3; ++i)
    if (g.per[i] && r.d[i] != 0.)
      tmax = std::min(tmax, (LD)(12. * g.L[i] / std::abs(r.d[i])));
  for (int round = 0; round < 3; ++round) {
    const std::vector<Seg> segs = ray_segments(cells, g, r, tmax);
    e.path.assign(cells.size(), 0.L);
    LD tau = 0.L;
    e.l_abs = INFINITY;
    e.nseg = segs.size();
    for (const Seg &s : segs) {
      const LD k = cells[s.cell].kappa;
      const LD dt = s.t1 - s.t0;
      if (k > 0.L && tau + k * dt >= (LD)r.tau) {
        const LD part = ((LD)r.tau - tau) / k;
        e.l_abs = s.t0 + part;
        e.path[s.cell] += part;
        tau = r.tau;
        break;
      }
      tau += k * dt;
      e.path[s.cell] += dt;
    }
    e.tau_used = tau;
    e.segs = segs;
    if (!std::isinf((double)e.l_abs) || tmax >= e.l_exit) {
      e.l_end = std::min(e.l_abs, e.l_exit);
      return e;
    }
    tmax = std::min(e.l_exit, tmax * 4.L);
  }
  e.too_long = true;
  return e;
}

// is the (axis aligned or planar) ray running inside a wall plane of a cell?
bool ray_in_wall_plane(const std::vector<BCell> &cells, const Ray &r, LD tol) {
  for (int i = 0; i < 3; ++i) {
    if (r.d[i] != 0.)
      continue;
    for (const BCell &c : cells)
      if (std::abs((LD)r.p[i] - c.lo[i]) <= tol || std::abs((LD)r.p[i] - c.hi[i]) <= tol)
        return true;
  }
  return false;
}

double dmin_of(const Ray &r) {
  double m = 1.;
  for (int i = 0; i < 3; ++i)
    if (r.d[i] != 0.)
      m = std::min(m, std::abs(r.d[i]));
  return m;
}

// directions: generic, axis aligned, planar, exact diagonals, grazing
void gen_direction(double d[3], std::string &cls) {
  switch (vr::weighted({8, 3, 3, 3, 1})) {
  case 0: {
    for (;;) {
      double n2 = 0.;
      for (int i = 0; i < 3; ++i) {
        d[i] = vr::uni(-1., 1.);
        n2 += d[i] * d[i];
      }
      if (n2 > 0.01 && n2 <= 1.) {
        const double n = std::sqrt(n2);
        for (int i = 0; i < 3; ++i)
          d[i] /= n;
        break;
      }
    }
    cls = "dir-generic";
    break;
  }
  case 1: {
    d[0] = d[1] = d[2] = 0.;
    d[vr::irange(0, 2)] = vr::coin() ? 1. : -1.;
    cls = "dir-axis";
    break;
  }
  case 2: {
    const int k = (int)vr::irange(0, 2);
    const double phi = vr::uni(0., 2. * M_PI);
    d[k] = 0.;
    d[(k + 1) % 3] = std::cos(phi);
    d[(k + 2) % 3] = std::sin(phi);
    if (d[(k + 1) % 3] == 0. || d[(k + 2) % 3] == 0.) {
      d[(k + 1) % 3] = 0.6;
      d[(k + 2) % 3] = 0.8;
    }
    cls = "dir-planar";
    break;
  }
  case 3: {
    const int zero = (int)vr::irange(0, 3); // 3: full diagonal
    int nz = 0;
    for (int i = 0; i < 3; ++i) {
      d[i] = (i == zero) ? 0. : (vr::coin() ? 1. : -1.);
      nz += d[i] != 0.;
    }
    const double n = std::sqrt((double)nz);
    for (int i = 0; i < 3; ++i)
      d[i] /= n;
    cls = "dir-diagonal";
    break;
  }
  default: {
    const int k = (int)vr::irange(0, 2);
    const double tiny = std::pow(10., -(double)vr::irange(6, 12));
    d[k] = vr::coin() ? tiny : -tiny;
    const double phi = vr::uni(0.1, 1.4);
    const double s = std::sqrt(1. - tiny * tiny);
    d[(k + 1) % 3] = s * std::cos(phi) * (vr::coin() ? 1 : -1);
    d[(k + 2) % 3] = s * std::sin(phi) * (vr::coin() ? 1 : -1);
    cls = "dir-grazing";
  }
  }
}

// a position in the half-open box; 'walls' are candidate wall coordinates per
// dimension (documented geometry of the grid)
// Upper limit as the photon producers of the code clamp it
// (IsotropicContinuousPhotonSource: top - epsilon * side).
double clamp_half_open(const Geo &g, int i, double x) {
  if (x < g.a[i])
    x = g.a[i];
  x = std::min(x, g.top(i) - EPS * g.L[i]);
  if (!(x < g.top(i)))
    x = std::nextafter(g.top(i), -INFINITY);
  return x;
}
// a position "just below" an interior wall: below it by the same margin
double just_below(const Geo &g, int i, double wall) {
  double x = wall - EPS * g.L[i];
  if (!(x < wall))
    x = std::nextafter(wall, -INFINITY);
  return x;
}

// ---------------------------------------------------------------------------
//                                   AMR model
// ---------------------------------------------------------------------------
struct MNode {
  int level;
  int b[3];        // block indices
  int64_t ic[3];   // integer coordinates inside the block at this level
  int child[8];    // -1 if leaf
  int parent;
  bool leaf() const { return child[0] < 0; }
};

struct MTree {
  int nb[3];
  std::vector<MNode> nodes;
  std::vector<int> roots; // x-major, z fastest (as AMRGrid stores its blocks)

  void init(const int nblock[3]) {
    nodes.clear();
    roots.clear();
    for (int i = 0; i < 3; ++i)
      nb[i] = nblock[i];
    for (int x = 0; x < nb[0]; ++x)
      for (int y = 0; y < nb[1]; ++y)
        for (int z = 0; z < nb[2]; ++z) {
          MNode n;
          n.level = 0;
          n.b[0] = x;
          n.b[1] = y;
          n.b[2] = z;
          n.ic[0] = n.ic[1] = n.ic[2] = 0;
          for (int k = 0; k < 8; ++k)
            n.child[k] = -1;
          n.parent = -1;
          roots.push_back((int)nodes.size());
          nodes.push_back(n);
        }
  }
  int root(int x, int y, int z) const { return roots[(x * nb[1] + y) * nb[2] + z]; }
  void split(int id) {
    for (int k = 0; k < 8; ++k) {
      MNode n;
      n.level = nodes[id].level + 1;
      for (int i = 0; i < 3; ++i)
        n.b[i] = nodes[id].b[i];
      // child number = 4*ix + 2*iy + iz (AMRChildPosition)
      n.ic[0] = 2 * nodes[id].ic[0] + ((k >> 2) & 1);
      n.ic[1] = 2 * nodes[id].ic[1] + ((k >> 1) & 1);
      n.ic[2] = 2 * nodes[id].ic[2] + (k & 1);
      for (int j = 0; j < 8; ++j)
        n.child[j] = -1;
      n.parent = id;
      nodes[id].child[k] = (int)nodes.size();
      nodes.push_back(n);
    }
  }
  void split_all(int id, int level) {
    if (nodes[id].level >= level)
      return;
    if (nodes[id].leaf())
      split(id);
    for (int k = 0; k < 8; ++k)
      split_all(nodes[id].child[k], level);
  }
  void leaves_dfs(int id, std::vector<int> &out) const {
    if (nodes[id].leaf()) {
      out.push_back(id);
      return;
    }
    for (int k = 0; k < 8; ++k)
      leaves_dfs(nodes[id].child[k], out);
  }
  std::vector<int> leaves() const {
    std::vector<int> out;
    for (int r : roots)
      leaves_dfs(r, out);
    return out;
  }
  // key as documented in AMRGrid.hpp: block part (3 x 10 bits) in the upper 32
  // bits; cell part: 3 bits per level, coarsest level in the lowest bits,
  // terminated by a 1 bit
  uint64_t key(int id) const {
    const MNode &n = nodes[id];
    uint64_t cell = 0;
    for (int il = 0; il < n.level; ++il) {
      const int sh = n.level - 1 - il;
      const uint64_t ci = (((n.ic[0] >> sh) & 1) << 2) | (((n.ic[1] >> sh) & 1) << 1) |
                          ((n.ic[2] >> sh) & 1);
      cell += ci << (3 * il);
    }
    cell += 1ull << (3 * n.level);
    const uint64_t block = ((uint64_t)n.b[0] << 20) + ((uint64_t)n.b[1] << 10) + (uint64_t)n.b[2];
    return (block << 32) + cell;
  }
  // global integer coordinate of a node at its own level
  int64_t gc(int id, int i) const {
    return ((int64_t)nodes[id].b[i] << nodes[id].level) + nodes[id].ic[i];
  }
  // leaf containing the lattice point k (lattice of depth D inside each block)
  int leaf_of_lattice(const int64_t k[3], int D) const {
    int b[3];
    int64_t in[3];
    for (int i = 0; i < 3; ++i) {
      b[i] = (int)(k[i] >> D);
      in[i] = k[i] & ((1ll << D) - 1);
    }
    int id = root(b[0], b[1], b[2]);
    int lev = 0;
    while (!nodes[id].leaf()) {
      const int sh = D - 1 - lev;
      const int ci = (int)((((in[0] >> sh) & 1) << 2) | (((in[1] >> sh) & 1) << 1) |
                           ((in[2] >> sh) & 1));
      id = nodes[id].child[ci];
      ++lev;
    }
    return id;
  }
  // deepest node of level <= maxlevel that covers the region of the node-sized
  // cell with global coordinates gcx at level 'level' (used for neighbours)
  int cover(const int64_t gcx[3], int level, int maxlevel) const {
    int b[3];
    int64_t in[3];
    for (int i = 0; i < 3; ++i) {
      b[i] = (int)(gcx[i] >> level);
      in[i] = gcx[i] & ((1ll << level) - 1);
    }
    int id = root(b[0], b[1], b[2]);
    int lev = 0;
    while (!nodes[id].leaf() && lev < maxlevel) {
      const int sh = level - 1 - lev;
      const int ci = (int)((((in[0] >> sh) & 1) << 2) | (((in[1] >> sh) & 1) << 1) |
                           ((in[2] >> sh) & 1));
      id = nodes[id].child[ci];
      ++lev;
    }
    return id;
  }
  void real_box(int id, const Geo &g, LD lo[3], LD hi[3]) const {
    const MNode &n = nodes[id];
    for (int i = 0; i < 3; ++i) {
      const LD s = (LD)g.L[i] / (LD)nb[i];
      const LD w = s / (LD)(1ll << n.level);
      lo[i] = (LD)g.a[i] + s * (LD)n.b[i] + w * (LD)n.ic[i];
      hi[i] = lo[i] + w;
    }
  }
};

// ---------------------------------------------------------------------------
//                       sub-check amr_tree (AMRGrid<size_t>)
// ---------------------------------------------------------------------------
const int LAT = 9; // target lattice depth inside a block (targets are midpoints)

VCase gen_amr_tree() {
  VCase c;
  c.S("boxclass", gen_box(c));
  gen_periodic(c);
  int64_t nb[3];
  gen_counts(nb, 7, 48);
  int64_t level0 = vr::weighted({5, 4, 2});
  while (nb[0] * nb[1] * nb[2] * (1ll << (3 * level0)) > 600)
    --level0;
  c.I("nblock", {nb[0], nb[1], nb[2]});
  c.I("level0", level0);
  // refinement history: operations "refine the leaf containing target t"
  const int ntarget = (int)vr::irange(1, 4);
  std::vector<int64_t> tg;
  for (int t = 0; t < ntarget; ++t)
    for (int i = 0; i < 3; ++i)
      tg.push_back(vr::irange(0, (nb[i] << LAT) - 1));
  c.I("targets", tg);
  const int nops = (int)vr::irange(0, 14);
  std::vector<int64_t> ops;
  const bool deep = vr::coin(0.4); // mostly the same target: reaches depth 8
  for (int k = 0; k < nops; ++k)
    ops.push_back(deep && vr::coin(0.8) ? 0 : vr::irange(0, ntarget - 1));
  c.I("ops", ops);
  // position queries
  const int nq = 24;
  std::vector<double> qsel, qfrac;
  std::vector<int64_t> qmode;
  for (int q = 0; q < nq; ++q) {
    qsel.push_back(vr::uni());
    for (int i = 0; i < 3; ++i) {
      qmode.push_back(vr::weighted({5, 4, 2}));
      qfrac.push_back(vr::uni());
    }
  }
  c.D("qsel", qsel).D("qfrac", qfrac).I("qmode", qmode);
  return c;
}

VResult o_amr_tree(const VCase &c) {
  VResult r;
  const Geo g = geo_of(c);
  int nb[3];
  for (int i = 0; i < 3; ++i)
    nb[i] = (int)c.i("nblock", i);
  const int level0 = (int)c.i("level0");
  r.label(c.s("boxclass"));
  const bool odd = (nb[0] % 2 == 1 && nb[0] > 1) || (nb[1] % 2 == 1 && nb[1] > 1) ||
                   (nb[2] % 2 == 1 && nb[2] > 1);
  if (odd)
    r.label("odd-block-factor");

  AMRGrid<size_t> grid(g.box(), CoordinateVector<uint_fast32_t>(nb[0], nb[1], nb[2]));
  grid.create_all_cells(level0);
  MTree M;
  M.init(nb);
  for (int rt : std::vector<int>(M.roots))
    M.split_all(rt, level0);

  const auto &tg = c.iv("targets");
  const auto &ops = c.iv("ops");
  const double scale = g.scale();
  int maxlevel_seen = level0;

  std::vector<std::string> fails;
  auto addfail = [&](const std::string &m, const std::string &) {
    if (fails.size() < 50)
      fails.push_back(m);
  };

  auto check_structure = [&](const char *when) -> bool {
    const std::vector<int> lv = M.leaves();
    if (grid.get_number_of_cells() != lv.size()) {
      addfail(fmt("%s: get_number_of_cells() = %zu, model has %zu leaves", when,
                  (size_t)grid.get_number_of_cells(), lv.size()),
              "");
      return false;
    }
    // enumeration first -> next must be exactly the Morton (depth first) order
    amrkey_t key = grid.get_first_key();
    size_t idx = 0;
    LD vsum = 0.L, vabs = 0.L;
    while (key != grid.get_max_key()) {
      if (idx >= lv.size()) {
        addfail(fmt("%s: enumeration yields more than %zu keys (extra key %llx)",
                    when, lv.size(), (unsigned long long)key), "");
        return false;
      }
      const uint64_t mk = M.key(lv[idx]);
      if (key != mk) {
        addfail(fmt("%s: enumeration step %zu: key %llx, expected %llx (level %d)",
                    when, idx, (unsigned long long)key, (unsigned long long)mk,
                    M.nodes[lv[idx]].level), "");
        return false;
      }
      AMRGridCell<size_t> &cell = grid[key];
      if (!cell.is_single_cell()) {
        addfail(fmt("%s: key %llx does not address a leaf", when, (unsigned long long)key), "");
        return false;
      }
      cell.value() = idx;
      if ((int)cell.get_level() != M.nodes[lv[idx]].level) {
        addfail(fmt("%s: key %llx: level %d, expected %d", when, (unsigned long long)key,
                    (int)cell.get_level(), M.nodes[lv[idx]].level), "");
        return false;
      }
      // geometry against the real-number box of the model
      LD lo[3], hi[3];
      M.real_box(lv[idx], g, lo, hi);
      const Box<> gb = cell.get_geometry();
      for (int i = 0; i < 3; ++i) {
        const double tol = 16. * EPS * (scale + g.L[i]) * (1 + M.nodes[lv[idx]].level);
        if (std::abs((LD)gb.get_anchor()[i] - lo[i]) > tol ||
            std::abs((LD)gb.get_sides()[i] - (hi[i] - lo[i])) > tol) {
          addfail(fmt("%s: key %llx geometry dim %d: anchor %.17g side %.17g, expected "
                      "%.17Lg / %.17Lg",
                      when, (unsigned long long)key, i, gb.get_anchor()[i],
                      gb.get_sides()[i], lo[i], hi[i] - lo[i]), "");
          return false;
        }
      }
      vsum += cell.get_volume();
      vabs += std::abs(cell.get_volume());
      ++idx;
      key = grid.get_next_key(key);
    }
    if (idx != lv.size()) {
      addfail(fmt("%s: enumeration visits %zu leaves, the grid has %zu", when, idx, lv.size()), "");
      return false;
    }
    if (std::abs(vsum - (LD)g.volume()) > 8. * EPS * (double)vabs * (lv.size() + 8)) {
      addfail(fmt("%s: sum of leaf volumes %.17Lg != box volume %.17g", when, vsum, g.volume()), "");
      return false;
    }
    return true;
  };

  const size_t half = ops.size() / 2;
  for (size_t k = 0; k < ops.size(); ++k) {
    if (k == half && k > 0) {
      if (!check_structure("mid-history")) {
        r.fail(fails[0]);
        return r;
      }
    }
    const int64_t *t = &tg[3 * ops[k]];
    const int leaf = M.leaf_of_lattice(t, LAT);
    if (M.nodes[leaf].level >= 8)
      continue;
    const uint64_t mk = M.key(leaf);
    const amrkey_t first = grid.refine_cell(mk);
    M.split(leaf);
    maxlevel_seen = std::max(maxlevel_seen, M.nodes[leaf].level + 1);
    if (first != M.key(M.nodes[leaf].child[0])) {
      r.fail(fmt("refine_cell(%llx) returned %llx, expected first child key %llx",
                 (unsigned long long)mk, (unsigned long long)first,
                 (unsigned long long)M.key(M.nodes[leaf].child[0])));
      return r;
    }
  }
  if (!check_structure("end-of-history")) {
    r.fail(fails[0]);
    return r;
  }
  const std::vector<int> lv = M.leaves();
  int minlevel = 99;
  for (int id : lv)
    minlevel = std::min(minlevel, M.nodes[id].level);
  r.label(fmt("depth-%d", maxlevel_seen >= 6 ? 6 : maxlevel_seen) + (maxlevel_seen >= 6 ? "+" : ""));
  r.nontrivial = maxlevel_seen >= 2 && maxlevel_seen > minlevel;
  if (odd)
    r.nontrivial = true;

  // ------------------------------------------------------------ neighbours
  grid.set_ngbs(CoordinateVector<bool>(g.per[0], g.per[1], g.per[2]));
  {
    // every node (leaf or internal) of the model, not only the leaves
    for (size_t id = 0; id < M.nodes.size(); ++id) {
      const MNode &n = M.nodes[id];
      uint64_t k = M.key((int)id);
      AMRGridCell<size_t> &cell = grid[k];
      for (int dir = 0; dir < 6; ++dir) {
        const int dim = dir / 2;
        const int sgn = (dir % 2) ? +1 : -1; // LEFT,RIGHT,FRONT,BACK,BOTTOM,TOP
        int64_t gcx[3] = {M.gc((int)id, 0), M.gc((int)id, 1), M.gc((int)id, 2)};
        gcx[dim] += sgn;
        const int64_t span = (int64_t)nb[dim] << n.level;
        bool outside = false;
        if (gcx[dim] < 0 || gcx[dim] >= span) {
          if (g.per[dim])
            gcx[dim] = (gcx[dim] + span) % span;
          else
            outside = true;
        }
        AMRGridCell<size_t> *ngb = cell.get_ngb((AMRNgbPosition)dir);
        if (outside) {
          if (ngb != nullptr)
            addfail(fmt("node %llx dir %d: neighbour outside a non-periodic box is not null",
                        (unsigned long long)M.key((int)id), dir),
                    "");
          continue;
        }
        const int exp = M.cover(gcx, n.level, n.level);
        uint64_t ek = M.key(exp);
        AMRGridCell<size_t> *expcell = &grid[ek];
        if (ngb != expcell) {
          addfail(fmt("node %llx (level %d) dir %d: neighbour pointer is %s, expected node "
                      "%llx (level %d)",
                      (unsigned long long)M.key((int)id), n.level, dir,
                      ngb == nullptr ? "null" : fmt("level %d anchor %g %g %g", (int)ngb->get_level(),
                                                    ngb->get_geometry().get_anchor()[0],
                                                    ngb->get_geometry().get_anchor()[1],
                                                    ngb->get_geometry().get_anchor()[2])
                                                    .c_str(),
                      (unsigned long long)M.key(exp), M.nodes[exp].level),
                  "");
          continue;
        }
        // mutual: a same-level neighbour must point back
        if (M.nodes[exp].level == n.level) {
          AMRGridCell<size_t> *back = ngb->get_ngb((AMRNgbPosition)(dir ^ 1));
          if (back != &cell)
            addfail(fmt("node %llx dir %d: same-level neighbour does not point back",
                        (unsigned long long)M.key((int)id), dir),
                    "");
        }
      }
    }
  }

  // ------------------------------------------------------------ position lookup
  const int nq = (int)c.dv("qsel").size();
  int nwall = 0, nblockwall = 0, ntie = 0;
  std::map<uint64_t, size_t> keyleaf;
  for (size_t j = 0; j < lv.size(); ++j)
    keyleaf[M.key(lv[j])] = j;
  for (int q = 0; q < nq; ++q) {
    size_t li = (size_t)(c.d("qsel", q) * lv.size());
    if (li >= lv.size())
      li = lv.size() - 1;
    // bias towards the most refined region: every 3rd query picks the deepest leaf
    if (q % 3 == 0) {
      for (size_t j = 0; j < lv.size(); ++j)
        if (M.nodes[lv[j]].level > M.nodes[lv[li]].level)
          li = j;
    }
    const int id = lv[li];
    const MNode &n = M.nodes[id];
    const uint64_t mk = M.key(id);
    uint64_t mk2 = mk;
    const Box<> gb = grid[mk2].get_geometry();
    LD lo[3], hi[3];
    M.real_box(id, g, lo, hi);
    double x[3];
    bool onwall[3] = {false, false, false}, below[3] = {false, false, false};
    for (int i = 0; i < 3; ++i) {
      const int mode = (int)c.i("qmode", 3 * q + i);
      const double f = c.d("qfrac", 3 * q + i);
      const double a = gb.get_anchor()[i], s = gb.get_sides()[i];
      if (mode == 1) {
        x[i] = a; // exactly on the lower wall of the leaf (documented geometry)
        onwall[i] = true;
      } else if (mode == 2) {
        // a few ulp below the upper wall (the walls themselves are only defined
        // up to rounding: anchor + side vs. the anchor of the next cell)
        const double top = std::min(a + s, (double)hi[i]);
        x[i] = just_below(g, i, top);
        if (x[i] < a)
          x[i] = a;
        below[i] = true;
      } else {
        x[i] = a + (0.05 + 0.9 * f) * s;
      }
    }
    const bool anywall = onwall[0] || onwall[1] || onwall[2];
    nwall += anywall;
    for (int i = 0; i < 3; ++i)
      if (onwall[i] && n.ic[i] == 0 && n.b[i] > 0)
        ++nblockwall;
    const std::string known; // (no open finding)
    const Vec pos(x[0], x[1], x[2]);
    // classification of an answer that is not the expected leaf:
    //  0 = wrong, 1 = tie of the geometry (a position a few ulp below a wall
    //  may be given to the cell above: cell boxes agree only up to rounding)
    auto classify = [&](uint64_t kk) -> int {
      auto itk = keyleaf.find(kk);
      if (itk == keyleaf.end())
        return 0;
      uint64_t k2 = kk;
      const Box<> b2 = grid[k2].get_geometry();
      for (int i = 0; i < 3; ++i) {
        const double a2 = b2.get_anchor()[i], t2 = a2 + b2.get_sides()[i];
        // a position exactly on the lower wall of a leaf belongs to that leaf
        // (half-open boxes, Box::inside): the lookup compares with the very
        // anchors the cells are built with, so this is exact
        if (onwall[i]) {
          if (x[i] >= a2 && x[i] < t2)
            continue;
          return 0;
        }
        // otherwise: closed box of the answer, widened by a few ulp (the top of
        // a cell and the anchor of the next one agree only up to rounding)
        const double tolw = 8. * EPS * (scale + g.L[i]);
        if (x[i] >= a2 - tolw && x[i] <= t2 + tolw)
          continue;
        return 0;
      }
      return 1;
    };
    try {
      const amrkey_t kk = grid.get_key(pos);
      uint64_t accepted = mk;
      if (kk != mk) {
        if (classify(kk) == 1) {
          ++ntie;
          accepted = kk;
        } else {
          addfail(fmt("get_key(%.17g, %.17g, %.17g) = %llx, but the position lies in leaf "
                      "%llx (level %d, anchor %.17g %.17g %.17g, sides %.17g %.17g %.17g)",
                      x[0], x[1], x[2], (unsigned long long)kk, (unsigned long long)mk,
                      n.level, gb.get_anchor()[0], gb.get_anchor()[1], gb.get_anchor()[2],
                      gb.get_sides()[0], gb.get_sides()[1], gb.get_sides()[2]),
                  known);
          continue;
        }
      }
      const size_t v = grid.get_cell(pos);
      if (v != keyleaf[accepted]) {
        addfail(fmt("get_cell(%.17g, %.17g, %.17g) returns leaf #%zu, get_key names leaf #%zu "
                    "(key %llx)",
                    x[0], x[1], x[2], v, keyleaf[accepted], (unsigned long long)accepted),
                known);
        continue;
      }
    } catch (const VerifAbort &e) {
      addfail(fmt("position lookup aborts for (%.17g, %.17g, %.17g) inside leaf %llx "
                  "(level %d): %s",
                  x[0], x[1], x[2], (unsigned long long)mk, n.level, e.msg.c_str()),
              known);
    }
  }
  if (ntie)
    r.label("ulp-below-wall-in-upper-leaf(tie)");
  if (nwall)
    r.label("query-on-leaf-wall");
  if (nblockwall)
    r.label("query-on-block-wall");
  if (!fails.empty())
    r.fail(fails[0]);
  return r;
}

// ---------------------------------------------------------------------------
//                     Cartesian grid: model and sub-checks
// ---------------------------------------------------------------------------
std::vector<BCell> cart_cells(const Geo &g, const int64_t n[3], uint64_t kseed,
                              bool transparent_ok, double sHe, std::vector<Opac> *op) {
  std::vector<BCell> cells;
  cells.reserve((size_t)(n[0] * n[1] * n[2]));
  const double lscale = std::max(g.L[0], std::max(g.L[1], g.L[2]));
  for (int64_t ix = 0; ix < n[0]; ++ix)
    for (int64_t iy = 0; iy < n[1]; ++iy)
      for (int64_t iz = 0; iz < n[2]; ++iz) {
        BCell c;
        const int64_t idx[3] = {ix, iy, iz};
        for (int i = 0; i < 3; ++i) {
          c.lo[i] = (LD)g.a[i] + (LD)g.L[i] * (LD)idx[i] / (LD)n[i];
          c.hi[i] = (LD)g.a[i] + (LD)g.L[i] * (LD)(idx[i] + 1) / (LD)n[i];
        }
        const uint64_t id = (uint64_t)((ix * n[1] + iy) * n[2] + iz);
        const Opac o = opac_of(kseed, id, transparent_ok, lscale);
        c.kappa = o.n * (SIGMA_H * o.xH + sHe * o.xHe);
        if (op)
          op->push_back(o);
        cells.push_back(c);
      }
  return cells;
}

VCase gen_cart_locate() {
  VCase c;
  c.S("boxclass", gen_box(c));
  gen_periodic(c);
  int64_t n[3];
  gen_counts(n, 12, 1500);
  c.I("ncell", {n[0], n[1], n[2]});
  const int nq = 32;
  std::vector<double> qsel, qfrac;
  std::vector<int64_t> qmode;
  for (int q = 0; q < nq; ++q) {
    qsel.push_back(vr::uni());
    for (int i = 0; i < 3; ++i) {
      qmode.push_back(vr::weighted({4, 4, 2}));
      qfrac.push_back(vr::uni());
    }
  }
  c.D("qsel", qsel).D("qfrac", qfrac).I("qmode", qmode);
  return c;
}

VResult o_cart_locate(const VCase &c) {
  VResult r;
  const Geo g = geo_of(c);
  int64_t n[3];
  for (int i = 0; i < 3; ++i)
    n[i] = c.i("ncell", i);
  r.label(c.s("boxclass"));
  const bool odd = (n[0] % 2 && n[0] > 1) || (n[1] % 2 && n[1] > 1) || (n[2] % 2 && n[2] > 1);
  if (odd)
    r.label("odd-cell-count");
  r.nontrivial = n[0] * n[1] * n[2] > 1;
  CartesianDensityGrid grid(g.box(), CoordinateVector<int_fast32_t>(n[0], n[1], n[2]),
                            CoordinateVector<bool>(g.per[0], g.per[1], g.per[2]));
  const size_t N = (size_t)(n[0] * n[1] * n[2]);
  if (grid.get_number_of_cells() != N) {
    r.fail(fmt("get_number_of_cells() = %zu, expected %zu", (size_t)grid.get_number_of_cells(), N));
    return r;
  }
  // iteration visits every index exactly once
  {
    std::vector<int> seen(N, 0);
    size_t cnt = 0;
    LD vsum = 0.L;
    for (auto it = grid.begin(); it != grid.end(); ++it) {
      if (it.get_index() >= N) {
        r.fail(fmt("iteration yields index %zu >= %zu", (size_t)it.get_index(), N));
        return r;
      }
      ++seen[it.get_index()];
      vsum += it.get_volume();
      if (++cnt > N)
        break;
    }
    for (size_t i = 0; i < N; ++i)
      if (seen[i] != 1) {
        r.fail(fmt("iteration visits cell %zu %d times", i, seen[i]));
        return r;
      }
    if (std::abs(vsum - (LD)g.volume()) > 8. * EPS * g.volume() * (N + 8)) {
      r.fail(fmt("sum of cell volumes %.17Lg != box volume %.17g", vsum, g.volume()));
      return r;
    }
  }
  const double scale = g.scale();
  const int nq = (int)c.dv("qsel").size();
  int nlower = 0, nwallq = 0, nupper = 0;
  for (int q = 0; q < nq; ++q) {
    size_t li = std::min(N - 1, (size_t)(c.d("qsel", q) * N));
    int64_t idx[3];
    idx[0] = (int64_t)li / (n[1] * n[2]);
    idx[1] = ((int64_t)li / n[2]) % n[1];
    idx[2] = (int64_t)li % n[2];
    // geometry the grid reports for this cell against the real-number box
    const Box<> gb = grid.get_cell(li);
    double x[3];
    bool onwall[3] = {false, false, false}, below[3] = {false, false, false};
    for (int i = 0; i < 3; ++i) {
      const LD lo = (LD)g.a[i] + (LD)g.L[i] * (LD)idx[i] / (LD)n[i];
      const LD hi = (LD)g.a[i] + (LD)g.L[i] * (LD)(idx[i] + 1) / (LD)n[i];
      const double tol = 16. * EPS * (scale + g.L[i]);
      if (std::abs((LD)gb.get_anchor()[i] - lo) > tol ||
          std::abs((LD)gb.get_sides()[i] - (hi - lo)) > tol) {
        r.fail(fmt("cell %zu geometry dim %d: anchor %.17g side %.17g, expected %.17Lg / %.17Lg",
                   li, i, gb.get_anchor()[i], gb.get_sides()[i], lo, hi - lo));
        return r;
      }
      const int mode = (int)c.i("qmode", 3 * q + i);
      const double f = c.d("qfrac", 3 * q + i);
      const double a = gb.get_anchor()[i], s = gb.get_sides()[i];
      if (mode == 1) {
        x[i] = a;
        onwall[i] = true;
      } else if (mode == 2) {
        // the largest double strictly below the upper wall, whichever way the
        // wall is computed (top of this cell, anchor of the next, real number)
        double top = std::min(a + s, (double)hi);
        if (idx[i] + 1 < n[i]) {
          const size_t stride = (size_t)(i == 0 ? n[1] * n[2] : (i == 1 ? n[2] : 1));
          top = std::min(top, grid.get_cell(li + stride).get_anchor()[i]);
        } else
          top = std::min(top, g.top(i));
        x[i] = just_below(g, i, top);
        if (x[i] < a)
          x[i] = a;
        below[i] = true;
      } else
        x[i] = a + (0.05 + 0.9 * f) * s;
      x[i] = clamp_half_open(g, i, x[i]);
    }
    const bool anywall = onwall[0] || onwall[1] || onwall[2];
    nwallq += anywall;
    const size_t got = grid.get_cell_index(Vec(x[0], x[1], x[2]));
    if (got == li)
      continue;
    // which cell did we get?  On an exact wall the lower neighbour also contains
    // the position in its closed box, and the cell boxes themselves are only
    // defined up to an ulp (anchor + side of a cell and the anchor of the next
    // differ in the last bit): a position within 4 ulp below a wall may be
    // assigned to the upper neighbour.  Both are ties of the geometry.
    bool tie = got < N;
    if (tie) {
      int64_t gidx[3];
      gidx[0] = (int64_t)got / (n[1] * n[2]);
      gidx[1] = ((int64_t)got / n[2]) % n[1];
      gidx[2] = (int64_t)got % n[2];
      for (int i = 0; i < 3; ++i) {
        if (gidx[i] == idx[i])
          continue;
        if (onwall[i] && gidx[i] == idx[i] - 1)
          continue;
        if (below[i] && gidx[i] == idx[i] + 1 &&
            x[i] >= grid.get_cell(got).get_anchor()[i] - 4. * EPS * (scale + g.L[i])) {
          ++nupper;
          continue;
        }
        tie = false;
      }
    }
    if (tie) {
      ++nlower;
      continue;
    }
    r.fail(fmt("get_cell_index(%.17g, %.17g, %.17g) = %zu, but the position lies in cell %zu "
               "= (%lld,%lld,%lld) with anchor %.17g %.17g %.17g, sides %.17g %.17g %.17g",
               x[0], x[1], x[2], got, li, (long long)idx[0], (long long)idx[1],
               (long long)idx[2], gb.get_anchor()[0], gb.get_anchor()[1], gb.get_anchor()[2],
               gb.get_sides()[0], gb.get_sides()[1], gb.get_sides()[2]));
    return r;
  }
  if (nwallq)
    r.label("query-on-cell-wall");
  if (nlower)
    r.label("wall-position-in-lower-cell(tie)");
  if (nupper)
    r.label("ulp-below-wall-in-upper-cell(tie)");

  // neighbours of a few cells: 6 entries, mutual, opposite normals, periodic wrap
  for (int q = 0; q < std::min(nq, 8); ++q) {
    const size_t li = std::min(N - 1, (size_t)(c.d("qsel", q) * N));
    int64_t idx[3] = {(int64_t)li / (n[1] * n[2]), ((int64_t)li / n[2]) % n[1], (int64_t)li % n[2]};
    auto ngbs = grid.get_neighbours(li);
    if (ngbs.size() != 6) {
      r.fail(fmt("cell %zu has %zu neighbour entries, expected 6", li, ngbs.size()));
      return r;
    }
    std::set<int> dirs;
    for (auto &t : ngbs) {
      const Vec nrm = std::get<2>(t);
      int dim = -1, sgn = 0;
      for (int i = 0; i < 3; ++i)
        if (nrm[i] != 0.) {
          if (dim >= 0)
            dim = 99;
          else {
            dim = i;
            sgn = nrm[i] > 0 ? 1 : -1;
          }
        }
      if (dim < 0 || dim > 2 || std::abs(nrm[dim]) != 1.) {
        r.fail(fmt("cell %zu: neighbour normal (%g,%g,%g) is not an axis unit vector", li, nrm[0], nrm[1], nrm[2]));
        return r;
      }
      dirs.insert(2 * dim + (sgn > 0));
      int64_t e[3] = {idx[0], idx[1], idx[2]};
      e[dim] += sgn;
      bool outside = false;
      if (e[dim] < 0 || e[dim] >= n[dim]) {
        if (g.per[dim])
          e[dim] = (e[dim] + n[dim]) % n[dim];
        else
          outside = true;
      }
      const size_t gotn = std::get<0>(t).get_index();
      if (outside) {
        if (gotn != N) {
          r.fail(fmt("cell %zu dim %d sgn %d: neighbour across a non-periodic face is cell %zu, expected end()", li, dim, sgn, gotn));
          return r;
        }
        continue;
      }
      const size_t expn = (size_t)((e[0] * n[1] + e[1]) * n[2] + e[2]);
      if (gotn != expn) {
        r.fail(fmt("cell %zu dim %d sgn %d: neighbour is cell %zu, expected %zu", li, dim, sgn, gotn, expn));
        return r;
      }
      // relative position: one cell side along the normal (also across the wrap)
      const Vec rel = std::get<4>(t);
      for (int i = 0; i < 3; ++i) {
        const double ex = (i == dim) ? sgn * g.L[i] / n[i] : 0.;
        if (std::abs(rel[i] - ex) > 64. * EPS * (scale + g.L[i])) {
          r.fail(fmt("cell %zu dim %d sgn %d: relative neighbour position[%d] = %.17g, expected %.17g", li, dim, sgn, i, rel[i], ex));
          return r;
        }
      }
      // area
      const double area = g.L[(dim + 1) % 3] / n[(dim + 1) % 3] * g.L[(dim + 2) % 3] / n[(dim + 2) % 3];
      if (std::abs(std::get<3>(t) - area) > 16. * EPS * area) {
        r.fail(fmt("cell %zu dim %d: face area %.17g, expected %.17g", li, dim, std::get<3>(t), area));
        return r;
      }
      // mutual
      bool back = false;
      for (auto &u : grid.get_neighbours(expn)) {
        const Vec n2 = std::get<2>(u);
        if (std::get<0>(u).get_index() == li && n2[dim] == -nrm[dim])
          back = true;
      }
      if (!back) {
        r.fail(fmt("cell %zu is a neighbour of %zu but not vice versa (dim %d)", expn, li, dim));
        return r;
      }
    }
    if (dirs.size() != 6) {
      r.fail(fmt("cell %zu: neighbour list covers only %zu of 6 directions", li, dirs.size()));
      return r;
    }
  }
  return r;
}

// ------------------------------------------------------------------ rays
// shared ray generator for the box grids.  'cells' is the model of the grid.
void gen_rays(VCase &c, const Geo &g, const std::vector<BCell> &cells, int nray,
              double sHe) {
  std::vector<double> P, D, T;
  std::vector<std::string> cls;
  std::string labels;
  for (int k = 0; k < nray; ++k) {
    Ray r;
    r.sHe = sHe;
    std::string dcls;
    gen_direction(r.d, dcls);
    // start position: generic, on the lower wall of a cell, on the lower box
    // face, just below the upper box face
    const BCell &pc = cells[vr::irange(0, (int64_t)cells.size() - 1)];
    for (int i = 0; i < 3; ++i) {
      switch (vr::weighted({6, 3, 1, 1})) {
      case 0:
        r.p[i] = (double)pc.lo[i] + vr::uni() * (double)(pc.hi[i] - pc.lo[i]);
        break;
      case 1:
        r.p[i] = (double)pc.lo[i];
        break;
      case 2:
        r.p[i] = g.a[i];
        break;
      default:
        r.p[i] = g.top(i); // clamped below like the photon producers do
      }
      r.p[i] = clamp_half_open(g, i, r.p[i]);
    }
    // target: a travel length, converted to an optical depth with the model
    LD tau = 0.L;
    int mode = 0;
    for (int attempt = 0; attempt < 2; ++attempt) {
      const LD lexit = ray_exit(g, r);
      // "no exit": none at all, or (grazing direction through periodic
      // dimensions) only after a huge number of wraps
      // ... or after more than ~40 box crossings of a periodic dimension
      LD wrapbound = 3. * g.diag();
      for (int i = 0; i < 3; ++i)
        if (g.per[i] && r.d[i] != 0.)
          wrapbound = std::min(wrapbound, (LD)(40. * g.L[i] / std::abs(r.d[i])));
      const bool noexit = !(lexit <= wrapbound);
      LD ltarget;
      mode = vr::weighted({6, 3, 2});
      if (noexit && mode == 1)
        mode = 0;
      const LD lref = noexit ? wrapbound * 0.2L : lexit;
      if (mode == 0)
        ltarget = lref * (LD)vr::uni();
      else if (mode == 1)
        ltarget = lref;
      else {
        // exactly at a wall crossing of the ray
        const std::vector<Seg> segs = ray_segments(cells, g, r, lref);
        if (segs.empty())
          ltarget = lref * 0.5L;
        else
          ltarget = segs[vr::irange(0, (int64_t)segs.size() - 1)].t1;
      }
      // optical depth along [0, ltarget]
      tau = 0.L;
      {
        const std::vector<Seg> segs = ray_segments(cells, g, r, std::max(ltarget, (LD)1e-300));
        for (const Seg &s : segs)
          tau += (LD)cells[s.cell].kappa * (s.t1 - s.t0);
      }
      if (mode == 1) // beyond the exit
        tau = (tau > 0.L ? tau : 1.L) * (LD)(1.02 + 2. * vr::uni());
      if (tau > 0.L)
        break;
      if (!noexit) {
        tau = 1e-3L; // transparent so far: any positive optical depth will do
        break;
      }
      // a ray that can never leave the box and sees no opacity would never
      // terminate (not a defect): give it a component along every axis
      r.d[0] = 0.6 * (r.d[0] < 0. ? -1 : 1);
      r.d[1] = 0.48 * (r.d[1] < 0. ? -1 : 1);
      r.d[2] = 0.64 * (r.d[2] < 0. ? -1 : 1);
      dcls = "dir-generic";
      tau = 1e-3L;
    }
    r.tau = (double)tau;
    for (int i = 0; i < 3; ++i) {
      P.push_back(r.p[i]);
      D.push_back(r.d[i]);
    }
    T.push_back(r.tau);
    labels += dcls + ";";
  }
  c.D("ray_p", P).D("ray_d", D).D("ray_tau", T).S("ray_cls", labels);
}

Ray ray_of(const VCase &c, int k, double sHe) {
  Ray r;
  for (int i = 0; i < 3; ++i) {
    r.p[i] = c.d("ray_p", 3 * k + i);
    r.d[i] = c.d("ray_d", 3 * k + i);
  }
  r.tau = c.d("ray_tau", k);
  r.sHe = sHe;
  return r;
}

Photon make_photon(const Ray &r) {
  Photon ph(Vec(r.p[0], r.p[1], r.p[2]), Vec(r.d[0], r.d[1], r.d[2]), 3.5e15);
  ph.set_cross_section(ION_H_n, SIGMA_H);
  ph.set_cross_section(ION_He_n, 0.25);
  ph.set_cross_section_He_corr(r.sHe);
  return ph;
}

void label_ray_classes(const VCase &c, VResult &r) {
  const std::string &s = c.s("ray_cls");
  size_t p = 0;
  std::set<std::string> seen;
  while (p < s.size()) {
    const size_t q = s.find(';', p);
    if (q == std::string::npos)
      break;
    seen.insert(s.substr(p, q - p));
    p = q + 1;
  }
  for (auto &l : seen)
    r.label(l);
}

// Compare what the grid did with one photon against the oracle.
//  dep[c]     path length deposited in model cell c (from the mean intensity)
//  absorbed   interact() returned a cell (not end())
//  ret        model cell index of the returned cell (or -1)
//  xend       final photon position
// 'extra_tol' widens the tolerance (Voronoi: epsilon shifts)
std::string compare_ray(const std::vector<BCell> &cells, const Geo &g, const Ray &ray,
                        const RayExpect &e, const std::vector<double> &dep, bool absorbed,
                        int ret, const double xend[3], VResult &r, double extra_tol,
                        bool have_boxes) {
  const double scale = g.scale() + (double)std::min(e.l_end, (LD)1e300);
  const double dmin = dmin_of(ray);
  double tol = 64. * EPS * scale * (double)(e.nseg + 8) / dmin + extra_tol;
  LD sdep = 0.L, stau = 0.L, kmax = 0.L;
  for (size_t i = 0; i < cells.size(); ++i) {
    sdep += dep[i];
    stau += (LD)cells[i].kappa * (LD)dep[i];
    kmax = std::max(kmax, (LD)cells[i].kappa);
    if (!(dep[i] >= -tol) || !std::isfinite(dep[i]))
      return fmt("cell %zu received the path length %.17g", i, dep[i]);
  }
  for (int i = 0; i < 3; ++i)
    if (!std::isfinite(xend[i]))
      return fmt("final position[%d] = %g", i, xend[i]);
  // The path the code itself took can be much longer than the oracle's when
  // the ray runs inside a wall plane or along a cell edge (either adjacent
  // column of cells is a legitimate choice, and the columns differ in
  // opacity): the round-off of its position and of the sums below grows with
  // the number of cells IT crossed and with ITS path length.
  {
    double minsize[3] = {DBL_MAX, DBL_MAX, DBL_MAX};
    for (const BCell &bc : cells)
      for (int i = 0; i < 3; ++i)
        minsize[i] = std::min(minsize[i], (double)(bc.hi[i] - bc.lo[i]));
    double ncross = 0.;
    for (int i = 0; i < 3; ++i)
      if (ray.d[i] != 0. && minsize[i] > 0. && minsize[i] < DBL_MAX)
        ncross += std::abs((double)sdep * ray.d[i]) / minsize[i];
    const double tol_own = 64. * EPS * (g.scale() + std::abs((double)sdep)) *
                               (ncross + 8.) / dmin + extra_tol;
    tol = std::max(tol, tol_own);
  }
  // ---- tier A: self consistency of path, optical depth and final position
  // final position == start + (sum of deposited path) * direction (mod period)
  for (int i = 0; i < 3; ++i) {
    LD diff = (LD)xend[i] - ((LD)ray.p[i] + sdep * (LD)ray.d[i]);
    if (g.per[i])
      diff -= std::round(diff / (LD)g.L[i]) * (LD)g.L[i];
    if (std::abs(diff) > tol)
      return fmt("final position[%d] = %.17g is not start + (sum of deposited path lengths = "
                 "%.17Lg) * direction (difference %.3Lg, tolerance %.3g)",
                 i, xend[i], sdep, diff, tol);
  }
  const LD toltau = (LD)tol * std::max(kmax, (LD)1e-300) + 64. * EPS * (LD)ray.tau * (e.nseg + 8);
  if (absorbed) {
    if (std::abs(stau - (LD)ray.tau) > toltau)
      return fmt("absorbed, but sum(kappa * deposited path) = %.17Lg != target optical depth "
                 "%.17g (tolerance %.3Lg)",
                 stau, ray.tau, toltau);
    for (int i = 0; i < 3; ++i)
      if (xend[i] < g.a[i] - tol || xend[i] > g.a[i] + g.L[i] + tol)
        return fmt("absorbed at position[%d] = %.17g outside the box", i, xend[i]);
  } else {
    if (stau > (LD)ray.tau + toltau)
      return fmt("escaped, but sum(kappa * deposited path) = %.17Lg exceeds the target optical "
                 "depth %.17g",
                 stau, ray.tau);
    bool onface = false;
    for (int i = 0; i < 3; ++i)
      if (!g.per[i] && (std::abs(xend[i] - g.a[i]) <= tol || std::abs(xend[i] - (g.a[i] + g.L[i])) <= tol))
        onface = true;
    if (!onface)
      return fmt("reported as escaped, but the final position (%.17g, %.17g, %.17g) is not on "
                 "a non-periodic face of the box",
                 xend[0], xend[1], xend[2]);
  }
  if (!have_boxes)
    return "";
  // ---- tier B: against the closed-form oracle
  if (ray_in_wall_plane(cells, ray, tol)) {
    r.label("ray-in-wall-plane(tierA-only)");
    return "";
  }
  // conditioning of "where is tau reached": tau(l) may be flat (transparent
  // cells) or shallow around the target
  LD kall = 0.L;
  for (const BCell &bc : cells) // (also cells the ray only touches)
    kall = std::max(kall, (LD)bc.kappa);
  const LD dtau = (LD)tol * std::max(kall, (LD)1e-300) + 64. * EPS * (LD)ray.tau * (e.nseg + 8);
  const LD l_lo = std::min(l_of_tau(e.segs, cells, (LD)ray.tau - dtau), e.l_exit);
  const LD l_hi = std::min(l_of_tau(e.segs, cells, (LD)ray.tau + dtau), e.l_exit);
  if (getenv("C16_DEBUG"))
    fprintf(stderr, "  compare: tol %g kall %Lg dtau %Lg l_lo %.12Lg l_hi %.12Lg\n", tol, kall, dtau, l_lo, l_hi);
  const bool abs_lo = l_lo < e.l_exit - tol, abs_hi = l_hi < e.l_exit - tol;
  if (abs_lo != abs_hi || (!abs_lo && std::abs(l_lo - e.l_exit) <= tol && l_lo < e.l_exit)) {
    r.label("ambiguous-absorbed-at-exit");
    return "";
  }
  if (std::isinf((double)l_hi) || l_hi - l_lo > 1e-7L * (LD)g.diag()) {
    r.label("ambiguous-tau-on-plateau");
    return "";
  }
  tol += (double)(l_hi - l_lo);
  const bool exp_abs = e.l_abs < e.l_exit;
  if (exp_abs != absorbed)
    return fmt("oracle: optical depth %.17g is reached after %.17Lg m, the box is left after "
               "%.17Lg m => %s; the grid reports %s",
               ray.tau, e.l_abs, e.l_exit, exp_abs ? "absorbed" : "escaped",
               absorbed ? "absorbed" : "escaped");
  if (std::abs(sdep - e.l_end) > tol) {
    std::string dump;
    int nd = 0;
    for (size_t i = 0; i < cells.size() && nd < 12; ++i)
      if (dep[i] != 0. || e.path[i] != 0.L) {
        dump += fmt(" [cell %zu kappa %.6g: deposited %.9g, oracle %.9Lg]", i, cells[i].kappa, dep[i], e.path[i]);
        ++nd;
      }
    return fmt("sum of deposited path lengths %.17Lg != travelled length %.17Lg (tolerance %.3g);%s",
               sdep, e.l_end, tol, dump.c_str());
  }
  for (size_t i = 0; i < cells.size(); ++i)
    if (std::abs((LD)dep[i] - e.path[i]) > tol)
      return fmt("cell %zu: deposited path %.17g, oracle (slab intersection) %.17Lg, "
                 "tolerance %.3g",
                 i, dep[i], e.path[i], tol);
  if (exp_abs) {
    if (ret < 0 || ret >= (int)cells.size())
      return fmt("absorbed, but the returned cell (%d) is not a cell of the grid", ret);
    // the returned cell must contain the end point (closed box, tolerance)
    for (int i = 0; i < 3; ++i) {
      LD x = (LD)ray.p[i] + e.l_end * (LD)ray.d[i];
      const BCell &c = cells[ret];
      if (g.per[i]) {
        const LD mid = 0.5L * (c.lo[i] + c.hi[i]);
        x -= std::round((x - mid) / (LD)g.L[i]) * (LD)g.L[i];
      }
      if (x < c.lo[i] - tol || x > c.hi[i] + tol)
        return fmt("the returned cell %d does not contain the end point (dim %d: %.17Lg not in "
                   "[%.17Lg, %.17Lg])",
                   ret, i, x, c.lo[i], c.hi[i]);
    }
  }
  return "";
}

VCase gen_cart_ray() {
  VCase c;
  c.S("boxclass", gen_box(c));
  gen_periodic(c);
  int64_t n[3];
  gen_counts(n, 9, 400);
  c.I("ncell", {n[0], n[1], n[2]});
  c.I("kseed", vr::irange(1, 1000000));
  const double sHe = vr::coin(0.5) ? 0. : 0.37;
  c.D("sHe", sHe);
  const Geo g = geo_of(c);
  // transparent cells only in fully open boxes: in a periodic direction a ray
  // that runs inside a wall plane could otherwise be caught for ever in a
  // transparent column of the adjacent cells (legitimately endless)
  const bool anyper_gen = g.per[0] || g.per[1] || g.per[2];
  c.I("transparent", anyper_gen ? 0 : vr::coin(0.7));
  const std::vector<BCell> cells =
      cart_cells(g, n, (uint64_t)c.i("kseed"), c.i("transparent") != 0, sHe, nullptr);
  gen_rays(c, g, cells, 2, sHe);
  return c;
}

void set_opacity(DensityGrid::iterator it, const Opac &o) {
  IonizationVariables &iv = it.get_ionization_variables();
  iv.set_number_density(o.n);
  iv.set_ionic_fraction(ION_H_n, o.xH);
  iv.set_ionic_fraction(ION_He_n, o.xHe);
  iv.set_temperature(8000.);
  it.reset_mean_intensities();
}

VResult o_cart_ray(const VCase &c) {
  VResult r;
  const Geo g = geo_of(c);
  int64_t n[3];
  for (int i = 0; i < 3; ++i)
    n[i] = c.i("ncell", i);
  r.label(c.s("boxclass"));
  label_ray_classes(c, r);
  const double sHe = c.d("sHe");
  std::vector<Opac> op;
  // a ray that can never leave (periodic) needs opacity everywhere
  bool transparent_ok = c.i("transparent") != 0;
  const std::vector<BCell> cells = cart_cells(g, n, (uint64_t)c.i("kseed"), transparent_ok, sHe, &op);
  CartesianDensityGrid grid(g.box(), CoordinateVector<int_fast32_t>(n[0], n[1], n[2]),
                            CoordinateVector<bool>(g.per[0], g.per[1], g.per[2]));
  const size_t N = cells.size();
  const bool anyper = g.per[0] || g.per[1] || g.per[2];
  const int nray = (int)c.dv("ray_tau").size();
  for (int k = 0; k < nray; ++k) {
    const Ray ray = ray_of(c, k, sHe);
    const RayExpect e = ray_expect(cells, g, ray);
    if (e.too_long) {
      r.label("skipped-unbounded-transparent-ray");
      continue;
    }
    for (size_t i = 0; i < N; ++i)
      set_opacity(DensityGrid::iterator(i, grid), op[i]);
    Photon ph = make_photon(ray);
    const Photon ph0 = ph;
    DensityGrid::iterator it = grid.end();
    try {
      it = grid.interact(ph, ray.tau);
    } catch (const VerifAbort &e) {
      r.fail(fmt("ray %d: interact aborts for a start position inside the box: %s", k, e.msg.c_str()));
      return r;
    }
    const bool absorbed = it != grid.end();
    std::vector<double> dep(N);
    for (size_t i = 0; i < N; ++i)
      dep[i] = DensityGrid::iterator(i, grid).get_mean_intensity(ION_H_n) / SIGMA_H;
    const Vec xe = ph.get_position();
    const double xend[3] = {xe[0], xe[1], xe[2]};
    // classification
    bool wrap = false;
    if (anyper)
      for (int i = 0; i < 3; ++i) {
        const LD x = (LD)ray.p[i] + e.l_end * (LD)ray.d[i];
        if (g.per[i] && (x < (LD)g.a[i] || x >= (LD)g.a[i] + (LD)g.L[i]))
          wrap = true;
      }
    if (wrap)
      r.label("periodic-wrap-on-ray");
    r.label(e.l_abs < e.l_exit ? "absorbed" : "escaped");
    if (e.nseg >= 2)
      r.nontrivial = true;
    const std::string msg = compare_ray(cells, g, ray, e, dep, absorbed,
                                        absorbed ? (int)it.get_index() : -1, xend, r, 0., true);
    if (!msg.empty()) {
      r.fail(fmt("ray %d: ", k) + msg);
      return r;
    }
    // integrate_optical_depth: total optical depth to the box boundary
    if (!anyper) {
      Ray full = ray;
      full.tau = 1e300;
      const RayExpect ef = ray_expect(cells, g, full);
      const double tot = grid.integrate_optical_depth(ph0);
      LD kmax = 0.L;
      for (auto &cc : cells)
        kmax = std::max(kmax, (LD)cc.kappa);
      const double scale = g.scale() + (double)ef.l_exit;
      const LD tolt = 64. * EPS * scale * (ef.nseg + 8) / dmin_of(ray) * kmax +
                      64. * EPS * ef.tau_used * (ef.nseg + 8);
      if (!ray_in_wall_plane(cells, ray, 64. * EPS * scale * (ef.nseg + 8)) &&
          std::abs((LD)tot - ef.tau_used) > tolt) {
        r.fail(fmt("ray %d: integrate_optical_depth = %.17g, oracle sum(kappa*l) = %.17Lg "
                   "(tolerance %.3Lg)",
                   k, tot, ef.tau_used, tolt));
        return r;
      }
    }
  }
  return r;
}


// ---------------------------------------------------------------------------
//                 sub-check amr_ray (AMRDensityGrid::interact)
// ---------------------------------------------------------------------------
struct AmrSetup {
  Geo g;
  int nb[3];
  int level0;
  MTree M;           // after stage 0 and stage 1
  std::vector<int> lv;
  std::vector<BCell> cells;
  std::vector<Opac> op;
  int maxlevel, minlevel;
};

// decomposition of the requested cell numbers into blocks and a base level
// (documented in the AMRDensityGrid constructor)
void amr_decompose(const int64_t ncell[3], int nb[3], int &level0) {
  int64_t p2 = 1ll << 40;
  for (int i = 0; i < 3; ++i) {
    int64_t n = ncell[i], f = 1;
    while (n % 2 == 0) {
      n /= 2;
      f *= 2;
    }
    p2 = std::min(p2, f);
  }
  level0 = 0;
  for (int i = 0; i < 3; ++i)
    nb[i] = (int)(ncell[i] / p2);
  while (p2 > 1) {
    p2 >>= 1;
    ++level0;
  }
}

void amr_apply_targets(MTree &M, const std::vector<int64_t> &tg, int stage) {
  for (size_t t = 0; t + 4 < tg.size() + 1; t += 5) {
    if (tg[t + 4] > stage)
      continue;
    const int64_t k[3] = {tg[t], tg[t + 1], tg[t + 2]};
    for (;;) {
      const int leaf = M.leaf_of_lattice(k, LAT);
      if (M.nodes[leaf].level >= tg[t + 3])
        break;
      M.split(leaf);
    }
  }
}

AmrSetup amr_setup(const VCase &c) {
  AmrSetup s;
  s.g = geo_of(c);
  int64_t ncell[3];
  for (int i = 0; i < 3; ++i)
    ncell[i] = c.i("ncell", i);
  amr_decompose(ncell, s.nb, s.level0);
  s.M.init(s.nb);
  for (int rt : std::vector<int>(s.M.roots))
    s.M.split_all(rt, s.level0);
  amr_apply_targets(s.M, c.iv("targets"), 1);
  s.lv = s.M.leaves();
  const double sHe = c.d("sHe");
  const double lscale = std::max(s.g.L[0], std::max(s.g.L[1], s.g.L[2]));
  s.maxlevel = 0;
  s.minlevel = 99;
  for (size_t j = 0; j < s.lv.size(); ++j) {
    BCell b;
    s.M.real_box(s.lv[j], s.g, b.lo, b.hi);
    const Opac o = opac_of((uint64_t)c.i("kseed"), j, c.i("transparent") != 0, lscale);
    b.kappa = o.n * (SIGMA_H * o.xH + sHe * o.xHe);
    s.cells.push_back(b);
    s.op.push_back(o);
    s.maxlevel = std::max(s.maxlevel, s.M.nodes[s.lv[j]].level);
    s.minlevel = std::min(s.minlevel, s.M.nodes[s.lv[j]].level);
  }
  return s;
}

VCase gen_amr_ray() {
  VCase c;
  c.S("boxclass", gen_box(c));
  gen_periodic(c);
  int64_t nb[3];
  gen_counts(nb, 5, 30);
  int64_t level0 = vr::weighted({4, 4, 1});
  while (nb[0] * nb[1] * nb[2] * (1ll << (3 * level0)) > 250)
    --level0;
  c.I("ncell", {nb[0] << level0, nb[1] << level0, nb[2] << level0});
  int dnb[3], dl;
  const int64_t nc[3] = {nb[0] << level0, nb[1] << level0, nb[2] << level0};
  amr_decompose(nc, dnb, dl);
  // refinement targets: lattice point (midpoint lattice of depth LAT in a
  // block), depth, stage (0: applied by initialize, 1: applied by reset_grid)
  const int ntarget = (int)vr::irange(0, 3);
  std::vector<int64_t> tg;
  for (int t = 0; t < ntarget; ++t) {
    for (int i = 0; i < 3; ++i)
      tg.push_back(vr::irange(0, ((int64_t)dnb[i] << LAT) - 1));
    tg.push_back(vr::irange(dl + 1, std::min(8, dl + 4)));
    tg.push_back(vr::coin(0.5));
  }
  c.I("targets", tg);
  c.I("kseed", vr::irange(1, 1000000));
  const double sHe = vr::coin(0.5) ? 0. : 0.37;
  c.D("sHe", sHe);
  const Geo g = geo_of(c);
  // transparent cells only in fully open boxes: in a periodic direction a ray
  // that runs inside a wall plane could otherwise be caught for ever in a
  // transparent column of the adjacent cells (legitimately endless)
  const bool anyper_gen = g.per[0] || g.per[1] || g.per[2];
  c.I("transparent", anyper_gen ? 0 : vr::coin(0.7));
  const AmrSetup s = amr_setup(c);
  gen_rays(c, g, s.cells, 2, sHe);
  return c;
}

class HistoryRefinementScheme : public AMRRefinementScheme {
public:
  Geo g;
  int nb[3];
  std::vector<int64_t> tg;
  int *stage;
  virtual bool refine(uint_fast8_t level, DensityGrid::iterator &cell) const {
    const Vec m = cell.get_cell_midpoint();
    for (size_t t = 0; t + 4 < tg.size() + 1; t += 5) {
      if (tg[t + 4] > *stage || (int)level >= tg[t + 3])
        continue;
      bool in = true;
      for (int i = 0; i < 3; ++i) {
        const double p = g.a[i] + ((double)tg[t + i] + 0.5) * g.L[i] / ((double)nb[i] * (double)(1 << LAT));
        const double h = 0.5 * g.L[i] / nb[i] / (double)(1 << level);
        if (!(std::abs(p - m[i]) < h))
          in = false;
      }
      if (in)
        return true;
    }
    return false;
  }
};

VResult o_amr_ray(const VCase &c) {
  VResult r;
  const AmrSetup s = amr_setup(c);
  const Geo &g = s.g;
  r.label(c.s("boxclass"));
  label_ray_classes(c, r);
  const double sHe = c.d("sHe");
  int stage = 0;
  HistoryRefinementScheme *scheme = new HistoryRefinementScheme();
  scheme->g = g;
  for (int i = 0; i < 3; ++i)
    scheme->nb[i] = s.nb[i];
  scheme->tg = c.iv("targets");
  scheme->stage = &stage;
  HomogeneousDensityFunction df(1., 2000.);
  df.initialize();
  AMRDensityGrid grid(g.box(),
                      CoordinateVector<uint_fast32_t>(c.i("ncell", 0), c.i("ncell", 1), c.i("ncell", 2)),
                      scheme, 1, CoordinateVector<bool>(g.per[0], g.per[1], g.per[2]), false, nullptr);
  std::pair<cellsize_t, cellsize_t> block = std::make_pair(0, grid.get_number_of_cells());
  grid.initialize(block, df);
  stage = 1;
  grid.reset_grid(df);
  bool stage1 = false;
  for (size_t t = 4; t < scheme->tg.size(); t += 5)
    stage1 |= scheme->tg[t] == 1;
  if (stage1)
    r.label("refined-in-reset_grid");
  const size_t N = s.lv.size();
  if (grid.get_number_of_cells() != N) {
    r.fail(fmt("get_number_of_cells() = %zu after refinement, the model has %zu leaves",
               (size_t)grid.get_number_of_cells(), N));
    return r;
  }
  // map cell index -> model leaf through the midpoint; must be a bijection
  std::map<std::vector<int64_t>, int> byco;
  for (size_t j = 0; j < N; ++j) {
    const MNode &n = s.M.nodes[s.lv[j]];
    byco[{n.level, s.M.gc(s.lv[j], 0), s.M.gc(s.lv[j], 1), s.M.gc(s.lv[j], 2)}] = (int)j;
  }
  std::vector<int> leaf_of_index(N, -1), seen(N, 0);
  size_t cnt = 0;
  LD vsum = 0.L;
  for (auto it = grid.begin(); it != grid.end(); ++it) {
    if (++cnt > N)
      break;
    const size_t i = it.get_index();
    const Vec m = it.get_cell_midpoint();
    // descend the model with the midpoint (far from all walls)
    int64_t k[3];
    for (int d = 0; d < 3; ++d)
      k[d] = (int64_t)std::floor((double)(((LD)m[d] - (LD)g.a[d]) / (LD)g.L[d] * (LD)s.nb[d] * (LD)(1 << LAT)));
    bool inside = true;
    for (int d = 0; d < 3; ++d)
      if (k[d] < 0 || k[d] >= ((int64_t)s.nb[d] << LAT))
        inside = false;
    if (!inside) {
      r.fail(fmt("cell %zu: midpoint (%g, %g, %g) outside the box", i, m[0], m[1], m[2]));
      return r;
    }
    const int leaf = s.M.leaf_of_lattice(k, LAT);
    const MNode &n = s.M.nodes[leaf];
    const int j = byco[{n.level, s.M.gc(leaf, 0), s.M.gc(leaf, 1), s.M.gc(leaf, 2)}];
    // midpoint and volume must be those of the model leaf
    for (int d = 0; d < 3; ++d) {
      const LD mid = 0.5L * (s.cells[j].lo[d] + s.cells[j].hi[d]);
      if (std::abs((LD)m[d] - mid) > 64. * EPS * (g.scale() + g.L[d])) {
        r.fail(fmt("cell %zu: midpoint[%d] = %.17g, model leaf (level %d) has %.17Lg", i, d, m[d], n.level, mid));
        return r;
      }
    }
    const LD vol = (s.cells[j].hi[0] - s.cells[j].lo[0]) * (s.cells[j].hi[1] - s.cells[j].lo[1]) *
                   (s.cells[j].hi[2] - s.cells[j].lo[2]);
    if (std::abs((LD)it.get_volume() - vol) > 64. * EPS * vol) {
      r.fail(fmt("cell %zu: volume %.17g, model leaf (level %d) has %.17Lg", i, it.get_volume(), n.level, vol));
      return r;
    }
    vsum += it.get_volume();
    if (i >= N || seen[j]) {
      r.fail(fmt("cell index %zu: model leaf %d is visited twice by the iteration (or index out of range)", i, j));
      return r;
    }
    seen[j] = 1;
    leaf_of_index[i] = j;
  }
  if (cnt != N) {
    r.fail(fmt("iteration begin..end visits %zu cells, the grid has %zu", cnt, N));
    return r;
  }
  if (std::abs(vsum - (LD)g.volume()) > 8. * EPS * g.volume() * (N + 8)) {
    r.fail(fmt("sum of cell volumes %.17Lg != box volume %.17g", vsum, g.volume()));
    return r;
  }
  std::vector<size_t> index_of_leaf(N);
  for (size_t i = 0; i < N; ++i)
    index_of_leaf[leaf_of_index[i]] = i;

  r.label(fmt("depth-%d", std::min(s.maxlevel, 6)));
  const bool anyper = g.per[0] || g.per[1] || g.per[2];
  const int nray = (int)c.dv("ray_tau").size();
  for (int k = 0; k < nray; ++k) {
    const Ray ray = ray_of(c, k, sHe);
    const RayExpect e = ray_expect(s.cells, g, ray);
    if (e.too_long) {
      r.label("skipped-unbounded-transparent-ray");
      continue;
    }
    for (size_t i = 0; i < N; ++i)
      set_opacity(DensityGrid::iterator(i, grid), s.op[leaf_of_index[i]]);
    Photon ph = make_photon(ray);
    DensityGrid::iterator it = grid.end();
    try {
      it = grid.interact(ph, ray.tau);
    } catch (const VerifAbort &e2) {
      r.fail(fmt("ray %d: interact aborts for a start position inside the box: %s", k, e2.msg.c_str()));
      return r;
    }
    const bool absorbed = it != grid.end();
    if (getenv("C16_DEBUG")) {
      fprintf(stderr, "ray %d: l_abs %.12Lg l_exit %.12Lg absorbed %d\n", k, e.l_abs, e.l_exit, (int)absorbed);
      for (size_t i = 0; i < N; ++i) {
        const double dd = DensityGrid::iterator(i, grid).get_mean_intensity(ION_H_n);
        const BCell &bc = s.cells[leaf_of_index[i]];
        if (dd != 0.)
          fprintf(stderr, "  deposit %g in leaf %d level %d box [%Lg,%Lg]x[%Lg,%Lg]x[%Lg,%Lg] kappa %g\n", dd,
                  leaf_of_index[i], s.M.nodes[s.lv[leaf_of_index[i]]].level, bc.lo[0], bc.hi[0], bc.lo[1],
                  bc.hi[1], bc.lo[2], bc.hi[2], bc.kappa);
      }
      const Vec xq = ph.get_position();
      fprintf(stderr, "  final position %.17g %.17g %.17g\n", xq[0], xq[1], xq[2]);
      for (const Seg &sg : e.segs)
        fprintf(stderr, "  seg [%.12Lg, %.12Lg] cell %d level %d kappa %g dep %g\n", sg.t0, sg.t1, sg.cell,
                s.M.nodes[s.lv[sg.cell]].level, s.cells[sg.cell].kappa,
                DensityGrid::iterator(index_of_leaf[sg.cell], grid).get_mean_intensity(ION_H_n));
    }
    std::vector<double> dep(N);
    for (size_t i = 0; i < N; ++i)
      dep[leaf_of_index[i]] = DensityGrid::iterator(i, grid).get_mean_intensity(ION_H_n) / SIGMA_H;
    const Vec xe = ph.get_position();
    const double xend[3] = {xe[0], xe[1], xe[2]};
    bool wrap = false;
    if (anyper)
      for (int i = 0; i < 3; ++i) {
        const LD x = (LD)ray.p[i] + e.l_end * (LD)ray.d[i];
        if (g.per[i] && (x < (LD)g.a[i] || x >= (LD)g.a[i] + (LD)g.L[i]))
          wrap = true;
      }
    if (wrap)
      r.label("periodic-wrap-on-ray");
    r.label(e.l_abs < e.l_exit ? "absorbed" : "escaped");
    // leaf levels met on the ray
    std::set<int> levels;
    for (const Seg &sg : e.segs)
      if (sg.t0 < e.l_end)
        levels.insert(s.M.nodes[s.lv[sg.cell]].level);
    if (levels.size() >= 2) {
      r.label("two-leaf-levels-on-ray");
      if (wrap)
        r.label("two-leaf-levels-and-wrap");
    }
    bool odd = false;
    for (int i = 0; i < 3; ++i)
      odd |= (s.nb[i] > 1 && s.nb[i] % 2 == 1);
    if (odd)
      r.label("odd-block-factor");
    if ((s.maxlevel >= 2 && levels.size() >= 2) || wrap || odd)
      r.nontrivial = true;
    int ret = -1;
    if (absorbed) {
      if (it.get_index() >= N) {
        r.fail(fmt("ray %d: returned cell index %zu out of range", k, (size_t)it.get_index()));
        return r;
      }
      ret = leaf_of_index[it.get_index()];
    }
    const std::string msg = compare_ray(s.cells, g, ray, e, dep, absorbed, ret, xend, r, 0., true);
    if (!msg.empty()) {
      r.fail(fmt("ray %d: ", k) + msg);
      return r;
    }
  }
  return r;
}


// ---------------------------------------------------------------------------
//            search structures: Octree, PointLocations, MortonKeyGenerator
// ---------------------------------------------------------------------------
// distinct points by construction: x is stratified (one point per stratum)
void gen_points(VCase &c, const Geo &g, int N, bool allow_cluster) {
  std::vector<double> P;
  const int cls = allow_cluster ? vr::weighted({5, 3, 2}) : 0;
  // 0 uniform, 1 one tight cluster + uniform rest, 2 all in a tight cluster
  const double cw = std::pow(10., -(double)vr::irange(2, 7));
  double cc[3];
  for (int i = 0; i < 3; ++i)
    cc[i] = vr::uni(0.05, 0.9);
  for (int j = 0; j < N; ++j) {
    const bool inc = cls == 2 || (cls == 1 && j % 2 == 0);
    for (int i = 0; i < 3; ++i) {
      double f;
      if (i == 0)
        f = ((double)j + 0.1 + 0.8 * vr::uni()) / (double)N;
      else
        f = ((double)((j * 7 + 3 * i) % N) + 0.1 + 0.8 * vr::uni()) / (double)N;
      if (inc)
        f = cc[i] + cw * f;
      P.push_back(clamp_half_open(g, i, g.a[i] + f * g.L[i]));
    }
  }
  c.D("points", P);
  c.S("pointclass", cls == 0 ? "points-uniform" : (cls == 1 ? "points-half-clustered" : "points-clustered"));
}

std::vector<Vec> points_of(const VCase &c) {
  const auto &P = c.dv("points");
  std::vector<Vec> v;
  for (size_t j = 0; j + 2 < P.size(); j += 3)
    v.push_back(Vec(P[j], P[j + 1], P[j + 2]));
  return v;
}

VCase gen_octree() {
  VCase c;
  c.S("boxclass", gen_box(c, false));
  const bool per = vr::coin(0.4);
  c.I("periodic", {per, per, per});
  const Geo g = geo_of(c);
  const int N = (int)vr::irange(2, 60);
  gen_points(c, g, N, true);
  const double lmin = std::min(g.L[0], std::min(g.L[1], g.L[2]));
  std::vector<double> h;
  for (int j = 0; j < N; ++j)
    h.push_back(vr::coin(0.1) ? 0. : lmin * std::pow(10., vr::uni(-3., 0.)));
  c.D("h", h);
  const auto pts = points_of(c);
  std::vector<double> Q, R;
  for (int q = 0; q < 16; ++q) {
    const int m = vr::weighted({5, 2, 2, 2});
    for (int i = 0; i < 3; ++i) {
      double x;
      if (m == 0)
        x = g.a[i] + vr::uni() * g.L[i];
      else if (m == 1) // exactly one of the points
        x = pts[vr::irange(0, N - 1)][i];
      else if (m == 2) // near a box face / corner
        x = vr::coin() ? g.a[i] : g.a[i] + g.L[i];
      else // outside the box (only meaningful without periodicity)
        x = g.a[i] + vr::uni(-0.5, 1.5) * g.L[i];
      if (per || m != 3)
        x = clamp_half_open(g, i, x);
      Q.push_back(x);
    }
    R.push_back(vr::coin(0.2) ? 0. : lmin * std::pow(10., vr::uni(-3., 0.)));
  }
  c.D("queries", Q).D("radii", R);
  return c;
}

LD pdist(const Geo &g, bool per, const Vec &a, const double b[3]) {
  LD s = 0.L;
  for (int i = 0; i < 3; ++i) {
    LD d = std::abs((LD)a[i] - (LD)b[i]);
    if (per)
      d = std::min(d, (LD)g.L[i] - d);
    s += d * d;
  }
  return std::sqrt(s);
}

VResult o_octree(const VCase &c) {
  VResult r;
  const Geo g = geo_of(c);
  const bool per = g.per[0];
  r.label(c.s("boxclass"));
  r.label(c.s("pointclass"));
  r.label(per ? "periodic" : "open");
  std::vector<Vec> pts = points_of(c);
  const std::vector<Vec> pts0 = pts;
  const size_t N = pts.size();
  std::vector<double> h = c.dv("h");
  Octree tree(pts, g.box(), per);
  tree.set_auxiliaries(h, Octree::max<double>);
  for (size_t j = 0; j < N; ++j)
    if (pts[j] != pts0[j]) {
      r.fail(fmt("the tree moved point %zu although all points are distinct", j));
      return r;
    }
  LD lo[3], hi[3];
  for (int i = 0; i < 3; ++i) {
    lo[i] = INFINITY;
    hi[i] = -INFINITY;
    for (auto &p : pts) {
      lo[i] = std::min(lo[i], (LD)p[i]);
      hi[i] = std::max(hi[i], (LD)p[i]);
    }
  }
  const double amb = 16. * EPS * (g.scale() + g.diag());
  bool any_outside = false;
  const size_t nq = c.dv("radii").size();
  for (size_t q = 0; q < nq; ++q) {
    const double x[3] = {c.d("queries", 3 * q), c.d("queries", 3 * q + 1), c.d("queries", 3 * q + 2)};
    const Vec ctr(x[0], x[1], x[2]);
    const double R = c.d("radii", q);
    bool outside_hull = false;
    for (int i = 0; i < 3; ++i)
      outside_hull |= (LD)x[i] < lo[i] || (LD)x[i] > hi[i];
    if (outside_hull) {
      any_outside = true;
      r.nontrivial = true;
    }
    std::vector<LD> d(N);
    for (size_t j = 0; j < N; ++j)
      d[j] = pdist(g, per, pts[j], x);
    // get_ngbs / get_ngbs_sphere
    for (int mode = 0; mode < 2; ++mode) {
      const double RR = mode ? R : 0.;
      std::vector<uint_fast32_t> got = mode ? tree.get_ngbs_sphere(ctr, R) : tree.get_ngbs(ctr);
      std::vector<int> in(N, 0);
      for (auto j : got) {
        if (j >= N) {
          r.fail(fmt("query %zu: neighbour index %zu out of range", q, (size_t)j));
          return r;
        }
        ++in[j];
      }
      for (size_t j = 0; j < N; ++j) {
        if (in[j] > 1) {
          r.fail(fmt("query %zu: point %zu returned %d times", q, j, in[j]));
          return r;
        }
        const LD lim = (LD)h[j] + (LD)RR;
        if (std::abs(d[j] - lim) <= amb)
          continue; // on the rim: either answer
        const bool exp = d[j] <= lim;
        if (exp != (in[j] == 1)) {
          r.fail(fmt("%s(%.17g, %.17g, %.17g%s): point %zu at distance %.17Lg with smoothing "
                     "length %.17g is %s, brute force says %s",
                     mode ? "get_ngbs_sphere" : "get_ngbs", x[0], x[1], x[2],
                     mode ? fmt("; R=%.17g", R).c_str() : "", j, d[j], h[j],
                     in[j] ? "returned" : "missing", exp ? "inside" : "outside"));
          return r;
        }
      }
    }
    // closest neighbour
    size_t best = 0;
    for (size_t j = 1; j < N; ++j)
      if (d[j] < d[best])
        best = j;
    LD second = INFINITY;
    for (size_t j = 0; j < N; ++j)
      if (j != best)
        second = std::min(second, d[j]);
    const size_t got = tree.get_closest_ngb(ctr);
    if (got >= N) {
      r.fail(fmt("get_closest_ngb returns index %zu >= %zu", got, N));
      return r;
    }
    if (second - d[best] <= amb) {
      r.label("closest-tie-skipped");
      if (d[got] - d[best] > amb) {
        r.fail(fmt("get_closest_ngb(%.17g, %.17g, %.17g) = %zu at distance %.17Lg, brute force "
                   "minimum %.17Lg (point %zu)",
                   x[0], x[1], x[2], got, d[got], d[best], best));
        return r;
      }
    } else if (got != best) {
      r.fail(fmt("get_closest_ngb(%.17g, %.17g, %.17g) = %zu at distance %.17Lg, brute force "
                 "says %zu at distance %.17Lg",
                 x[0], x[1], x[2], got, d[got], best, d[best]));
      return r;
    }
  }
  if (any_outside)
    r.label("query-outside-hull");
  if (N >= 8)
    r.nontrivial = true;
  return r;
}

VCase gen_pointloc() {
  VCase c;
  c.S("boxclass", gen_box(c, false));
  c.I("periodic", {0, 0, 0});
  const Geo g = geo_of(c);
  const int N = (int)vr::irange(1, 150);
  gen_points(c, g, N, true);
  c.I("withbox", N == 1 ? 1 : vr::coin(0.6));
  static const std::vector<int64_t> npc = {1, 2, 3, 5, 10, 100};
  c.I("num_per_cell", vr::pick(npc));
  const auto pts = points_of(c);
  std::vector<double> Q;
  for (int q = 0; q < 24; ++q) {
    const int m = vr::weighted({5, 2, 2});
    for (int i = 0; i < 3; ++i) {
      double lo = g.a[i], hi = g.top(i);
      if (!c.i("withbox")) { // the structure covers the hull of the points
        lo = pts[0][i];
        hi = pts[0][i];
        for (auto &p : pts) {
          lo = std::min(lo, p[i]);
          hi = std::max(hi, p[i]);
        }
      }
      double x;
      if (m == 0)
        x = lo + vr::uni() * (hi - lo);
      else if (m == 1)
        x = pts[vr::irange(0, N - 1)][i];
      else
        x = vr::coin() ? lo : hi;
      if (c.i("withbox"))
        x = clamp_half_open(g, i, x);
      Q.push_back(x);
    }
  }
  c.D("queries", Q);
  return c;
}

VResult o_pointloc(const VCase &c) {
  VResult r;
  const Geo g = geo_of(c);
  r.label(c.s("boxclass"));
  r.label(c.s("pointclass"));
  const std::vector<Vec> pts = points_of(c);
  const size_t N = pts.size();
  const bool withbox = c.i("withbox") != 0;
  r.label(withbox ? "with-box" : "auto-range");
  std::unique_ptr<PointLocations> pl;
  if (withbox)
    pl.reset(new PointLocations(pts, (uint_fast32_t)c.i("num_per_cell"), g.box()));
  else
    pl.reset(new PointLocations(pts, (uint_fast32_t)c.i("num_per_cell")));
  const double amb = 16. * EPS * (g.scale() + g.diag());
  const size_t nq = c.dv("queries").size() / 3;
  const size_t ncell1d = (size_t)std::round(std::cbrt((double)(N / std::min<size_t>(N, (size_t)c.i("num_per_cell")))));
  if (ncell1d >= 2) {
    r.label("several-buckets");
    r.nontrivial = true;
  }
  for (size_t q = 0; q < nq; ++q) {
    const double x[3] = {c.d("queries", 3 * q), c.d("queries", 3 * q + 1), c.d("queries", 3 * q + 2)};
    std::vector<LD> d(N);
    size_t best = 0;
    for (size_t j = 0; j < N; ++j) {
      d[j] = pdist(g, false, pts[j], x);
      if (d[j] < d[best])
        best = j;
    }
    LD second = INFINITY;
    for (size_t j = 0; j < N; ++j)
      if (j != best)
        second = std::min(second, d[j]);
    size_t got = N;
    try {
      got = pl->get_closest_neighbour(Vec(x[0], x[1], x[2]));
    } catch (const std::exception &ex) {
      r.fail(fmt("get_closest_neighbour(%.17g, %.17g, %.17g) throws %s (%zu points, %zu^3 buckets)",
                 x[0], x[1], x[2], ex.what(), N, ncell1d));
      return r;
    }
    if (got >= N) {
      r.fail(fmt("get_closest_neighbour returns index %zu >= %zu", got, N));
      return r;
    }
    if (second - d[best] <= amb ? d[got] - d[best] > amb : got != best) {
      r.fail(fmt("get_closest_neighbour(%.17g, %.17g, %.17g) = %zu at distance %.17Lg, brute "
                 "force says %zu at distance %.17Lg (%zu points, %zu^3 buckets)",
                 x[0], x[1], x[2], got, d[got], best, d[best], N, ncell1d));
      return r;
    }
  }
  return r;
}

VCase gen_morton() {
  VCase c;
  c.S("boxclass", gen_box(c));
  const Geo g = geo_of(c);
  std::vector<double> P;
  for (int q = 0; q < 32; ++q)
    for (int i = 0; i < 3; ++i) {
      double x;
      switch (vr::weighted({5, 2, 2})) {
      case 0:
        x = g.a[i] + vr::uni() * g.L[i];
        break;
      case 1:
        x = g.a[i] + g.L[i] * (double)vr::irange(0, 63) / 64.;
        break;
      default:
        x = vr::coin() ? g.a[i] : g.top(i);
      }
      P.push_back(clamp_half_open(g, i, x));
    }
  c.D("points", P);
  return c;
}

VResult o_morton(const VCase &c) {
  VResult r;
  const Geo g = geo_of(c);
  r.label(c.s("boxclass"));
  MortonKeyGenerator gen(g.box());
  const std::vector<Vec> pts = points_of(c);
  std::vector<Vec> clean;
  std::vector<uint64_t> keys;
  bool any_amb = false;
  for (auto &p : pts) {
    uint64_t ic[3];
    bool amb = false;
    for (int i = 0; i < 3; ++i) {
      const LD f = (LD)0x1fffff * ((LD)p[i] - (LD)g.a[i]) / (LD)g.L[i];
      if (f != 0.L && std::abs(f - std::round(f)) < 1e-6L)
        amb = true; // on a lattice line: the integer coordinate is a rounding matter
      ic[i] = (uint64_t)std::floor((double)f);
    }
    if (amb) {
      any_amb = true;
      continue;
    }
    uint64_t key = 0;
    for (int b = 20; b >= 0; --b)
      key = (key << 3) | (((ic[0] >> b) & 1) << 2) | (((ic[1] >> b) & 1) << 1) | ((ic[2] >> b) & 1);
    const uint64_t got = gen.get_key(p);
    if (got != key) {
      r.fail(fmt("get_key(%.17g, %.17g, %.17g) = %llx, bit interleave of (%llu,%llu,%llu) gives %llx",
                 p[0], p[1], p[2], (unsigned long long)got, (unsigned long long)ic[0],
                 (unsigned long long)ic[1], (unsigned long long)ic[2], (unsigned long long)key));
      return r;
    }
    clean.push_back(p);
    keys.push_back(key);
  }
  // get_keys == get_key for every element
  const std::vector<morton_key_t> all = gen.get_keys(clean);
  for (size_t j = 0; j < clean.size(); ++j)
    if (all[j] != keys[j]) {
      r.fail(fmt("get_keys()[%zu] = %llx differs from get_key = %llx", j, (unsigned long long)all[j], (unsigned long long)keys[j]));
      return r;
    }
  if (any_amb)
    r.label("on-lattice-line-skipped");
  r.nontrivial = clean.size() >= 8;
  return r;
}

} // namespace

int main(int argc, char **argv) {
  std::vector<VProp> props;
  props.push_back(
      {"amr_tree", 4000, gen_amr_tree, c16::guarded(o_amr_tree),
       "AMRGrid<size_t>: boxes (unit/dyadic/decimal/generic/physical, cubic or not), block "
       "counts 1..7 per axis incl. odd and mixed factors and 1x1xn, base level 0..2, a history "
       "of up to 14 'refine the leaf containing target t' operations (1..4 targets, depth <= 8); "
       "after half of the history and at its end: number of leaves, first->next enumeration == "
       "depth-first (Morton) sequence of the model keys, level and geometry of every leaf, sum "
       "of volumes; neighbour pointers of every node after set_ngbs (same-or-coarser rule, "
       "mutual, periodic wrap); 24 position queries per case (interior / exactly on the lower "
       "wall / one ulp below the upper wall per axis, biased to the deepest leaves): get_key and "
       "get_cell must name the model leaf. Non-trivial = (depth >= 2 and >= 2 leaf levels) or an "
       "odd block factor.",
       {{"odd-block-factor", 0.2}, {"query-on-block-wall", 0.2}}});
  props.push_back(
      {"cart_locate", 6000, gen_cart_locate, c16::guarded(o_cart_locate),
       "CartesianDensityGrid: same boxes, cell counts 1..12 per axis incl. 3x5x7, 6x4x2, 1x1xn, "
       "periodicity flags; number of cells, iteration visits every index once, sum of volumes, "
       "32 position queries (interior / exactly on the lower cell wall / one ulp below the upper "
       "wall): get_cell_index must name a cell whose closed box contains the position (a wall "
       "position assigned to the lower cell is counted as a tie, not as an error); neighbour "
       "lists of 8 cells: 6 directions, expected index incl. periodic wrap, end() across open "
       "faces, relative position, area, mutual. Non-trivial = more than one cell.",
       {{"odd-cell-count", 0.2}, {"query-on-cell-wall", 0.5}}});
  props.push_back(
      {"cart_ray", 12000, gen_cart_ray, c16::guarded(o_cart_ray),
       "CartesianDensityGrid::interact / integrate_optical_depth: grids up to 9 cells per axis "
       "(<= 400 cells), per-cell opacity n*(sigma_H x_H + sigma_He x_He) from a hash (15% "
       "transparent cells unless the ray can never leave), 2 rays per case: start generic / on "
       "a cell wall / on the lower box face / one ulp below the upper face, direction generic / "
       "axis / planar / exact diagonal / grazing (1e-6..1e-12), target optical depth = model "
       "optical depth of a target length (inside, beyond the exit, exactly at a wall crossing). "
       "Tier A: final position == start + sum(deposit)*direction (mod period), absorbed => "
       "sum(kappa*deposit) == tau, escaped => position on an open face and sum <= tau. Tier B "
       "(long double slab intersections incl. periodic images): deposit per cell, absorbed <=> "
       "tau reached before the exit, returned cell contains the end point. Non-trivial = the "
       "ray crosses >= 2 cells.",
       {{"periodic-wrap-on-ray", 0.05}, {"dir-axis", 0.05}}});
  props.push_back(
      {"amr_ray", 5000, gen_amr_ray, c16::guarded(o_amr_ray),
       "AMRDensityGrid: requested cell numbers = (1..5 blocks per axis) << base level 0..2, "
       "0..3 refinement targets (lattice midpoints, depth up to base+4 <= 8) applied half by "
       "initialize() and half by reset_grid() through an AMRRefinementScheme, periodicity flags; "
       "number of cells, iteration, midpoints / volumes of all cells against the integer tree "
       "model (bijection), then 2 rays per case as in cart_ray through the leaf boxes of the "
       "model. Non-trivial = (depth >= 2 and >= 2 leaf levels on the ray) or a periodic wrap on "
       "the ray or an odd block factor.",
       {{"two-leaf-levels-on-ray", 0.1}, {"periodic-wrap-on-ray", 0.05}, {"odd-block-factor", 0.2}}});
  props.push_back(
      {"octree", 8000, gen_octree, c16::guarded(o_octree),
       "Octree: 2..60 distinct points (uniform / half of them in a cluster of relative width "
       "1e-2..1e-7 / all clustered) in a box, open or periodic, smoothing length per point "
       "10^U(-3,0) * Lmin (10% zero), 16 query centres per case (inside, exactly a point, on a "
       "box face/corner, up to half a box outside for open boxes) with radii; get_ngbs, "
       "get_ngbs_sphere and get_closest_ngb == brute force (minimal image when periodic); "
       "points within 16 eps of the rim and exact distance ties excluded. Non-trivial = >= 8 "
       "points or a query outside the hull of the points.",
       {{"query-outside-hull", 0.3}, {"periodic", 0.2}}});
  props.push_back(
      {"pointloc", 8000, gen_pointloc, c16::guarded(o_pointloc),
       "PointLocations: 1..150 distinct points, with the box or with the automatic range, "
       "1..100 points per bucket, 24 query positions per case (inside the covered region, "
       "exactly a point, on the boundary): get_closest_neighbour == brute force (ties "
       "excluded). Non-trivial = more than one bucket per axis.",
       {{"several-buckets", 0.3}}});
  props.push_back(
      {"morton", 4000, gen_morton, c16::guarded(o_morton),
       "MortonKeyGenerator: 32 positions per case in the half-open box (generic, on a 1/64 "
       "lattice, on the faces): get_key == independent interleave of floor(0x1fffff*(x-a)/L) "
       "(positions within 1e-6 of a lattice line skipped), get_keys == get_key."});
  return vr::vmain(argc, argv, "C16", props);
}
