// Helper of harness/c04_hydro.cpp (C04 + C10, in-process layers).
//
//  * Problem : one generated hydro problem (cells, box, boundaries, gamma,
//              primitive fields), unpacked from a VCase
//  * Flat    : the "plain sequential execution of the scheme's sweeps": one flat
//              array of cells in global order, every face visited exactly once
//              by plain x/y/z loops with explicit periodic wrapping and ghost
//              faces; geometry (cell size, areas, volume) computed from the box
//              on its own.  It uses the per-face / per-cell kernels of Hydro
//              (gradient, slope limiter, prediction, flux, primitive update) as
//              the definition of the scheme and records, per cell, the
//              magnitudes of the flux terms (tolerance scales), the value the
//              conserved update produced before the positivity clamp, whether
//              the flux limiter was active, and what happens at reflecting walls.
//  * Subject : the code under test: DensitySubGridCreator<HydroDensitySubGrid>
//              with a generated layout, the real make_hydro_tasks /
//              set_dependencies / reset_hydro_tasks / execute_task, driven by a
//              sequential scheduler that executes ready tasks in a generated
//              order (any order the task graph admits); or, alternatively, a
//              plain pairwise driver that only uses the public sweep methods.
#ifndef C04_HYDRO_MODEL_HPP
#define C04_HYDRO_MODEL_HPP

#ifndef C04_NO_TASKGRAPH
// the task functions are file-local inline functions of the simulation driver
#include "TaskBasedRadiationHydrodynamicsSimulation.cpp"
#else
#include "DensityFunction.hpp"
#include "DensitySubGridCreator.hpp"
#include "HydroBoundaryManager.hpp"
#include "HydroDensitySubGrid.hpp"
#endif
#include "Hydro.hpp"
#include "verif_rc.hpp"

#include <array>
#include <memory>

namespace c04 {

using vr::VCase;
using vr::fmt;

const double EPS = 0x1p-52;

enum { BC_PERIODIC = 0, BC_REFLECTIVE = 1, BC_INFLOW = 2, BC_OUTFLOW = 3 };
static const char *bcname[4] = {"periodic", "reflective", "inflow", "outflow"};

typedef std::array<double, 5> A5;

struct Problem {
  int n[3];
  int N;
  bool per[3];
  int bc[6]; // 2*axis + (0: high side, 1: low side)  == TRAVELDIRECTION_FACE order
  double anchor[3], side[3];
  double gamma;
  bool exact_geometry;
  std::vector<double> W[5]; // rho, vx, vy, vz, P per global cell (ix major)

  int gidx(int ix, int iy, int iz) const { return (ix * n[1] + iy) * n[2] + iz; }
  bool uniform() const {
    for (int j = 0; j < 5; ++j)
      for (int g = 1; g < N; ++g)
        if (W[j][g] != W[j][0])
          return false;
    return true;
  }
};

inline Problem unpack(const VCase &c) {
  Problem p;
  for (int a = 0; a < 3; ++a) {
    p.n[a] = (int)c.i("n", a);
    p.per[a] = c.i("per", a) != 0;
    p.anchor[a] = c.d("anchor", a);
    p.side[a] = c.d("side", a);
  }
  for (int k = 0; k < 6; ++k)
    p.bc[k] = (int)c.i("bc", k);
  p.N = p.n[0] * p.n[1] * p.n[2];
  p.gamma = c.d("gamma");
  p.exact_geometry = c.i("exactgeom") != 0;
  static const char *names[5] = {"rho", "vx", "vy", "vz", "P"};
  for (int j = 0; j < 5; ++j)
    p.W[j] = c.dv(names[j]);
  return p;
}

// transcription of the pair-wise face limiter (Hydro::limit is private); only
// used to classify what happens at a reflecting wall, never to decide a check
inline double face_limit(double phimid0, double phiL, double phiR) {
  const double d1 = 0.5 * std::abs(phiL - phiR), d2 = 0.25 * std::abs(phiL - phiR);
  const double pmin = std::min(phiL, phiR), pmax = std::max(phiL, phiR);
  const double pbar = phiL + 0.5 * (phiR - phiL);
  double pplus, pminus;
  if ((pmax + d1) * pmax > 0.)
    pplus = pmax + d1;
  else
    pplus = pmax * std::abs(pmax) / (std::abs(pmax) + d1 + DBL_MIN);
  if ((pmin - d1) * pmin > 0.)
    pminus = pmin - d1;
  else
    pminus = pmin * std::abs(pmin) / (std::abs(pmin) + d1 + DBL_MIN);
  if (phiL == phiR)
    return phiL;
  if (phiL < phiR)
    return std::max(pminus, std::min(pbar + d2, phimid0));
  return std::min(pplus, std::max(pbar - d2, phimid0));
}

struct StepInfo {
  double dt = 0.;
  std::vector<A5> absflux; // sum over the faces of a cell of |flux_j| (per unit time)
  std::vector<A5> uold, pre, unew; // conserved before / before the clamp / after
  std::vector<A5> tol;             // round-off allowance on the conserved variables
  int limited_faces = 0, limited_ghost_faces = 0, faces = 0, ghost_faces = 0;
  int fast_wall_faces = 0, fast_wall_cellslow = 0, reflective_faces = 0;
  double wall_tol_m = 0., wall_tol_E = 0.;
  int clamp_mass = 0, clamp_energy = 0; // clamp changed a value by more than round-off
  int pressure_floor = 0;
  int vacuum_cells = 0;
};

class Flat {
public:
  const Problem &P;
  Hydro hydro;
  std::vector<HydroVariables> c;
  std::vector<double> lim;
  double d[3], dinv[3], area[3], vol, ivol;
  int stride[3];
  ReflectiveHydroBoundary refl;
  InflowHydroBoundary inflow;
  OutflowHydroBoundary outflow;
  IonizationVariables ion;

  // layout: number of subgrids per axis of the execution this reference is
  // compared with.  It only selects how the cell size is rounded: a grid of ns
  // subgrids of m cells derives it as (side/ns)/m and its inverse as
  // m/(side/ns); for box sides that are not dyadic these differ from side/n and
  // n/side in the last bit, and the scheme contains decisions (limiter and
  // Riemann solver branches) that such a bit can flip.
  Flat(const Problem &p, const int *layout = nullptr)
      : P(p), hydro(p.gamma, 100., 1.e4, 1.e99, false), c(p.N), lim(10 * p.N) {
    for (int a = 0; a < 3; ++a) {
      const int ns = layout ? layout[a] : 1;
      const double sub = P.side[a] / ns;
      d[a] = sub / (P.n[a] / ns);
      dinv[a] = (P.n[a] / ns) / sub;
    }
    area[0] = d[1] * d[2];
    area[1] = d[0] * d[2];
    area[2] = d[0] * d[1];
    vol = d[0] * d[1] * d[2];
    ivol = 1. / vol;
    stride[0] = P.n[1] * P.n[2];
    stride[1] = P.n[2];
    stride[2] = 1;
    for (int g = 0; g < P.N; ++g) {
      for (int j = 0; j < 5; ++j)
        c[g].primitives(j) = P.W[j][g];
      hydro.set_conserved_variables(c[g], vol);
    }
    reset_limiters();
  }

  // restart from the state of an execution (primitive and conserved variables
  // only: everything else is scratch space of a step and starts clean)
  void load(const std::vector<HydroVariables *> &cells) {
    for (int g = 0; g < P.N; ++g) {
      c[g] = HydroVariables();
      for (int j = 0; j < 5; ++j) {
        c[g].primitives(j) = cells[g]->primitives(j);
        c[g].conserved(j) = cells[g]->conserved(j);
      }
    }
    reset_limiters();
  }

  void reset_limiters() {
    for (int k = 0; k < 5 * P.N; ++k) {
      lim[2 * k] = DBL_MAX;
      lim[2 * k + 1] = -DBL_MAX;
    }
  }

  const HydroBoundary &boundary(int code) const {
    if (code == BC_REFLECTIVE)
      return refl;
    if (code == BC_INFLOW)
      return inflow;
    return outflow;
  }

  CoordinateVector<> midpoint(int g) const {
    const int ix = g / stride[0], iy = (g / stride[1]) % P.n[1], iz = g % P.n[2];
    return CoordinateVector<>(P.anchor[0] + (ix + 0.5) * d[0],
                              P.anchor[1] + (iy + 0.5) * d[1],
                              P.anchor[2] + (iz + 0.5) * d[2]);
  }

  template <typename F, typename G> void for_faces(F interior, G ghost) {
    for (int a = 0; a < 3; ++a)
      for (int g = 0; g < P.N; ++g) {
        const int ia = (g / stride[a]) % P.n[a];
        if (ia + 1 < P.n[a])
          interior(a, g, g + stride[a]);
        else if (P.per[a])
          interior(a, g, g - (P.n[a] - 1) * stride[a]);
        else
          ghost(a, g, +1);
        if (ia == 0 && !P.per[a])
          ghost(a, g, -1);
      }
  }

  static void zero_delta(HydroVariables &h) {
    for (int j = 0; j < 5; ++j)
      h.delta_conserved(j) = 0.;
  }

  // (debugging aid) called after the gradient sweeps (1), the slope limiter (2),
  // the prediction (3) and the flux sweeps (4)
  std::function<void(int)> phase_hook;

  StepInfo step(const double dt) {
    StepInfo s;
    s.dt = dt;
    s.absflux.assign(P.N, A5{{0, 0, 0, 0, 0}});
    s.uold.resize(P.N);
    s.pre.resize(P.N);
    s.unew.resize(P.N);
    s.tol.resize(P.N);
    // 1. gradients
    for_faces(
        [&](int a, int L, int R) {
          hydro.do_gradient_calculation(a, c[L], c[R], dinv[a], &lim[10 * L],
                                        &lim[10 * R]);
        },
        [&](int a, int L, int o) {
          CoordinateVector<> pos = midpoint(L);
          pos[a] += o * d[a];
          hydro.do_ghost_gradient_calculation(
              a, pos, c[L], boundary(P.bc[2 * a + (o < 0)]), o * dinv[a],
              &lim[10 * L]);
        });
    if (phase_hook)
      phase_hook(1);
    // 2. slope limiter, 3. half step prediction
    const CoordinateVector<> dd(d[0], d[1], d[2]);
    for (int g = 0; g < P.N; ++g)
      hydro.apply_slope_limiter(c[g], &lim[10 * g], dd);
    if (phase_hook)
      phase_hook(2);
    for (int g = 0; g < P.N; ++g)
      hydro.predict_primitive_variables(c[g], 0.5 * dt);
    if (phase_hook)
      phase_hook(3);
    // 4. fluxes: every face once, flux taken from a scratch pair so that its
    // value is known
    const double g1 = P.gamma;
    for_faces(
        [&](int a, int L, int R) {
          HydroVariables l = c[L], r = c[R];
          zero_delta(l);
          zero_delta(r);
          hydro.do_flux_calculation(a, l, r, d[a], area[a], dt);
          HydroVariables l0 = c[L], r0 = c[R];
          zero_delta(l0);
          zero_delta(r0);
          hydro.do_flux_calculation(a, l0, r0, d[a], area[a], 0.);
          bool limited = false;
          for (int j = 0; j < 5; ++j) {
            const double F = r.delta_conserved(j);
            if (F != r0.delta_conserved(j))
              limited = true;
            c[L].delta_conserved(j) -= F;
            c[R].delta_conserved(j) += F;
            s.absflux[L][j] += std::abs(F);
            s.absflux[R][j] += std::abs(F);
          }
          ++s.faces;
          s.limited_faces += limited;
        },
        [&](int a, int L, int o) {
          const int code = P.bc[2 * a + (o < 0)];
          CoordinateVector<> pos = midpoint(L);
          pos[a] += o * d[a];
          HydroVariables l = c[L];
          zero_delta(l);
          hydro.do_ghost_flux_calculation(a, pos, l, boundary(code), o * d[a],
                                          area[a], dt);
          HydroVariables l0 = c[L];
          zero_delta(l0);
          hydro.do_ghost_flux_calculation(a, pos, l0, boundary(code), o * d[a],
                                          area[a], 0.);
          bool limited = false;
          for (int j = 0; j < 5; ++j) {
            const double F = -l.delta_conserved(j);
            if (l.delta_conserved(j) != l0.delta_conserved(j))
              limited = true;
            c[L].delta_conserved(j) -= F;
            s.absflux[L][j] += std::abs(F);
          }
          ++s.ghost_faces;
          s.limited_ghost_faces += limited;
          if (code == BC_REFLECTIVE) {
            ++s.reflective_faces;
            // state the wall sees
            const double rho = std::max(c[L].primitives(0), 0.);
            const double Pr = std::max(c[L].primitives(4), 0.);
            const double v = c[L].primitives(1 + a);
            const double recon =
                v + 0.5 * o * d[a] * c[L].primitive_gradients(1 + a)[a];
            const double vf = face_limit(recon, v, -v);
            const double toward = o * vf, toward_cell = o * v;
            double v2 = 0.;
            for (int i = 0; i < 3; ++i)
              v2 += (i == a) ? vf * vf
                             : c[L].primitives(1 + i) * c[L].primitives(1 + i);
            const bool gas = rho > 0. && Pr > 0.;
            const double cs = gas ? std::sqrt(g1 * Pr / rho) : 0.;
            if (gas && toward >= 1.5 * cs) {
              ++s.fast_wall_faces;
              if (toward_cell < 1.5 * cs)
                ++s.fast_wall_cellslow;
            }
            // round-off of the (analytically zero) mass and energy flux
            const double sp = std::abs(vf) + 3. * cs;
            s.wall_tol_m += 64. * EPS * dt * area[a] * rho * sp;
            s.wall_tol_E += 64. * EPS * dt * area[a] *
                            (0.5 * rho * v2 + g1 / (g1 - 1.) * Pr) * sp;
          }
        });
    if (phase_hook)
      phase_hook(4);
    // 5. conserved update (no gravity, no energy terms) + positivity safeguard
    for (int g = 0; g < P.N; ++g) {
      for (int j = 0; j < 5; ++j) {
        s.uold[g][j] = c[g].conserved(j);
        c[g].conserved(j) += c[g].delta_conserved(j) * dt;
        s.pre[g][j] = c[g].conserved(j);
        c[g].delta_conserved(j) = 0.;
        c[g].primitive_gradients(j) = CoordinateVector<>(0.);
      }
      c[g].conserved(0) = std::max(c[g].conserved(0), 0.);
      c[g].conserved(4) = std::max(c[g].conserved(4), 0.);
      for (int j = 0; j < 5; ++j) {
        s.unew[g][j] = c[g].conserved(j);
        // (+ absolute round-off of subnormal numbers)
        s.tol[g][j] = 16. * EPS *
                          (dt * s.absflux[g][j] + std::abs(s.uold[g][j]) +
                           std::abs(s.unew[g][j])) +
                      64. * 4.9406564584124654e-324;
      }
      if (s.pre[g][0] < -s.tol[g][0])
        ++s.clamp_mass;
      if (s.pre[g][4] < -s.tol[g][4])
        ++s.clamp_energy;
    }
    reset_limiters();
    // 6. primitives
    for (int g = 0; g < P.N; ++g) {
      hydro.set_primitive_variables(c[g], ion, ivol);
      if (c[g].get_conserved_mass() == 0.)
        ++s.vacuum_cells;
      else if (c[g].primitives(4) == 0.)
        ++s.pressure_floor;
    }
    return s;
  }
};

// ---------------------------------------------------------------- subject
class ZeroDensityFunction : public DensityFunction {
public:
  virtual DensityValues operator()(const Cell &) { return DensityValues(); }
};

enum { ORDER_FIFO = 0, ORDER_LIFO, ORDER_DEEPEST, ORDER_RANDOM, ORDER_LOWGRID,
       ORDER_HIGHGRID, ORDER_NUMBER };

struct Schedule {
  int strategy = 0;
  std::vector<int64_t> choice;
  uint64_t k = 0;
  // index into a list of `size` candidates with keys (phase, grid)
  template <typename KEY> size_t pick(size_t size, KEY key) {
    ++k;
    switch (strategy) {
    case ORDER_FIFO:
      return 0;
    case ORDER_LIFO:
      return size - 1;
    case ORDER_RANDOM:
      return choice.empty() ? (k * 7919u) % size
                            : (size_t)((choice[k % choice.size()] + k * 7919u) % size);
    default: {
      size_t best = 0;
      for (size_t i = 1; i < size; ++i) {
        const std::pair<int, int> a = key(i), b = key(best);
        bool better;
        if (strategy == ORDER_DEEPEST)
          better = a.first > b.first;
        else if (strategy == ORDER_LOWGRID)
          better = a.second < b.second || (a.second == b.second && a.first > b.first);
        else
          better = a.second > b.second || (a.second == b.second && a.first > b.first);
        if (better)
          best = i;
      }
      return best;
    }
    }
  }
};

class Subject {
public:
  const Problem &P;
  int ns[3], m[3];
  int nsub;
  Hydro hydro;
  std::unique_ptr<DensitySubGridCreator<HydroDensitySubGrid>> gc;
  std::unique_ptr<HydroBoundaryManager> bm;
#ifndef C04_NO_TASKGRAPH
  std::unique_ptr<ThreadSafeVector<Task>> tasks;
  std::vector<int> slot_of_task;
  size_t ntasks = 0;
#endif
  std::vector<HydroVariables *> cell; // global order
  std::string error;
  std::function<void(int)> phase_hook; // (debugging aid, plain driver only)

  Subject(const Problem &p, const int layout[3])
      : P(p), hydro(p.gamma, 100., 1.e4, 1.e99, false) {
    for (int a = 0; a < 3; ++a) {
      ns[a] = layout[a];
      m[a] = P.n[a] / ns[a];
    }
    nsub = ns[0] * ns[1] * ns[2];
    const Box<> box(CoordinateVector<>(P.anchor[0], P.anchor[1], P.anchor[2]),
                    CoordinateVector<>(P.side[0], P.side[1], P.side[2]));
    gc.reset(new DensitySubGridCreator<HydroDensitySubGrid>(
        box, CoordinateVector<int_fast32_t>(P.n[0], P.n[1], P.n[2]),
        CoordinateVector<int_fast32_t>(ns[0], ns[1], ns[2]),
        CoordinateVector<bool>(P.per[0], P.per[1], P.per[2])));
    ZeroDensityFunction zero;
    gc->initialize(zero);
    ParameterFile params;
    static const char *keys[6] = {"x high", "x low", "y high",
                                  "y low",  "z high", "z low"};
    for (int k = 0; k < 6; ++k)
      params.add_value(std::string("HydroBoundaryManager:boundary ") + keys[k],
                       bcname[P.bc[k]]);
    bm.reset(new HydroBoundaryManager(params));
    // global cell -> (subgrid, local index), by position in the box
    cell.assign(P.N, nullptr);
    double d[3];
    for (int a = 0; a < 3; ++a)
      d[a] = P.side[a] / P.n[a];
    for (int ix = 0; ix < P.n[0]; ++ix)
      for (int iy = 0; iy < P.n[1]; ++iy)
        for (int iz = 0; iz < P.n[2]; ++iz) {
          const int s = ((ix / m[0]) * ns[1] + iy / m[1]) * ns[2] + iz / m[2];
          const int l = ((ix % m[0]) * m[1] + iy % m[1]) * m[2] + iz % m[2];
          HydroDensitySubGrid &grid = *gc->get_subgrid(s);
          auto it = grid.hydro_begin() + l;
          const CoordinateVector<> mid = it.get_cell_midpoint();
          const double want[3] = {P.anchor[0] + (ix + 0.5) * d[0],
                                  P.anchor[1] + (iy + 0.5) * d[1],
                                  P.anchor[2] + (iz + 0.5) * d[2]};
          for (int a = 0; a < 3; ++a)
            if (std::abs(mid[a] - want[a]) >
                1e-9 * (std::abs(P.anchor[a]) + P.side[a]) && error.empty())
              error = fmt("cell (%d,%d,%d) of the grid is not where the layout "
                          "puts it: axis %d midpoint %.17g, expected %.17g",
                          ix, iy, iz, a, mid[a], want[a]);
          cell[P.gidx(ix, iy, iz)] = &it.get_hydro_variables();
        }
    for (int g = 0; g < P.N; ++g) {
      cell[g]->set_primitives_density(P.W[0][g]);
      cell[g]->set_primitives_velocity(
          CoordinateVector<>(P.W[1][g], P.W[2][g], P.W[3][g]));
      cell[g]->set_primitives_pressure(P.W[4][g]);
    }
    for (auto it = gc->begin(); it != gc->original_end(); ++it)
      (*it).initialize_hydrodynamic_variables(hydro, false);
#ifndef C04_NO_TASKGRAPH
    tasks.reset(new ThreadSafeVector<Task>(18 * nsub + 4, "hydro tasks"));
    for (auto it = gc->begin(); it != gc->original_end(); ++it)
      make_hydro_tasks(*tasks, it.get_index(), *gc);
    for (auto it = gc->begin(); it != gc->original_end(); ++it)
      set_dependencies(it.get_index(), *gc, *tasks);
    slot_of_task.assign(18 * nsub + 4, -1);
    for (auto it = gc->begin(); it != gc->original_end(); ++it)
      for (int i = 0; i < 18; ++i) {
        const size_t t = (*it).get_hydro_task(i);
        if (t != NO_TASK) {
          slot_of_task[t] = i;
          ++ntasks;
        }
      }
#endif
  }

  double cell_volume() { return (*gc->begin()).hydro_begin().get_volume(); }

  // CFL time step as the simulation computes it (without the CFL factor)
  double min_timestep() {
    IonizationVariables ion;
    const double V = cell_volume();
    double dt = DBL_MAX;
    for (int g = 0; g < P.N; ++g)
      dt = std::min(dt, hydro.get_timestep(*cell[g], ion, V));
    return dt;
  }

#ifndef C04_NO_TASKGRAPH
  // sequential execution of the real task graph; ready tasks are executed in
  // the order the schedule picks
  bool step_taskgraph(const double dt, Schedule &sch) {
    std::vector<size_t> ready;
    for (auto it = gc->begin(); it != gc->original_end(); ++it)
      reset_hydro_tasks(*tasks, *it);
    for (auto it = gc->begin(); it != gc->original_end(); ++it)
      for (int i = 0; i < 18; ++i) {
        const size_t t = (*it).get_hydro_task(i);
        if (t != NO_TASK && (*tasks)[t].get_number_of_unfinished_parents() == 0)
          ready.push_back(t);
      }
    size_t done = 0;
    while (!ready.empty()) {
      const size_t k = sch.pick(ready.size(), [&](size_t i) {
        return std::make_pair(slot_of_task[ready[i]],
                              (int)(*tasks)[ready[i]].get_subgrid());
      });
      const size_t t = ready[k];
      ready.erase(ready.begin() + k);
      execute_task(t, *gc, *tasks, dt, hydro, *bm);
      ++done;
      const unsigned char nchild = (*tasks)[t].get_number_of_children();
      for (unsigned char i = 0; i < nchild; ++i) {
        const size_t ch = (*tasks)[t].get_child(i);
        if ((*tasks)[ch].decrement_number_of_unfinished_parents() == 0)
          ready.push_back(ch);
      }
      if (done > ntasks)
        break;
    }
    if (done != ntasks) {
      error = fmt("hydro task graph executed %zu of %zu tasks", done, ntasks);
      return false;
    }
    return true;
  }
#endif

  // the same step through the public sweep methods only: phase by phase,
  // sweeps of a phase in the order the schedule picks
  bool step_plain(const double dt, Schedule &sch) {
    struct Op {
      int kind, grid, dir, ngb;
    }; // kind 0 inner, 1 pair, 2 ghost
    std::vector<Op> ops;
    for (int s = 0; s < nsub; ++s) {
      HydroDensitySubGrid &grid = *gc->get_subgrid(s);
      ops.push_back({0, s, 0, 0});
      for (int a = 0; a < 3; ++a) {
        const int dp = TRAVELDIRECTION_FACE_X_P + 2 * a, dn = dp + 1;
        const uint_fast32_t np = grid.get_neighbour(dp);
        if (np == NEIGHBOUR_OUTSIDE)
          ops.push_back({2, s, dp, 0});
        else
          ops.push_back({1, s, dp, (int)np});
        if (grid.get_neighbour(dn) == NEIGHBOUR_OUTSIDE)
          ops.push_back({2, s, dn, 0});
      }
    }
    for (int phase = 0; phase < 2; ++phase) {
      std::vector<Op> todo = ops;
      while (!todo.empty()) {
        const size_t k = sch.pick(todo.size(), [&](size_t i) {
          return std::make_pair(todo[i].kind * 8 + todo[i].dir % 8, todo[i].grid);
        });
        const Op op = todo[k];
        todo.erase(todo.begin() + k);
        HydroDensitySubGrid &grid = *gc->get_subgrid(op.grid);
        if (phase == 0) {
          if (op.kind == 0)
            grid.inner_gradient_sweep(hydro);
          else if (op.kind == 1)
            grid.outer_gradient_sweep(op.dir, hydro, *gc->get_subgrid(op.ngb));
          else
            grid.outer_ghost_gradient_sweep(op.dir, hydro,
                                            bm->get_boundary_condition(op.dir));
        } else {
          if (op.kind == 0)
            grid.inner_flux_sweep(hydro, dt);
          else if (op.kind == 1)
            grid.outer_flux_sweep(op.dir, hydro, *gc->get_subgrid(op.ngb), dt);
          else
            grid.outer_ghost_flux_sweep(op.dir, hydro,
                                        bm->get_boundary_condition(op.dir), dt);
        }
      }
      if (phase == 0) {
        if (phase_hook)
          phase_hook(1);
        for (int s = 0; s < nsub; ++s)
          (*gc->get_subgrid(s)).apply_slope_limiter(hydro);
        if (phase_hook)
          phase_hook(2);
        for (int s = 0; s < nsub; ++s)
          (*gc->get_subgrid(s)).predict_primitive_variables(hydro, 0.5 * dt);
        if (phase_hook)
          phase_hook(3);
      } else if (phase_hook)
        phase_hook(4);
    }
    for (int s = 0; s < nsub; ++s)
      (*gc->get_subgrid(s)).update_conserved_variables(dt);
    for (int s = 0; s < nsub; ++s)
      (*gc->get_subgrid(s)).update_primitive_variables(hydro);
    return true;
  }

  bool step(const double dt, Schedule &sch, const bool taskgraph) {
#ifndef C04_NO_TASKGRAPH
    if (taskgraph)
      return step_taskgraph(dt, sch);
#endif
    return step_plain(dt, sch);
  }

  // every mass, energy, density, pressure finite and >= 0, velocities and
  // momenta finite
  std::string physical() const {
    for (int g = 0; g < P.N; ++g) {
      const HydroVariables &h = *cell[g];
      for (int j = 0; j < 5; ++j)
        if (!std::isfinite(h.conserved(j)) || !std::isfinite(h.primitives(j)))
          return fmt("cell %d: non-finite state: conserved %g %g %g %g %g, "
                     "primitives %g %g %g %g %g",
                     g, h.conserved(0), h.conserved(1), h.conserved(2),
                     h.conserved(3), h.conserved(4), h.primitives(0),
                     h.primitives(1), h.primitives(2), h.primitives(3),
                     h.primitives(4));
      if (h.conserved(0) < 0. || h.conserved(4) < 0. || h.primitives(0) < 0. ||
          h.primitives(4) < 0.)
        return fmt("cell %d: negative mass %g / energy %g / density %g / "
                   "pressure %g",
                   g, h.conserved(0), h.conserved(4), h.primitives(0),
                   h.primitives(4));
    }
    return "";
  }

  void totals(long double t[5], long double a[5]) const {
    for (int j = 0; j < 5; ++j)
      t[j] = a[j] = 0.L;
    for (int g = 0; g < P.N; ++g)
      for (int j = 0; j < 5; ++j) {
        t[j] += cell[g]->conserved(j);
        a[j] += std::abs(cell[g]->conserved(j));
      }
  }
};

// tolerance on the primitive variables that follows from a tolerance tu[] on the
// conserved ones (first-order propagation through set_primitive_variables)
struct PrimTol {
  bool velocity_defined;
  double rho, v[3], P;
};
inline PrimTol primitive_tolerance(const HydroVariables &ref, const A5 &tu,
                                   const double gamma, const double vol) {
  PrimTol t;
  const double mass = ref.conserved(0);
  t.rho = (tu[0] / vol) * 1.01 + 4. * EPS * ref.primitives(0);
  t.velocity_defined = mass > 8. * tu[0] && std::isfinite(1. / mass) && mass > 0.;
  t.v[0] = t.v[1] = t.v[2] = t.P = 0.;
  if (!t.velocity_defined)
    return t;
  double sum = 0., v2 = 0., pv = 0.;
  for (int i = 0; i < 3; ++i) {
    const double v = ref.primitives(1 + i);
    t.v[i] = 1.5 * (tu[1 + i] + std::abs(v) * tu[0]) / mass + 4. * EPS * std::abs(v);
    sum += std::abs(v) * tu[1 + i];
    v2 += v * v;
    pv += std::abs(v * ref.conserved(1 + i));
  }
  t.P = (gamma - 1.) / vol *
        (2. * (tu[4] + 2. * sum + v2 * tu[0]) +
         16. * EPS * (std::abs(ref.conserved(4)) + pv));
  return t;
}

} // namespace c04

#endif // C04_HYDRO_MODEL_HPP
