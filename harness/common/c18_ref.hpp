// C18 reference models, written from the papers and the original Fortran
// routines (phfit2.f, rrfit.f), NOT from /repo/src:
//
//  * phfit2   : Verner & Yakovlev (1995) inner-shell fits (verner_A.dat),
//               Verner, Ferland, Korista & Yakovlev (1996) outer-shell fits
//               (verner_B.dat) and the shell bookkeeping (verner_C.dat), own
//               parse of the shipped tables, evaluated in eV and long double.
//  * rrfit    : Verner & Ferland (1996) / Pequignot et al. / Arnaud & Raymond
//               radiative recombination fits, own parse of verner_rec_data.txt.
//  * spectra  : analytic photon-number spectra and their numerically integrated
//               cumulative distributions (composite Simpson on a grid 4x finer
//               than the tables of the code).
#ifndef C18_REF_HPP
#define C18_REF_HPP

#include <cmath>
#include <cstdio>
#include <cstdlib>
#include <cstring>
#include <fstream>
#include <functional>
#include <map>
#include <string>
#include <vector>

namespace c18 {

typedef long double LD;

// CODATA 2014 (the unit system of the code base): J, J s, J/K
static const double EV_J = 1.6021766208e-19;
static const double H_JS = 6.626070040e-34;
static const double KB_JK = 1.38064852e-23;
// documented conversion of the tabulated energies: E[eV] * (eV/h)
inline double ev2hz() { return EV_J / H_JS; }

// ------------------------------------------------------------------ phfit2
struct ShellRow {
  int Z, N, n, l, is;
  double Eth, E0, s0, ya, P, yw; // eV, eV, Mb, -, -, -
};
struct OuterRow {
  int Z, N;
  double Eth, Emax, E0, s0, ya, P, yw, y0, y1;
};

inline int shell_index(int n, int l) {
  // 1s 2s 2p 3s 3p 3d 4s -> 1..7 (Verner & Yakovlev 1995, table 1)
  static const int tab[5][3] = {
      {0, 0, 0}, {1, 0, 0}, {2, 3, 0}, {4, 5, 6}, {7, 0, 0}};
  if (n < 1 || n > 4 || l < 0 || l > 2)
    return 0;
  return tab[n][l];
}
inline int shell_l(int is) {
  static const int l[8] = {0, 0, 0, 1, 0, 1, 2, 0};
  return l[is];
}

struct Phfit {
  std::vector<ShellRow> rows;            // all rows of table A
  std::map<int, int> idxA;               // key(Z,N,is) -> index in rows
  std::map<int, OuterRow> B;             // key(Z,N,0)
  int ninn[31], ntot[31];
  bool ok = false;
  std::string err;

  static int key(int Z, int N, int is) { return (Z * 32 + N) * 8 + is; }

  static std::vector<std::vector<double>> numeric_lines(const std::string &fn,
                                                        size_t mincols) {
    std::vector<std::vector<double>> out;
    FILE *f = fopen(fn.c_str(), "r");
    if (!f)
      return out;
    char buf[4096];
    while (fgets(buf, sizeof buf, f)) {
      const char *p = buf;
      while (*p == ' ' || *p == '\t')
        ++p;
      if (*p == '#' || *p == '\n' || *p == 0)
        continue;
      std::vector<double> v;
      char *e;
      for (;;) {
        const double x = strtod(p, &e);
        if (e == p)
          break;
        v.push_back(x);
        p = e;
      }
      if (v.size() >= mincols)
        out.push_back(v);
    }
    fclose(f);
    return out;
  }

  void load(const std::string &fa, const std::string &fb,
            const std::string &fc) {
    for (int i = 0; i < 31; ++i)
      ninn[i] = ntot[i] = -1;
    for (auto &v : numeric_lines(fa, 10)) {
      ShellRow r;
      r.Z = (int)v[0];
      r.N = (int)v[1];
      r.n = (int)v[2];
      r.l = (int)v[3];
      r.is = shell_index(r.n, r.l);
      r.Eth = v[4];
      r.E0 = v[5];
      r.s0 = v[6];
      r.ya = v[7];
      r.P = v[8];
      r.yw = v[9];
      if (r.is == 0 || r.Z < 1 || r.Z > 30 || r.N < 1 || r.N > r.Z) {
        err = "unexpected row in table A";
        return;
      }
      idxA[key(r.Z, r.N, r.is)] = (int)rows.size();
      rows.push_back(r);
    }
    for (auto &v : numeric_lines(fb, 11)) {
      OuterRow r;
      r.Z = (int)v[0];
      r.N = (int)v[1];
      r.Eth = v[2];
      r.Emax = v[3];
      r.E0 = v[4];
      r.s0 = v[5];
      r.ya = v[6];
      r.P = v[7];
      r.yw = v[8];
      r.y0 = v[9];
      r.y1 = v[10];
      B[key(r.Z, r.N, 0)] = r;
    }
    for (auto &v : numeric_lines(fc, 3)) {
      const int N = (int)v[0];
      if (N >= 1 && N <= 30) {
        ninn[N] = (int)v[1];
        ntot[N] = (int)v[2];
      }
    }
    for (int N = 1; N <= 30; ++N)
      if (ninn[N] < 0 || ntot[N] < 1) {
        err = "table C incomplete";
        return;
      }
    if (rows.size() < 1000 || B.size() < 100) {
      err = "tables A/B too short";
      return;
    }
    ok = true;
  }

  const ShellRow *shell(int Z, int N, int is) const {
    auto it = idxA.find(key(Z, N, is));
    return it == idxA.end() ? nullptr : &rows[it->second];
  }

  int nout(int Z, int N) const {
    int no = ntot[N];
    if (Z == N && Z > 18)
      no = 7;
    if (Z == N + 1 && (Z == 20 || Z == 21 || Z == 22 || Z == 25 || Z == 26))
      no = 7;
    return no;
  }
  // energy (eV) of the inner-shell edge that separates the two fits;
  // 0 = always the inner-shell fit, <0 = never (H- and He-like)
  double einn_eV(int Z, int N) const {
    if (Z == 15 || Z == 17 || Z == 19 || (Z > 20 && Z != 26))
      return 0.;
    if (N < 3)
      return -1.;
    const ShellRow *r = shell(Z, N, ninn[N]);
    return r ? r->Eth : -2.;
  }

  enum Branch { BELOW_THR, NOT_OUTER, BETWEEN, FIT_A, FIT_B, NOROW };
  struct Val {
    LD sigma;   // m^2
    LD reltol;  // relative tolerance for a double evaluation of the same fit
    Branch br;
  };

  // `below(E_edge)` decides "photon energy < edge"; it is passed in so that
  // the caller can decide in Hz (doubles) or in eV
  Val eval(int Z, int N, int is, LD E,
           const std::function<bool(double)> &below) const {
    Val v{0.L, 0.L, NOROW};
    const ShellRow *r = shell(Z, N, is);
    if (!r)
      return v;
    const int no = nout(Z, N);
    if (is > no) {
      v.br = NOT_OUTER;
      return v;
    }
    if (below(r->Eth)) {
      v.br = BELOW_THR;
      return v;
    }
    const int ni = ninn[N];
    const double ei = einn_eV(Z, N);
    // ei < 0: edge at infinity; ei == 0: edge at zero
    const bool below_inner = (ei < 0.) ? true : (ei == 0. ? false : below(ei));
    if (is < no && below_inner) {
      v.br = BETWEEN;
      return v;
    }
    const LD eps = 0x1p-52L;
    if (is <= ni || !below_inner) {
      const LD y = E / (LD)r->E0;
      const LD q = 0.5L * (LD)r->P - 5.5L - (LD)shell_l(is);
      const LD a = (y - 1.L) * (y - 1.L) + (LD)r->yw * (LD)r->yw;
      const LD s = sqrtl(y / (LD)r->ya);
      const LD F = a * powl(y, q) * powl(1.L + s, -(LD)r->P);
      v.sigma = (LD)r->s0 * F * 1e-22L;
      // d ln F / d ln y
      const LD c = (a > 0.L ? fabsl(2.L * y * (y - 1.L) / a) : 0.L) + fabsl(q) +
                   0.5L * (LD)r->P * s / (1.L + s);
      v.reltol = 16.L * eps * (4.L + c);
      v.br = FIT_A;
    } else {
      auto it = B.find(key(Z, N, 0));
      if (it == B.end()) {
        v.br = NOROW;
        return v;
      }
      const OuterRow &b = it->second;
      const LD x = E / (LD)b.E0 - (LD)b.y0;
      const LD z = sqrtl(x * x + (LD)b.y1 * (LD)b.y1);
      const LD q = 0.5L * (LD)b.P - 5.5L;
      const LD a = (x - 1.L) * (x - 1.L) + (LD)b.yw * (LD)b.yw;
      const LD s = sqrtl(z / (LD)b.ya);
      const LD F = a * powl(z, q) * powl(1.L + s, -(LD)b.P);
      v.sigma = (LD)b.s0 * F * 1e-22L;
      // d ln F / d x, times the absolute rounding error of x
      const LD dx = E / (LD)b.E0 + fabsl((LD)b.y0);
      const LD dz = (z > 0.L) ? fabsl(x) / (z * z) : 0.L;
      const LD c = (a > 0.L ? fabsl(2.L * (x - 1.L) / a) : 0.L) +
                   (fabsl(q) + 0.5L * (LD)b.P * s / (1.L + s)) * dz;
      v.reltol = 16.L * eps * (4.L + c * dx);
      v.br = FIT_B;
    }
    return v;
  }
};

// ------------------------------------------------------------------ rrfit
struct Rrfit {
  // [k][iz-1][in-1]
  std::vector<double> rrec[2], rnew[4];
  double fe[3][13];
  bool ok = false;

  void load(const std::string &fn) {
    std::ifstream f(fn);
    std::string line;
    std::vector<std::vector<double>> blocks; // numeric lines in order
    while (std::getline(f, line)) {
      size_t p = line.find_first_not_of(" \t");
      if (p == std::string::npos || line[p] == '#')
        continue;
      std::vector<double> v;
      const char *c = line.c_str();
      char *e;
      for (;;) {
        const double x = strtod(c, &e);
        if (e == c)
          break;
        v.push_back(x);
        c = e;
      }
      blocks.push_back(v);
    }
    if (blocks.size() != 2 * 30 + 4 * 30 + 3)
      return;
    size_t k = 0;
    for (int i = 0; i < 2; ++i) {
      rrec[i].assign(900, 0.);
      for (int j = 0; j < 30; ++j, ++k) {
        if (blocks[k].size() != 30)
          return;
        for (int m = 0; m < 30; ++m)
          rrec[i][j * 30 + m] = blocks[k][m];
      }
    }
    for (int i = 0; i < 4; ++i) {
      rnew[i].assign(900, 0.);
      for (int j = 0; j < 30; ++j, ++k) {
        if (blocks[k].size() != 30)
          return;
        for (int m = 0; m < 30; ++m)
          rnew[i][j * 30 + m] = blocks[k][m];
      }
    }
    for (int i = 0; i < 3; ++i, ++k) {
      if (blocks[k].size() != 13)
        return;
      for (int m = 0; m < 13; ++m)
        fe[i][m] = blocks[k][m];
    }
    ok = true;
  }

  // Verner & Ferland (1996) eq. 4
  static LD vf96(LD a, LD b, LD T0, LD T1, LD T) {
    const LD t0 = sqrtl(T / T0), t1 = sqrtl(T / T1);
    return a / (t0 * powl(1.L + t0, 1.L - b) * powl(1.L + t1, 1.L + b));
  }

  // cm^3 s^-1
  LD eval(int iz, int in, LD T) const {
    const int k = (iz - 1) * 30 + (in - 1);
    const bool newfit = in <= 3 || in == 11 || (iz > 5 && iz < 9) || iz == 10 ||
                        (iz == 26 && in > 11);
    if (newfit)
      return vf96(rnew[0][k], rnew[1][k], rnew[2][k], rnew[3][k], T);
    const LD tt = T * 1e-4L;
    if (iz == 26 && in <= 13)
      return (LD)fe[0][in - 1] /
             powl(tt, (LD)fe[1][in - 1] + (LD)fe[2][in - 1] * log10l(tt));
    return (LD)rrec[0][k] / powl(tt, (LD)rrec[1][k]);
  }
};

// ------------------------------------------------------------------ CDFs
// cumulative integral of a density on [lo,hi] (composite Simpson, n panels);
// value(x) = integral(lo..x)/integral(lo..hi), clamped outside
struct Cdf {
  double lo = 0, hi = 1;
  int n = 0;
  std::vector<double> cum; // n+1
  std::function<double(double)> pdf;

  template <typename F> void build(double a, double b, int panels, F f) {
    lo = a;
    hi = b;
    n = panels;
    pdf = f;
    cum.assign(n + 1, 0.);
    const double h = (hi - lo) / n;
    double fa = f(lo);
    for (int k = 0; k < n; ++k) {
      const double xa = lo + k * h, xb = (k + 1 == n) ? hi : lo + (k + 1) * h;
      const double fm = f(0.5 * (xa + xb)), fb = f(xb);
      cum[k + 1] = cum[k] + (xb - xa) / 6. * (fa + 4. * fm + fb);
      fa = fb;
    }
  }
  double value(double x) const {
    if (!(x > lo))
      return 0.;
    if (!(x < hi))
      return 1.;
    const double h = (hi - lo) / n;
    int k = (int)((x - lo) / h);
    if (k >= n)
      k = n - 1;
    const double xa = lo + k * h;
    const double part =
        (x - xa) / 6. * (pdf(xa) + 4. * pdf(0.5 * (xa + x)) + pdf(x));
    return (cum[k] + part) / cum[n];
  }
};

} // namespace c18

#endif // C18_REF_HPP
